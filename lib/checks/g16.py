"""G16 - process groups and the controlling terminal under job control
(specification growth; the layer below C12's job table and G02's built-ins).

P1  TLC checks the laws of spec/ProcGroups.tla on the bounded model
    (MC_ProcGroups: every interleaving of the shell, its children, the terminal
    driver and the shell's own parent over a catalogue of scenarios, deadlock
    checking on) and REFUTES the named wrong variants (MC_ProcGroups_neg_*.cfg:
    only the parent calls setpgid, only the child does, the terminal taken back
    before the job is waited for, SIGTTOU not blocked around tcsetpgrp, ...).
    Calib_ProcGroups holds the worked examples of the manual and the scripted
    tests as ASSUMEs.
P2  Gen_ProcGroups prints every scenario and every allowed end state.
    harness/g16 renders each scenario as a script and runs it on the REAL shell
    over an instrumented simulated kernel (harness as scheduler: bounded
    depth-first over the scheduling choice points + seeded random schedules,
    each with "parent first" and "child first" at every fork; harness as
    terminal driver: ^Z / ^C at idle points; SIGTTOU enforced for tcsetpgrp from
    the background where the scenario says so).  The end state of every run
    must be one the catalogue allows.
P3  Every distinct run - per scheduling step the process that ran, its
    setpgid / tcsetpgrp / kill calls (with SIGTTOU blocked or ignored or not),
    the probes run from inside the commands and the whole process table
    (group, state, dispositions, standard input) plus the terminal's foreground
    group - is judged by Trace_ProcGroups as a behaviour of ProcGroups.
    Seeded random larger scenarios are recorded and judged the same way.
"""
import json
import os
import subprocess
import time
from concurrent.futures import ThreadPoolExecutor

import vlib

PID = "G16"
PKG = "yv-g16"

NEG = {
    # wrong variant -> the law that must refute it
    "parent_only": "OwnGroup", "child_only": "ParentSees", "takeback_early": "FgBeforeRun",
    "no_takeback_on_stop": "TakeBack", "no_ttou_block": "ShellRuns", "fg_cont_first": "FgResumed",
    "fg_no_tc": "FgResumed", "bg_gives_tty": "TakeBack", "async_gets_tty": "TakeBack",
    "fgjob_no_tty": "FgBeforeRun", "keep_ignoring": "JobDefaults", "subshell_jc": "ProbesLaw",
    "async_no_block": "AsyncLaw", "async_keeps_stdin": "AsyncLaw", "async_no_ignore": "AsyncLaw",
    "reset_before_setpgid": "TakeBack", "reset_before_tcsetpgrp": "TakeBack", "bg_leader_only": "BgResumes", "pipe_no_job": "OwnGroup",
}

TIERS = {
    "quick": {"mc": "MC_ProcGroups_quick.cfg", "gen": "Gen_ProcGroups_quick.cfg", "neg": sorted(NEG),
              "dfs_depth": 6, "max_dfs": 12, "random": 2, "nrandom": 600, "shards": 6, "workers": 6},
    "thorough": {"mc": "MC_ProcGroups_thorough.cfg", "gen": "Gen_ProcGroups_thorough.cfg", "neg": sorted(NEG),
                 "dfs_depth": 10, "max_dfs": 200, "random": 8, "nrandom": 30000, "shards": 8, "workers": 8},
}

LAWS = ["OwnGroup", "ParentSees", "FgBeforeRun", "TakeBack", "BgNeverFg", "FgResumed", "ShellRuns", "NoGroups",
        "AsyncLaw", "JobDefaults", "ProbesLaw", "BgResumes"]


# --------------------------------------------------------------------------
# harness
# --------------------------------------------------------------------------
def _harness(args, timeout=3000):
    exe = vlib.harness_bin(PKG)
    p = subprocess.run([exe] + [str(a) for a in args], capture_output=True, text=True, timeout=timeout,
                       env=dict(os.environ, VERIF_SEED=str(vlib.seed())))
    if p.returncode != 0:
        raise vlib.ToolError(f"{PKG} {args[0]} failed ({p.returncode}): {p.stderr[-1500:]}")
    try:
        return json.loads(p.stderr.strip().splitlines()[-1])
    except Exception:
        raise vlib.ToolError(f"{PKG} {args[0]}: no summary: {p.stderr[-500:]}")


# --------------------------------------------------------------------------
# trace validation
# --------------------------------------------------------------------------
def _validate(trace, shards, timeout=2400):
    """Judges an ndjson file of run records with Trace_ProcGroups in parallel JVMs.
    Returns (number of records, list of (record, verdict) not accepted)."""
    n = vlib.count_lines(trace)
    if n == 0:
        return 0, []
    k = max(1, min(shards, (n + 199) // 200), (n + 19999) // 20000)
    size = (n + k - 1) // k
    pieces = []
    with open(trace) as f:
        for i in range(k):
            a, b = i * size, min(n, (i + 1) * size)
            if a >= b:
                break
            p = f"{trace}.shard{i}"
            with open(p, "w") as g:
                for _ in range(b - a):
                    g.write(f.readline())
            pieces.append((a, b, p))

    def one(piece):
        a, b, p = piece
        r = vlib.tlc("Trace_ProcGroups", "Trace_ProcGroups.cfg", workers=1, timeout=timeout,
                     env={"TRACE": os.path.abspath(p)}, depth_first=True, xmx="3g")
        if not r.ok or r.distinct != (b - a) + 1:
            raise vlib.ToolError(f"Trace_ProcGroups failed on {p}: ok={r.ok} states={r.distinct} expected={b - a + 1} "
                                 f"{(r.error or r.violation or '')[:1500]}")
        want = {j["line"]: j for j in r.json}
        out = []
        if want:
            with open(p) as f:
                for ln, line in enumerate(f, 1):
                    if ln in want:
                        out.append((json.loads(line), want[ln]))
        return out

    with ThreadPoolExecutor(max_workers=min(shards, len(pieces))) as ex:
        res = list(ex.map(one, pieces))
    bad = [x for part in res for x in part]
    for _, _, p in pieces:
        try:
            os.remove(p)
        except OSError:
            pass
    return n, bad


def _script_of(rec):
    exe = vlib.harness_bin(PKG)
    p = subprocess.run([exe, "run", "--scn", json.dumps(rec["scn"]), "--text"], capture_output=True, text=True, timeout=60)
    return p.stdout.strip().replace("\n", " ;; ")


def _shape(rec, ev):
    """Names the one input shape that has a known finding: the shell signals a job whose
    first process has not yet run since the fork and still has the dispositions of the
    interactive shell (so the signal is ignored instead of acting on the job)."""
    if not ev or not rec["scn"]["i"]:
        return ""
    ps = {p["n"]: p for p in ev["sn"]["ps"]}
    shell = ps.get("s")
    for c in ev.get("calls", []):
        if c["c"] == "kill" and c["by"] == "s" and c["sig"] not in ("CONT", "KILL", "STOP"):
            t = ps.get(c["t"])
            if t and shell and t["st"] == "R" and t["dp"] == shell["dp"] and t["dp"] != ["D"] * 5:
                return "signal for a job whose process still has the interactive shell's dispositions"
    return ""


def _report(rep, bad, what):
    for rec, v in bad:
        scn = rec["scn"]
        at = v["at"]
        ev = rec["ev"][at - 1] if 0 < at <= len(rec["ev"]) else {}
        key = {"why": v["why"], "id": scn.get("id", 0), "m": scn["m"], "i": scn["i"], "enf": scn.get("enf", False),
               "cf": rec.get("cf", False), "script": _script_of(rec), "env": ",".join(scn.get("env", [])),
               "outcome": rec["outcome"], "who": ev.get("w", ""), "shape": _shape(rec, ev)}
        detail = (f"{what}: run not accepted by spec/Trace_ProcGroups.tla at event {at} ({v['why']}); "
                  f"monitor={scn['m']} interactive={scn['i']} script: {key['script']}")
        rep.violation(key, detail, {"scn": scn, "sched": rec.get("sched", {}), "record": rec, "verdict": v})


# --------------------------------------------------------------------------
# end states against the catalogue
# --------------------------------------------------------------------------
def _norm_fin(fin):
    return {"fg": fin["fg"], "ps": sorted((json.dumps(p, sort_keys=True) for p in fin["ps"]))}


def _probe_ok(spec, obs):
    for f in ("who", "pg", "tc", "dp", "in", "bang", "cj"):
        if spec[f] != obs[f]:
            return False
    if spec["st"] == "err":
        if obs["st"] == "0":
            return False
    elif spec["st"] != obs["st"]:
        return False
    sj = {(j["ld"], j["jc"]): j for j in spec["jobs"]}
    oj = {(j["ld"], j["jc"]): j for j in obs["jobs"]}
    if set(sj) != set(oj):
        return False
    return all(oj[k]["st"] in (sj[k]["st"], sj[k]["fr"]) for k in oj)


def _end_ok(allowed, rec):
    end = rec["end"]
    done = rec["outcome"] == "completed"
    fin = _norm_fin(end["fin"])
    probes = end["probes"]
    for a in allowed:
        if a["done"] != done:
            continue
        ap = a["probes"] if isinstance(a["probes"], dict) else {}
        if set(ap) != set(probes):
            continue
        if a["_fin"] != fin:
            continue
        if all(_probe_ok(ap[t], probes[t]) for t in probes):
            return True
    return False


# --------------------------------------------------------------------------
# the check
# --------------------------------------------------------------------------
def _neg_one(v):
    cfg = f"MC_ProcGroups_neg_{v}.cfg"
    r = vlib.tlc("MC_ProcGroups", cfg, workers=2, timeout=600, deadlock=True)
    refuted = bool(r.violation) and (f"Invariant {NEG[v]} is violated" in r.violation)
    return v, refuted, r


def run(tier):
    t0 = time.time()
    t = TIERS[tier]
    wd = vlib.workdir(PID)
    rep = vlib.Reporter(PID)
    vlib.build_harness(PKG)

    # G16_SKIP_MODEL=1 (mutant self-tests only): skip the stages that do not
    # depend on the code under test
    skip_model = os.environ.get("G16_SKIP_MODEL") == "1"

    # calibration: a failing ASSUME is a tool error
    r = vlib.tlc("Calib_ProcGroups", "Calib_ProcGroups.cfg", workers=1, timeout=600)
    vlib.tlc_must_pass(r, "Calib_ProcGroups (worked examples of the manual and the scripted tests)")
    with open(os.path.join(vlib.SPEC, "Calib_ProcGroups.tla")) as f:
        n_assume = sum(1 for line in f if line.startswith("ASSUME"))

    neg_pool = ThreadPoolExecutor(max_workers=4)
    neg_futures = [neg_pool.submit(_neg_one, v) for v in ([] if skip_model else t["neg"])]

    # P1: the laws on the bounded model, every interleaving, deadlock checking on
    states = transitions = 0
    if not skip_model:
        r = vlib.tlc("MC_ProcGroups", t["mc"], workers=t["workers"], timeout=2400, deadlock=True)
        vlib.tlc_must_pass(r, f"model check {t['mc']}")
        vlib.log(f"[tlc] {t['mc']}: {r.distinct} distinct states, {r.generated} generated, depth {r.depth}, {r.wall:.1f}s; "
                 f"{len(LAWS)} laws + deadlock freedom hold")
        states, transitions = r.distinct, r.generated

    # P2: the catalogue
    gen = os.path.join(wd, "gen.ndjson")
    r = vlib.tlc("Gen_ProcGroups", t["gen"], workers=t["workers"], timeout=2400, deadlock=True, json_out=gen)
    vlib.tlc_must_pass(r, f"generation {t['gen']}")
    allowed = {}
    nscn = 0
    for v in vlib.read_ndjson(gen):
        if v["kind"] == "end":
            v["_fin"] = _norm_fin(v["fin"])
            allowed.setdefault(v["id"], []).append(v)
        else:
            nscn += 1
    nend = sum(len(x) for x in allowed.values())
    vlib.log(f"[tlc] {t['gen']}: {nscn} scenarios, {nend} allowed end states, {r.distinct} states, {r.wall:.1f}s")
    states += r.distinct
    transitions += r.generated

    trace = os.path.join(wd, "trace.ndjson")
    s = _harness(["explore", "--in", gen, "--out", trace, "--threads", 8, "--dfs-depth", t["dfs_depth"],
                  "--max-dfs", t["max_dfs"], "--random", t["random"]])
    tv = time.time()
    n, bad = _validate(trace, t["shards"])
    vlib.log(f"[p2] {s['scenarios']} scenarios, {s['runs']} runs on the real shell under explored schedules "
             f"(max {s['max_choice_points']} choice points, {s['dfs_capped']} scenarios with truncated depth-first search), "
             f"{n} distinct runs judged by Trace_ProcGroups in {time.time() - tv:.1f}s, {len(bad)} not accepted")
    _report(rep, bad, "replay of the catalogue")
    rejected = {json.dumps(rec["ev"]) + json.dumps(rec["scn"]) for rec, _ in bad}
    # end states
    ends_checked = ends_bad = 0
    kinds = {}
    events = calls = probes = 0
    samples = []
    outcomes = {}
    by_cfg = {}
    with open(trace) as f:
        for i, line in enumerate(f):
            rec = json.loads(line)
            scn = rec["scn"]
            outcomes[rec["outcome"]] = outcomes.get(rec["outcome"], 0) + 1
            ck = f"m={int(scn['m'])} i={int(scn['i'])} enf={int(scn['enf'])} childfirst={int(rec['cf'])}"
            by_cfg[ck] = by_cfg.get(ck, 0) + 1
            events += len(rec["ev"])
            for e in rec["ev"]:
                probes += len(e["pr"])
                for c in e["calls"]:
                    calls += 1
                    ck2 = c["c"] + ("/blocked" if c["blk"] else "") + ("/ignored" if c["ign"] else "")
                    kinds[ck2] = kinds.get(ck2, 0) + 1
            if json.dumps(rec["ev"]) + json.dumps(rec["scn"]) in rejected:
                continue
            ends_checked += 1
            if not _end_ok(allowed.get(scn["id"], []), rec):
                ends_bad += 1
                key = {"why": "the end state is not one the catalogue allows", "id": scn["id"], "m": scn["m"], "i": scn["i"],
                       "enf": scn["enf"], "cf": rec["cf"], "script": _script_of(rec), "env": ",".join(scn["env"]),
                       "outcome": rec["outcome"], "who": ""}
                rep.violation(key, f"end state of scenario {scn['id']} not among the {len(allowed.get(scn['id'], []))} allowed: "
                                   f"{json.dumps(rec['end'])[:1500]}",
                              {"scn": scn, "sched": rec.get("sched", {}), "record": rec})
            if i in (3, 57, 211) and len(samples) < 3:
                samples.append({"scenario": {k: scn[k] for k in ("id", "m", "i", "enf", "fg0", "spg", "sl", "env")},
                                "script": _script_of(rec), "schedule": rec["sched"], "outcome": rec["outcome"],
                                "first_event": rec["ev"][0] if rec["ev"] else None})
    vlib.log(f"[p2] end states of {ends_checked} accepted runs compared with the catalogue: {ends_bad} not allowed")
    replay_records = n

    # P3: seeded random larger scenarios
    rtrace = os.path.join(wd, "random.ndjson")
    s2 = _harness(["random", "--n", t["nrandom"], "--out", rtrace, "--threads", 8, "--dfs-depth", 3, "--max-dfs", 3,
                   "--random", 1])
    tv = time.time()
    n2, bad2 = _validate(rtrace, t["shards"])
    vlib.log(f"[p3] {s2['scenarios']} random scenarios, {s2['runs']} runs, {n2} distinct runs judged in "
             f"{time.time() - tv:.1f}s, {len(bad2)} not accepted")
    _report(rep, bad2, "random scenario")
    rand_events = 0
    rand_hangs = 0
    with open(rtrace) as f:
        for line in f:
            rec = json.loads(line)
            rand_events += len(rec["ev"])
            if rec["outcome"] != "completed":
                rand_hangs += 1
    for p in (gen, trace, rtrace):
        try:
            os.remove(p)
        except OSError:
            pass

    # negative configurations (started above, in the background): every wrong
    # variant must be refuted by its law
    negs = [f.result() for f in neg_futures]
    neg_pool.shutdown()
    refuted = {}
    for v, ok, nr in negs:
        if not ok:
            vlib.log(f"[tlc] negative configuration {v}: NOT refuted ({(nr.violation or nr.error or 'no violation')[:400]})")
            raise vlib.ToolError(f"the wrong variant {v} is not refuted by {NEG[v]}: the law is vacuous or the model is wrong")
        refuted[v] = {"law": NEG[v], "states": nr.distinct}
    vlib.log(f"[tlc] {len(refuted)} wrong variants refuted: " + ", ".join(f"{v} ({x['law']})" for v, x in sorted(refuted.items())))

    rc = rep.finish()
    vlib.write_evidence(PID, tier, {
        "states": states,
        "transitions": transitions,
        "traces_validated_against_impl": replay_records + n2,
        "samples": samples,
        "evaluations": s["runs"] + s2["runs"],
        "distinct_nontrivial": replay_records + n2,
        "rule": "distinct observation sequences (per scheduling step: process, system calls, probes, process table, "
                "foreground group) of runs of the real shell, each judged by TLC as a behaviour of ProcGroups",
        "exhaustive": True,
        "configs": {"mc": t["mc"], "gen": t["gen"]},
        "laws_checked": LAWS + ["deadlock freedom (scenarios without pause)"],
        "wrong_variants_refuted": refuted,
        "calibration_assumes": n_assume,
        "catalogue_scenarios": nscn,
        "catalogue_allowed_end_states": nend,
        "catalogue_runs": s["runs"],
        "catalogue_records": replay_records,
        "end_states_compared": ends_checked,
        "max_scheduling_choice_points": s["max_choice_points"],
        "scenarios_with_truncated_dfs": s["dfs_capped"],
        "events_judged": events + rand_events,
        "system_calls_judged_by_kind": kinds,
        "system_calls_judged": calls,
        "probes_judged": probes,
        "records_by_configuration": by_cfg,
        "outcomes": outcomes,
        "random_scenarios": s2["scenarios"],
        "random_records": n2,
        "random_runs_not_completed": rand_hangs,
    }, time.time() - t0, violations=len(rep.violations), assumptions=[
        "the simulated kernel of yash-env runs behind an instrumented system interface (harness/g16/src/kern.rs) that "
        "forwards every call, logs setpgid / tcsetpgrp / kill, adds SIGTTOU for tcsetpgrp from the background "
        "(XBD 11.1.4) where the scenario asks for it, answers getsid as the scenario says, and can run a new child "
        "before its parent continues",
        "simulated processes are cooperative: between two observations one process runs until it blocks; finer "
        "interleavings (a terminal signal between fork and setpgid, ...) are explored by TLC in the model only",
        "terminal signals are injected only when every simulated process is blocked; `pause` sleeps on the virtual "
        "clock, which is never advanced",
        "terminating signals for stopped processes, sessions, orphaned process groups, SIGTTIN / SIGTTOU for "
        "terminal I/O and the discarding of the rest of the line after a suspended job are not covered",
        "TLC 1.8.0 and the JSON community module are trusted",
    ])
    return rc


def replay(path):
    with open(path) as f:
        obj = json.load(f)
    rp = obj["replay"]
    wd = vlib.workdir(PID + "-replay")
    vlib.build_harness(PKG)
    exe = vlib.harness_bin(PKG)
    sched = rp.get("sched", {})
    args = [exe, "run", "--scn", json.dumps(rp["scn"])]
    if sched.get("prefix"):
        args += ["--prefix", ",".join(str(x) for x in sched["prefix"])]
    if sched.get("cf"):
        args.append("--cf")
    p = subprocess.run(args, capture_output=True, text=True, timeout=300)
    if p.returncode != 0:
        raise vlib.ToolError(f"{PKG} run failed: {p.stderr[-800:]}")
    tpath = os.path.join(wd, "one.ndjson")
    with open(tpath, "w") as f:
        f.write(p.stdout.strip().splitlines()[-1] + "\n")
    n, bad = _validate(tpath, 1)
    if bad:
        print(f"rejected: {bad[0][1]}")
        print(f"VIOLATION property={obj.get('property', PID)} replay={path}")
        return 1
    if obj.get("key", {}).get("why", "").startswith("the end state"):
        print("accepted by Trace_ProcGroups (the end-state comparison needs the catalogue: run ./check G16)")
    print("accepted")
    return 0
