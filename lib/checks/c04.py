"""C04 — pattern matching accepts exactly the strings the POSIX notation denotes
(DESIGN.md section 6, C04).  Oracle: spec/Fnmatch.tla (written from POSIX XCU
2.14 / XBD 9.3.5, docs/src/patterns.md and the crate's doc comments).

P1  MC_Fnmatch: sanity theorems of the oracle on a bounded pattern space +
    calibration examples (manual, POSIX, fnmatch-p.sh).  Failure = tool error.
P4a enumeration (spec -> impl): TLC enumerates every pattern over several
    token alphabets (Gen_Fnmatch) and prints its complete match set over the
    string domain; Gen_FnmatchFind derives the find / rfind ranges of every
    domain string under all eight configurations from each distinct match set;
    the harness runs the real yash_fnmatch on every (pattern, string,
    configuration) and compares.
P4b validation (impl -> spec): seeded random longer cases (non-ASCII, every
    regex-special character, with_escape / without_escape) are executed on the
    real code and each record is judged by TLC (Trace_Fnmatch).
P4c the whole shell: ${v#p} ${v##p} ${v%p} ${v%%p} and case for TLC-printed
    expectations (Gen_Fnmatch, Kind = "shell").
"""
import json
import os
import threading
import time
from concurrent.futures import ThreadPoolExecutor

import vlib

PID = "C04"
PKG = "yv-c04"

# name -> (Gen_Fnmatch cfg, Gen_FnmatchFind cfg)
ENUM = {
    "quick": [("q_full", "full3"), ("q_wide", "wide2"), ("q_bracket", "full3"), ("q_quoted", "full3"), ("q_coll", "full3"),
              ("q_class", "class3"), ("q_setops", "set3"), ("q_regex", "regex2"), ("q_punct", "punct2")],
    "thorough": [("t_full", "full3"), ("t_bracket", "full3"), ("t_quoted", "full3"), ("t_coll", "full3"),
                 ("t_class", "class3"), ("t_long", "full4"), ("t_wide", "wide3"), ("q_quoted", "full3"), ("q_coll", "full3"),
                 ("t_setops", "set3"), ("t_regex", "regex2"), ("t_punct", "punct2")],
}
SHELL = {"quick": ["q_shell", "q_shelldq"], "thorough": ["t_shell", "t_shelldq"]}
RANDOM = {"quick": 40000, "thorough": 400000}
MC = {"quick": "MC_Fnmatch.cfg", "thorough": "MC_Fnmatch_t.cfg"}

REGEX_SPECIAL = set("\\.+*?()|[]{}^$#&-~")


def pattern_text(c, l):
    return "".join(("\\" if q else "") + ch for ch, q in zip(c, list(l) + [0] * len(c)))


def shape(cs, nt):
    """Name of the pattern's shape, from the specification's own parse (cs =
    contents of collating symbols / equivalence classes, nt = ShapeNotes)."""
    tags = []
    if any(ch in REGEX_SPECIAL for s in cs for ch in s):
        tags.append("symbol-with-regex-special-char")
    tags += sorted(nt or [])
    return "+".join(tags) or "plain"


def _lit_flags(rec):
    return rec.get("l") or []


def _record_text(rec):
    if rec.get("mode", "pc") == "pc":
        return pattern_text(rec["c"], _lit_flags(rec))
    return rec["mode"] + ":" + "".join(rec["c"])


# ---------------------------------------------------------------------------
# P4a
# ---------------------------------------------------------------------------
def _enum_one(wd, name, findcfg, rep, acc, lock, workers):
    lines = os.path.join(wd, f"{name}.lines.ndjson")
    r = vlib.tlc("Gen_Fnmatch", f"Gen_Fnmatch_{name}.cfg", workers=workers, timeout=3000, json_out=lines)
    vlib.tlc_must_pass(r, f"generator {name}")
    vlib.log(f"[gen] {name}: {r.distinct} patterns, {r.wall:.1f}s")
    # distinct match sets (pure plumbing: de-duplication of TLC's own output)
    msets, order = {}, []
    feats = {}
    nlines = 0
    with open(lines) as f:
        for line in f:
            if line.startswith('{"dom"'):
                continue
            nlines += 1
            d = json.loads(line)
            for ft in d.get("ft", []):
                feats[ft] = feats.get(ft, 0) + 1
            if d["u"] or d["mc"]:
                continue
            key = tuple(sorted(d["m"]))
            if key not in msets:
                msets[key] = len(msets) + 1
                order.append(key)
    if nlines != r.distinct:
        raise vlib.ToolError(f"{name}: {nlines} lines for {r.distinct} states")
    mpath = os.path.join(wd, f"{name}.msets.ndjson")
    with open(mpath, "w") as f:
        for key in order:
            f.write(json.dumps({"k": msets[key], "m": list(key)}) + "\n")
    tables = os.path.join(wd, f"{name}.tables.ndjson")
    r2 = vlib.tlc("Gen_FnmatchFind", f"Gen_FnmatchFind_{findcfg}.cfg", workers=workers, timeout=3000,
                  json_out=tables, env={"MSETS": os.path.abspath(mpath)})
    vlib.tlc_must_pass(r2, f"find tables {name}")
    vlib.log(f"[gen] {name}: find/rfind tables for {len(order)} distinct match sets, {r2.wall:.1f}s")
    out = os.path.join(wd, f"{name}.mismatch.ndjson")
    t0 = time.time()
    vlib.run_harness(PKG, ["enum", "--lines", lines, "--msets", mpath, "--tables", tables, "--out", out,
                           "--threads", "6"], timeout=6000)
    stats = None
    sample = None
    mism = []
    for d in vlib.read_ndjson(out):
        if "stats" in d:
            stats = d["stats"]
            stats["domain"] = d["domain"]
        else:
            mism.append(d)
    if stats is None:
        raise vlib.ToolError(f"{name}: harness wrote no stats")
    if stats["patterns"] != nlines:
        raise vlib.ToolError(f"{name}: harness saw {stats['patterns']} of {nlines} patterns")
    vlib.log(f"[p4a] {name}: {stats['patterns']} patterns x {stats['domain']} strings replayed on yash_fnmatch in "
             f"{time.time() - t0:.1f}s ({stats['match_evals'] + stats['find_evals']} calls compared, "
             f"{stats['mismatching_patterns']} patterns disagree)")
    with open(lines) as f:
        for i, line in enumerate(f):
            if sample is None and i > nlines // 2 and '"m":[]' not in line and not line.startswith('{"dom"'):
                d = json.loads(line)
                sample = {"config": name, "pattern": pattern_text(d["c"], d["l"]), "unspecified": d["u"],
                          "match_set": d["m"][:12], "match_set_size": len(d["m"])}
    with lock:
        for d in mism:
            if d["kind"] == "tool":
                raise vlib.ToolError(f"{name}: {d}")
            key = {"check": "enum", "kind": d["kind"], "shape": shape(d["cs"], d.get("nt")),
                   "pattern": pattern_text(d["c"], d["l"])}
            recs = [{"mode": "pc", "c": d["c"], "l": d["l"], "s": list(c["s"]), **c["cfg"]}
                    for c in d["detail"].get("cases", [])]
            rep.violation(key, f"{name}: yash_fnmatch disagrees with Fnmatch.tla: {json.dumps(d['detail'])[:600]}",
                          {"records": recs})
        acc["states"] += r.distinct + r2.distinct
        acc["transitions"] += r.generated + r2.generated
        acc["patterns"] += stats["patterns"]
        acc["nontrivial"] += stats["nonempty_match_set"]
        acc["evals"] += stats["match_evals"] + stats["find_evals"]
        acc["msets"] += len(order)
        acc["configs"][name] = stats
        for k, v in feats.items():
            acc["features"][k] = acc["features"].get(k, 0) + v
        if sample:
            acc["samples"].append(sample)
    for p in (lines, mpath, tables, out):
        os.remove(p)


# ---------------------------------------------------------------------------
# P4b
# ---------------------------------------------------------------------------
def _validate(trace, shards=8, timeout=3000):
    """Trace_Fnmatch over `trace` in parallel shards.  Returns (rejects, judged, open)."""
    with open(trace) as f:
        lines = f.readlines()
    n = len(lines)
    if n == 0:
        return [], 0, 0
    size = (n + shards - 1) // shards
    parts = []
    for k in range(0, n, size):
        p = f"{trace}.shard{k // size}"
        with open(p, "w") as f:
            f.writelines(lines[k:k + size])
        parts.append((k, p))

    def one(part):
        k, p = part
        r = vlib.tlc("Trace_Fnmatch", "Trace_Fnmatch.cfg", workers=1, timeout=timeout, depth_first=True,
                     env={"TRACE": os.path.abspath(p)}, xmx="3g")
        vlib.tlc_must_pass(r, f"trace validation {os.path.basename(p)}")
        if any(x.startswith('"{') for x in r.lines):
            raise vlib.ToolError("a JSON line printed by Trace_Fnmatch could not be decoded")
        return k, r

    rejects, judged, opened = [], 0, 0
    with ThreadPoolExecutor(max_workers=shards) as ex:
        for k, r in ex.map(one, parts):
            for j in r.json:
                if "reject" in j:
                    j["line"] = k + j["reject"]
                    rejects.append(j)
                elif "judged" in j:
                    judged += j["judged"]
                    opened += j["open"]
    for _, p in parts:
        os.remove(p)
    if judged != n:
        raise vlib.ToolError(f"trace validation judged {judged} of {n} records")
    return rejects, judged, opened


def _random(wd, tier, rep, acc, lock):
    trace = os.path.join(wd, "random.ndjson")
    n = RANDOM[tier]
    vlib.run_harness(PKG, ["random", "--n", str(n), "--out", trace])
    rejects, judged, opened = _validate(trace, shards=6)
    with lock:
        for j in rejects:
            rec = j["rec"]
            if rec["pn"]:
                kind = "panic"
            else:
                kind = "random"
            key = {"check": "random", "kind": kind, "shape": shape(j["cs"], j["nt"]), "pattern": _record_text(rec)}
            rep.violation(key, "record of the real yash_fnmatch not allowed by Fnmatch.tla: " + json.dumps(rec)[:600],
                          {"records": [rec]})
        with open(trace) as f:
            for i, line in enumerate(f):
                if i in (3, 1234):
                    acc["samples"].append({"random_record": json.loads(line)})
        acc["random"] = judged
        acc["random_open"] = opened
        acc["random_rejected"] = len(rejects)
    os.remove(trace)
    vlib.log(f"[p4b] {judged} random records judged by Trace_Fnmatch ({opened} with a pattern POSIX leaves open, "
             f"{len(rejects)} rejected)")


# ---------------------------------------------------------------------------
# P4c
# ---------------------------------------------------------------------------
def _shell(wd, name, rep, acc, lock, workers):
    lines = os.path.join(wd, f"{name}.lines.ndjson")
    r = vlib.tlc("Gen_Fnmatch", f"Gen_Fnmatch_{name}.cfg", workers=workers, timeout=3000, json_out=lines)
    vlib.tlc_must_pass(r, f"generator {name}")
    # split the lines over several harness processes (the shell runner is single-threaded)
    with open(lines) as f:
        all_lines = f.readlines()
    header = [x for x in all_lines if x.startswith('{"dom"')]
    body = [x for x in all_lines if not x.startswith('{"dom"')]
    if len(header) != 1 or len(body) != r.distinct:
        raise vlib.ToolError("shell generator output incomplete")
    nproc = 6
    parts = []
    for k in range(nproc):
        p = os.path.join(wd, f"{name}.part{k}.ndjson")
        with open(p, "w") as f:
            f.write(header[0])
            f.writelines(body[k::nproc])
        parts.append(p)

    def one(p):
        out = p + ".out"
        vlib.run_harness(PKG, ["shell", "--in", p, "--out", out], timeout=3000)
        return list(vlib.read_ndjson(out))

    t0 = time.time()
    vlib.build_harness(PKG)
    tot = {"patterns": 0, "cases": 0, "skipped_unspecified": 0, "open_patterns_case_only": 0, "shell_runs": 0,
           "via_var": 0, "via_direct": 0, "via_dq": 0, "mismatches": 0}
    by_line = {}
    for x in body:
        d = json.loads(x)
        by_line[pattern_text(d["c"], d["l"])] = d
    with ThreadPoolExecutor(max_workers=nproc) as ex:
        for res in ex.map(one, parts):
            for d in res:
                if "stats" in d:
                    for k in tot:
                        tot[k] += d["stats"][k]
                    continue
                if d["kind"] == "shell-missing":
                    raise vlib.ToolError(f"shell binding: probe missing: {json.dumps(d)[:800]}")
                text = pattern_text(d["c"], d["l"])
                src = by_line[text]
                key = {"check": "shell", "kind": d["kind"], "shape": shape(d["cs"], src.get("nt")), "pattern": text,
                       "route": d["route"]}
                row = [x for x in src["sh"] if x[0] == d["s"]]
                with lock:
                    rep.violation(key, "the shell disagrees with Fnmatch.tla (trim / case): " + json.dumps(d)[:700],
                                  {"shell": {"header": json.loads(header[0]), "line": dict(src, sh=row)}})
    for p in parts:
        os.remove(p)
        os.remove(p + ".out")
    os.remove(lines)
    if tot["patterns"] + tot["skipped_unspecified"] != r.distinct:
        raise vlib.ToolError("shell binding: not every pattern was run")
    with lock:
        acc["states"] += r.distinct
        acc["transitions"] += r.generated
        old = acc.setdefault("shell", {})
        for k, v in tot.items():
            old[k] = old.get(k, 0) + v
    acc["samples"].append({"shell_case": {"pattern": pattern_text(json.loads(body[len(body) // 2])["c"],
                                                                 json.loads(body[len(body) // 2])["l"]),
                                          "rows": json.loads(body[len(body) // 2])["sh"][:3]}})
    vlib.log(f"[p4c] {name}: {tot['patterns']} patterns, {tot['cases']} (pattern, string) cases through the whole shell "
             f"(4 trims + case each; {tot['open_patterns_case_only']} patterns left open by POSIX: case only; "
             f"{tot['via_var']} via $p, {tot['via_direct']} written directly, {tot['via_dq']} in double quotes with "
             f"inner escapes) in "
             f"{time.time() - t0:.1f}s, {tot['mismatches']} disagree")


# ---------------------------------------------------------------------------
def run(tier):
    t0 = time.time()
    wd = vlib.workdir(PID)
    rep = vlib.Reporter(PID)
    vlib.build_harness(PKG)
    acc = {"states": 0, "transitions": 0, "patterns": 0, "nontrivial": 0, "evals": 0, "msets": 0, "configs": {},
           "samples": [], "features": {}}
    lock = threading.Lock()

    # Independent stages, three in flight: P1 (the oracle itself), P4a (one job per generator
    # configuration), P4b, P4c.
    mcres = {}

    def job_mc():
        mc = vlib.tlc("MC_Fnmatch", MC[tier], workers=4, timeout=2400)
        vlib.tlc_must_pass(mc, "oracle sanity theorems and calibration (MC_Fnmatch)")
        vlib.log(f"[p1] MC_Fnmatch: {mc.distinct} patterns x theorems, calibration ASSUMEs hold, {mc.wall:.1f}s")
        with lock:
            acc["states"] += mc.distinct
            acc["transitions"] += mc.generated
        mcres["mc"] = mc

    jobs = [job_mc] + [lambda n=n: _shell(wd, n, rep, acc, lock, workers=4) for n in SHELL[tier]]
    for item in ENUM[tier]:
        jobs.append(lambda item=item: _enum_one(wd, item[0], item[1], rep, acc, lock, workers=5))
    jobs.insert(3, lambda: _random(wd, tier, rep, acc, lock))
    errors = []

    def guarded(j):
        if errors:
            return
        try:
            j()
        except Exception as e:  # re-raised below (ToolError keeps exit code 2)
            errors.append(e)

    with ThreadPoolExecutor(max_workers=3) as ex:
        list(ex.map(guarded, jobs))
    if errors:
        raise errors[0]
    mc = mcres["mc"]

    rc = rep.finish()
    shell = acc.get("shell", {})
    vlib.write_evidence(PID, tier, {
        "states": acc["states"],
        "transitions": acc["transitions"],
        "traces_validated_against_impl": acc["patterns"] + acc["random"] + shell.get("cases", 0),
        "samples": acc["samples"][:8],
        "evaluations": acc["evals"] + acc["random"] + 5 * shell.get("cases", 0),
        "distinct_nontrivial": acc["nontrivial"],
        "rule": "enumerated patterns with a defined meaning whose match set over the string domain is non-empty "
                "(each compared on every domain string under 8 configurations x is_match/find/rfind)",
        "exhaustive": True,
        "patterns_enumerated": acc["patterns"],
        "distinct_match_sets": acc["msets"],
        "per_config": acc["configs"],
        "patterns_using_construct": acc["features"],
        "oracle_model_check": {"config": MC[tier], "patterns": mc.distinct,
                               "theorems": ["T_Literal", "T_Quoted", "T_Unclosed", "T_Concat", "T_Wild", "T_Complement",
                                            "T_Ranges", "T_Find", "T_FindDef", "T_Trim", "T_Period", "T_Case"]},
        "random_records": acc["random"],
        "random_records_pattern_left_open_by_posix": acc["random_open"],
        "random_records_rejected": acc["random_rejected"],
        "shell_binding": shell,
        "known_findings_hit": {k: v[1] for k, v in rep.known_hits.items()},
    }, time.time() - t0, violations=len(rep.violations), assumptions=[
        "POSIX locale: collation and character classes of ASCII; no locale support (docs/src/patterns.md)",
        "patterns whose meaning POSIX leaves open (see header of spec/Fnmatch.tla) are skipped and counted",
        "case_insensitive is outside the property; literal_period is checked for whole-string matching only",
        "TLC and its Json module are trusted",
    ])
    return rc


def replay(path):
    with open(path) as f:
        obj = json.load(f)
    wd = vlib.workdir(PID + "-replay")
    rp = obj["replay"]
    bad = False
    if "records" in rp:
        src = os.path.join(wd, "in.ndjson")
        with open(src, "w") as f:
            for rec in rp["records"]:
                f.write(json.dumps(rec) + "\n")
        out = os.path.join(wd, "out.ndjson")
        vlib.run_harness(PKG, ["redo", "--in", src, "--out", out])
        rejects, judged, _ = _validate(out, shards=1)
        for j in rejects:
            print("rejected by Fnmatch.tla:", json.dumps(j["rec"]))
        bad = bool(rejects)
    elif "shell" in rp:
        src = os.path.join(wd, "in.ndjson")
        with open(src, "w") as f:
            f.write(json.dumps(rp["shell"]["header"]) + "\n" + json.dumps(rp["shell"]["line"]) + "\n")
        out = os.path.join(wd, "out.ndjson")
        vlib.run_harness(PKG, ["shell", "--in", src, "--out", out])
        for d in vlib.read_ndjson(out):
            if "stats" not in d:
                print("shell disagrees:", json.dumps(d)[:800])
                bad = True
    print("rejected" if bad else "accepted")
    if bad:
        print(f"VIOLATION property={PID} replay={path}")
    return 1 if bad else 0
