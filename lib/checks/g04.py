"""G04 — specification growth: (A) tilde expansion, (B) command search and the `command` / `type` built-ins.

The oracles are the TLA+ definitions spec/Tilde.tla (a rewriting in front of spec/Expand.tla) and
spec/CmdSearch.tla, written from POSIX XCU 2.6.1 / 2.9.1.4 / `command` / `type` and the manual
(docs/src/language/words/tilde.md, docs/src/language/commands/simple.md, docs/src/builtins/{README,command,type}.md).

 0. Calib_Tilde / Calib_CmdSearch: the worked examples of the manual and the cases of the scripted tests
    tilde-p.sh / command-p.sh hold for the oracles (ASSUMEs; a failure is a tool error).
 A1 spec -> impl: TLC enumerates words over the tilde alphabet (Gen_Tilde) and prints, for every context
    (argument, for, assignment, export/readonly/typeset/`command export`, case word, case pattern, ${y-word},
    here-document) x HOME value x shell state, the fields Tilde.tla prescribes; harness/g04 renders and
    runs them on the real shell (simulated OS, user database = SystemState.home_dirs) and compares.
 A2 impl -> spec: random words / HOME values / user databases / IFS are run and recorded; Trace_Tilde judges.
 B1 spec -> impl: TLC enumerates shell states (function, alias, built-in type, options, $PATH, file kinds per
    directory) x names (Gen_CmdSearch) and prints what CmdSearch.tla prescribes for `command -v`, `-V`, `type`,
    running the name, `command name`, `command -p name`; harness/g04 establishes each state and compares
    (which built-in / function / file ran: probe built-ins of every type, Process::last_exec).
 B2 impl -> spec: random states with several names, longer $PATH, sub-directories; Trace_CmdSearch judges.
 B3 spec -> impl on the REAL kernel: the PATH search part (family "X": names nno / true, directories under the
    working directory, every file kind, names with a slash) is replayed with RealSystem in a scratch directory
    (executables are #!/bin/sh scripts printing `RAN $0 $*`), so that the search is also bound to a kernel that is
    not the simulator of /repo.
"""
import json
import os
import time

import vlib

PID = "G04"
PKG = "yv-g04"

TIERS = {
    "quick": dict(tilde="Gen_Tilde_quick.cfg", cs="Gen_CmdSearch_quick.cfg", real="Gen_CmdSearch_real_quick.cfg",
                  ntilde=20000, ncs=1500, timeout=600),
    "thorough": dict(tilde="Gen_Tilde_thorough.cfg", cs="Gen_CmdSearch_thorough.cfg", real="Gen_CmdSearch_real_thorough.cfg",
                     ntilde=150000, ncs=15000, timeout=2400),
}

SHARD = 40000


def _summary(out):
    line = [l for l in out.strip().splitlines() if l.startswith("{")][-1]
    return json.loads(line)


def _val(v):
    return repr(v["v"]) if v["set"] else "unset"


def _tstate(st):
    return "x=%s IFS=%s" % (_val(st["x"]), _val(st["ifs"]))


def _users(env):
    return ",".join("%s:%s" % (u["n"], u["d"]) for u in env["users"])


def _tilde_key(direction, rec, exp, obs):
    key = {"part": "tilde", "dir": direction, "ctx": rec["ctx"], "text": rec["text"], "home": _val(rec["env"]["home"]),
           "users": _users(rec["env"]), "state": _tstate(rec["st"])}
    if rec["ctx"] == "pat" and isinstance(exp, list) and len(exp) == 4 and len(obs.get("f", [])) == 4:
        key["pat_exp"] = "%s,%s" % (exp[1], exp[3])
        key["pat_obs"] = "%s,%s" % (obs["f"][1], obs["f"][3])
    return key


def _canon(cwd, p):
    full = p if p.startswith("/") else cwd + "/" + p
    return "/" + "/".join(c for c in full.split("/") if c and c != ".")


def _cs_class(S, name, query):
    """Which PATH candidate is hit first when directories are taken for executables, and whether the
    hit is reached through a relative pathname (classification of mismatches for known findings only)."""
    kinds = {f["p"]: f["k"] for f in S["files"]}
    dirs = S["std"] if query in ("pv", "pV", "cmdp", "abortcmdp") else S["path"]
    if "/" in name:
        k = kinds.get(_canon(S["cwd"], name), "none")
        return (k if k in ("exec", "dir") else "none"), not name.startswith("/")
    for d in dirs:
        k = kinds.get(_canon(S["cwd"], (d + "/" if d else "") + name))
        if k in ("exec", "dir"):
            return k, not d.startswith("/")
    return "none", False


def _short(q, o):
    if not isinstance(o, dict):
        return str(o)
    if "panic" in o:
        return "panic"
    if q in ("v", "pv"):
        return "%s %s" % ("found" if o.get("found") else "notfound", o.get("out", o.get("text", "")))
    if q in ("V", "pV", "type"):
        return "%s %s %s" % ("found" if o.get("found") else "notfound", o.get("kind"), o.get("path"))
    if q in ("plain", "cmd", "cmdp"):
        if o.get("what") == "fail":
            return "fail %s" % o.get("st")
        return "%s %s%s persist=%s" % (o.get("what"), o.get("path"), " special" if o.get("sp") else "", o.get("persist"))
    return str(o.get("aborted", o))


def _cs_state(S):
    return "PATH=%s files=[%s] fns=%s als=%s cwd=%s%s%s" % (
        ":".join(S["path"]), " ".join("%s(%s)" % (f["p"], f["k"]) for f in S["files"]), ",".join(S["fns"]),
        ",".join(S["als"]), S["cwd"], " posixlycorrect" if S["posix"] else "", " portable" if S["portable"] else "")


def _cs_key(direction, rec, exp_short, obs_short):
    first, rel = _cs_class(rec["S"], rec["name"], rec["query"])
    return {"part": "cmdsearch", "dir": direction, "name": rec["name"], "query": rec["query"], "state": _cs_state(rec["S"]),
            "first_exec_or_dir": first, "relative_exec": rel, "exp": exp_short, "obs": obs_short}


def _trace(module, trace, what, timeout, totals):
    """Run a Trace_* spec over `trace` in shards; yields (record, verdict json)."""
    with open(trace) as f:
        lines = f.readlines()
    res = []
    wall = 0.0
    for a in range(0, len(lines), SHARD):
        part = lines[a:a + SHARD]
        p = f"{trace}.shard"
        with open(p, "w") as f:
            f.writelines(part)
        r = vlib.tlc(module, module + ".cfg", workers=8, timeout=timeout, env={"TRACE": os.path.abspath(p)})
        os.remove(p)
        vlib.tlc_must_pass(r, f"trace validation ({what})")
        if r.distinct != 2 * len(part) - 1:
            raise vlib.ToolError(f"trace validation ({what}) judged {r.distinct} states for {len(part)} records")
        wall += r.wall
        totals["states"] += r.distinct
        totals["transitions"] += r.generated
        for j in r.json:
            res.append((json.loads(part[j["i"] - 1]), j))
    return len(lines), res, wall


def _real_kernel(rep, wd, cfgname, timeout, totals, stage=None):
    """B3: the PATH search part of CmdSearch.tla replayed with RealSystem in a scratch directory.
    Violations go to `rep` (with "stage" in key and replay object when run as a stage of another check)."""
    gen = os.path.join(wd, "cs-real.ndjson")
    r = vlib.tlc("Gen_CmdSearch", cfgname, workers=8, timeout=timeout, env={"SEED": str(vlib.seed())}, json_out=gen)
    vlib.tlc_must_pass(r, f"enumeration {cfgname}")
    totals["states"] += r.distinct
    totals["transitions"] += r.generated
    nlines = vlib.count_lines(gen)
    mism = os.path.join(wd, "cs-real-mismatch.ndjson")
    _, out, _ = vlib.run_harness(PKG, ["cs-replay", "--real", "--in", gen, "--out", mism, "--threads", "8"])
    s_r = _summary(out)
    if s_r["states"] != nlines - 1:
        raise vlib.ToolError(f"real-OS replay covered {s_r['states']} of {nlines - 1} states")
    for rec in vlib.read_ndjson(mism):
        key = _cs_key("spec->real", rec, _short(rec["query"], rec["exp"]), _short(rec["query"], rec["obs"]))
        key["first_exec_or_dir"] = key["relative_exec"] = "real"      # the findings about the simulator do not apply
        robj = {"kind": "cs", "real": True, "S": rec["S"], "name": rec["name"], "query": rec["query"]}
        if stage:
            key["stage"] = stage
            robj["stage"] = stage
        detail = (f"real OS: `{rec['query']}` of {rec['name']} in [{key['state']}]: specified {rec['exp']}, observed {rec['obs']}")
        rep.violation(key, detail, robj)
    vlib.log(f"[p4->] command search on the real kernel: {s_r['queries']} queries in {s_r['states']} states replayed "
             f"({r.wall:.1f}s TLC): {s_r['mismatches']} mismatches")
    os.remove(gen)
    s_r["tlc_s"] = round(r.wall, 1)
    return s_r


def run_stage(tier, rep, budget="c02"):
    """The real-kernel command-search slice (B3) run as a stage of another check (C02: a name is
    resolved in the POSIX search order and the PATH search takes the first *executable regular file*,
    also on a kernel that is not the simulator of /repo): calibration of CmdSearch.tla, TLC enumeration
    of family X (names nno / true x function x permutations of <= 3 of 4 PATH directories x file kind
    per directory: none / executable / not executable / directory; names with a slash), every state
    established in a scratch directory and queried through `command -v`, `-V`, `type`, running the
    name and `command name` with RealSystem.  Violations go to `rep` (keys and replay objects carry
    "stage": "g04"); returns coverage numbers."""
    t0 = time.time()
    cfg = TIERS[tier]
    wd = vlib.workdir(PID + "-stage-" + budget)
    vlib.build_harness(PKG)
    r = vlib.tlc("Calib_CmdSearch", "Calib_CmdSearch.cfg", workers=1, timeout=300)
    vlib.tlc_must_pass(r, "calibration examples (Calib_CmdSearch)")
    totals = {"states": 0, "transitions": 0}
    s_r = _real_kernel(rep, wd, cfg["real"], cfg["timeout"], totals, stage="g04")
    vlib.log(f"[g04-stage] real-kernel command search: {s_r['states']} states, {s_r['queries']} queries, "
             f"{s_r['mismatches']} mismatches, {time.time() - t0:.1f}s")
    return {"config": cfg["real"], "states": totals["states"], "transitions": totals["transitions"],
            "shell_states_replayed": s_r["states"], "queries": s_r["queries"], "mismatches": s_r["mismatches"],
            "outcomes": s_r["tags"], "wall_s": round(time.time() - t0, 1)}


def run(tier):
    t0 = time.time()
    cfg = TIERS[tier]
    wd = vlib.workdir(PID)
    rep = vlib.Reporter(PID)
    totals = {"states": 0, "transitions": 0}
    vlib.build_harness(PKG)

    # 0. calibration of the oracles
    for m in ("Calib_Tilde", "Calib_CmdSearch"):
        r = vlib.tlc(m, m + ".cfg", workers=1, timeout=300)
        vlib.tlc_must_pass(r, f"calibration examples ({m})")
    vlib.log("[calib] worked examples of tilde.md / simple.md / README.md / type.md and tilde-p.sh / command-p.sh "
             "hold for the oracles")

    # A1. tilde, spec -> impl
    gen = os.path.join(wd, "tilde.ndjson")
    r = vlib.tlc("Gen_Tilde", cfg["tilde"], workers=8, timeout=cfg["timeout"], env={"SEED": str(vlib.seed())},
                 json_out=gen)
    vlib.tlc_must_pass(r, f"enumeration {cfg['tilde']}")
    totals["states"] += r.distinct
    totals["transitions"] += r.generated
    nlines = vlib.count_lines(gen)
    mism = os.path.join(wd, "tilde-mismatch.ndjson")
    _, out, _ = vlib.run_harness(PKG, ["tilde-replay", "--in", gen, "--out", mism, "--threads", "8"])
    s_t = _summary(out)
    if s_t["words"] != nlines - 1:
        raise vlib.ToolError(f"tilde replay covered {s_t['words']} of {nlines - 1} words")
    vlib.log(f"[tlc] {cfg['tilde']}: {r.distinct} words enumerated, {nlines - 1} printed ({r.wall:.1f}s)")
    for rec in vlib.read_ndjson(mism):
        key = _tilde_key("spec->impl", rec, rec["exp"], rec["obs"])
        detail = (f"[{rec['ctx']}] `{rec['text']}` with HOME={key['home']} users={key['users']} {key['state']}: "
                  f"specified {rec['exp']}, observed {rec['obs']}")
        rep.violation(key, detail, {"kind": "tilde", "ctx": rec["ctx"], "w": rec["w"], "env": rec["env"], "st": rec["st"],
                                    "exp": rec["exp"]})
    vlib.log(f"[p4->] tilde: {s_t['cases']} (context, word, HOME, state) cases of {s_t['words']} words replayed in "
             f"{s_t['runs']} shell runs: {s_t['mismatches']} mismatches; per context {s_t['per_ctx']}")
    os.remove(gen)

    # A2. tilde, impl -> spec
    trace = os.path.join(wd, "tilde-random.ndjson")
    vlib.run_harness(PKG, ["tilde-random", "--n", cfg["ntilde"], "--out", trace, "--threads", "8"])
    n, res, wall = _trace("Trace_Tilde", trace, "random words", cfg["timeout"], totals)
    t_skipped = t_rej = 0
    for rec, j in res:
        if j["v"] == "skip":
            t_skipped += 1
            continue
        t_rej += 1
        key = _tilde_key("impl->spec", rec, j["exp"], rec["obs"])
        detail = (f"[{rec['ctx']}] `{rec['text']}` with HOME={key['home']} users={key['users']} {key['state']} gave "
                  f"{rec['obs']}; specified: {j['exp']}")
        rep.violation(key, detail, {"kind": "tilde", "ctx": rec["ctx"], "w": rec["w"], "env": rec["env"], "st": rec["st"]})
    t_judged = n - t_skipped
    t_expanded = 0
    samples = list(s_t["samples"][:2])
    with open(trace) as f:
        for i, line in enumerate(f):
            rec = json.loads(line)
            if rec["text"].startswith("~") and rec["obs"]["k"] == "ok" and rec["obs"]["f"] and not rec["obs"]["f"][0].startswith("~"):
                t_expanded += 1
            if i in (7, 4321):
                samples.append({"ctx": rec["ctx"], "text": rec["text"], "home": _val(rec["env"]["home"]),
                                "users": _users(rec["env"]), "observed": rec["obs"]["f"]})
    vlib.log(f"[p4<-] tilde: {n} random records judged by TLC in {wall:.1f}s: {t_judged - t_rej} accepted, "
             f"{t_skipped} outside the modelled fragment, {t_rej} rejected ({t_expanded} with an expanded leading tilde)")
    os.remove(trace)

    # B1. command search, spec -> impl
    gen = os.path.join(wd, "cs.ndjson")
    r = vlib.tlc("Gen_CmdSearch", cfg["cs"], workers=8, timeout=cfg["timeout"], env={"SEED": str(vlib.seed())}, json_out=gen)
    vlib.tlc_must_pass(r, f"enumeration {cfg['cs']}")
    totals["states"] += r.distinct
    totals["transitions"] += r.generated
    nlines = vlib.count_lines(gen)
    mism = os.path.join(wd, "cs-mismatch.ndjson")
    _, out, _ = vlib.run_harness(PKG, ["cs-replay", "--in", gen, "--out", mism, "--threads", "8"])
    s_c = _summary(out)
    if s_c["states"] != nlines - 1:
        raise vlib.ToolError(f"command-search replay covered {s_c['states']} of {nlines - 1} states")
    vlib.log(f"[tlc] {cfg['cs']}: {r.distinct} states, {nlines - 1} (state, name) vectors printed ({r.wall:.1f}s)")
    for rec in vlib.read_ndjson(mism):
        key = _cs_key("spec->impl", rec, _short(rec["query"], rec["exp"]), _short(rec["query"], rec["obs"]))
        detail = (f"`{rec['query']}` of {rec['name']} in [{key['state']}]: specified {rec['exp']}, observed {rec['obs']}")
        rep.violation(key, detail, {"kind": "cs", "S": rec["S"], "name": rec["name"], "query": rec["query"]})
    vlib.log(f"[p4->] command search: {s_c['queries']} queries in {s_c['states']} states replayed: "
             f"{s_c['mismatches']} mismatches, {s_c['unspecified']} with an unspecified answer")
    expected_tags = (["v:" + k for k in ("alias", "builtin", "external", "function", "keyword", "notfound", "special", "unsp")]
                     + ["plain:" + k for k in ("builtin", "builtin-special", "exec", "fail126", "fail127", "function")]
                     + ["cmd:" + k for k in ("builtin", "exec", "fail126", "fail127")]
                     + ["cmdp:" + k for k in ("builtin", "exec", "fail127")]
                     + ["abortplain:true", "abortplain:false", "abortcmd:false", "pv:function", "pv:external", "pv:notfound"])
    not_exercised = [t for t in expected_tags if not s_c["tags"].get(t)]
    if not_exercised:
        vlib.log(f"NOTE: outcomes of the specification not exercised by the enumeration: {not_exercised}")
    os.remove(gen)

    # B3. the PATH search on the real kernel
    s_r = _real_kernel(rep, wd, cfg["real"], cfg["timeout"], totals)

    # B2. command search, impl -> spec
    trace = os.path.join(wd, "cs-random.ndjson")
    vlib.run_harness(PKG, ["cs-random", "--n", cfg["ncs"], "--out", trace, "--threads", "8"])
    n2, res, wall = _trace("Trace_CmdSearch", trace, "random states", cfg["timeout"], totals)
    c_skipped = c_rej = 0
    for rec, j in res:
        if j["v"] == "skip":
            c_skipped += 1
            continue
        c_rej += 1
        e = j["exp"]
        if rec["query"] in ("v", "pv") and isinstance(e, dict) and "text" in e:
            e = dict(e, out=e["text"])
        key = _cs_key("impl->spec", rec, _short(rec["query"], e), _short(rec["query"], rec["obs"]))
        detail = f"`{rec['query']}` of {rec['name']} in [{key['state']}] gave {rec['obs']}; specified: {j['exp']}"
        rep.violation(key, detail, {"kind": "cs", "S": rec["S"], "name": rec["name"], "query": rec["query"]})
    vlib.log(f"[p4<-] command search: {n2} random records judged by TLC in {wall:.1f}s: {n2 - c_skipped - c_rej} accepted, "
             f"{c_skipped} unspecified, {c_rej} rejected")
    samples += s_c["samples"][:2]
    os.remove(trace)

    rc = rep.finish()
    evaluations = s_t["cases"] + t_judged + s_c["queries"] + s_r["queries"] + (n2 - c_skipped)
    vlib.write_evidence(PID, tier, {
        "states": totals["states"],
        "transitions": totals["transitions"],
        "traces_validated_against_impl": evaluations,
        "samples": samples,
        "evaluations": evaluations,
        "distinct_nontrivial": s_t["cases"] + s_c["queries"] + s_r["queries"],
        "rule": "distinct (context, word, HOME, shell state) vectors and (shell state, name, query) vectors enumerated by TLC "
                "and executed on the real shell; random recorded vectors counted separately",
        "exhaustive": tier == "thorough",
        "exhaustive_over": ("tilde: all words of <= 3 units over the 19-unit alphabet of Gen_Tilde and all words of <= "
                            + ("5" if tier == "thorough" else "4") + " units over its 5 core units (~ u / : a)"
                            + ("" if tier == "thorough" else " (a seeded 1/12 sample of the 3-unit words with a non-core unit)")
                            + " x 11 contexts x 7 HOME values x 2 states; command search: 10 names (every built-in type) x "
                              "function x alias x options x permutations of <= 3 of 4 PATH directories x file kinds"
                            + ("" if tier == "thorough" else " (a seeded 1/12 sample)")
                            + ", names with a slash, command -p, reserved words"),
        "bounds": {"tilde_enumeration": cfg["tilde"], "cmdsearch_enumeration": cfg["cs"], "cmdsearch_real": cfg["real"],
                   "random_tilde_records": cfg["ntilde"], "random_cmdsearch_states": cfg["ncs"]},
        "tilde_spec_to_impl": {k: s_t[k] for k in ("words", "cases", "mismatches", "runs", "per_ctx")},
        "tilde_impl_to_spec": {"records": n, "judged": t_judged, "skipped": t_skipped, "rejected": t_rej,
                               "with_expanded_leading_tilde": t_expanded},
        "cmdsearch_spec_to_impl": {k: s_c[k] for k in ("states", "queries", "mismatches", "unspecified")},
        "cmdsearch_outcome_coverage": s_c["tags"],
        "cmdsearch_outcomes_not_exercised": not_exercised,
        "cmdsearch_impl_to_spec": {"records": n2, "skipped": c_skipped, "rejected": c_rej},
        "cmdsearch_real_kernel": {k: s_r[k] for k in ("states", "queries", "mismatches", "tags")},
        "known_finding_hits": {fid: cnt for fid, (_f, cnt) in rep.known_hits.items()},
    }, time.time() - t0, violations=len(rep.violations), assumptions=[
        "unknown login name (undefined in POSIX) and unset HOME (unspecified in POSIX) follow the manual: the tilde-prefix "
        "is left as it is; `~+` / `~-` are not supported by the shell (login names like any other)",
        "a tilde-prefix containing an expansion (`~$x`) or an empty quoted string (`~''`) is skipped; in ${y-word} a word "
        "whose tilde-prefix cannot be expanded is skipped (whether the prefix is field-split is not specified)",
        "PATH unset or null is implementation-defined (XBD 8.3) and not generated; aliases are combined with reserved words "
        "in no state; `command -v` of a name with a slash naming an existing non-executable file is not compared",
        "what ran is observed through probe built-ins registered with each built-in type, `probe FN` function bodies and "
        "Process::last_exec of the simulator (a native executable returns ENOSYS after being recorded); the exit status of "
        "an executed program is therefore not compared, only 126 / 127 of failures",
        "the wording of `command -V` / `type` is unspecified: the harness classifies it by the words alias / keyword / "
        "function / special built-in / built-in / external and takes the first pathname in it",
        "pathnames written by `command -v` / handed to execve are compared after lexical canonicalisation "
        "(relative to the working directory, `.` and empty components removed)",
        "TLC 1.8.0 and the JSON community module are trusted",
    ])
    return rc


def replay(path):
    with open(path) as f:
        obj = json.load(f)
    rec = obj["replay"]
    wd = vlib.workdir(PID + "-replay")
    src = os.path.join(wd, "in.ndjson")
    with open(src, "w") as f:
        f.write(json.dumps(rec) + "\n")
    t = os.path.join(wd, "one.ndjson")
    vlib.run_harness(PKG, ["one", "--in", src, "--out", t] + (["--real"] if rec.get("real") else []))
    module = "Trace_CmdSearch" if rec.get("kind") == "cs" else "Trace_Tilde"
    r = vlib.tlc(module, module + ".cfg", workers=1, timeout=300, env={"TRACE": os.path.abspath(t)})
    vlib.tlc_must_pass(r, "replay validation")
    with open(t) as f:
        print("observed:", f.read().strip())
    rejected = [j for j in r.json if j["v"] == "reject"]
    if rejected:
        print("specified:", json.dumps(rejected[0]["exp"]))
        # a record of the stage run inside another check is reported for that property
        print(f"VIOLATION property={obj.get('property', PID) if rec.get('stage') else PID} replay={path}")
        return 1
    print("accepted" if not r.json else "outside the specified fragment")
    return 0
