"""C18 — input is consumed line by line, no further than the running command
needs (DESIGN.md section 6, C18; spec/InputLoop.tla).

P1  TLC explores the read-eval-loop machine of InputLoop.tla on every script
    of up to MaxLen physical lines over 17 line kinds, in both feed classes
    (script on descriptor 0 / script as a string), checking OffAtExec and
    PrefixBeforeError, and prints the scenario catalogue; a second model
    (SpecC) lets a feeder deliver the script in chunks under every
    interleaving and checks that the result does not depend on it.
P3  harness/c18 feeds every catalogue scenario, plus seeded random longer
    scripts, to the REAL shell: simulated OS (regular file on fd 0; pipe on fd 0
    written by a feeder process in chunks of 1, 2, 3, 7, whole, under FIFO,
    random and depth-first enumerated schedules; -c string, eval, dot script,
    file operand) and real OS (regular file, real pipes fed in chunks, -c, dot
    script).  One record per (scenario, distinct observation); Trace_InputLoop
    accepts a record iff it is what the specification's machine does with
    that script.  Two different observations of one scenario (chunking /
    schedule / feed-mode dependence) can never both be accepted.
"""
import json
import os
import time

import vlib

PID = "C18"
PKG = "yv-c18"

TIERS = {
    "quick": dict(cat_cfg="MC_InputLoop_quick.cfg", chunk_cfg="MC_InputLoop_chunk.cfg",
                  harness=["--full-len", "3", "--rand", "2500", "--randmin", "4", "--randmax", "9",
                           "--real", "160", "--dfs", "60", "--dfs-depth", "6", "--rnd-sched", "1"],
                  tlc_timeout=600, rounds=3),
    "thorough": dict(cat_cfg="MC_InputLoop_thorough.cfg", chunk_cfg="MC_InputLoop_chunk4.cfg",
                     harness=["--full-len", "3", "--rand", "40000", "--randmin", "4", "--randmax", "12",
                              "--real", "2500", "--dfs", "1500", "--dfs-depth", "8", "--rnd-sched", "2"],
                     tlc_timeout=2400, rounds=3),
}


def _key(rec):
    return {"lines": ",".join(rec["lines"]), "nl": rec["nl"], "feed": rec["feed"],
            "modes": ",".join(sorted(set(m.split(":rnd")[0] for m in rec["modes"])))}


def _validate(rep, trace, rounds, what):
    """Validate all records.  A shard stops at its first rejection; when known
    findings exist for this property the rejected records are removed and the
    rest validated again (a few rounds), so that a finding cannot mask a new
    violation."""
    total = vlib.count_lines(trace)
    wall = 0.0
    rejected = []
    cur = trace
    if not rep.findings:
        rounds = 1      # nothing can be masked: the first rejections decide
    for rnd in range(rounds):
        ok, info = vlib.validate_trace_sharded("Trace_InputLoop", cur, shards=8, timeout=1800)
        wall += info.get("wall", 0.0)
        if ok:
            break
        bad = set()
        for f in info.get("failures", []):
            if not f.get("record"):
                raise vlib.ToolError(f"trace rejected without a record: {str(f)[:800]}")
            bad.add(f["record"])
        for b in sorted(bad):
            rec = json.loads(b)
            rejected.append(rec)
            rep.violation(_key(rec), f"{what}: observation is not a behaviour of InputLoop", rec)
        if rnd + 1 == rounds:
            vlib.log(f"[p3] more rejected records may exist (enumeration stopped after {rounds} round(s))")
            break
        nxt = trace + f".round{rnd + 1}"
        with open(cur) as fi, open(nxt, "w") as fo:
            for line in fi:
                if line.strip() not in bad:
                    fo.write(line)
        if cur != trace:
            os.remove(cur)
        cur = nxt
    if cur != trace and os.path.exists(cur):
        os.remove(cur)
    return {"events": total, "wall": wall, "rejected": rejected}


def run(tier):
    t0 = time.time()
    T = TIERS[tier]
    wd = vlib.workdir(PID)
    rep = vlib.Reporter(PID)
    cov = {}

    # P1: catalogue model
    cat = os.path.join(wd, "catalogue.ndjson")
    r = vlib.tlc("InputLoop", T["cat_cfg"], workers=8, json_out=cat, coverage=True, timeout=T["tlc_timeout"])
    vlib.tlc_must_pass(r, f"model check {T['cat_cfg']}")
    vlib.log(f"[tlc] {T['cat_cfg']}: {r.distinct} distinct states, {r.generated} generated, depth {r.depth}, {r.wall:.1f}s")
    states, transitions = r.distinct, r.generated
    for a, c in r.coverage.items():
        cov[a] = cov.get(a, 0) + c
    # P1: chunked-arrival model
    r2 = vlib.tlc("InputLoop", T["chunk_cfg"], workers=8, coverage=True, timeout=T["tlc_timeout"], deadlock=True)
    vlib.tlc_must_pass(r2, f"model check {T['chunk_cfg']}")
    vlib.log(f"[tlc] {T['chunk_cfg']}: {r2.distinct} distinct states, {r2.generated} generated, depth {r2.depth}, {r2.wall:.1f}s")
    states += r2.distinct
    transitions += r2.generated
    for a, c in r2.coverage.items():
        cov[a] = cov.get(a, 0) + c

    # catalogue: scenarios inside the family are run, the others counted
    run_cat = os.path.join(wd, "scenarios.ndjson")
    n_in = n_skip = n_err = n_nontrivial = 0
    samples = []
    with open(cat) as fi, open(run_cat, "w") as fo:
        for line in fi:
            e = json.loads(line)
            fo.write(line)
            if e["skip"]:
                n_skip += 1
                continue
            n_in += 1
            n_err += 1 if e["err"] else 0
            n_nontrivial += 1 if (e["trace"] or e["err"]) else 0
    os.remove(cat)
    if n_in == 0:
        raise vlib.ToolError("empty scenario catalogue")
    vlib.log(f"[cat] {n_in} scenarios in the family ({n_err} with a syntax error), {n_skip} leaving it (run; only the events before the offending line are judged)")

    # P3: the real shell
    rec = os.path.join(wd, "records.ndjson")
    rc, _out, err = vlib.run_harness(PKG, ["run", "--cat", run_cat, "--out", rec, "--threads", "8"] + T["harness"],
                                     timeout=2400)
    try:
        hstats = json.loads(err.strip().splitlines()[-1])
    except Exception:
        raise vlib.ToolError(f"harness statistics missing: {err[-500:]}")
    vlib.log(f"[run] {hstats}")
    os.remove(run_cat)
    n_rand_nontrivial = 0
    with open(rec) as f:
        for i, line in enumerate(f):
            r_ = json.loads(line)
            if r_["origin"] == "random" and r_["trace"]:
                n_rand_nontrivial += 1
            if len(samples) < 4 and (i % 1499 == 7 or (r_["origin"] == "random" and len(r_["modes"]) > 8)):
                samples.append(r_)
    info = _validate(rep, rec, T["rounds"], "record of the real shell")
    vlib.log(f"[p3] {info['events']} records validated against InputLoop in {info['wall']:.1f}s, "
             f"{len(info['rejected'])} rejected")
    os.remove(rec)
    rc = rep.finish()
    unexercised = sorted(a for a, c in cov.items() if c == 0)
    vlib.write_evidence(PID, tier, {
        "states": states,
        "transitions": transitions,
        "traces_validated_against_impl": info["events"],
        "samples": samples,
        "evaluations": hstats["sim_runs"] + hstats["real_runs"],
        "distinct_nontrivial": n_nontrivial + n_rand_nontrivial,
        "rule": "catalogue scenarios (script, final newline, feed class) inside the family whose specified behaviour "
                "has at least one probe event or a syntax error, plus random-script records with a non-empty trace; "
                "each run in every feed mode of its class",
        "exhaustive": True,
        "exhaustive_bound": f"all scripts of the {T['cat_cfg']} bound over 17 line kinds; random scripts beyond",
        "configs": [T["cat_cfg"], T["chunk_cfg"]],
        "catalogue_scenarios_run": n_in,
        "catalogue_scenarios_with_syntax_error": n_err,
        "catalogue_scenarios_leaving_family_prefix_checked": n_skip,
        "harness": hstats,
        "records_rejected": len(info["rejected"]),
        "tlc_action_coverage": cov,
        "actions_not_exercised": unexercised,
    }, time.time() - t0, violations=len(rep.violations), assumptions=[
        "scripts are built from the 17 line kinds of InputLoop.tla (Text); lines joined by backslash-newline to "
        "anything but a plain word list, here-documents without delimiter line and a backslash at end of input "
        "are outside the family (POSIX leaves them open or a token-level grammar would be needed)",
        "`$?` and the exit status are compared as zero / non-zero; the text of diagnostics is not compared",
        "descriptor offsets are observed on regular files (simulated and real) and on simulated pipes; not on real pipes",
        "O_NONBLOCK of descriptor 0 is observed (at every probe and after the run) in pipe-fed runs, about half of "
        "which start with the flag set on the read end; data lines that are not valid UTF-8 appear only where "
        "`read` consumes them (as command text their treatment is open)",
        "real-OS pipe runs cannot control the kernel's scheduling; chunk boundaries are separated by short sleeps",
        "TLC 1.8.0 and the JSON community module are trusted",
    ])
    return rc


def replay(path):
    with open(path) as f:
        obj = json.load(f)
    rec = obj["replay"]
    wd = vlib.workdir(PID + "-replay")
    out = os.path.join(wd, "one.ndjson")
    scen = json.dumps({"lines": rec["lines"], "nl": rec["nl"], "feed": rec["feed"]})
    args = ["one", "--scenario", scen, "--out", out, "--dfs"]
    if any(m.startswith("real:") for m in rec.get("modes", [])):
        args.append("--real")
    vlib.run_harness(PKG, args)
    ok, info = vlib.validate_trace("Trace_InputLoop", out)
    print("accepted" if ok else f"rejected: {info.get('reject')}")
    if not ok:
        print(f"VIOLATION property={PID} replay={path}")
    return 0 if ok else 1
