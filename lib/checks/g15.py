"""G15 — specification growth: command substitution and arithmetic expansion inside words.

The oracle is spec/WordSubst.tla (over spec/Expand.tla, Split.tla, Arith.tla, Int64.tla), written from POSIX XCU
2.6.3 / 2.6.4 / 2.2.3 / 2.6.5 / 2.6.6 / 2.7.4 / 2.9.1 / 2.8.1 / 2.13 and the manual
(docs/src/language/words/{command_substitution,arithmetic,quoting,field_splitting}.md, docs/src/arithmetic.md,
docs/src/language/commands/simple.md).

 0. Calib_WordSubst: worked examples of the manual and of cmdsub-p.sh / arith-p.sh / simple-p.sh hold for the
    oracle (ASSUMEs; a failure is a tool error).
 1. Laws: TLC checks on every unit of the alphabet of Gen_WordSubst (x 9 shell states) that a quoted
    substitution is one field, that exactly the trailing newlines go, that nothing leaks out of the subshell,
    that both backquote escapings denote the command of the $( ) form, the last-substitution status rule, the
    arithmetic laws, `$((x))` = `$(($x))`, and that the module is a conservative extension of Expand.tla.
    Ten negative configurations (named wrong variants of WordSubst.tla) must each be refuted by the law named.
 2. spec -> impl: TLC enumerates words over the unit alphabet (47 command bodies in $( ) / tight $(( / two
    backquote escapings, 48 arithmetic expressions, each also in double quotes and inside ${x-w} ${x=w} ${x#w},
    paired with the C01 units) and raw backquote texts, and prints per word the text and the prescribed outcome
    for 13 contexts x 9 shell states; harness/g15 runs every case on the real shell (simulated OS) and compares
    fields, the variables afterwards and `$?`.
 3. impl -> spec: seeded random words (deeper nesting, random bodies and arithmetic expressions, more states)
    are run and recorded; Trace_WordSubst judges every record (and checks the harness's rendering of the word).
"""
import json
import os
import re
import time
from concurrent.futures import ThreadPoolExecutor

import vlib

PID = "G15"
PKG = "yv-g15"

TIERS = {
    "quick": dict(gen="Gen_WordSubst_quick.cfg", nrandom=8000, timeout=600),
    "thorough": dict(gen="Gen_WordSubst_thorough.cfg", nrandom=80000, timeout=2400),
}

# wrong variant of WordSubst.tla -> the law of Gen_WordSubst that must refute it
NEGATIVE = {
    "strip_ws": "InvNewlines",       # trailing blanks removed as well
    "strip_one": "InvNewlines",      # only one trailing newline removed
    "leak": "InvContained",          # assignments made in the substitution reach the shell
    "bq_any": "InvBackquote",        # a backslash between backquotes is removed before any character
    "bq_nodq": "InvBackquote",       # \" between backquotes is kept inside double quotes
    "status_first": "InvStatus",     # the first substitution's status counts
    "noname_zero": "InvStatus",      # a command without a name always returns 0
    "ar_discard": "InvPinned",       # assignments in $(( )) are lost
    "ar_quoted": "InvPinned",        # the result of $(( )) is never split
    "dq_split": "InvQuoted",         # a substitution in double quotes is split
}

SHARD = 20000

EXPECTED_FEATURES = (
    [f"cs/{f}/{q}" for f in ("par", "tight", "bq-min", "bq-max") for q in ("uq", "dq")]
    + ["ar/uq", "ar/dq", "bqraw/uq", "bqraw/dq", "ar-holds-cs", "ar-holds-ar", "ar-holds-par", "nested-in-body",
       "in-${sw}/uq", "in-${sw}/dq", "in-${trim}/uq"]
    + [f"cmd/{c}" for c in ("put", "echo", "asg", "st", "exit", "sub")]
    + [f"ctx/{c}/ok" for c in ("arg", "cmdname", "for", "assign", "asgseq", "asgcs", "export", "noname", "case", "pat", "redir", "here", "hereq")]
    + [f"ctx/{c}/err" for c in ("arg", "for", "assign", "asgseq", "asgcs", "export", "noname", "case", "pat")]
    + ["fields=0", "fields=1", "fields=2", "fields=>2", "status/0", "status/n", "status/nz"])


def _summary(out):
    line = [l for l in out.strip().splitlines() if l.startswith("{")][-1]
    return json.loads(line)


def _val(v):
    return repr(v["v"]) if v["set"] else "unset"


def _state(st):
    return "x=%s y=%s pos=%s IFS=%s%s $?=%s" % (_val(st["x"]), _val(st["y"]), st["pos"], _val(st["ifs"]),
                                                 " nounset" if st["nounset"] else "", st["st"])


def _brief(o):
    if o.get("k") != "ok":
        return str(o.get("k"))
    return "%s x=%s y=%s IFS=%s $?=%s" % (o.get("f"), _val(o["x"]), _val(o["y"]), _val(o["ifs"]), o.get("q"))


def _key(direction, rec, exp, obs):
    return {"dir": direction, "ctx": rec["ctx"], "text": rec["text"], "state": _state(rec["st"]),
            "exp": _brief(exp), "obs": _brief(obs)}


def _negative(variant):
    r = vlib.tlc("Gen_WordSubst", f"Gen_WordSubst_neg_{variant}.cfg", workers=2, timeout=600)
    txt = r.violation or ""
    m = re.search(r"Invariant (\w+) is violated", txt)
    return variant, (m.group(1) if m else None), r


def _laws(totals):
    with ThreadPoolExecutor(max_workers=4) as ex:
        fut = ex.submit(vlib.tlc, "Gen_WordSubst", "Gen_WordSubst_laws.cfg", None, 3, 900)
        negs = list(ex.map(_negative, sorted(NEGATIVE)))
        r = fut.result()
    vlib.tlc_must_pass(r, "laws (Gen_WordSubst_laws.cfg)")
    totals["states"] += r.distinct
    totals["transitions"] += r.generated
    vlib.log(f"[laws] {r.distinct} units/states: 10 laws hold on every unit of the alphabet x 9 shell states ({r.wall:.1f}s)")
    refuted = {}
    for variant, prop, rn in negs:
        if rn.ok or prop != NEGATIVE[variant]:
            vlib.log(f"[laws] negative configuration {variant}: expected {NEGATIVE[variant]} to be violated, got "
                     f"{prop or ('no violation' if rn.ok else (rn.error or '')[:500])}")
            raise vlib.ToolError(f"wrong variant {variant} is not refuted by {NEGATIVE[variant]}")
        refuted[variant] = prop
    vlib.log(f"[laws] {len(refuted)} wrong variants refuted: " + ", ".join(f"{v} by {p}" for v, p in sorted(refuted.items())))
    return r.distinct, refuted


def _trace(trace, what, timeout, totals):
    """Run Trace_WordSubst over `trace` in shards; returns (n, [(record, verdict)], wall)."""
    with open(trace) as f:
        lines = f.readlines()
    res = []
    wall = 0.0
    for a in range(0, len(lines), SHARD):
        part = lines[a:a + SHARD]
        p = f"{trace}.shard"
        with open(p, "w") as f:
            f.writelines(part)
        r = vlib.tlc("Trace_WordSubst", "Trace_WordSubst.cfg", workers=4, timeout=timeout, env={"TRACE": os.path.abspath(p)})
        os.remove(p)
        vlib.tlc_must_pass(r, f"trace validation ({what})")
        if r.distinct != 2 * len(part) - 1:
            raise vlib.ToolError(f"trace validation ({what}) judged {r.distinct} states for {len(part)} records")
        wall += r.wall
        totals["states"] += r.distinct
        totals["transitions"] += r.generated
        for j in r.json:
            res.append((json.loads(part[j["i"] - 1]), j))
    return len(lines), res, wall


def run(tier):
    t0 = time.time()
    cfg = TIERS[tier]
    wd = vlib.workdir(PID)
    rep = vlib.Reporter(PID)
    totals = {"states": 0, "transitions": 0}
    vlib.build_harness(PKG)

    # 0. calibration
    r = vlib.tlc("Calib_WordSubst", "Calib_WordSubst.cfg", workers=1, timeout=300)
    vlib.tlc_must_pass(r, "calibration examples (Calib_WordSubst)")
    vlib.log(f"[calib] worked examples of command_substitution.md / arithmetic.md / simple.md and of cmdsub-p.sh / "
             f"arith-p.sh / simple-p.sh hold for the oracle ({r.wall:.1f}s)")

    # stages 1-3 overlap (each is dominated by one JVM or by the harness)
    def stage_enum():
        gen = os.path.join(wd, "gen.ndjson")
        r = vlib.tlc("Gen_WordSubst", cfg["gen"], workers=8, timeout=cfg["timeout"], env={"SEED": str(vlib.seed())}, json_out=gen)
        vlib.tlc_must_pass(r, f"enumeration {cfg['gen']}")
        nlines = vlib.count_lines(gen)
        mism = os.path.join(wd, "mismatch.ndjson")
        _, out, _ = vlib.run_harness(PKG, ["replay", "--in", gen, "--out", mism, "--threads", "8"], timeout=cfg["timeout"])
        os.remove(gen)
        return r, nlines, _summary(out), mism

    def stage_random():
        trace = os.path.join(wd, "random.ndjson")
        vlib.run_harness(PKG, ["random", "--n", cfg["nrandom"], "--out", trace, "--threads", "4"], timeout=cfg["timeout"])
        t = {"states": 0, "transitions": 0}
        return trace, _trace(trace, "random words", cfg["timeout"], t), t

    with ThreadPoolExecutor(max_workers=3) as ex:
        f_laws = ex.submit(_laws, totals)
        f_enum = ex.submit(stage_enum)
        f_rand = ex.submit(stage_random)
        law_states, refuted = f_laws.result()          # 1. laws and negative configurations
        r, nlines, s, mism = f_enum.result()
        trace, (n, res, wall), t_rand = f_rand.result()

    # 2. spec -> impl
    totals["states"] += r.distinct + t_rand["states"]
    totals["transitions"] += r.generated + t_rand["transitions"]
    vlib.log(f"[tlc] {cfg['gen']}: {r.distinct} words enumerated, {nlines - 1} printed ({r.wall:.1f}s)")
    if s["words"] != nlines - 1:
        raise vlib.ToolError(f"replay covered {s['words']} of {nlines - 1} words")
    for rec in vlib.read_ndjson(mism):
        key = _key("spec->impl", rec, rec["exp"], rec["obs"])
        detail = (f"[{rec['ctx']}] `{rec['text']}` in [{key['state']}]: specified {_brief(rec['exp'])}, observed "
                  f"{_brief(rec['obs'])} {str(rec['obs'].get('stderr', ''))[:300]}")
        rep.violation(key, detail, {"ctx": rec["ctx"], "w": rec["w"], "st": rec["st"], "exp": rec["exp"]})
    vlib.log(f"[p4->] {s['cases']} (word, context, state) cases of {s['words']} words replayed in {s['runs']} shell runs "
             f"({s['expected_errors']} with a prescribed error, {s['skipped']} left open by the specification): "
             f"{s['mismatches']} mismatches; per context {s['per_ctx']}")
    features = s["features"]
    not_exercised = [t for t in EXPECTED_FEATURES if not features.get(t)]
    if not_exercised:
        vlib.log(f"NOTE: constructs / outcome classes not exercised by the enumeration: {not_exercised}")

    # 3. impl -> spec
    skipped = rej = 0
    for rec, j in res:
        if j["v"] == "skip":
            skipped += 1
            continue
        if j["v"] == "badtext":
            raise vlib.ToolError(f"the harness renders a word differently from the specification: {rec['text']!r} vs "
                                 f"{j['exp']['f']}")
        rej += 1
        key = _key("impl->spec", rec, j["exp"], rec["obs"])
        detail = (f"[{rec['ctx']}] `{rec['text']}` in [{key['state']}] gave {_brief(rec['obs'])}; specified: {_brief(j['exp'])}")
        rep.violation(key, detail, {"ctx": rec["ctx"], "w": rec["w"], "st": rec["st"]})
    judged = n - skipped
    samples = list(s["samples"][:3])
    kinds = {}
    with open(trace) as f:
        for i, line in enumerate(f):
            rec = json.loads(line)
            kinds[rec["obs"]["k"]] = kinds.get(rec["obs"]["k"], 0) + 1
            if i in (11, 2345):
                samples.append({"ctx": rec["ctx"], "text": rec["text"], "state": _state(rec["st"]), "observed": _brief(rec["obs"])})
    vlib.log(f"[p4<-] {n} random records judged by TLC in {wall:.1f}s: {judged - rej} accepted, {skipped} left open by the "
             f"specification, {rej} rejected (observed kinds {kinds})")
    os.remove(trace)

    rc = rep.finish()
    evaluations = s["cases"] + judged
    vlib.write_evidence(PID, tier, {
        "states": totals["states"],
        "transitions": totals["transitions"],
        "traces_validated_against_impl": evaluations,
        "samples": samples,
        "evaluations": evaluations,
        "distinct_nontrivial": s["cases"],
        "rule": "distinct (word AST, context, shell state) cases enumerated by TLC with a prescribed outcome and executed "
                "on the real shell; random recorded cases counted separately",
        "exhaustive": tier == "thorough",
        "exhaustive_over": ("every unit of the alphabet of Gen_WordSubst (47 bodies x forms, 48 expressions, quoted and "
                            "nested variants; 367 units) x 13 contexts x 9 states; every pair new unit x C01 core unit in "
                            "both orders; "
                            + ("a 1/5 sample of the pairs of two new units, all with the full fan of contexts and states; a "
                               "1/60 sample of the alternating triples; raw backquote texts of <= 4 tokens"
                               if tier == "thorough" else
                               "a 1/40 sample of the pairs of two new units (pairs with a reduced fan: 7 contexts x 3 "
                               "states); raw backquote texts of <= 3 tokens")),
        "bounds": {"enumeration": cfg["gen"], "random_records": cfg["nrandom"], "random_nesting_depth": "<= 3"},
        "law_states": law_states,
        "wrong_variants_refuted": refuted,
        "spec_to_impl": {k: s[k] for k in ("words", "cases", "skipped", "expected_errors", "mismatches", "runs", "per_ctx")},
        "construct_coverage": features,
        "constructs_not_exercised": not_exercised,
        "impl_to_spec": {"records": n, "judged": judged, "skipped": skipped, "rejected": rej, "observed_kinds": kinds},
        "known_finding_hits": {fid: cnt for fid, (_f, cnt) in rep.known_hits.items()},
    }, time.time() - t0, violations=len(rep.violations), assumptions=[
        "left open (skipped and counted): NUL bytes in the output; `$((b))` written tight with a single subshell; a "
        "substitution that runs no command as far as `$?` is concerned; quotes, `++`/`--`, the empty expression, the comma "
        "and other undocumented characters in an arithmetic expression; variable values Arith.tla classes unspecified; an "
        "expansion error inside a redirection operand or here-document (expansion error versus redirection error, XCU "
        "2.8.1); a backslash-newline or an unescaped double quote between backquotes; the unspecified \"$@\" case of C01",
        "pathname expansion is modelled for `*` and `?` against the fixed directory d1 f1 'f2 x' only; bracket patterns, "
        "slashes and backslashes stemming from expansions are skipped (C04 / C05)",
        "arithmetic variables are x and y; the text of diagnostics and the exact non-zero status of a failed expansion "
        "are not compared (non-zero and a diagnostic on standard error are)",
        "commands inside substitutions are the probe built-ins put / echo / status, assignments, exit and ( ) lists",
        "TLC 1.8.0 and the JSON community module are trusted",
    ])
    return rc


def replay(path):
    with open(path) as f:
        obj = json.load(f)
    rec = obj["replay"]
    wd = vlib.workdir(PID + "-replay")
    src = os.path.join(wd, "in.ndjson")
    with open(src, "w") as f:
        f.write(json.dumps(rec) + "\n")
    t = os.path.join(wd, "one.ndjson")
    vlib.run_harness(PKG, ["one", "--in", src, "--out", t])
    r = vlib.tlc("Trace_WordSubst", "Trace_WordSubst.cfg", workers=1, timeout=300, env={"TRACE": os.path.abspath(t)})
    vlib.tlc_must_pass(r, "replay validation")
    with open(t) as f:
        print("observed:", f.read().strip())
    rejected = [j for j in r.json if j["v"] == "reject"]
    if rejected:
        print("specified:", json.dumps(rejected[0]["exp"]))
        print(f"VIOLATION property={PID} replay={path}")
        return 1
    print("accepted" if not r.json else "outside the specified fragment")
    return 0
