"""C02 — control flow and exit status follow the POSIX command semantics
(DESIGN.md section 6, "C02 ... C10").  Shared machinery of C02 and C10
(lib/checks/c10.py imports this module).

Oracle: spec/Semantics.tla, a big-step interpreter of the command language
written from POSIX XCU 2.8.1, 2.9, 2.15 and the manual.

Calib  spec/Calib_Semantics.tla: worked examples of the manual and of the
       POSIX-conformance scripts, as ASSUMEs (a failure is a tool error).
P1     spec/Gen_Semantics.tla, INVARIANT Laws: theorems about the
       specification on every program of the bounded enumeration.
P2     INVARIANT Emit prints every program of the bounded enumeration with
       the outcome the specification prescribes; harness/c02 renders it to
       shell text with seeded surface variation, runs the real shell (simulated
       OS; a subset through the true entry point on the real OS) and compares
       probe trace, final status and outcome.
P3     seeded random larger programs are executed first and the records
       {program, observed trace, status} validated by spec/Trace_Semantics.tla.
"""
import json
import os
import threading
import time
from concurrent.futures import ThreadPoolExecutor

import vlib

PID = "C02"
PKG = "yv-c02"
_LOCK = threading.RLock()

# name -> (cfg file, TickLimit of that cfg)
GEN = {
    "andor": ("Gen_Semantics_andor.cfg", 2),
    "flow": ("Gen_Semantics_flow.cfg", 2),
    "loops": ("Gen_Semantics_loops.cfg", 2),
    "loops2": ("Gen_Semantics_loops2.cfg", 3),
    "funcs": ("Gen_Semantics_funcs.cfg", 2),
    "case": ("Gen_Semantics_case.cfg", 2),
    "errexit": ("Gen_Semantics_errexit.cfg", 2),
    "errors": ("Gen_Semantics_errors.cfg", 2),
    "syn": ("Gen_Semantics_syn.cfg", 2),
    "errors5": ("Gen_Semantics_errors5.cfg", 2),
    "errfn": ("Gen_Semantics_errfn.cfg", 2),
    # few tokens, larger size bound: interactions that need 6-8 nodes
    "nest": ("Gen_Semantics_nest.cfg", 2),
    "andor4": ("Gen_Semantics_andor4.cfg", 2),
    "fnloop": ("Gen_Semantics_fnloop.cfg", 2),
    "errsub": ("Gen_Semantics_errsub.cfg", 2),
    "errfun": ("Gen_Semantics_errfun.cfg", 2),
    # TLC simulation mode (random walks of the grow phase) for sizes beyond the exhaustive bound
    "sim12": ("Gen_Semantics_sim12.cfg", 2),
    "simerr": ("Gen_Semantics_simerr.cfg", 2),
}
SIMULATE = {"sim12": 3000, "simerr": 3000}

# tier -> list of (name, K)
PLAN = {
    "C02": {
        "quick": {"laws": ["MC_Semantics_cov.cfg", "MC_Semantics_laws_all.cfg", "MC_Semantics_laws_flow.cfg"],
                  "gen": [("andor", 5), ("flow", 4), ("loops", 5), ("loops2", 7), ("funcs", 4), ("case", 4),
                          ("nest", 6), ("andor4", 8), ("fnloop", 6)],
                  "variants": 2, "random": (1200, 40, "c02"), "real": ("flow", 4, 40)},
        "thorough": {"laws": ["MC_Semantics_cov.cfg", "MC_Semantics_laws_all.cfg", "MC_Semantics_laws_flow5.cfg"],
                     "gen": [("andor", 7), ("flow", 5), ("loops", 6), ("loops2", 7), ("funcs", 5), ("case", 5),
                             ("nest", 7), ("andor4", 9), ("fnloop", 7), ("sim12", 12)],
                     "variants": 3, "random": (20000, 40, "c02"), "real": ("flow", 4, 6)},
    },
    "C10": {
        "quick": {"laws": ["MC_Semantics_cov.cfg", "MC_Semantics_laws_all.cfg", "MC_Semantics_laws_errors.cfg"],
                  "gen": [("errexit", 4), ("errors", 4), ("errfn", 6), ("syn", 4), ("errsub", 6), ("errfun", 6)],
                  "variants": 2, "random": (800, 40, "c10"), "real": ("errors", 3, 8)},
        "thorough": {"laws": ["MC_Semantics_cov.cfg", "MC_Semantics_laws_all.cfg", "MC_Semantics_laws_errors.cfg",
                              "MC_Semantics_laws_errexit.cfg"],
                     "gen": [("errexit", 5), ("errors", 4), ("errors5", 5), ("errfn", 7), ("syn", 6), ("errsub", 7),
                             ("errfun", 7), ("simerr", 10)],
                     "variants": 2, "random": (20000, 40, "c10"), "real": ("errors", 4, 40)},
    },
}


def compact(p):
    """One-line rendering of a token list (for keys and samples)."""
    out = []
    for t in p:
        s = t["k"]
        if t["k"] in ("mk", "brk", "cnt", "ret", "exit"):
            s += str(t["n"])
        if t["k"] in ("cmd", "def", "for", "case"):
            s += ":" + t["s"]
        if t["k"] == "item":
            s += ":" + t["s"] + ("", "&", "|")[t["n"]]
        if t["w"]:
            s = "command." + s
        if t["r"]:
            s += "<nx"
        out.append(s)
    return " ".join(out)


def _cfg_with_k(cfg, k, wd):
    """Copy of spec/<cfg> with the size bound replaced, written to the scratch
    directory (TLC takes an absolute -config path)."""
    if k is None:
        return cfg
    src = os.path.join(vlib.SPEC, cfg)
    name = os.path.join(wd, f"K{k}_{cfg}")
    with open(src) as f:
        text = f.read()
    lines = []
    for line in text.splitlines():
        if line.strip().startswith("K ="):
            line = f"  K = {k}"
        lines.append(line)
    with open(name, "w") as f:
        f.write("\n".join(lines) + "\n")
    return name


class _LockedReporter:
    """The reporter handed to a stage that runs concurrently with the replay tasks."""

    def __init__(self, rep):
        self._rep = rep

    def violation(self, key, detail, replay_obj):
        with _LOCK:
            return self._rep.violation(key, detail, replay_obj)

    def __getattr__(self, name):
        return getattr(self._rep, name)


class Stats:
    def __init__(self):
        self.states = 0
        self.transitions = 0
        self.programs = 0
        self.runs = 0
        self.pairs_ok = 0
        self.unspec = 0
        self.div = 0
        self.unsupported = 0
        self.samples = []
        self.per_cfg = {}
        self.kinds = {}
        self.tags = {}
        self.coverage = {}


def calibrate():
    r = vlib.tlc("Calib_Semantics", "Calib_Semantics.cfg", workers=1, timeout=300)
    vlib.tlc_must_pass(r, "calibration of the oracle (Calib_Semantics)")
    vlib.log(f"[calib] worked examples of docs/src and *-p.sh hold in Semantics.tla ({r.wall:.1f}s)")


def laws(cfg, st, workers=4, coverage=False):
    r = vlib.tlc("Gen_Semantics", cfg, workers=workers, timeout=2400, coverage=coverage)
    vlib.tlc_must_pass(r, f"laws of the specification ({cfg})")
    with _LOCK:
        st.states += r.distinct
        st.transitions += r.generated
        for a, c in r.coverage.items():
            st.coverage[a] = st.coverage.get(a, 0) + c
    vlib.log(f"[p1] {cfg}: laws hold on {r.distinct} program prefixes ({r.wall:.1f}s)")


def _violation(rep, pid, layer, cfgname, p, f, mode, tick):
    key = {"layer": layer, "cfg": cfgname, "prog": compact(p), "e": f.get("e", 0), "t": f.get("t", 0),
           "y": f.get("y", 0), "m": f.get("m", 0), "why": f.get("why", ""), "tag": f.get("tag", ""), "mode": mode}
    replay = {"p": p, "e": f.get("e", 0), "t": f.get("t", 0), "y": f.get("y", 0), "m": f.get("m", 0),
              "text": f.get("text"),
              "flags": f.get("flags", []), "stdin": f.get("stdin", False), "mode": mode, "tick": tick,
              "expected": f.get("expected"), "observed": f.get("observed")}
    detail = (f"{layer} {cfgname}: the shell's run of the program differs from what Semantics.tla prescribes "
              f"({f.get('why')})")
    rep.violation(key, detail, replay)


def gen_and_replay(rep, pid, wd, name, k, st, variants, workers=4, jobs=4, real_every=0):
    """Enumerate the programs of configuration `name` with size bound k (TLC),
    replay all of them on the simulated OS and, if real_every > 0, every
    real_every-th of them through the true entry point on the real OS."""
    cfg, tick = GEN[name]
    tmp = _cfg_with_k(cfg, k, wd)
    gen = os.path.join(wd, f"{name}-{k}.gen.ndjson")
    if name in SIMULATE:
        r = vlib.tlc("Gen_Semantics", tmp, workers=workers, timeout=2400, json_out=gen,
                     simulate=SIMULATE[name], depth=60, tool_seed=vlib.seed())
    else:
        r = vlib.tlc("Gen_Semantics", tmp, workers=workers, timeout=2400, json_out=gen)
    vlib.tlc_must_pass(r, f"program enumeration {cfg} K={k}")
    nprog = vlib.count_lines(gen)
    with _LOCK:
        st.states += r.distinct
        st.transitions += r.generated
    _replay(rep, pid, wd, name, k, st, gen, nprog, r, tick, variants, jobs, "sim", 1)
    if real_every:
        _replay(rep, pid, wd, name, k, st, gen, nprog, r, tick, 1, jobs, "real", real_every)
    os.remove(gen)


def _replay(rep, pid, wd, name, k, st, gen, nprog, r, tick, variants, jobs, mode, every):
    ver = os.path.join(wd, f"{name}-{k}-{mode}.verdict.ndjson")
    t1 = time.time()
    vlib.run_harness(PKG, ["run", "--in", gen, "--out", ver, "--mode", mode, "--variants", variants,
                           "--jobs", jobs, "--tick", tick, "--every", every], timeout=3000)
    t2 = time.time()
    with _LOCK:
        runs = unspec = div = unsupported = pairs = nfail = handled = 0
        lost = {}
        for v in vlib.read_ndjson(ver):
            if v.get("note"):
                vlib.log(f"[p2] note: {v['note']}")
                continue
            handled += 1
            if v.get("bad"):
                raise vlib.ToolError(f"harness could not parse program {v}")
            if v.get("lost"):
                lost[v["i"]] = v
                continue
            runs += v["runs"]
            unspec += v["unspec"]
            div += v["div"]
            unsupported += v["unsupported"]
            pairs += v["runs"] // max(1, int(variants))
            for t in v["p"]:
                kk = t["k"] + (".command" if t["w"] else "") + ("<nx" if t["r"] else "")
                st.kinds[kk] = st.kinds.get(kk, 0) + 1
            if v.get("sample") and len(st.samples) < 6:
                st.samples.append({"cfg": name, "mode": mode, "program": compact(v["p"]), **v["sample"]})
            for f in v.get("fails", [])[:1]:
                nfail += 1
                _violation(rep, pid, "P2", name, v["p"], f, mode, tick)
        if lost:
            # a hang / crash of the shell: find the tags the specification attached
            for i, line in enumerate(vlib.read_ndjson(gen)):
                if i in lost:
                    oks = [o for o in line["o"] if o["oc"] == "ok"]
                    tag = "".join(sorted(set("".join(o.get("tag", "") for o in oks))))
                    f = {"why": lost[i]["lost"], "tag": tag, "e": -1, "t": -1, "y": -1,
                         "expected": oks[:1], "observed": {"oc": lost[i]["lost"]}}
                    nfail += 1
                    _violation(rep, pid, "P2", name, line["p"], f, mode, tick)
        st.programs += handled
        st.runs += runs
        st.pairs_ok += pairs
        st.unspec += unspec
        st.div += div
        st.unsupported += unsupported
        st.per_cfg[f"{name}/K={k}/{mode}"] = {"programs_enumerated": nprog, "programs_replayed": handled, "runs": runs,
                                             "skipped_unspecified": unspec, "skipped_diverging": div,
                                             "mismatches": nfail, "tlc_states": r.distinct, "tlc_s": round(r.wall, 1),
                                             "harness_s": round(t2 - t1, 1)}
    vlib.log(f"[p2] {name} K={k} {mode}: {nprog} programs enumerated by TLC ({r.wall:.1f}s), {handled} replayed, "
             f"{runs} runs ({t2 - t1:.1f}s), {unspec} unspecified + {div} diverging option-runs skipped, "
             f"{nfail} mismatching program(s)")
    os.remove(ver)


def _tlc_trace(path, cfg, timeout):
    return vlib.tlc("Trace_Semantics", cfg, workers=1, timeout=timeout, env={"TRACE": os.path.abspath(path)},
                    depth_first=True, want_lines=True, xmx="3g")


def validate_records(path, cfg="Trace_Semantics.cfg", shards=8, timeout=2400, max_rejects=40):
    """Sharded trace validation of an ndjson file of records.  A TLC run stops
    at its first rejected record, so the remainder of that piece is validated
    again in the next round.  Returns (rejects, skips, wall, n); a reject is
    (0-based index, what the specification prescribes or None)."""
    import re
    with open(path) as f:
        lines = f.readlines()
    n = len(lines)
    rejects, skips = [], {}
    t0 = time.time()
    segments = [(0, n)]
    rnd = 0
    while segments:
        rnd += 1
        pieces = []
        total = sum(b - a for a, b in segments)
        per = max(1, (total + shards - 1) // shards)
        for a, b in segments:
            k = a
            while k < b:
                pieces.append((k, min(b, k + per)))
                k += per
        segments = []
        files = []
        for a, b in pieces:
            p = f"{path}.r{rnd}.{a}"
            with open(p, "w") as f:
                f.writelines(lines[a:b])
            files.append(p)
        with ThreadPoolExecutor(max_workers=shards) as ex:
            results = list(ex.map(lambda p: _tlc_trace(p, cfg, timeout), files))
        for p in files:
            try:
                os.remove(p)
            except OSError:
                pass
        for (a, b), r in zip(pieces, results):
            for j in r.json:
                if "skip" in j:
                    skips[j["skip"]] = skips.get(j["skip"], 0) + 1
            if r.ok:
                continue
            rej = [j for j in r.json if "reject" in j]
            local = None
            info = None
            if rej:
                local, info = rej[0]["reject"], rej[0]
            else:
                for l in r.lines:
                    m = re.search(r'"REJECT", (\d+)', l)
                    if m:
                        local = int(m.group(1))
                        break
            if local is None:
                raise vlib.ToolError(f"trace validation tool error: {(r.error or r.violation or '')[:2000]}")
            g = a + local - 1
            rejects.append((g, info))
            if g + 1 < b:
                segments.append((g + 1, b))
        if len(rejects) > max_rejects:
            break
    rejects.sort(key=lambda x: x[0])
    return rejects, skips, time.time() - t0, n


def random_and_validate(rep, pid, wd, n, size, profile, st, jobs=4, shards=8):
    recs = os.path.join(wd, "random.ndjson")
    full = os.path.join(wd, "random.full.ndjson")
    t0 = time.time()
    vlib.run_harness(PKG, ["random", "--n", n, "--size", size, "--profile", profile, "--out", recs, "--full", full,
                           "--jobs", jobs, "--tick", 2], timeout=3000)
    t1 = time.time()
    fulls = list(vlib.read_ndjson(full))
    total = len(fulls)
    rejects, skips, wall, cnt = validate_records(recs, shards=shards)
    if cnt != total:
        raise vlib.ToolError("record files out of step")
    with _LOCK:
        for g, info in rejects:
            rec = fulls[g]
            f = {"e": rec["e"], "t": rec["t"], "y": rec["y"], "m": rec.get("m", 0), "why": "rejected by Trace_Semantics",
                 "tag": (info or {}).get("tag", ""), "text": rec.get("text"), "flags": rec.get("flags", []),
                 "stdin": rec.get("stdin", False),
                 "expected": {"tr": (info or {}).get("tr"), "st": (info or {}).get("st")},
                 "observed": {"oc": rec["oc"], "tr": rec["tr"], "st": rec["st"], "detail": rec.get("detail", "")}}
            _violation(rep, pid, "P3", profile, rec["p"], f, "sim", 2)
    nskip = sum(skips.values())
    st.runs += total
    st.per_cfg[f"random/{profile}/size<={size}"] = {"records": total, "rejected": len(rejects), "skipped": skips,
                                                    "harness_s": round(t1 - t0, 1), "tlc_s": round(wall, 1)}
    vlib.log(f"[p3] {total} random programs (size <= {size}, profile {profile}) executed ({t1 - t0:.1f}s) and validated "
             f"by Trace_Semantics ({wall:.1f}s): {len(rejects)} rejected, {nskip} skipped as unspecified/diverging {skips}")
    if fulls and len(st.samples) < 8:
        r0 = fulls[min(3, len(fulls) - 1)]
        st.samples.append({"cfg": "random/" + profile, "text": r0.get("text"), "observed": {"tr": r0["tr"], "st": r0["st"]}})
    os.remove(recs)
    os.remove(full)
    return total - nskip - len(rejects), nskip


def run_property(pid, tier, stage=None):
    """`stage` (optional, used by C10): a callable (tier, reporter) -> dict run next to the tasks of this
    check; its violations go to the same reporter, its numbers {"name", "states", "transitions",
    "validated", "evaluations", "distinct_nontrivial", "coverage", "samples", "assumptions"} into the same
    evidence file."""
    t0 = time.time()
    wd = vlib.workdir(pid)
    rep = vlib.Reporter(pid)
    st = Stats()
    plan = PLAN[pid][tier]
    vlib.build_harness(PKG)
    calibrate()
    big = tier == "thorough"
    # P1 (laws of the specification; action coverage read back on the first
    # configuration), P2 (enumerate + replay) and P3 (random programs) are
    # independent: three at a time.
    n, size, profile = plan["random"]
    real_name, real_k, real_every = plan["real"]
    res = {}
    tasks = []
    for i, cfg in enumerate(plan["laws"]):
        tasks.append(lambda cfg=cfg, i=i: laws(cfg, st, workers=4, coverage=(i == 0)))
    tasks.append(lambda: res.update(p3=random_and_validate(rep, pid, wd, n, size, profile, st, jobs=4, shards=6)))
    if pid == "C02":
        # command search on the real kernel (PATH search takes the first executable *regular file*): stage of G04
        from checks import g04
        tasks.append(lambda: res.update(cmdsearch=g04.run_stage(tier, _LockedReporter(rep), budget="c02")))
    if stage is not None:
        tasks.append(lambda: res.update(stage=stage(tier, _LockedReporter(rep))))
    gens = list(plan["gen"])
    if (real_name, real_k) not in gens:
        gens.append((real_name, real_k))
    for name, k in gens:
        tasks.append(lambda name=name, k=k: gen_and_replay(
            rep, pid, wd, name, k, st, plan["variants"], workers=4, jobs=4,
            real_every=real_every if (name, k) == (real_name, real_k) else 0))
    with ThreadPoolExecutor(max_workers=3 if stage is None else 4) as ex:
        futs = [ex.submit(t) for t in tasks]
        for f in futs:
            f.result()
    validated, skipped = res["p3"]
    rc = rep.finish()
    sg = res.get("stage") or {}
    vlib.write_evidence(pid, tier, {
        "states": st.states + sg.get("states", 0),
        "transitions": st.transitions + sg.get("transitions", 0),
        "traces_validated_against_impl": st.pairs_ok + validated + sg.get("validated", 0),
        "samples": st.samples + sg.get("samples", []),
        "evaluations": st.runs + sg.get("evaluations", 0),
        "distinct_nontrivial": st.pairs_ok + sg.get("distinct_nontrivial", 0),
        "rule": "distinct (program, run options) pairs of the bounded enumeration for which the specification "
                "prescribes an outcome (not unspecified, not diverging), each executed on the real shell in "
                "`variants` surface renderings; random programs counted separately",
        "exhaustive": True,
        "programs_enumerated_and_replayed": st.programs,
        "option_runs_skipped_unspecified": st.unspec,
        "option_runs_skipped_diverging": st.div,
        "option_runs_not_renderable_on_real_os": st.unsupported,
        "random_programs_validated": validated,
        "random_programs_skipped": skipped,
        "per_configuration": st.per_cfg,
        "token_kinds_replayed": st.kinds,
        "tlc_action_coverage": st.coverage,
        "known_finding_hits": {fid: n for fid, (f, n) in rep.known_hits.items()},
        **({"cmdsearch_stage": res["cmdsearch"]} if "cmdsearch" in res else {}),
        **({sg["name"]: sg["coverage"]} if sg else {}),
    }, time.time() - t0, violations=len(rep.violations), assumptions=[
        "the probe built-ins mk/probe/tick registered by the harness behave as Semantics.tla describes its leaves",
        "events of concurrently running pipeline members are compared after the canonical linearisation "
        "(pipeline order); their interleaving is not part of the property",
        "exit statuses POSIX only bounds are compared as symbols (any value in 1..255, consistently)",
        "programs the specification classifies as unspecified (break/continue/return without an enclosing "
        "loop/function in the same execution environment, ...) or as not terminating within the fuel are skipped",
        "TLC 1.8.0 and the JSON community module are trusted",
    ] + (["command-search stage: the assumptions of G04 (B3): executables are #!/bin/sh scripts in a scratch "
          "directory; what ran is read from their output; the wording of `command -V` / `type` is classified by "
          "keywords"] if "cmdsearch" in res else []) + sg.get("assumptions", []))
    return rc


def run(tier):
    return run_property(PID, tier)


def replay_property(pid, path):
    with open(path) as f:
        obj = json.load(f)
    rec = obj["replay"]
    if isinstance(rec, dict) and rec.get("stage") == "g04":
        from checks import g04
        return g04.replay(path)
    wd = vlib.workdir(pid + "-replay")
    src = os.path.join(wd, "in.json")
    with open(src, "w") as f:
        json.dump(rec, f)
    rc, out, _ = vlib.run_harness(PKG, ["redo", "--in", src, "--tick", rec.get("tick", 2)])
    res = json.loads(out.strip().splitlines()[-1])
    obs = res["observed"]
    print("text:\n" + res["text"])
    print("observed:", json.dumps(obs))
    one = os.path.join(wd, "one.ndjson")
    with open(one, "w") as f:
        f.write(json.dumps({"p": rec["p"], "e": max(0, rec["e"]), "t": max(0, rec["t"]), "y": max(0, rec["y"]),
                            "oc": obs["oc"], "tr": obs["tr"], "st": obs["st"]}) + "\n")
    cfg = "Trace_Semantics_t3.cfg" if rec.get("tick", 2) == 3 else "Trace_Semantics.cfg"
    rejects, skips, _, _ = validate_records(one, cfg=cfg, shards=1)
    if rec.get("mode") == "real" and rejects and any(t["k"] == "pipe" for t in rec["p"]):
        print("note: real-OS runs of pipelines are compared as multisets by the check")
    if rejects:
        print("rejected by Trace_Semantics; the specification prescribes:", json.dumps(rejects[0][1]))
        print(f"VIOLATION property={pid} replay={path}")
        return 1
    print("accepted by Trace_Semantics" + (f" (skipped: {skips})" if skips else ""))
    return 0


def replay(path):
    return replay_property(PID, path)
