"""C12 — job table consistency (DESIGN.md section 6, C12).

P1  TLC checks the five invariants + number stability on every reachable state
    of the implementation-shaped model spec/JobList.tla.
P2  every (state, operation) pair of that graph is replayed on a real
    yash_env::job::JobList; the observed {pre, op, res, post} records are
P3  validated by TLC against the abstract contract spec/JobListAbs.tla
    (Trace_JobList), as are long random histories beyond the bounds.
P4  "%%, %+, %-, %n and $! designate the jobs the documentation says they do"
    THROUGH the built-ins (jobs, fg, bg, wait, kill, `cmd &`): a reduced slice of
    the job-control module G02 (spec/JobCtl.tla over JobListAbs, harness/g02,
    Trace_JobCtl), see checks.g02.run_stage.
"""
import json
import os
import time

import vlib

PID = "C12"
PKG = "yv-c12"

CONFIGS = {
    # name: (cfg, n, pids, flags)
    "quick": [("MC_JobList_quick.cfg", 3, 3, False), ("MC_JobList_flags.cfg", 2, 2, True)],
    "thorough": [("MC_JobList_quick.cfg", 3, 3, False), ("MC_JobList_flags.cfg", 2, 2, True),
                 ("MC_JobList_big.cfg", 4, 4, False)],
}


def _check_records(rep, trace, what, samples, shards=8, timeout=1500):
    ok, info = vlib.validate_trace_sharded("Trace_JobList", trace, shards=shards, timeout=timeout)
    if not ok:
        for f in info.get("failures", []):
            rec = json.loads(f["record"]) if f.get("record") else None
            if rec is None:
                raise vlib.ToolError(f"trace rejected without a record: {f}")
            key = {"op": rec["op"]["op"], "pre": rec["pre"], "args": rec["op"]}
            rep.violation(key, f"{what}: step not allowed by JobListAbs (or invariant broken)", rec)
    return info


def run(tier):
    t0 = time.time()
    wd = vlib.workdir(PID)
    rep = vlib.Reporter(PID)
    states = transitions = 0
    coverage_actions = {}
    validated = 0
    samples = []
    for cfg, n, k, flags in CONFIGS[tier]:
        gen = os.path.join(wd, cfg + ".states.ndjson")
        r = vlib.tlc("JobList", cfg, workers=8, json_out=gen, coverage=(cfg == "MC_JobList_quick.cfg"),
                     timeout=3000)
        vlib.tlc_must_pass(r, f"model check {cfg}")
        vlib.log(f"[tlc] {cfg}: {r.distinct} distinct states, {r.generated} generated, depth {r.depth}, {r.wall:.1f}s")
        states += r.distinct
        transitions += r.generated
        for a, c in r.coverage.items():
            coverage_actions[a] = coverage_actions.get(a, 0) + c
        trace = os.path.join(wd, cfg + ".trace.ndjson")
        args = ["replay", "--n", str(n), "--pids", str(k), "--in", gen, "--out", trace]
        if flags:
            args.append("--flags")
        vlib.run_harness(PKG, args)
        info = _check_records(rep, trace, f"replay of {cfg}", samples)
        validated += info["events"]
        vlib.log(f"[p2] {cfg}: {info['events']} (state, op) records validated against JobListAbs in {info['wall']:.1f}s")
        if not samples:
            with open(trace) as f:
                for i, line in enumerate(f):
                    if i in (0, 777, 4242):
                        samples.append(json.loads(line))
        os.remove(gen)
        os.remove(trace)
    # P3: random long histories beyond the exhaustive bounds
    trace = os.path.join(wd, "random.trace.ndjson")
    runs, steps = (20, 1500) if tier == "quick" else (200, 3000)
    vlib.run_harness(PKG, ["random", "--n", "8", "--pids", "12", "--steps", str(steps), "--runs", str(runs),
                      "--out", trace])
    info = _check_records(rep, trace, "random history", samples)
    vlib.log(f"[p3] random histories: {info['events']} steps validated in {info['wall']:.1f}s")
    random_steps = info["events"]
    os.remove(trace)
    # P4: the built-ins over the job table (stage of G02)
    from checks import g02
    jobctl = g02.run_stage(tier, rep, budget="c12")
    rc = rep.finish()
    unexercised = [a for a, c in coverage_actions.items() if c == 0]
    vlib.write_evidence(PID, tier, {
        "states": states,
        "transitions": transitions,
        "traces_validated_against_impl": validated + random_steps,
        "samples": samples,
        "evaluations": validated + random_steps,
        "distinct_nontrivial": validated,
        "rule": "one record per distinct (observable pre-state, operation) pair reachable in the bounded model, "
                "each executed on the real JobList; random histories counted separately",
        "exhaustive": True,
        "configs": [c[0] for c in CONFIGS[tier]],
        "tlc_action_coverage": coverage_actions,
        "actions_not_exercised": unexercised,
        "random_history_steps": random_steps,
        "jobctl_stage": jobctl,
    }, time.time() - t0, violations=len(rep.violations), assumptions=[
        "insert is called with a fresh pid or the pid of a finished job (the property's quantifier)",
        "jobctl stage: the assumptions of G02 (simulated kernel: signals only to processes blocked in their body; "
        "no terminal)",
        "TLC 1.8.0 and the JSON community module are trusted",
    ])
    return rc


def replay(path):
    with open(path) as f:
        obj = json.load(f)
    rec = obj["replay"]
    if isinstance(rec, dict) and rec.get("stage") == "g02":
        from checks import g02
        return g02.replay(path)
    wd = vlib.workdir(PID + "-replay")
    t = os.path.join(wd, "one.ndjson")
    # re-execute the step on the current tree
    src = os.path.join(wd, "in.ndjson")
    with open(src, "w") as f:
        f.write(json.dumps(rec) + "\n")
    vlib.run_harness(PKG, ["redo", "--in", src, "--out", t])
    ok, info = vlib.validate_trace("Trace_JobList", t)
    print("accepted" if ok else f"rejected: {info}")
    if not ok:
        print(f"VIOLATION property={PID} replay={path}")
    return 0 if ok else 1
