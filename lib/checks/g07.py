"""G07 — specification growth: nested execution contexts created by built-in
utilities (eval, dot / source, exec, return, exit, break, continue, EXIT trap).

Oracle: spec/NestedExec.tla, a big-step interpreter of a small command
language with the nodes eval(P), dot(P), exec, return, exit, break, continue,
trap, written from POSIX XCU 2.15 / 2.8.1 / 2.9.4-5 / 2.13 and the manual
(docs/src/builtins/{eval,source,exec,return,exit,break,continue}.md,
docs/src/termination.md).

Calib  spec/Calib_NestedExec.tla: worked examples of the manual and of the
       POSIX-conformance scripts eval-p.sh, source-p.sh, exec-p.sh,
       return-p.sh, exit-p.sh, break-p.sh as ASSUMEs (a failure is a tool error).
Laws   spec/Gen_NestedExec.tla, INVARIANT Laws: theorems about the
       specification on every program of a bounded enumeration (eval is
       transparent, errexit only cuts, the EXIT trap runs once and last unless
       the process image was replaced, nothing runs after exit / exec).
S->I   INVARIANT Emit prints every program of the bounded enumerations with the
       outcome the specification prescribes per run option (errexit, EXIT
       trap variant); harness/g07 renders it to shell text + dot-script files
       (seeded surface variation: separators, quoting and splitting of eval
       operands, pathname spellings, PATH search), runs the real shell on the
       simulated OS and compares probe trace and final status.  The `exec
       utility` family (a replaced process image cannot be simulated) and a
       sample of the others go through the true entry point on the real OS.
I->S   seeded random larger programs are executed first (simulated OS; a
       subset on the real OS) and the records {program, options, observed
       trace, status} judged by spec/Trace_NestedExec.tla.
"""
import json
import os
import threading
import time
from concurrent.futures import ThreadPoolExecutor

import vlib

PID = "G07"
PKG = "yv-g07"
_LOCK = threading.Lock()

GEN = {
    "evalloop": "Gen_NestedExec_evalloop.cfg",
    "dotret": "Gen_NestedExec_dotret.cfg",
    "exit": "Gen_NestedExec_exit.cfg",
    "errors": "Gen_NestedExec_errors.cfg",
    "errexit": "Gen_NestedExec_errexit.cfg",
    "exec": "Gen_NestedExec_exec.cfg",
    "nest": "Gen_NestedExec_nest.cfg",
    "pos": "Gen_NestedExec_pos.cfg",
    "sete": "Gen_NestedExec_sete.cfg",
    "execnest": "Gen_NestedExec_execnest.cfg",
    # nested-errors stage of property C10 (lib/checks/c10.py): failing commands `fail c`
    "c10err": "Gen_NestedExec_c10err.cfg",
    "c10nest": "Gen_NestedExec_c10nest.cfg",
    "c10nest2": "Gen_NestedExec_c10nest2.cfg",
}

# gen: (name, K, mode, every)   mode sim|real; every: replay every n-th program
PLAN = {
    "quick": {
        "laws": [("MC_NestedExec_laws.cfg", 3)],
        "gen": [("evalloop", 5, "sim", 1), ("dotret", 5, "sim", 1), ("exit", 5, "sim", 1), ("errors", 4, "sim", 1),
                ("errexit", 5, "sim", 1), ("nest", 6, "sim", 1), ("pos", 5, "sim", 1), ("sete", 5, "sim", 1),
                ("exec", 3, "real", 1), ("execnest", 4, "real", 1), ("exec", 4, "sim", 1),
                ("exit", 4, "real", 16), ("dotret", 4, "real", 8), ("pos", 4, "real", 4)],
        "variants": 2, "random": (6000, 30), "random_real": (300, 24), "jobs": 6,
    },
    "thorough": {
        "laws": [("MC_NestedExec_laws.cfg", 4)],
        "gen": [("evalloop", 6, "sim", 1), ("dotret", 6, "sim", 1), ("exit", 5, "sim", 1), ("errors", 5, "sim", 1),
                ("errexit", 6, "sim", 1), ("nest", 7, "sim", 1), ("pos", 6, "sim", 1), ("sete", 6, "sim", 1),
                ("exec", 4, "real", 1), ("execnest", 5, "real", 1), ("exec", 5, "sim", 1),
                ("exit", 4, "real", 2), ("dotret", 4, "real", 2), ("errors", 4, "real", 8), ("evalloop", 4, "real", 1),
                ("pos", 4, "real", 1), ("sete", 4, "real", 2)],
        "variants": 3, "random": (60000, 40), "random_real": (3000, 30), "jobs": 8,
    },
}


def compact(p):
    """One-line rendering of a token list (for keys and samples)."""
    out = []
    for t in p:
        s = t["k"]
        if t["k"] in ("mk", "brk", "cnt", "ret", "exit", "for", "trap", "dot", "dotmiss", "setpp", "sete"):
            s += str(t["n"])
        if t["k"] in ("cmd", "def"):
            s += ":" + t["s"] + (str(t["n"]) if t["n"] else "")
        if t["k"] == "exec":
            s += ":" + t["s"] + (str(t["n"]) if t["s"] == "found" else "")
        if t["k"] == "fail":
            s += ":" + t["s"]
        out.append(s)
    return " ".join(out)


def _cfg_with_k(cfg, k, wd):
    src = os.path.join(vlib.SPEC, cfg)
    name = os.path.join(wd, f"K{k}_{cfg}")
    with open(src) as f:
        text = f.read()
    lines = []
    for line in text.splitlines():
        if line.strip().startswith("K ="):
            line = f"  K = {k}"
        lines.append(line)
    with open(name, "w") as f:
        f.write("\n".join(lines) + "\n")
    return name


def _unify(exp_tr, exp_st, obs_tr, obs_st):
    """The comparison of harness/g07 `matches0`: statuses <= -10 are symbols
    bound consistently to one observed value in 1..255."""
    e = [tuple(x) for x in exp_tr] + [(None, exp_st)]
    o = [tuple(x) for x in obs_tr] + [(None, obs_st)]
    if len(e) != len(o):
        return False
    bind = {}
    for (em, es), (om, os_) in zip(e, o):
        if em != om:
            return False
        if es <= -10:
            if not 1 <= os_ <= 255 or bind.setdefault(es, os_) != os_:
                return False
        elif es != os_:
            return False
    return True


# every rule tag of NestedExec.tla (the interpreter's rules that carry a tag)
_CTX = ("top", "eval", "dot", "fn", "sub")
RULE_TAGS = ([f"{k}@{c}" for k in ("errexit", "exit", "brk", "cnt", "evalsyn", "dotmiss", "dotsyn", "exec", "exec127",
                                  "exec126") for c in _CTX]
             + [f"ret@{c}" for c in ("eval", "dot", "fn")]
             + ["ret-ends-fn", "ret-ends-dot", "evalnil", "dotnil", "trap-errexit", "trap-exit-default", "trap-exit-n"]
             + [f"trap-after-{w}" for w in ("eof", "exit", "errexit", "error", "execfail")])


class Stats:
    def __init__(self):
        self.states = 0
        self.transitions = 0
        self.programs = 0
        self.runs = 0
        self.pairs_ok = 0
        self.unspec = 0
        self.div = 0
        self.unsupported = 0
        self.samples = []
        self.per_cfg = {}
        self.kinds = {}
        self.tags = {}
        self.rtags = {}


def calibrate():
    r = vlib.tlc("Calib_NestedExec", "Calib_NestedExec.cfg", workers=1, timeout=300)
    vlib.tlc_must_pass(r, "calibration of the oracle (Calib_NestedExec)")
    vlib.log(f"[calib] worked examples of docs/src and *-p.sh hold in NestedExec.tla ({r.wall:.1f}s)")


def laws(cfg, k, wd, st, workers=4):
    r = vlib.tlc("Gen_NestedExec", _cfg_with_k(cfg, k, wd), workers=workers, timeout=2400)
    vlib.tlc_must_pass(r, f"laws of the specification ({cfg} K={k})")
    with _LOCK:
        st.states += r.distinct
        st.transitions += r.generated
    vlib.log(f"[laws] {cfg} K={k}: laws hold on {r.distinct} program prefixes ({r.wall:.1f}s)")


def _violation(rep, layer, cfgname, p, f, mode, stage=None):
    tg = " ".join(sorted(f.get("tg") or []))
    key = {"layer": layer, "cfg": cfgname, "prog": compact(p), "e": f.get("e", 0), "t": f.get("t", 0),
           "why": f.get("why", ""), "tg": tg, "feat": f.get("feat", ""), "mode": mode}
    replay = {"p": p, "e": f.get("e", 0), "t": f.get("t", 0), "text": f.get("text"), "files": f.get("files", []),
              "flags": f.get("flags", []), "stdin": f.get("stdin", False), "mode": mode,
              "expected": f.get("expected"), "observed": f.get("observed")}
    if stage:
        # run as a stage of another property's check: say so, and name the concrete failing commands
        key["stage"] = replay["stage"] = stage
        key["inv"] = replay["inv"] = " | ".join(f.get("inv") or [])
    detail = (f"{layer} {cfgname}: the shell's run of the program differs from what NestedExec.tla prescribes "
              f"({f.get('why')})")
    rep.violation(key, detail, replay)


def gen_and_replay(rep, wd, name, k, mode, every, st, variants, workers=4, jobs=4, stage=None):
    """Enumerate the programs of configuration `name` with size bound k (TLC)
    and replay every `every`-th of them on the simulated / real OS."""
    cfg = GEN[name]
    tmp = _cfg_with_k(cfg, k, wd)
    gen = os.path.join(wd, f"{name}-{k}-{mode}.gen.ndjson")
    r = vlib.tlc("Gen_NestedExec", tmp, workers=workers, timeout=2400, json_out=gen)
    vlib.tlc_must_pass(r, f"program enumeration {cfg} K={k}")
    nprog = vlib.count_lines(gen)
    with _LOCK:
        st.states += r.distinct
        st.transitions += r.generated
    ver = os.path.join(wd, f"{name}-{k}-{mode}.verdict.ndjson")
    v = 1 if mode == "real" else variants
    t1 = time.time()
    vlib.run_harness(PKG, ["run", "--in", gen, "--out", ver, "--mode", mode, "--variants", v,
                           "--jobs", jobs, "--tick", 2, "--every", every], timeout=3000)
    t2 = time.time()
    with _LOCK:
        runs = unspec = div = unsupported = pairs = nfail = handled = 0
        lost = {}
        for rec in vlib.read_ndjson(ver):
            if rec.get("note"):
                vlib.log(f"[s->i] note: {rec['note']}")
                continue
            handled += 1
            if rec.get("bad"):
                raise vlib.ToolError(f"harness could not parse program {rec}")
            if rec.get("lost"):
                lost[rec["i"]] = rec
                continue
            runs += rec["runs"]
            unspec += rec["unspec"]
            div += rec["div"]
            unsupported += rec["unsupported"]
            pairs += rec["runs"] // max(1, int(v))
            if rec["runs"]:
                for t in rec["p"]:
                    kk = t["k"] + (":" + t["s"] if t["k"] == "exec" else "")
                    st.kinds[kk] = st.kinds.get(kk, 0) + 1
                for tg in rec.get("tags", []):
                    st.tags[tg] = st.tags.get(tg, 0) + 1
            if rec.get("sample") and len(st.samples) < 6:
                st.samples.append({"cfg": name, "mode": mode, "program": compact(rec["p"]), **rec["sample"]})
            for f in rec.get("fails", [])[:1]:
                nfail += 1
                _violation(rep, "S->I", name, rec["p"], f, mode, stage)
        if lost:
            rechecks = unclean = 0
            for i, line in enumerate(vlib.read_ndjson(gen)):
                if i in lost:
                    oks = [o for o in line["o"] if o["oc"] == "ok"]
                    # a hang / crash: does it disappear when the notable input variants are avoided?
                    # (only inputs without commands have such variants; a few re-executions are enough)
                    clean = False
                    if any(t["k"] in ("evalnil", "dotnil") for t in line["p"]) and rechecks < 40 and unclean < 3:
                        rechecks += 1
                        ver2 = ver + ".redo"
                        vlib.run_harness(PKG, ["run", "--in", gen, "--out", ver2, "--mode", mode, "--variants", v,
                                               "--jobs", 1, "--tick", 2, "--only", i, "--avoid", 1], timeout=600)
                        again = [x for x in vlib.read_ndjson(ver2) if not x.get("note")]
                        os.remove(ver2)
                        clean = len(again) == 1 and not again[0].get("lost") and not again[0].get("fails")
                        unclean += 0 if clean else 1
                    f = {"why": lost[i]["lost"], "e": -1, "t": -1, "tg": sorted({t for o in oks for t in o.get("tg", [])}),
                         "feat": "blank-line-only-input" if clean else "",
                         "expected": oks[:1], "observed": {"oc": lost[i]["lost"]}}
                    nfail += 1
                    _violation(rep, "S->I", name, line["p"], f, mode, stage)
        st.programs += handled
        st.runs += runs
        st.pairs_ok += pairs
        st.unspec += unspec
        st.div += div
        st.unsupported += unsupported
        st.per_cfg[f"{name}/K={k}/{mode}/every={every}"] = {
            "programs_enumerated": nprog, "programs_replayed": handled, "runs": runs,
            "skipped_unspecified": unspec, "skipped_diverging": div, "not_renderable_in_this_mode": unsupported,
            "mismatches": nfail, "tlc_states": r.distinct, "tlc_s": round(r.wall, 1), "harness_s": round(t2 - t1, 1)}
    vlib.log(f"[s->i] {name} K={k} {mode}: {nprog} programs enumerated by TLC ({r.wall:.1f}s), {handled} replayed, "
             f"{runs} runs ({t2 - t1:.1f}s), {unspec} unspecified + {div} diverging + {unsupported} not renderable "
             f"option-runs skipped, {nfail} mismatching program(s)")
    os.remove(gen)
    os.remove(ver)


def _judge(path, shards, timeout=2400):
    """Runs Trace_NestedExec over an ndjson file of records (sharded JVMs).
    Returns {0-based index: verdict line}."""
    with open(path) as f:
        lines = f.readlines()
    n = len(lines)
    if n == 0:
        return {}
    per = max(1, (n + shards - 1) // shards)
    pieces = [(a, min(n, a + per)) for a in range(0, n, per)]
    files = []
    for a, b in pieces:
        p = f"{path}.s{a}"
        with open(p, "w") as f:
            f.writelines(lines[a:b])
        files.append(p)

    def one(p):
        return vlib.tlc("Trace_NestedExec", "Trace_NestedExec.cfg", workers=1, timeout=timeout,
                        env={"TRACE": os.path.abspath(p)}, depth_first=True, want_lines=True, xmx="2g")

    with ThreadPoolExecutor(max_workers=shards) as ex:
        results = list(ex.map(one, files))
    verdicts = {}
    for (a, b), r, p in zip(pieces, results, files):
        os.remove(p)
        if not r.ok:
            raise vlib.ToolError(f"trace validation tool error: {(r.error or r.violation or '')[:2000]}")
        for j in r.json:
            loc = j.get("ok") or j.get("reject") or j.get("i")
            verdicts[a + loc - 1] = j
        if sum(1 for g in range(a, b) if g in verdicts) != b - a:
            raise vlib.ToolError("trace validation: not every record was judged")
    return verdicts


def _why(rec, info):
    """A more specific description of a rejection where the only difference is
    that the EXIT trap action expected last was not run: everything before it
    agrees and the final status is the $? the action would have seen."""
    exp_tr = info["tr"]
    traps = {0} | {i + 1 for i, t in enumerate(rec["p"]) if t["k"] == "trap"}
    if rec["oc"] == "completed" and exp_tr and exp_tr[-1][0] in traps \
            and _unify(exp_tr[:-1], exp_tr[-1][1], rec["tr"], rec["st"]):
        return "EXIT trap action not run"
    return "rejected by Trace_NestedExec"


def random_and_validate(rep, wd, n, size, mode, st, jobs=4, shards=6, stage=None, label="random", extra=()):
    """`extra`: further arguments of `yv-g07 random` (`--fail P`: planted failing commands;
    `--table 1`: the catalogue of failing commands instead of random programs)."""
    recs = os.path.join(wd, f"{label}-{mode}.ndjson")
    full = os.path.join(wd, f"{label}-{mode}.full.ndjson")
    t0 = time.time()
    base = ["random", "--n", n, "--size", size, "--mode", mode, "--tick", 2] + list(extra)
    vlib.run_harness(PKG, base + ["--out", recs, "--full", full, "--jobs", jobs], timeout=3000)
    t1 = time.time()
    fulls = list(vlib.read_ndjson(full))
    verdicts = _judge(recs, shards)
    if len(verdicts) != len(fulls):
        raise vlib.ToolError("record files out of step")
    rejects = sorted(g for g, j in verdicts.items() if "reject" in j)
    # Does a rejection disappear when the notable input variants of the rendering are avoided?
    feat = {}
    # (not asked when the difference is already nothing but the EXIT trap action that was not run)
    redo = [g for g in rejects if fulls[g].get("feats") and _why(fulls[g], verdicts[g]) != "EXIT trap action not run"]
    if redo:
        recs2 = os.path.join(wd, f"{label}-{mode}.redo.ndjson")
        full2 = os.path.join(wd, f"{label}-{mode}.redo.full.ndjson")
        idx = [fulls[g]["i"] for g in redo]
        for a in range(0, len(idx), 400):
            part = idx[a:a + 400]
            vlib.run_harness(PKG, base + ["--out", recs2, "--full", full2, "--jobs", jobs, "--avoid", 1,
                                          "--indices", ",".join(map(str, part))], timeout=3000)
            f2 = list(vlib.read_ndjson(full2))
            v2 = _judge(recs2, min(shards, 2))
            for k, rec in enumerate(f2):
                if "reject" not in v2[k]:
                    feat[rec["i"]] = "gone"
                elif _why(rec, v2[k]) == "EXIT trap action not run":
                    # without the variant nothing remains but the EXIT trap action that was not run
                    feat[rec["i"]] = "trap"
            os.remove(recs2)
            os.remove(full2)
    skips = {}
    nok = 0
    tr_total = 0
    with _LOCK:
        for g, j in verdicts.items():
            if "skip" in j:
                skips[j["skip"]] = skips.get(j["skip"], 0) + 1
            elif "ok" in j:
                nok += 1
                tr_total += j["n"]
                for tg in j["tg"]:
                    st.rtags[tg] = st.rtags.get(tg, 0) + 1
        for g in rejects:
            rec, info = fulls[g], verdicts[g]
            obs_tr, exp_tr = rec["tr"], info["tr"]
            why = _why(rec, info)
            if feat.get(rec["i"]) == "trap":
                why = "EXIT trap action not run"
            f = {"e": rec["e"], "t": rec["t"], "why": why, "tg": info.get("tg", []),
                 "feat": (rec["feats"][0] if feat.get(rec["i"]) else ""),
                 "text": rec.get("text"), "files": rec.get("files", []), "flags": rec.get("flags", []),
                 "stdin": rec.get("stdin", False), "inv": rec.get("inv"),
                 "expected": {"tr": exp_tr, "st": info["st"]},
                 "observed": {"oc": rec["oc"], "tr": rec["tr"], "st": rec["st"], "detail": rec.get("detail", "")}}
            _violation(rep, "I->S", label, rec["p"], f, mode, stage)
        nskip = sum(skips.values())
        st.runs += len(fulls)
        st.per_cfg[f"{label}/{mode}/size<={size}"] = {
            "records": len(fulls), "accepted": nok, "rejected": len(rejects), "skipped": skips,
            "mean_observations_per_accepted_run": round(tr_total / max(1, nok), 2),
            "harness_s": round(t1 - t0, 1), "tlc_s": round(time.time() - t1, 1)}
        if fulls and len(st.samples) < 9:
            r0 = fulls[min(3, len(fulls) - 1)]
            st.samples.append({"cfg": f"{label}/{mode}", "text": r0.get("text"), "files": r0.get("files"),
                               "observed": {"tr": r0["tr"], "st": r0["st"]}})
    vlib.log(f"[i->s] {len(fulls)} {label} programs (size <= {size}, {mode}) executed ({t1 - t0:.1f}s) and judged by "
             f"Trace_NestedExec ({time.time() - t1:.1f}s): {nok} accepted, {len(rejects)} rejected, "
             f"{nskip} skipped as unspecified/diverging {skips}")
    os.remove(recs)
    os.remove(full)
    return nok, nskip


def run(tier):
    t0 = time.time()
    wd = vlib.workdir(PID)
    rep = vlib.Reporter(PID)
    st = Stats()
    plan = PLAN[tier]
    vlib.build_harness(PKG)
    calibrate()
    res = {}
    jobs = plan["jobs"]
    tasks = []
    n, size = plan["random"]
    tasks.append(lambda: res.update(sim=random_and_validate(rep, wd, n, size, "sim", st, jobs=jobs, shards=6)))
    for cfg, k in plan["laws"]:
        tasks.append(lambda cfg=cfg, k=k: laws(cfg, k, wd, st, workers=4))
    # the real-OS stages one after another (they share the scratch area and the CPU-bound fork/exec)
    real = [g for g in plan["gen"] if g[2] == "real"]
    nr, sr = plan["random_real"]

    def real_chain():
        for name, k, mode, every in real:
            gen_and_replay(rep, wd, name, k, mode, every, st, 1, workers=4, jobs=jobs)
        res.update(real=random_and_validate(rep, wd, nr, sr, "real", st, jobs=jobs, shards=2))

    tasks.append(real_chain)
    for name, k, mode, every in plan["gen"]:
        if mode == "sim":
            tasks.append(lambda name=name, k=k, every=every: gen_and_replay(
                rep, wd, name, k, "sim", every, st, plan["variants"], workers=4, jobs=jobs))
    with ThreadPoolExecutor(max_workers=4 if tier == "quick" else 3) as ex:
        futs = [ex.submit(t) for t in tasks]
        for f in futs:
            f.result()
    validated = res["sim"][0] + res["real"][0]
    skipped = res["sim"][1] + res["real"][1]
    rc = rep.finish()
    never = sorted(t for t in RULE_TAGS if not st.tags.get(t) and not st.rtags.get(t))
    if never and rc == 0:
        raise vlib.ToolError(f"rules of NestedExec.tla never exercised by a replayed or validated run: {never}")
    vlib.write_evidence(PID, tier, {
        "states": st.states,
        "transitions": st.transitions,
        "traces_validated_against_impl": st.pairs_ok + validated,
        "samples": st.samples,
        "evaluations": st.runs,
        "distinct_nontrivial": st.pairs_ok,
        "rule": "distinct (program, run options) pairs of the bounded enumerations for which the specification "
                "prescribes an outcome (not unspecified, not diverging), each executed on the real shell in "
                "`variants` surface renderings; random programs counted separately",
        "exhaustive": True,
        "programs_enumerated_and_replayed": st.programs,
        "option_runs_skipped_unspecified": st.unspec,
        "option_runs_skipped_diverging": st.div,
        "option_runs_not_renderable_in_mode": st.unsupported,
        "random_programs_validated": validated,
        "random_programs_skipped": skipped,
        "per_configuration": st.per_cfg,
        "token_kinds_replayed": st.kinds,
        "spec_rule_tags_total": len(RULE_TAGS),
        "spec_rule_tags_replayed": st.tags,
        "spec_rule_tags_in_accepted_random_runs": st.rtags,
        "known_finding_hits": {fid: n for fid, (f, n) in rep.known_hits.items()},
    }, time.time() - t0, violations=len(rep.violations), assumptions=[
        "the probe built-ins mk/probe/tick registered by the harness (helper executables ./mk, ./probe on the real "
        "OS) behave as NestedExec.tla describes its leaves",
        "a break/continue executed by eval counts as contained in the loop whose body holds the eval command "
        "(break.md; break-p.sh 'breaking out of eval' calls this reading questionable but most shells support it)",
        "exit statuses POSIX only bounds (syntax error in eval / a dot script, dot script not found) are compared "
        "as symbols (any value in 1..255, consistently)",
        "programs the specification classifies as unspecified (return outside a function or dot script, break "
        "without a lexically enclosing loop incl. a loop outside the dot script, operand-less exit in the EXIT trap "
        "after `exit n`) or as not terminating within the fuel are skipped and counted",
        "`exec utility` is only observable on the real OS (the simulator cannot replace a process image)",
        "TLC 1.8.0 and the JSON community module are trusted",
    ])
    return rc


def replay(path):
    with open(path) as f:
        obj = json.load(f)
    rec = obj["replay"]
    wd = vlib.workdir(PID + "-replay")
    src = os.path.join(wd, "in.json")
    with open(src, "w") as f:
        json.dump(rec, f)
    rc, out, _ = vlib.run_harness(PKG, ["redo", "--in", src, "--tick", 2])
    res = json.loads(out.strip().splitlines()[-1])
    obs = res["observed"]
    print("text:\n" + res["text"])
    for fl in res.get("files", []):
        print(f"file {fl['name']}:\n{fl['content']}")
    print("observed:", json.dumps(obs))
    one = os.path.join(wd, "one.ndjson")
    with open(one, "w") as f:
        f.write(json.dumps({"p": rec["p"], "e": max(0, rec["e"]), "t": max(0, rec["t"]),
                            "oc": obs["oc"], "tr": obs["tr"], "st": obs["st"]}) + "\n")
    v = _judge(one, 1)[0]
    if "reject" in v:
        print("rejected by Trace_NestedExec; the specification prescribes:", json.dumps(v))
        print(f"VIOLATION property={PID} replay={path}")
        return 1
    print("accepted by Trace_NestedExec" + (f" (skipped: {v['skip']})" if "skip" in v else ""))
    return 0
