"""C16 — variable scope, lifetime and attributes (DESIGN.md section 6, C16).

P1  TLC checks that spec/VarSet.tla (the implementation's representation: one
    stack of (context index, variable) per name) refines spec/VarRef.tla (the
    documented stack-of-maps model) step by step -- same operation, same
    result, same observations -- plus the representation invariant; and, on
    VarRef itself (MC_VarRef), the property's invariants: a read-only variable
    never changes, locals and positional parameters vanish at pop while
    nothing below changes, the environment is exactly the exported visible
    variables.
P2  every distinct state of the driver's graph is rebuilt on a real
    yash_env::variable::VariableSet (history replay) and EVERY operation of
    the alphabet is applied to it; the observed {pre, op, res, post} records
P3  are validated by TLC against VarRef (Trace_VarSet), as are long random
    histories beyond the exhaustive bounds.
Phase 2 (through the language) is in c16_lang (see run()).
"""
import json
import os
import time
from concurrent.futures import ThreadPoolExecutor

import vlib

PID = "C16"
PKG = "yv-c16"

# name: (cfg, names, vals, pos, trace cfg)
CONFIGS = {
    "quick": [
        ("MC_VarSet_q1.cfg", "x", "a,b", "none", "Trace_VarSet_1.cfg"),
        ("MC_VarSet_q2.cfg", "x,y", "a", "none", "Trace_VarSet_2.cfg"),
        ("MC_VarSet_q3.cfg", "x", "a", "some", "Trace_VarSet_1.cfg"),
    ],
    "thorough": [
        ("MC_VarSet_q1.cfg", "x", "a,b", "none", "Trace_VarSet_1.cfg"),
        ("MC_VarSet_q2.cfg", "x,y", "a", "none", "Trace_VarSet_2.cfg"),
        ("MC_VarSet_q3.cfg", "x", "a", "some", "Trace_VarSet_1.cfg"),
        ("MC_VarSet_t1.cfg", "x", "a,b", "none", "Trace_VarSet_1.cfg"),
        ("MC_VarSet_t2.cfg", "x,y", "a,b", "none", "Trace_VarSet_2.cfg"),
    ],
}


def validate(trace, cfg, shards=8, timeout=1500):
    """Run Trace_VarSet over an ndjson trace, split into `shards` pieces
    validated by parallel JVMs.  Returns (rejects, info): rejects is a list of
    (record, step-info) for every step whose verdict is not "ok"."""
    with open(trace) as f:
        lines = f.readlines()
    n = len(lines)
    if n == 0:
        return [], {"records": 0, "steps": 0, "wall": 0.0}
    per = max(1, (n + shards - 1) // shards)
    pieces = []
    for k in range(0, n, per):
        p = f"{trace}.shard{k // per}"
        with open(p, "w") as f:
            f.writelines(lines[k:k + per])
        pieces.append((k, p))
    t0 = time.time()

    def one(piece):
        k, p = piece
        r = vlib.tlc("Trace_VarSet", cfg, workers=1, timeout=timeout, env={"TRACE": os.path.abspath(p)},
                     depth_first=True, xmx="3g")
        return k, r

    with ThreadPoolExecutor(max_workers=shards) as ex:
        results = list(ex.map(one, pieces))
    rejects = []
    for k, r in results:
        if not r.ok:
            raise vlib.ToolError(f"trace validation failed as a tool ({cfg}): "
                                 f"{(r.error or r.violation or '')[:2500]}")
        for j in r.json:
            rec = json.loads(lines[k + j["l"] - 1])
            for b in j["bad"]:
                rejects.append((rec, b))
    for _, p in pieces:
        try:
            os.remove(p)
        except OSError:
            pass
    steps = sum(line.count('"pn":') for line in lines)
    return rejects, {"records": n, "steps": steps, "wall": time.time() - t0}


def _pre_of(rec, i):
    return rec["steps"][i - 2]["post"] if rec.get("chain") and i > 1 else rec["pre"]


def report(rep, rejects, what, names, extra):
    for rec, b in rejects:
        i = b["i"]
        step = rec["steps"][i - 1]
        op = step["op"]
        key = {"op": op["op"], "scope": op.get("scope", ""), "then": op.get("then", ""), "why": b["why"],
               "depth": b["depth"], "idx": b["idx"], "below": b["below"], "held": b["held"],
               "sparse": b["below"] >= 0 and b["below"] < b["idx"]}
        replay_obj = {"names": names, "op": op, "observed": {"res": step["res"], "pn": step["pn"],
                                                                "post": step["post"], "panic": step.get("panic")},
                      "expected_result": b["expect"], "pre": _pre_of(rec, i)}
        if "h" in rec:
            replay_obj["h"] = rec["h"]
        else:
            replay_obj["random"] = dict(extra, run=rec["run"], upto=rec["at"] + i - 1, seed=rec["seed"])
        rep.violation(key, f"{what}: step not allowed by VarRef ({b['why']} differs; expected result {b['expect']})",
                      replay_obj)
