"""C16 — variable scope, lifetime and attributes (DESIGN.md section 6, C16).

P1  TLC checks that spec/VarSet.tla (the implementation's representation: one
    stack of (context index, variable) per name) refines spec/VarRef.tla (the
    documented stack-of-maps model) step by step -- same operation, same
    result, same observations -- plus the representation invariant; and, on
    VarRef itself (MC_VarRef), the property's invariants: a read-only variable
    never changes, locals and positional parameters vanish at pop while
    nothing below changes, the environment is exactly the exported visible
    variables.
P2  every distinct state of the driver's graph is rebuilt on a real
    yash_env::variable::VariableSet (history replay) and EVERY operation of
    the alphabet is applied to it; the observed {pre, op, res, post} records
P3  are validated by TLC against VarRef (Trace_VarSet), as are long random
    histories beyond the exhaustive bounds.
Phase 2 (through the language): TLC enumerates (and, with -simulate, samples)
    scripts of spec/VarLang.tla -- simple commands with assignment prefixes to
    special / regular built-ins, functions and external utilities,
    typeset/export/readonly/unset, function calls with positional parameters,
    `set --` -- and prints for each the predicted reports of the `snap` probe
    after every command, the predicted environment of every executed program
    and the predicted final state (EXIT trap).  The script is rendered to shell
    text, run in the real shell on the simulated OS (yvcommon::shell) and the
    observations are compared with the predictions.
"""
import json
import os
import time
from concurrent.futures import ThreadPoolExecutor

import vlib

PID = "C16"
PKG = "yv-c16"

# name: (cfg, names, vals, pos, trace cfg)
QUICK = [
    ("MC_VarSet_q1.cfg", "x", "a,b", "none", "Trace_VarSet_1.cfg"),    # 1 name, 2 values, all attributes, 3 contexts
    ("MC_VarSet_q2.cfg", "x,y", "a", "none", "Trace_VarSet_2.cfg"),    # 2 names, 2 contexts
    ("MC_VarSet_q3.cfg", "x", "a", "some", "Trace_VarSet_1.cfg"),      # positional parameters
]
CONFIGS = {
    "quick": QUICK,
    "thorough": QUICK + [
        ("MC_VarSet_t1.cfg", "x", "a,b", "none", "Trace_VarSet_1.cfg"),    # 4 contexts, 2 values, read-only
        ("MC_VarSet_t2.cfg", "x", "a,b", "none", "Trace_VarSet_1.cfg"),    # 4 contexts, all attributes
        ("MC_VarSet_t3.cfg", "x,y", "a,b", "none", "Trace_VarSet_2.cfg"),  # 2 names, 2 values
        ("MC_VarSet_t4.cfg", "x,y,z", "a", "none", "Trace_VarSet_3.cfg"),  # 3 names
    ],
}


# Development aid for the mutant self-test only (tools/mutcheck with
# C16_DEV_CACHE=1): the TLC runs do not depend on /repo, so their outputs are
# kept in /tmp/c16-cache between runs.  Never set in a registered run.
DEV_CACHE = os.environ.get("C16_DEV_CACHE") == "1"


def _cached_tlc(module, cfg, out, kw, **more):
    import pickle
    import shutil
    kw = dict(kw, **more)
    if not DEV_CACHE:
        return vlib.tlc(module, cfg, json_out=out, **kw)
    cdir = "/tmp/c16-cache"
    os.makedirs(cdir, exist_ok=True)
    tag = f"{module}-{cfg}-{kw.get('simulate')}-{kw.get('tool_seed')}"
    data, meta = os.path.join(cdir, tag + ".ndjson"), os.path.join(cdir, tag + ".pickle")
    if os.path.exists(meta):
        shutil.copy(data, out)
        with open(meta, "rb") as f:
            return pickle.load(f)
    r = vlib.tlc(module, cfg, json_out=out, **kw)
    if r.ok:
        shutil.copy(out, data)
        with open(meta, "wb") as f:
            pickle.dump(r, f)
    return r


def validate(trace, cfg, shards=8, timeout=1500):
    """Run Trace_VarSet over an ndjson trace, split into `shards` pieces
    validated by parallel JVMs.  Returns (rejects, info): rejects is a list of
    (record, step-info) for every step whose verdict is not "ok"."""
    with open(trace) as f:
        lines = f.readlines()
    n = len(lines)
    if n == 0:
        return [], {"records": 0, "steps": 0, "wall": 0.0}
    per = max(1, (n + shards - 1) // shards)
    pieces = []
    for k in range(0, n, per):
        p = f"{trace}.shard{k // per}"
        with open(p, "w") as f:
            f.writelines(lines[k:k + per])
        pieces.append((k, p))
    t0 = time.time()

    def one(piece):
        k, p = piece
        r = vlib.tlc("Trace_VarSet", cfg, workers=1, timeout=timeout, env={"TRACE": os.path.abspath(p)},
                     depth_first=True, xmx="3g")
        return k, r

    with ThreadPoolExecutor(max_workers=shards) as ex:
        results = list(ex.map(one, pieces))
    rejects = []
    for k, r in results:
        if not r.ok:
            raise vlib.ToolError(f"trace validation failed as a tool ({cfg}): "
                                 f"{(r.error or r.violation or '')[:2500]}")
        for j in r.json:
            rec = json.loads(lines[k + j["l"] - 1])
            for b in j["bad"]:
                rejects.append((rec, b))
    for _, p in pieces:
        try:
            os.remove(p)
        except OSError:
            pass
    steps = sum(line.count('"pn":') for line in lines)
    return rejects, {"records": n, "steps": steps, "wall": time.time() - t0}


def _pre_of(rec, i):
    return rec["steps"][i - 2]["post"] if rec.get("chain") and i > 1 else rec["pre"]


def report(rep, rejects, what, names, extra):
    for rec, b in rejects:
        i = b["i"]
        step = rec["steps"][i - 1]
        op = step["op"]
        key = {"op": op["op"], "scope": op.get("scope", ""), "then": op.get("then", ""), "why": b["why"],
               "depth": b["depth"], "idx": b["idx"], "below": b["below"], "held": b["held"],
               "sparse": b["below"] >= 0 and b["below"] < b["idx"]}
        replay_obj = {"names": names, "op": op, "observed": {"res": step["res"], "pn": step["pn"],
                                                                "post": step["post"], "panic": step.get("panic")},
                      "expected_result": b["expect"], "pre": _pre_of(rec, i)}
        if "h" in rec:
            replay_obj["h"] = rec["h"]
        else:
            replay_obj["random"] = dict(extra, run=rec["run"], upto=rec["at"] + i - 1, seed=rec["seed"])
        rep.violation(key, f"{what}: step not allowed by VarRef ({b['why']} differs; expected result {b['expect']})",
                      replay_obj)


_COV = __import__("re").compile(r"^<(\w+) line \d+, col \d+ to line \d+, col \d+ of module (\w+)(?: \([\d ]+\))?>: (\d+):(\d+)")


def _coverage(r):
    cov = {}
    for line in r.lines:
        m = _COV.match(line)
        if m and m.group(1) != "Init":
            cov[m.group(1)] = cov.get(m.group(1), 0) + int(m.group(4))
    return cov


def _count_ops(trace, counts):
    """(op, scope, follow-up, result) -> number of steps executed on the real code"""
    for rec in vlib.read_ndjson(trace):
        for s in rec["steps"]:
            op = s["op"]
            k = "/".join(x for x in (op["op"], op.get("scope", op.get("kind", "")), op.get("then", ""),
                                     s["res"]["st"]) if x)
            counts[k] = counts.get(k, 0) + 1


def _split(path, per):
    """Split an ndjson file into pieces of `per` lines; yields the piece paths."""
    k, n, out = 0, 0, None
    with open(path) as f:
        for line in f:
            if out is None:
                p = f"{path}.part{k}"
                out = open(p, "w")
            out.write(line)
            n += 1
            if n >= per:
                out.close()
                yield p
                out, n, k = None, 0, k + 1
    if out is not None:
        out.close()
        yield p


def run(tier):
    t0 = time.time()
    wd = vlib.workdir(PID)
    rep = vlib.Reporter(PID)
    vlib.build_harness(PKG)
    states = transitions = 0
    actions = {}
    samples = []
    op_counts = {}
    notes = []

    # ---- P1 on the reference model: the property's invariants -------------
    # (MC_VarRef*: with the ghost of the pushed contexts; MC_VarRef_abs*: VarRef alone, incl. soundness of
    # the reconstruction Abstract used by the trace judgement)
    ref_cfgs = [("VarRef", "MC_VarRef_abs.cfg"), ("MC_VarRef", "MC_VarRef.cfg"), ("MC_VarRef", "MC_VarRef_pos.cfg")]
    if tier == "thorough":
        ref_cfgs += [("VarRef", "MC_VarRef_abs2.cfg"), ("MC_VarRef", "MC_VarRef_full.cfg"),
                     ("MC_VarRef", "MC_VarRef_big.cfg")]
    for module, cfg in ([] if DEV_CACHE else ref_cfgs):
        r = vlib.tlc(module, cfg, workers=8, timeout=2400)
        vlib.tlc_must_pass(r, f"invariants of the reference model ({cfg})")
        vlib.log(f"[p1] {cfg}: VarRef invariants hold on {r.distinct} states / {r.generated} transitions, "
                 f"depth {r.depth}, {r.wall:.1f}s")
        states += r.distinct
        transitions += r.generated

    # ---- P1 refinement + P2 replay of every (state, operation) pair -------
    replayed_states = replayed_steps = 0
    for cfg, names, vals, pos, tcfg in CONFIGS[tier]:
        gen = os.path.join(wd, cfg + ".states.ndjson")
        r = _cached_tlc("VarSet", cfg, gen, dict(workers=8, coverage=(cfg in ("MC_VarSet_q1.cfg", "MC_VarSet_q3.cfg")),
                                                 timeout=3000, want_lines=True))
        vlib.tlc_must_pass(r, f"VarSet refines VarRef ({cfg})")
        vlib.log(f"[p1] {cfg}: refinement + representation invariant hold; {r.distinct} distinct states, "
                 f"{r.generated} transitions, depth {r.depth}, {r.wall:.1f}s")
        states += r.distinct
        transitions += r.generated
        for a, c in _coverage(r).items():
            actions[a] = actions.get(a, 0) + c
        if vlib.count_lines(gen) != r.distinct:
            raise vlib.ToolError(f"{cfg}: {vlib.count_lines(gen)} state lines for {r.distinct} states")
        nsteps = nrej = 0
        tv = 0.0
        v0 = len(rep.violations)
        for part in _split(gen, 4000):
            trace = part + ".trace"
            _, _, err = vlib.run_harness(PKG, ["replay", "--names", names, "--vals", vals, "--pos", pos,
                                               "--in", part, "--out", trace])
            stat = json.loads(err.strip().splitlines()[-1])
            if stat["illegal_histories"]:
                raise vlib.ToolError(f"{cfg}: harness could not replay {stat['illegal_histories']} histories")
            replayed_states += stat["states"]
            rejects, info = validate(trace, tcfg)
            if info["steps"] != stat["steps"]:
                raise vlib.ToolError(f"{cfg}: {info['steps']} steps in the trace, harness reported {stat['steps']}")
            nsteps += info["steps"]
            nrej += len(rejects)
            tv += info["wall"]
            report(rep, rejects, f"replay of {cfg}", names.split(","), None)
            _count_ops(trace, op_counts)
            if len(samples) < 2:
                rec = next(r for i, r in enumerate(vlib.read_ndjson(trace)) if i == 40)
                samples.append({"config": cfg, "history": rec["h"], "pre": rec["pre"], "step": rec["steps"][3]})
            os.remove(part)
            os.remove(trace)
        os.remove(gen)
        replayed_steps += nsteps
        vlib.log(f"[p2] {cfg}: {nsteps} (state, op) steps on the real VariableSet validated against VarRef "
                 f"in {tv:.1f}s ({nrej} rejected, {len(rep.violations) - v0} not explained by a known finding)")

    # ---- P3: random long histories beyond the exhaustive bounds -----------
    trace = os.path.join(wd, "random.trace.ndjson")
    runs, steps = (20, 400) if tier == "quick" else (150, 1000)
    rargs = {"vals": "a,b,c", "pos": "some", "maxdepth": 6}
    vlib.run_harness(PKG, ["random", "--names", "x,y,z", "--vals", rargs["vals"], "--pos", rargs["pos"],
                           "--maxdepth", rargs["maxdepth"], "--steps", steps, "--runs", runs, "--out", trace])
    rejects, info = validate(trace, "Trace_VarSet_3.cfg")
    v0 = len(rep.violations)
    report(rep, rejects, "random history", ["x", "y", "z"],
           {"vals": rargs["vals"].split(","), "pos": rargs["pos"], "maxdepth": rargs["maxdepth"]})
    _count_ops(trace, op_counts)
    random_steps = info["steps"]
    vlib.log(f"[p3] random histories: {random_steps} steps (3 names, depth <= 6) validated against VarRef "
             f"in {info['wall']:.1f}s ({len(rejects)} rejected, {len(rep.violations) - v0} not explained by a "
             f"known finding)")
    rec = next(vlib.read_ndjson(trace))
    samples.append({"config": "random", "pre": rec["pre"], "step": rec["steps"][0]})
    os.remove(trace)

    # ---- phase 2: through the language -------------------------------------
    lang = lang_run(tier, rep, wd)

    rc = rep.finish()
    unexercised = [a for a, c in actions.items() if c == 0]
    cov = {
        "states": states + lang.get("lang_states", 0),
        "transitions": transitions + lang.get("lang_transitions", 0),
        "traces_validated_against_impl": replayed_steps + random_steps + lang.get("validated", 0),
        "samples": samples + lang.get("samples", []),
        "evaluations": replayed_steps + random_steps + lang.get("validated", 0),
        "distinct_nontrivial": replayed_steps,
        "rule": "one step per (distinct state of the bounded VarSet model rebuilt on the real VariableSet, "
                "operation of the alphabet); random-history steps and generated scripts counted separately",
        "exhaustive": True,
        "configs": [c[0] for c in CONFIGS[tier]] + [c[1] for c in ref_cfgs],
        "replayed_states": replayed_states,
        "replayed_steps": replayed_steps,
        "random_history_steps": random_steps,
        "tlc_action_coverage": actions,
        "actions_not_exercised": unexercised,
        "steps_by_operation_and_result": dict(sorted(op_counts.items())),
        "known_finding_hits": {k: v[1] for k, v in rep.known_hits.items()},
        "notes": notes,
    }
    cov.update({k: v for k, v in lang.items() if k not in ("validated", "samples")})
    vlib.write_evidence(PID, tier, cov, time.time() - t0, violations=len(rep.violations), assumptions=[
        "histories respect the API's typing: the base context is never popped (no guard exists for it)",
        "contexts are pushed and popped through the public guards (push_context / drop), the per-level "
        "observation pops clones of the set",
        "values are scalars; quirks, locations and array values are outside the model",
        "TLC 1.8.0 and the JSON community module are trusted",
    ])
    return rc


def replay(path):
    with open(path) as f:
        obj = json.load(f)
    rp = obj["replay"]
    if rp.get("lang"):
        return lang_replay(path, obj)
    wd = vlib.workdir(PID + "-replay")
    src = os.path.join(wd, "in.ndjson")
    t = os.path.join(wd, "one.ndjson")
    line = {"names": rp["names"], "op": rp["op"]}
    if "h" in rp:
        line["h"] = rp["h"]
    else:
        line["random"] = rp["random"]
    with open(src, "w") as f:
        f.write(json.dumps(line) + "\n")
    vlib.run_harness(PKG, ["redo", "--in", src, "--out", t])
    rejects, _ = validate(t, f"Trace_VarSet_{len(rp['names'])}.cfg", shards=1)
    if rejects:
        print(f"rejected: {rejects[0][1]}")
        print(f"VIOLATION property={PID} replay={path}")
        return 1
    print("accepted")
    return 0


# ---------------------------------------------------------------------------
# phase 2: scripts of spec/VarLang.tla through the shell
# ---------------------------------------------------------------------------
def lang_render(events):
    """Shell text of a VarLang script (list of events)."""
    funcs = []          # (name, body-lines)
    stack = [[]]        # lines of the enclosing bodies
    names = []
    nfun = 0
    for e in events:
        c = e["c"]
        cur = stack[-1]
        if c in ("assign",):
            cur.append(f"{e['n']}={e['v']}")
        elif c == "sassign":
            cur.append(f"{e['n']}={e['v']} :")
        elif c == "pbuiltin":
            cur.append(f"{e['n']}={e['v']} snap {e['tag']}")
        elif c == "ext":
            pre = f"{e['n']}={e['v']} " if e["n"] else ""
            cur.append(f"{pre}/bin/true")
        elif c == "call":
            nfun += 1
            name = f"f{nfun}"
            pre = f"{e['n']}={e['v']} " if e["n"] else ""
            cur.append(pre + " ".join([name] + list(e["args"])))
            names.append(name)
            stack.append([])
        elif c == "ret":
            body = stack.pop()
            funcs.append((names.pop(), body))
        elif c in ("typeset", "export", "readonly"):
            cur.append(f"{c} {e['n']}" + (f"={e['v']}" if e["hasv"] else ""))
        elif c == "unset":
            cur.append(f"unset {e['n']}")
        elif c == "setpos":
            cur.append(" ".join(["set", "--"] + list(e["args"])))
        elif c == "snap":
            cur.append(f"snap {e['tag']}")
        else:
            raise vlib.ToolError(f"unknown script event {e}")
    # a failing command ends the script inside its function bodies; a call whose
    # prefix assignment fails never enters the body
    while len(stack) > 1:
        body = stack.pop()
        funcs.append((names.pop(), body))
    lines = ["trap 'snap end' EXIT"]
    for name, body in funcs:
        lines.append(f"{name}() {{ " + "; ".join(body or [":"]) + "; }")
    lines += stack[0]
    return "\n".join(lines) + "\n"


def lang_compare(pred, obs):
    """Returns None if the observation matches the prediction, else (why, detail)."""
    if obs["outcome"] != "completed":
        return "outcome", obs["outcome"]
    want = [{"tag": str(i + 1), "pos": s["pos"], "vars": s["vars"]} for i, s in enumerate(pred["snaps"])]
    want.append({"tag": "end", "pos": pred["end"]["pos"], "vars": pred["end"]["vars"]})
    got = obs["snaps"]
    for i, w in enumerate(want):
        if i >= len(got):
            return "missing-snap", f"snap {w['tag']} was not reported"
        g = got[i]
        if g["tag"] != w["tag"]:
            return "snap-order", f"expected snap {w['tag']}, got snap {g['tag']}"
        if g["vars"] != w["vars"]:
            return "vars", f"snap {w['tag']}: expected {w['vars']}, observed {g['vars']}"
        if g["pos"] != w["pos"]:
            return "pos", f"snap {w['tag']}: expected positional parameters {w['pos']}, observed {g['pos']}"
    if len(got) > len(want):
        return "extra-snap", f"unexpected snap {got[len(want)]['tag']}"
    envs = [e["env"] for e in obs["execs"]]
    if envs != pred["envs"]:
        return "env", f"expected environments {pred['envs']}, observed {envs}"
    return None


def _failing_command(pred):
    cmds = [e for e in pred["script"] if e["c"] not in ("snap", "ret")]
    return cmds[-1]["c"] if pred["dead"] and cmds else ""


def lang_run_batch(rep, wd, gen, names, what, stats):
    scripts = os.path.join(wd, "lang.scripts.ndjson")
    results = os.path.join(wd, "lang.results.ndjson")
    preds = []
    with open(scripts, "w") as f:
        for i, p in enumerate(vlib.read_ndjson(gen)):
            preds.append(p)
            f.write(json.dumps({"id": i, "names": names, "text": lang_render(p["script"])}) + "\n")
    vlib.build_harness(PKG)
    parts = list(_split(scripts, max(2000, (len(preds) + 7) // 8)))

    def one(part):
        vlib.run_harness(PKG, ["lang", "--in", part, "--out", part + ".out"])
        return part + ".out"

    with ThreadPoolExecutor(max_workers=8) as ex:
        outs = list(ex.map(one, parts))
    with open(results, "w") as f:
        for o in outs:
            with open(o) as g:
                f.write(g.read())
            os.remove(o)
    for part in parts:
        os.remove(part)
    n = 0
    for obs in vlib.read_ndjson(results):
        p = preds[obs["id"]]
        n += 1
        stats["snaps"] += len(p["snaps"]) + 1
        stats["execs"] += len(p["envs"])
        stats["dead"] += 1 if p["dead"] else 0
        for e in p["script"]:
            if e["c"] not in ("snap", "ret"):
                stats["commands"][e["c"]] = stats["commands"].get(e["c"], 0) + 1
        bad = lang_compare(p, obs)
        if bad:
            text = lang_render(p["script"])
            key = {"lang": True, "why": bad[0], "script": text, "failing": _failing_command(p)}
            rep.violation(key, f"{what}: {bad[1]}", {"lang": True, "names": names, "script": p["script"],
                                                      "text": text, "predicted": {k: p[k] for k in ("snaps", "envs", "end", "dead")},
                                                      "observed": obs})
        elif len(stats["samples"]) < 2 and n % 97 == 5:
            stats["samples"].append({"script": lang_render(p["script"]), "predicted_snaps": p["snaps"],
                                     "predicted_envs": p["envs"], "end": p["end"]})
    if n != len(preds):
        raise vlib.ToolError(f"{what}: {len(preds)} scripts generated, {n} results")
    os.remove(scripts)
    os.remove(results)
    return n


def lang_run(tier, rep, wd):
    stats = {"snaps": 0, "execs": 0, "dead": 0, "commands": {}, "samples": []}
    total = states = transitions = 0
    # exhaustive: every script of the bounded alphabet
    exh = [("MC_VarLang_q.cfg", ["x"]), ("MC_VarLang_q1v.cfg", ["x"])]
    if tier == "thorough":
        exh += [("MC_VarLang_q3.cfg", ["x"]), ("MC_VarLang_t.cfg", ["x", "y"])]
    for cfg, names in exh:
        gen = os.path.join(wd, cfg + ".scripts.ndjson")
        r = _cached_tlc("VarLang", cfg, gen, dict(workers=8, timeout=2400))
        vlib.tlc_must_pass(r, f"script generation {cfg}")
        states += r.distinct
        transitions += r.generated
        v0 = len(rep.violations)
        n = lang_run_batch(rep, wd, gen, names, f"script of {cfg}", stats)
        os.remove(gen)
        total += n
        vlib.log(f"[lang] {cfg}: all {n} complete scripts of the bounded alphabet run in the shell and compared "
                 f"with the predicted snapshots ({r.wall:.1f}s TLC; {len(rep.violations) - v0} mismatches)")
    # sampled: longer scripts, two names, nested calls (TLC -simulate, seeded)
    walks = 100 if tier == "quick" else 2500
    for cfg in ("MC_VarLang_sim.cfg", "MC_VarLang_sim2.cfg"):
        gen = os.path.join(wd, "sim.scripts.ndjson")
        r = _cached_tlc("VarLang", cfg, gen, dict(workers=4, simulate=walks, depth=60,
                                                  tool_seed=vlib.seed(), timeout=1200))
        vlib.tlc_must_pass(r, f"script sampling {cfg}")
        v0 = len(rep.violations)
        n = lang_run_batch(rep, wd, gen, ["x", "y"], f"sampled script of {cfg}", stats)
        os.remove(gen)
        total += n
        vlib.log(f"[lang] {cfg}: {n} sampled scripts (10 commands, 2 names, nested calls) run and compared "
                 f"({len(rep.violations) - v0} mismatches)")
    return {
        "validated": total,
        "samples": stats["samples"],
        "lang_scripts": total,
        "lang_snapshots_compared": stats["snaps"],
        "lang_exec_environments_compared": stats["execs"],
        "lang_scripts_ending_in_readonly_error": stats["dead"],
        "lang_commands_by_kind": stats["commands"],
        "lang_states": states,
        "lang_transitions": transitions,
    }


def lang_replay(path, obj):
    rp = obj["replay"]
    wd = vlib.workdir(PID + "-replay")
    scripts = os.path.join(wd, "s.ndjson")
    results = os.path.join(wd, "r.ndjson")
    with open(scripts, "w") as f:
        f.write(json.dumps({"id": 0, "names": rp["names"], "text": lang_render(rp["script"])}) + "\n")
    vlib.run_harness(PKG, ["lang", "--in", scripts, "--out", results])
    obs = next(vlib.read_ndjson(results))
    pred = dict(rp["predicted"], script=rp["script"])
    bad = lang_compare(pred, obs)
    if bad:
        print(f"rejected: {bad}")
        print(f"VIOLATION property={PID} replay={path}")
        return 1
    print("accepted")
    return 0
