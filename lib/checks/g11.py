"""G11 — command prompts and what an interactive shell writes around the lines it
reads (specification-growth module; spec/Prompt.tla).

The oracle is the TLA+ definition spec/Prompt.tla, written from POSIX XCU (sh:
PS1 / PS2 / -i / STDIN, set -v / -o ignoreeof / -b, 2.8.1, 2.9.3.1, 2.11) and the
manual (interactive/{README,prompt,job_control}.md, termination.md, options.md,
builtins/{jobs,read}.md, debugging.md, lists.md, startup.md): for a start-up
configuration and a sequence of typed events it gives the PATTERN of standard
error (prompts with their expansions performed at every display, -v echo, the
ignoreeof warning, diagnostics, job announcements and job status reports), the
text of standard output and the probe events.

 0. Calib_Prompt: the worked examples of the manual and of the scripted tests
    hold for the oracle (ASSUMEs).
 1. TLC checks laws of the model on every enumerated session (Laws_Prompt.cfg)
    and refutes eight named wrong variants (Neg_Prompt_*.cfg: PS1 expanded once,
    PS1 used for continuation lines, no exclamation-mark expansion, job reports
    repeated / written after the prompt, PS1 for here-document bodies, ignoreeof
    not honoured at PS2, end-of-file counter not reset by a line).
 2. spec -> impl: TLC (Gen_Prompt) enumerates sessions family by family and
    prints how to start the shell, the input chunks and the expectation;
    harness/g11 runs every session on the real shell in-process on the simulated
    OS (terminal or regular file on descriptors 0 and 2, rcfile, -c, script
    operand; virtual clock for background jobs) and compares; family "call"
    binds yash_prompt::expand_posix and Prompter directly.
 3. impl -> spec: seeded random sessions are typed, run and recorded by the
    harness; TLC (Trace_Prompt) evaluates Prompt!Session on each and judges it.
"""
import json
import os
import time
from concurrent.futures import ThreadPoolExecutor

import vlib

PID = "G11"
PKG = "yv-g11"

TIERS = {
    "quick": dict(gen="Gen_Prompt_quick.cfg", nrandom=6000, timeout=600),
    "thorough": dict(gen="Gen_Prompt_thorough.cfg", nrandom=60000, timeout=2400),
}
NEGATIVE = ["once", "ps1only", "noexcl", "rereport", "lateReport", "hdps1", "ps2eof", "noreset"]
SHARD = 20000       # records per Trace_Prompt run


def _summary(out):
    line = [l for l in out.strip().splitlines() if l.startswith("{")][-1]
    return json.loads(line)


def _ps_of(rec):
    ps = []
    for name in ("ps1", "ps2"):
        ps.append("".join(_raw(t) for t in rec["cfg"][name]))
    for e in rec["es"]:
        if e["t"] == "ps":
            ps.append("".join(_raw(t) for t in e["toks"]))
    return " | ".join(p for p in ps if p)


def _raw(t):
    k, n, w = t["k"], t["n"], t["w"]
    return {"lit": w, "dlr": "$ ", "var": "$" + n, "brc": "${%s}" % n, "dfl": "${%s:-%s}" % (n, w),
            "asg": "${%s:=%s}" % (n, w), "alt": "${%s:+%s}" % (n, w), "len": "${#%s}" % n,
            "inc": "$((%s=%s+1))" % (n, n), "ari": "$((%s+%s))" % (n, w), "sta": "$?", "sub": "$(echo %s)" % w,
            "err": "${%s?%s}" % (n, w), "bsl": "\\" + w}.get(k, "")


def _random_key(rec, why):
    c = rec["cfg"]
    feat = " ".join(e["t"] + (":" + e["f"] if e["f"] else "") + ("@eof" if e["t"] == "multi" and e["i"] > 0 else "")
                    for e in rec["es"])
    start = " ".join(x for x in (c["iflag"], c["mflag"], "-o ignoreeof" if c["ign"] else "", "-v" if c["vb"] else "",
                                 c["src"], "tty-in" if c["tin"] else "", "tty-err" if c["terr"] else "") if x)
    err = rec["obs"]["stderr"]
    return {"dir": "impl->spec", "fam": "random", "symptom": why, "feat": feat, "start": start, "ps": _ps_of(rec),
            "near": err[-12:] if "!!" not in err else err[max(0, err.find("!!") - 4):err.find("!!") + 8], "env": ""}


def _validate(rep, trace, timeout, totals):
    """Run Trace_Prompt over `trace` (in shards); report every rejected record."""
    with open(trace) as f:
        lines = f.readlines()
    n = len(lines)
    verdicts = {"ok": 0}
    wall = 0.0
    for a in range(0, n, SHARD):
        part = lines[a:a + SHARD]
        p = f"{trace}.shard"
        with open(p, "w") as f:
            f.writelines(part)
        r = vlib.tlc("Trace_Prompt", "Trace_Prompt.cfg", workers=8, timeout=timeout, xmx="3g",
                     env={"TRACE": os.path.abspath(p)})
        os.remove(p)
        vlib.tlc_must_pass(r, "trace validation (Trace_Prompt)")
        if r.distinct != 2 * len(part) - 1:
            raise vlib.ToolError(f"trace validation judged {r.distinct} states for {len(part)} records")
        wall += r.wall
        totals["states"] += r.distinct
        totals["transitions"] += r.generated
        nok = len(part)
        for j in r.json:
            nok -= 1
            rec = json.loads(part[j["i"] - 1])
            if j["v"] == "render":
                raise vlib.ToolError("harness renderer and Prompt!Session disagree on " + json.dumps(rec["es"]))
            if j["v"] == "skip":
                verdicts["skip"] = verdicts.get("skip", 0) + 1
                continue
            verdicts["reject"] = verdicts.get("reject", 0) + 1
            rep.violation(_random_key(rec, j["why"]),
                          f"random session: {j['why']} differ from what Prompt.tla allows; input chunks "
                          f"{rec['chunks']!r}; observed stderr {rec['obs']['stderr'][:600]!r} stdout "
                          f"{rec['obs']['stdout'][:200]!r} events {rec['obs']['ev']!r} outcome {rec['obs']['outcome']}",
                          {"session": {"cfg": rec["cfg"], "es": rec["es"], "cut": rec.get("cut", False)},
                           "why": j["why"], "dir": "impl->spec"})
        verdicts["ok"] += nok
    vlib.log(f"[p3<-] {n} random sessions judged by TLC in {wall:.1f}s: {verdicts}")
    return n, verdicts


def run(tier):
    t0 = time.time()
    T = TIERS[tier]
    wd = vlib.workdir(PID)
    rep = vlib.Reporter(PID)
    totals = {"states": 0, "transitions": 0}

    # 0. calibration
    r = vlib.tlc("Calib_Prompt", "Calib_Prompt.cfg", workers=1, timeout=300)
    vlib.tlc_must_pass(r, "calibration examples (Calib_Prompt)")
    vlib.log(f"[calib] Calib_Prompt: all ASSUMEs hold ({r.wall:.1f}s)")

    # 1. laws of the model, refutation of the wrong variants; 2. enumeration (TLC runs side by side)
    gen = os.path.join(wd, "gen.ndjson")
    with ThreadPoolExecutor(max_workers=10) as pool:
        f_laws = pool.submit(vlib.tlc, "Gen_Prompt", "Laws_Prompt.cfg", workers=4, timeout=T["timeout"], xmx="2g")
        f_neg = {v: pool.submit(vlib.tlc, "Gen_Prompt", f"Neg_Prompt_{v}.cfg", workers=1, timeout=T["timeout"], xmx="1g")
                 for v in NEGATIVE}
        f_gen = pool.submit(vlib.tlc, "Gen_Prompt", T["gen"], workers=6, timeout=T["timeout"], json_out=gen, xmx="3g")
        r = f_laws.result()
        vlib.tlc_must_pass(r, "laws of the model (Laws_Prompt.cfg)")
        totals["states"] += r.distinct
        totals["transitions"] += r.generated
        laws_states = r.distinct
        vlib.log(f"[p1] Laws_Prompt.cfg: {r.distinct} sessions satisfy the laws ({r.wall:.1f}s)")
        refuted = []
        for v in NEGATIVE:
            rn = f_neg[v].result()
            text = (rn.violation or "") + (rn.error or "")
            if rn.ok or "Refute" not in text:
                raise vlib.ToolError(f"negative configuration {v}: the wrong variant was not refuted ({text[:300]})")
            refuted.append(v)
        vlib.log(f"[p1] wrong variants refuted by TLC: {', '.join(refuted)}")
        r = f_gen.result()
    vlib.tlc_must_pass(r, f"enumeration {T['gen']}")
    ngen = vlib.count_lines(gen)
    if ngen != r.distinct or ngen == 0:
        raise vlib.ToolError(f"enumeration printed {ngen} lines for {r.distinct} states")
    totals["states"] += r.distinct
    totals["transitions"] += r.generated
    vlib.log(f"[p2->] {T['gen']}: {r.distinct} sessions / call cases enumerated by TLC in {r.wall:.1f}s")
    samples = []
    with open(gen) as f:
        for i, line in enumerate(f):
            if i % 4973 == 1242 and len(samples) < 5:
                e = json.loads(line)
                if e["fam"] == "guard":
                    samples.append({k: e[k] for k in ("fam", "inter", "tty", "ign", "k", "ret")})
                elif e["fam"] != "call":
                    samples.append({k: e[k] for k in ("fam", "args", "src", "tin", "terr", "rc", "chunks", "pat", "out", "ev")})
                else:
                    samples.append({k: e[k] for k in ("fam", "text", "first", "x", "nou", "pat", "post")})
    mism = os.path.join(wd, "mismatch.ndjson")
    t1 = time.time()
    _, out, _ = vlib.run_harness(PKG, ["replay", "--in", gen, "--out", mism, "--threads", "8"], timeout=T["timeout"])
    st1 = _summary(out)
    vlib.log(f"[p2->] replayed on the real shell in {time.time() - t1:.1f}s: {st1['shell_runs']} shell runs, "
             f"{st1['calls']} calls of expand_posix / Prompter / EofGuard; {st1['mismatches']} mismatches")
    if st1["sessions"] != ngen:
        raise vlib.ToolError("harness did not replay every session")
    for m in vlib.read_ndjson(mism):
        rep.violation(m["key"], m["detail"] + "; input chunks: " + repr(m["input"]),
                      {"sc": m["sc"], "dir": "spec->impl", "obs": m["obs"]})
    os.remove(gen)

    # 3. impl -> spec
    trace = os.path.join(wd, "random.ndjson")
    _, out, _ = vlib.run_harness(PKG, ["random", "--n", T["nrandom"], "--out", trace, "--threads", "8"],
                                 timeout=T["timeout"])
    st2 = _summary(out)
    nrec, verdicts = _validate(rep, trace, T["timeout"], totals)
    with open(trace) as f:
        for i, line in enumerate(f):
            if i % 3919 == 77 and len(samples) < 7:
                samples.append(json.loads(line))
    os.remove(trace)

    rc = rep.finish()
    vlib.write_evidence(PID, tier, {
        "states": totals["states"],
        "transitions": totals["transitions"],
        "traces_validated_against_impl": nrec,
        "samples": samples,
        "evaluations": st1["shell_runs"] + st1["calls"] + st2["shell_runs"],
        "distinct_nontrivial": st1["nontrivial"] + verdicts.get("ok", 0),
        "rule": "enumerated sessions in which the shell writes at least one byte to standard error (or a call-level "
                "case with a non-empty expansion), plus random sessions accepted by Trace_Prompt",
        "exhaustive": True,
        "exhaustive_bound": f"all sessions of the families of {T['gen']} (see spec/Gen_Prompt.tla); random beyond",
        "config": T["gen"],
        "enumerated": ngen,
        "enumerated_by_family": st1["by_family"],
        "enumerated_interactive": st1["interactive"],
        "events_exercised_by_enumeration": st1["features"],
        "stderr_bytes_compared": st1["stderr_bytes"],
        "laws_checked_on_sessions": laws_states,
        "wrong_variants_refuted": refuted,
        "random_records": nrec,
        "random_verdicts": verdicts,
        "mismatches_spec_to_impl": st1["mismatches"],
    }, time.time() - t0, violations=len(rep.violations), assumptions=[
        "runs are in-process on the simulated OS: descriptors 0 and 2 are simulated terminals or regular files; an "
        "end-of-file condition followed by more input (Ctrl-D on a terminal) is realised by appending the next chunk "
        "to the terminal when the shell expands its next prompt (the injected ExpandText dependency is wrapped by a "
        "notifier for those sessions only)",
        "`tick` (foreground) and `nap D S` (background) are harness built-ins on the virtual clock: a job `nap D S&` "
        "terminates during the D-th following `tick`; `probe` / `echo` / `cat` / `status` are the shared probe built-ins",
        "open in the specification (any output accepted): the text of diagnostics, the history number (a lone ! may "
        "also stay), process IDs, $? after a syntax error, what replaces a prompt whose expansion fails, a backslash "
        "in a prompt string (literal or quoting), which of two non-suspended jobs is current, the order of two "
        "reports, 49 or 50 ignoreeof warnings before the shell gives up, whether PS1 is shown once more after "
        "end-of-file inside an unfinished command",
        "not modelled (never generated / class skip): -v with -c, jobs with -c, job removal by jobs / wait, stopped "
        "and killed jobs (G02), set -b, PS1 / PS2 unset, a last line without newline, interrupts",
        "TLC and the JSON community module are trusted",
    ])
    return rc


def replay(path):
    with open(path) as f:
        obj = json.load(f)
    rp = obj["replay"]
    wd = vlib.workdir(PID + "-replay")
    if rp.get("dir") == "spec->impl":
        src = os.path.join(wd, "one.ndjson")
        with open(src, "w") as f:
            f.write(json.dumps(rp["sc"]) + "\n")
        mism = os.path.join(wd, "mismatch.ndjson")
        vlib.run_harness(PKG, ["replay", "--in", src, "--out", mism, "--threads", "1"])
        ms = list(vlib.read_ndjson(mism))
        if ms:
            print(ms[0]["detail"])
            print(f"VIOLATION property={PID} replay={path}")
            return 1
        print("accepted")
        return 0
    src = os.path.join(wd, "session.json")
    with open(src, "w") as f:
        json.dump(rp["session"], f)
    t = os.path.join(wd, "one.ndjson")
    vlib.run_harness(PKG, ["one", "--in", src, "--out", t])
    r = vlib.tlc("Trace_Prompt", "Trace_Prompt.cfg", workers=1, timeout=300, env={"TRACE": os.path.abspath(t)})
    vlib.tlc_must_pass(r, "replay validation")
    rec = json.loads(open(t).read())
    print("input chunks:", rec["chunks"])
    print("observed:", json.dumps(rec["obs"])[:1500])
    bad = [j for j in r.json if j["v"] in ("reject", "render")]
    if bad:
        print(f"rejected: {bad[0]}")
        print(f"VIOLATION property={PID} replay={path}")
        return 1
    print("accepted" + (f" ({r.json[0]})" if r.json else ""))
    return 0
