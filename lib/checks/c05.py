"""C05 — pathname expansion (DESIGN.md section 6, C05).

Oracle: spec/Glob.tla (over spec/Fnmatch.tla), written from POSIX XCU 2.14.3
and docs/src/language/words/globbing.md.

P1  TLC checks the sanity theorems about the oracle (MC_Glob_sanity.cfg).
P4  enumeration, spec -> impl: TLC (spec/MC_Glob.tla) enumerates words (unit
    sequences with mixed quoting) and file trees and prints the allowed results;
    harness/c05 runs `probe <word>` through the real shell on the simulated file
    system and, for a selection of the trees (all trees with symbolic links), on
    the real file system inside a chroot, and compares.
P4  validation, impl -> spec: seeded random trees and words beyond the bounds,
    run on both file systems, recorded and judged by TLC (spec/Trace_Glob.tla).

A deviation of the simulated run is classified by the real run of the same
case (`real` = conforms / differs), so that defects of the simulated file
system (known findings) are told from defects of the expansion itself.
"""
import json
import os
import threading
import time
from concurrent.futures import ThreadPoolExecutor

import vlib

PID = "C05"
PKG = "yv-c05"

TIERS = {
    "quick": {
        "sanity": "MC_Glob_sanity.cfg",
        "gen": [("MC_Glob_quickA.cfg", ["--real-first", "9", "--real-stride", "5", "--noglob-trees", "2"]),
                ("MC_Glob_quickB.cfg", ["--real-first", "0", "--real-stride", "6", "--noglob-trees", "1"])],
        "random": (60, 40),
        "shards": 4,
        "timeout": 600,
    },
    "thorough": {
        "sanity": "MC_Glob_sanity3.cfg",
        "gen": [("MC_Glob_thorA.cfg", ["--real-first", "9", "--real-stride", "4", "--noglob-trees", "2"]),
                ("MC_Glob_thorB.cfg", ["--real-first", "0", "--real-stride", "10", "--noglob-trees", "1"]),
                ("MC_Glob_thorC.cfg", ["--real-first", "9", "--real-stride", "4", "--noglob-trees", "1"])],
        "random": (400, 40),
        "shards": 8,
        "timeout": 3000,
    },
}


def _field_of(units):
    return "".join(u["s"] for u in units)


def _key(mode, real, links, units, text, noglob, cwd, observed):
    field = _field_of(units)
    return {"mode": mode, "real": real, "links": links, "field": field, "text": text, "noglob": noglob, "cwd": cwd,
            # the word holds a backslash that stems from an expansion
            "escape": any(u["k"] == "var" and "\\" in u["s"] for u in units),
            # the word itself was delivered
            "got_unchanged": observed == [field]}


def _validate_sharded(path, shards, timeout):
    """Run Trace_Glob over `path` in parallel JVMs; returns (verdicts by global
    1-based line number, number of records reached, wall seconds)."""
    with open(path) as f:
        lines = f.readlines()
    n = len(lines)
    if n == 0:
        return {}, 0, 0.0
    size = (n + shards - 1) // shards
    pieces = []
    for k in range(0, n, size):
        p = f"{path}.shard{k // size}"
        with open(p, "w") as f:
            f.writelines(lines[k:k + size])
        pieces.append((k, min(n, k + size) - k, p))
    t0 = time.time()

    def one(piece):
        off, cnt, p = piece
        r = vlib.tlc("Trace_Glob", "Trace_Glob.cfg", workers=1, timeout=timeout, env={"TRACE": p}, depth_first=True,
                     xmx="3g")
        vlib.tlc_must_pass(r, f"trace validation {os.path.basename(p)}")
        if r.distinct != cnt + 1:
            raise vlib.ToolError(f"trace validation reached {r.distinct - 1} of {cnt} records in {p}")
        return {off + j["i"]: j["v"] for j in r.json}

    verdicts = {}
    with ThreadPoolExecutor(max_workers=shards) as ex:
        for v in ex.map(one, pieces):
            verdicts.update(v)
    for _, _, p in pieces:
        os.remove(p)
    return verdicts, n, time.time() - t0


def run(tier):
    t0 = time.time()
    cfgs = TIERS[tier]
    wd = vlib.workdir(PID)
    rep = vlib.Reporter(PID)
    vlib.build_harness(PKG)
    seed = vlib.seed()

    # P1: sanity theorems, concurrently with the enumeration
    sanity = {}

    def do_sanity():
        try:
            # calibration examples from the manual and path-p.sh (ASSUMEs)
            sanity["c"] = vlib.tlc("Calib_Glob", "Calib_Glob.cfg", workers=1, timeout=cfgs["timeout"])
            sanity["r"] = vlib.tlc("MC_Glob", cfgs["sanity"], workers=4, timeout=cfgs["timeout"], tool_seed=seed)
        except Exception as e:  # reported below
            sanity["e"] = e

    th = threading.Thread(target=do_sanity)
    th.start()
    try:
        return _run(tier, cfgs, wd, rep, seed, sanity, th, t0)
    finally:
        th.join()


def _run(tier, cfgs, wd, rep, seed, sanity, th, t0):
    states = transitions = 0
    totals = {}
    samples = []
    gen_info = []
    for cfg, hargs in cfgs["gen"]:
        gen = os.path.join(wd, cfg + ".ndjson")
        r = vlib.tlc("MC_Glob", cfg, workers=8, timeout=cfgs["timeout"], json_out=gen, tool_seed=seed)
        vlib.tlc_must_pass(r, f"enumeration {cfg}")
        states += r.distinct
        transitions += r.generated
        vlib.log(f"[tlc] {cfg}: {r.distinct} words enumerated, {r.wall:.1f}s")
        mis = os.path.join(wd, cfg + ".mismatch.ndjson")
        _, out, _ = vlib.run_harness(PKG, ["replay", "--in", gen, "--out", mis] + hargs, timeout=cfgs["timeout"])
        summ = json.loads(out.strip().splitlines()[-1])
        if summ["sim_cases"] == 0 or summ["words"] != r.distinct - 1:
            raise vlib.ToolError(f"replay of {cfg} covered {summ['words']} of {r.distinct - 1} words")
        for k, v in summ.items():
            if isinstance(v, int) and k not in ("trees", "words"):
                totals[k] = totals.get(k, 0) + v
        totals["trees"] = totals.get("trees", 0) + summ["trees"]
        totals["words"] = totals.get("words", 0) + summ["words"]
        samples += summ["samples"][:3]
        gen_info.append({"cfg": cfg, "words": summ["words"], "trees": summ["trees"], "tlc_wall_s": round(r.wall, 1)})
        vlib.log(f"[p4] {cfg}: {summ['sim_cases']} cases on the simulated fs, {summ['real_cases']} on the real fs, "
                 f"{summ['noglob_cases']} noglob; {summ['mismatches']} deviation(s)")
        for m in vlib.read_ndjson(mis):
            key = _key(m["mode"], m["real"], m["links"], m["units"], m["text"], m["noglob"], m["tree"]["cwd"],
                       m["observed"])
            rep.violation(key, f"{m['mode']} file system: `{m['text']}` delivered {m['observed']} ({m['outcome']}); "
                               f"allowed {m['allowed']}", m)
        os.remove(gen)
        os.remove(mis)

    # impl -> spec: random trees and words beyond the bounds
    runs, per = cfgs["random"]
    trace = os.path.join(wd, "random.ndjson")
    vlib.run_harness(PKG, ["random", "--runs", str(runs), "--words", str(per), "--out", trace], timeout=cfgs["timeout"])
    verdicts, nrec, wall = _validate_sharded(trace, cfgs["shards"], cfgs["timeout"])
    recs = list(vlib.read_ndjson(trace))
    counts = {"ok": 0, "unspecified": 0, "outside": 0, "reject": 0}
    for i, rec in enumerate(recs, start=1):
        v = verdicts.get(i, "ok")
        if v == "bad-input":
            raise vlib.ToolError(f"random record {i} is not a well-formed case: {rec['text']}")
        counts[v] += 1
    for i, rec in enumerate(recs, start=1):
        if verdicts.get(i, "ok") != "reject":
            continue
        if rec["mode"] == "sim":
            twin = verdicts.get(i + 1, "ok") if i < len(recs) and recs[i]["id"] == rec["id"] else "reject"
            real = "conforms" if twin == "ok" else "differs"
        else:
            real = "differs"
        mode = "real" if rec["mode"] == "both" else rec["mode"]
        key = _key(mode, real, rec["links"], rec["us"], rec["text"], rec["ng"], "/" + "/".join(rec["cwd"]), rec["out"])
        rep.violation(key, f"random case on the {rec['mode']} file system(s): `{rec['text']}` delivered {rec['out']}, "
                           f"not allowed by Glob.tla", rec)
    if recs:
        nontriv = [r for i, r in enumerate(recs, start=1)
                   if verdicts.get(i, "ok") == "ok" and r["out"] != [_field_of(r["us"])]]
        samples += [{"random": r["text"], "cwd": r["cwd"], "observed": r["out"]} for r in nontriv[:2]]
    else:
        nontriv = []
    vlib.log(f"[p4] random: {nrec} records judged by Trace_Glob in {wall:.1f}s: {counts}")
    os.remove(trace)

    th.join()
    if "e" in sanity:
        raise sanity["e"]
    vlib.tlc_must_pass(sanity["c"], "calibration examples Calib_Glob")
    vlib.tlc_must_pass(sanity["r"], f"oracle sanity {cfgs['sanity']}")
    vlib.log(f"[tlc] sanity theorems hold on {sanity['r'].distinct} words ({sanity['r'].wall:.1f}s)")
    states += sanity["r"].distinct
    transitions += sanity["r"].generated

    rc = rep.finish()
    evaluations = totals.get("sim_cases", 0) + totals.get("real_cases", 0) + totals.get("noglob_cases", 0) + nrec
    vlib.write_evidence(PID, tier, {
        "states": states,
        "transitions": transitions,
        "traces_validated_against_impl": evaluations,
        "samples": samples[:8],
        "evaluations": evaluations,
        "distinct_nontrivial": totals.get("nontrivial_cases", 0) + len(nontriv),
        "rule": "distinct (tree, word) cases whose allowed result is not just the word itself (something matched), "
                "each run on the real shell; plus accepted random records with such a result",
        "exhaustive": True,
        "bounds": gen_info,
        "enumeration": totals,
        "sanity_words": sanity["r"].distinct,
        "random_records": nrec,
        "random_verdicts": counts,
        "known_finding_hits": {fid: n for fid, (_, n) in rep.known_hits.items()},
        "not_covered": ["directories without read/search permission (the sandbox runs as root)",
                        "names outside ASCII, locale-dependent collation",
                        "interruption of a scan by SIGINT"],
    }, time.time() - t0, violations=len(rep.violations), assumptions=[
        "spec/Fnmatch.tla (C04) is the meaning of one pattern component",
        "the real Linux file system is the reference for pathname resolution (chroot into a scratch directory)",
        "field splitting leaves the generated words whole (values hold no IFS characters)",
        "TLC 1.8.0 and the JSON community module are trusted",
    ])
    return rc


def replay(path):
    with open(path) as f:
        obj = json.load(f)
    rec = obj["replay"]
    wd = vlib.workdir(PID + "-replay")
    if "units" in rec:      # a deviation found by the enumeration
        src = os.path.join(wd, "in.ndjson")
        with open(src, "w") as f:
            f.write(json.dumps(rec) + "\n")
        res = os.path.join(wd, "out.ndjson")
        _, out, _ = vlib.run_harness(PKG, ["redo", "--in", src, "--out", res])
        for r in vlib.read_ndjson(res):
            print(json.dumps(r))
        bad = json.loads(out.strip().splitlines()[-1])["bad"]
    else:                   # a rejected random record: run it again and let TLC judge
        src = os.path.join(wd, "in.ndjson")
        with open(src, "w") as f:
            f.write(json.dumps(rec) + "\n")
        res = os.path.join(wd, "one.ndjson")
        vlib.run_harness(PKG, ["redo", "--in", src, "--out", res])
        verdicts, n, _ = _validate_sharded(res, 1, 300)
        for i, r in enumerate(vlib.read_ndjson(res), start=1):
            print(f"{r['mode']}: `{r['text']}` delivered {r['out']}: {verdicts.get(i, 'ok')}")
        bad = sum(1 for v in verdicts.values() if v == "reject")
    if bad:
        print(f"VIOLATION property={PID} replay={path}")
    return 1 if bad else 0
