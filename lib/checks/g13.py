"""G13 — array variables and multi-valued parameters (specification-growth module; spec/ArrayVars.tla).

The oracle is the TLA+ module spec/ArrayVars.tla, the multi-valued extension of C01's
word-expansion oracle (Expand.tla / Split.tla, extended read-only), written from the
manual (variables.md Arrays, parameters.md, special.md, field_splitting.md, simple.md,
typeset/export/readonly/unset/read.md) and the public doc comments it cites.

 0. Calib_ArrayVars: every array example of the manual and of the scripted tests
    (simple-y.sh, typeset-y.sh, param-y.sh, param-p.sh, read-y.sh) holds for the
    oracle (ASSUMEs; failure = tool error).
 1. Gen_ArrayVars, laws (part of the same TLC runs as 2): "$c" after c=("$@")
    reproduces the positional parameters exactly for every list over the element
    alphabet; set -- "$c"; c=("$@") is the identity; per-element modifiers commute with
    element selection; a scalar s and the array <<s>> agree in every context; on
    scalar-only states the outcomes are C01's; state-machine laws of unset / export /
    readonly / read / print-and-re-read on every reachable state.
 2. spec -> impl: TLC prints (family w) words x states x IFS with the allowed fields and
    single-field text, (family s) every reachable model state with its witness and the
    allowed result of every command of a fan, (family r) the round trips; harness/g13
    runs every case on the real shell (simulated OS): each word as command word,
    for-loop word, `set --` operand, array assignment, scalar assignment, case subject,
    here-document text and redirection operand; each fan command in a subshell after the
    witness, observing fields, the typed variable table with attributes, the positional
    parameters, the environment handed to a utility, and the text of typeset -p /
    export -p / readonly -p parsed by the shell's parser and re-evaluated by a fresh shell.
 3. impl -> spec: seeded random command sequences on random states are recorded step
    by step and judged by TLC (Trace_ArrayVars: AgreesR over Step).
"""
import json
import os
import time

import vlib

PID = "G13"
PKG = "yv-g13"

TIERS = {
    "quick": dict(gens=[("r", "Gen_ArrayVars_rq.cfg"), ("s", "Gen_ArrayVars_sq.cfg"), ("w", "Gen_ArrayVars_wq.cfg")],
                  nrandom=5000, timeout=600, all_contexts=False),
    "thorough": dict(gens=[("r", "Gen_ArrayVars_rt.cfg"), ("s", "Gen_ArrayVars_st.cfg"), ("w", "Gen_ArrayVars_wt.cfg")],
                     nrandom=60000, timeout=2400, all_contexts=True),
}

SHARD = 40000

# every command kind / outcome kind the enumeration must exercise (else tool error)
REQUIRED = ["probe/ok", "for/ok", "set/ok", "arr/ok", "sca/ok", "case/ok", "here/ok", "redir/ok", "unset/ok",
            "unset/readonly", "ro/ok", "export/ok", "read/ok", "read/fail", "print/ok", "env/ok", "tmpenv/ok",
            "arr/readonly", "sca/readonly", "probe/unset", "probe/vacant", "probe/nonassignable", "probe/readonly"]


def _summary(out):
    line = [l for l in out.strip().splitlines() if l.startswith("{")][-1]
    return json.loads(line)


def _key(direction, text, state, cmd):
    return {"dir": direction, "cmd": cmd.get("c", "witness") if isinstance(cmd, dict) else "witness",
            "text": text, "state": state}


def _state_str(st):
    def var(v):
        s = {"u": "unset", "s": repr(v["s"]), "a": "(" + " ".join(repr(e) for e in v["e"]) + ")"}[v["k"]]
        return s + (" ro" if v["ro"] else "") + (" exported" if v["ex"] else "")
    return "a=%s b=%s c=%s IFS=%s pos=%s%s" % (var(st["a"]), var(st["b"]), var(st["c"]), var(st["IFS"]),
                                                json.dumps(st["pos"]), " nounset" if st["nounset"] else "")


def _validate(rep, trace, timeout, totals):
    with open(trace) as f:
        lines = f.readlines()
    n = len(lines)
    nrej = nskip = 0
    wall = 0.0
    for a in range(0, n, SHARD):
        part = lines[a:a + SHARD]
        p = f"{trace}.shard"
        with open(p, "w") as f:
            f.writelines(part)
        r = vlib.tlc("Trace_ArrayVars", "Trace_ArrayVars.cfg", workers=8, timeout=timeout,
                     env={"TRACE": os.path.abspath(p)})
        os.remove(p)
        vlib.tlc_must_pass(r, "trace validation (Trace_ArrayVars)")
        if r.distinct != 2 * len(part) - 1:
            raise vlib.ToolError(f"trace validation judged {r.distinct} states for {len(part)} records")
        wall += r.wall
        totals["states"] += r.distinct
        totals["transitions"] += r.generated
        for j in r.json:
            if j["v"] == "skip":
                nskip += 1
                continue
            nrej += 1
            rec = json.loads(part[j["i"] - 1])
            st = _state_str(rec["st"])
            detail = (f"`{rec['text']}` in [{st}]: observed {json.dumps(rec['obs'])}; "
                      f"allowed: {json.dumps(j['exp'])}")
            rep.violation(_key("impl->spec", rec["text"], st, rec["cmd"]), detail,
                          {"st0": rec["st"], "path": [], "cmd": rec["cmd"]})
    vlib.log(f"[p4<-] {n} recorded steps judged by TLC in {wall:.1f}s: {n - nrej - nskip} accepted, "
             f"{nskip} left open by the specification, {nrej} rejected")
    return n - nskip, nskip


def run(tier):
    t0 = time.time()
    cfg = TIERS[tier]
    wd = vlib.workdir(PID)
    rep = vlib.Reporter(PID)
    totals = {"states": 0, "transitions": 0}
    vlib.build_harness(PKG)

    # 0. calibration
    r = vlib.tlc("Calib_ArrayVars", "Calib_ArrayVars.cfg", workers=1, timeout=300)
    vlib.tlc_must_pass(r, "calibration examples (Calib_ArrayVars)")
    with open(os.path.join(vlib.SPEC, "Calib_ArrayVars.tla")) as f:
        nassume = sum(1 for l in f if l.startswith("ASSUME"))
    vlib.log(f"[calib] {nassume} examples of the manual / scripted tests hold for the oracle ({r.wall:.1f}s)")

    # 1 + 2. laws and spec -> impl
    tags = {}
    fam_sum = {}
    samples = []
    cases = skipped = ambiguous = runs = 0
    for fam, gcfg in cfg["gens"]:
        gen = os.path.join(wd, f"gen_{fam}.ndjson")
        r = vlib.tlc("Gen_ArrayVars", gcfg, workers=8, timeout=cfg["timeout"], env={"SEED": str(vlib.seed())},
                     json_out=gen)
        vlib.tlc_must_pass(r, f"enumeration and laws {gcfg}")
        totals["states"] += r.distinct
        totals["transitions"] += r.generated
        nlines = vlib.count_lines(gen)
        vlib.log(f"[tlc] {gcfg}: {r.distinct} states, laws hold on all, {nlines} lines printed ({r.wall:.1f}s)")
        mism = os.path.join(wd, f"mismatch_{fam}.ndjson")
        args = ["replay", "--in", gen, "--out", mism, "--threads", "8"]
        if cfg["all_contexts"]:
            args.append("--all-contexts")
        _, out, _ = vlib.run_harness(PKG, args)
        s = _summary(out)
        if s["lines"] != nlines:
            raise vlib.ToolError(f"replay covered {s['lines']} of {nlines} lines ({gcfg})")
        for rec in vlib.read_ndjson(mism):
            if rec["what"] == "witness":
                detail = (f"witness `{rec['text']}` from [{rec['state']}]: model state {json.dumps(rec['exp'][0]['st'])}, "
                          f"observed {json.dumps(rec['obs']['st'])}")
                rep.violation(_key("spec->impl", rec["text"], rec["state"], "witness"), detail,
                              {"st0": rec["st0"], "path": rec["path"], "cmd": None})
            else:
                detail = (f"`{rec['text']}` in [{rec['state']}]: allowed {json.dumps(rec['exp'])}, "
                          f"observed {json.dumps(rec['obs'])} stderr {rec['stderr']!r}")
                rep.violation(_key("spec->impl", rec["text"], rec["state"], rec["cmd"]), detail,
                              {"st0": rec["st0"], "path": rec["path"], "cmd": rec["cmd"]})
        vlib.log(f"[p4->] family {fam}: {s['lines']} lines, {s['cases']} cases run in {s['runs']} shell runs "
                 f"({s['errors_expected']} expected errors, {s['ambiguous']} with two allowed results, "
                 f"{s['skipped']} left open): {s['mismatches']} mismatches")
        fam_sum[fam] = {k: s[k] for k in ("lines", "cases", "skipped", "ambiguous", "errors_expected", "mismatches", "runs")}
        fam_sum[fam]["tlc_states"] = r.distinct
        for k, v in s["tags"].items():
            tags[k] = tags.get(k, 0) + v
        samples += s["samples"][:2]
        cases += s["cases"]
        skipped += s["skipped"]
        ambiguous += s["ambiguous"]
        runs += s["runs"]
        os.remove(gen)
    missing = [t for t in REQUIRED if not tags.get(t)]
    if missing:
        raise vlib.ToolError(f"rules of the specification not exercised by the enumeration: {missing}")

    # 3. impl -> spec
    trace = os.path.join(wd, "random.ndjson")
    _, out, _ = vlib.run_harness(PKG, ["random", "--n", cfg["nrandom"], "--out", trace, "--threads", "8"])
    rs = _summary(out)
    judged, open_random = _validate(rep, trace, cfg["timeout"], totals)
    with open(trace) as f:
        for i, line in enumerate(f):
            if i in (3, 777):
                rec = json.loads(line)
                samples.append({"state": _state_str(rec["st"]), "command": rec["text"],
                                "observed": {k: rec["obs"][k] for k in ("k", "f", "j", "x")}})
    os.remove(trace)

    rc = rep.finish()
    vlib.write_evidence(PID, tier, {
        "states": totals["states"],
        "transitions": totals["transitions"],
        "traces_validated_against_impl": cases + judged,
        "samples": samples[:8],
        "evaluations": cases + judged,
        "distinct_nontrivial": cases,
        "rule": "distinct (state, command) cases enumerated by TLC and executed on the real shell (a word of family w "
                "counts once per context it is used in); recorded random steps counted separately",
        "exhaustive": tier == "thorough",
        "exhaustive_over": "all one-unit words of the alphabet U of Gen_ArrayVars x 18 states x 5 IFS values x nounset"
                           + (", all pairs with a Core unit and all triples Core x Mid x Core; "
                              if tier == "thorough" else
                              ", a seeded sample of the pairs with a Core unit and of the triples Core x Mid x Core; ")
                           + "all lists of up to RLen positional parameters over the 10-element alphabet x 5 IFS values; "
                             "every model state reachable by Depth transitions (deepest level sampled in quick) x the command fan",
        "bounds": {fam: g for fam, g in cfg["gens"]} | {"random_sequences": cfg["nrandom"], "random_sequence_length": 6},
        "calibration_assumes": nassume,
        "families": fam_sum,
        "left_open_cases": skipped,
        "left_open_random_steps": open_random,
        "two_allowed_results": ambiguous,
        "rule_coverage": tags,
        "shell_runs": runs,
        "impl_to_spec_steps_judged": judged,
        "random_sequences": rs["sequences"],
    }, time.time() - t0, violations=len(rep.violations), assumptions=[
        "pathname expansion is switched off (set -f); tilde expansion, command substitution and arithmetic "
        "expansion inside words are not generated (they belong to C01/G04)",
        "the colon forms of the switch modifiers treat an array without elements and an array of one empty string "
        "as empty, as the public doc comments of yash_semantics::expansion::initial::Vacancy and SwitchCondition say; "
        "the manual itself only says 'unset or empty'",
        "trim on an array is applied to each element (the manual says so explicitly only for the length modifier; "
        "trim.rs documents it by its unit tests)",
        "left open and counted: switch without colon on @ / * with no positional parameters; switch and trim on #; "
        "zero-field expansion next to other empty text inside one pair of double quotes (both results allowed); "
        "IFS being an array; trim patterns with brackets or backslashes from expansions; redirection operands that "
        "are not plain file names; printing of variables without value or without the attribute asked for",
        "an expansion error inside a here-document or a redirection operand may either exit the shell or fail the "
        "command (error dispositions are not this module's subject)",
        "the exact quoting of typeset -p output is judged by re-evaluation in a fresh shell, not textually (C07 "
        "covers yash-quote)",
        "TLC 1.8.0 and the JSON community module are trusted",
    ])
    return rc


def replay(path):
    with open(path) as f:
        obj = json.load(f)
    rec = obj["replay"]
    wd = vlib.workdir(PID + "-replay")
    src = os.path.join(wd, "in.ndjson")
    with open(src, "w") as f:
        f.write(json.dumps(rec) + "\n")
    t = os.path.join(wd, "one.ndjson")
    vlib.run_harness(PKG, ["one", "--in", src, "--out", t])
    r = vlib.tlc("Trace_ArrayVars", "Trace_ArrayVars.cfg", workers=1, timeout=300, env={"TRACE": os.path.abspath(t)})
    vlib.tlc_must_pass(r, "replay validation")
    with open(t) as f:
        lines = f.readlines()
    for l in lines:
        rr = json.loads(l)
        print("observed:", rr["text"].replace("\n", "\\n"), "->", json.dumps(rr["obs"]))
    rejected = [j for j in r.json if j["v"] == "reject"]
    if rejected:
        print("allowed by the specification:", json.dumps(rejected[0]["exp"]))
        print(f"VIOLATION property={PID} replay={path}")
        return 1
    print("accepted")
    return 0
