"""G19 - yash-fnmatch: configuration flags and the literal fast path
(specification-growth module; spec/FnmatchExt.tla over C04's spec/Fnmatch.tla).

The oracle is the TLA+ definition spec/FnmatchExt.tla, written from the crate's
public doc comments (Config, Error, Pattern::{as_literal, into_literal, is_match,
find, rfind}, PatternChar, with_escape, without_escape, ast::Atom), POSIX.1-2024
XCU 2.14 / XBD 9.2 / 9.3.5 and the Unicode simple case folding: case_insensitive
(letters, ranges, classes, non-matching lists, non-ASCII letters, ignored for
literal patterns), literal_period for is_match / find / rfind under every anchor
combination, shortest_match, the literal fast path, PatternChar construction,
errors of parse_with_config and the invariants of the API.  Where the documents
leave a choice the specification yields a set of allowed outcomes (readings).

 0. Calib_FnmatchExt: worked examples of the doc comments, of the crate's own
    examples, of fnmatch-p.sh / param-p.sh and of the manual hold (ASSUMEs); nine
    named wrong variants of the definitions are each refuted by the named fact.
    Gen_FnmatchExt (Kind = "laws"): theorems of the definitions on every
    enumerated pattern x subject x 32 configurations x readings.
 1. spec -> impl: TLC (Gen_FnmatchExt) enumerates patterns per family and prints,
    per pattern, the allowed outcomes of (find, rfind) for every subject of the
    domain under every configuration of the family, as_literal, the atoms of the
    AST and the allowed errors; harness/g19 runs the real crate on all of them.
 2. the whole shell: `case` and the four trims for TLC-printed expectations
    (literal patterns with regex-special characters, quoted characters, leading
    periods, letters of both cases, non-ASCII characters).
 3. impl -> spec: seeded random longer cases (all five flags, the whole folding
    table, with_escape / without_escape, trailing backslashes) and a sample of the
    observations of stage 1 are judged by TLC (Trace_FnmatchExt).
"""
import json
import os
import re
import threading
import time
from concurrent.futures import ThreadPoolExecutor

import vlib

PID = "G19"
PKG = "yv-g19"
UTF8 = {"LC_ALL": "C.UTF-8"}

ENUM = {
    "quick": ["q_ci", "q_ciw", "q_lp", "q_cilp", "q_lit", "q_lit2", "q_wide", "q_err"],
    "thorough": ["t_ci", "t_ciw", "t_lp", "t_cilp", "t_lit", "t_lit2", "t_wide", "t_err"],
}
SHELL = {"quick": ["q_shell"], "thorough": ["t_shell"]}
LAWS = {"quick": "Gen_FnmatchExt_laws_q.cfg", "thorough": "Gen_FnmatchExt_laws_t.cfg"}
RANDOM = {"quick": 24000, "thorough": 300000}
EVERY = {"quick": 400, "thorough": 4000}          # one observation in EVERY is judged by TLC as well
TIMEOUT = {"quick": 900, "thorough": 3000}

# wrong variant of the definitions -> the calibration fact that must refute it
NEGATIVE = {
    "ci_literal": "C_LitCI", "ci_no_class": "C_ClassCI", "ci_ascii_only": "C_FoldWide", "fold_turkic": "C_Turkic",
    "lp_bracket_ok": "C_LpBracket", "lp_star_dot": "C_LpStarDot", "lp_everywhere": "C_LpMid",
    "lp_unanchored_off": "C_LpUnanch", "rfind_is_find": "C_RFind",
}
LAW_NAMES = ["L_Base", "L_Shape", "L_Part", "L_Suffix", "L_Last", "L_Period", "L_Mid", "L_LitCI", "L_Mono", "L_Fold",
             "L_Greed", "L_Twin", "L_Anchored", "L_Trim", "L_Tab", "L_Lit"]


def pattern_text(c, l):
    l = list(l or []) + [0] * len(c)
    return "".join(("\\" if q else "") + ch for ch, q in zip(c, l))


def flags(cfg):
    return "+".join(k for k in ("ab", "ae", "sh", "lp", "ci") if cfg.get(k)) or "none"


def _rec_text(rec):
    if rec.get("mode", "pc") == "pc":
        return pattern_text(rec["c"], rec.get("l"))
    return rec["mode"] + ":" + "".join(rec["c"])


# ---------------------------------------------------------------------------
# stage 0
# ---------------------------------------------------------------------------
def _calib(tier, acc, lock):
    r = vlib.tlc("Calib_FnmatchExt", "Calib_FnmatchExt.cfg", workers=1, timeout=300, env=UTF8)
    vlib.tlc_must_pass(r, "calibration (Calib_FnmatchExt)")
    with open(os.path.join(vlib.SPEC, "Calib_FnmatchExt.tla"), encoding="utf-8") as f:
        nfacts = len(re.findall(r"^ASSUME Variant", f.read(), re.M))

    def neg(variant):
        rn = vlib.tlc("Calib_FnmatchExt", f"Calib_FnmatchExt_neg_{variant}.cfg", workers=1, timeout=300, env=UTF8)
        txt = (rn.violation or "") + (rn.error or "")
        m = re.search(r"(?:The invariant of|Invariant) (\w+) is (?:equal to FALSE|violated)", txt)
        return variant, (m.group(1) if m else None), rn

    with ThreadPoolExecutor(max_workers=3) as ex:
        negs = list(ex.map(neg, sorted(NEGATIVE)))
    refuted = {}
    for variant, fact, rn in negs:
        if rn.ok or fact != NEGATIVE[variant]:
            vlib.log((rn.violation or rn.error or "")[:1500])
            raise vlib.ToolError(f"wrong variant {variant} is not refuted by {NEGATIVE[variant]} (got {fact})")
        refuted[variant] = fact
    vlib.log(f"[calib] {nfacts} calibration facts hold; {len(refuted)} wrong variants refuted: "
             + ", ".join(f"{v} by {p}" for v, p in sorted(refuted.items())))
    with lock:
        acc["calib_facts"] = nfacts
        acc["refuted"] = refuted
        acc["states"] += r.distinct
        acc["transitions"] += r.generated


def _laws(tier, acc, lock):
    r = vlib.tlc("Gen_FnmatchExt", LAWS[tier], workers=4, timeout=TIMEOUT[tier], env=UTF8)
    vlib.tlc_must_pass(r, f"theorems of the definitions ({LAWS[tier]})")
    vlib.log(f"[laws] {LAWS[tier]}: {len(LAW_NAMES)} theorems hold on {r.distinct} patterns x subjects x 32 configurations "
             f"x readings ({r.wall:.1f}s)")
    with lock:
        acc["laws_patterns"] = r.distinct
        acc["states"] += r.distinct
        acc["transitions"] += r.generated


# ---------------------------------------------------------------------------
# stage 1 / 2
# ---------------------------------------------------------------------------
def _enum_one(wd, name, tier, rep, acc, lock):
    lines = os.path.join(wd, f"{name}.lines.ndjson")
    r = vlib.tlc("Gen_FnmatchExt", f"Gen_FnmatchExt_{name}.cfg", workers=4, timeout=TIMEOUT[tier], json_out=lines, env=UTF8)
    vlib.tlc_must_pass(r, f"generator {name}")
    nlines = vlib.count_lines(lines) - 1
    if nlines != r.distinct:
        raise vlib.ToolError(f"{name}: {nlines} lines for {r.distinct} states")
    out = os.path.join(wd, f"{name}.mismatch.ndjson")
    sample = os.path.join(wd, f"{name}.sample.ndjson")
    t0 = time.time()
    vlib.run_harness(PKG, ["enum", "--in", lines, "--out", out, "--sample", sample, "--threads", "4",
                           "--every", str(EVERY[tier])], timeout=TIMEOUT[tier])
    stats, mism = None, []
    for d in vlib.read_ndjson(out):
        if "stats" in d:
            stats = d["stats"]
        else:
            mism.append(d)
    if any(d["kind"] == "tool" for d in mism):
        raise vlib.ToolError(f"{name}: {mism[0]}")
    if stats is None or stats["patterns"] != nlines:
        raise vlib.ToolError(f"{name}: harness replayed {stats and stats['patterns']} of {nlines} patterns")
    vlib.log(f"[spec->impl] {name}: {stats['patterns']} patterns ({stats['literal_patterns']} literal, "
             f"{stats['open_patterns']} open, {stats['error_patterns']} rejected by the parser) x {stats['domain']} subjects "
             f"x {stats['configs']} configurations = {stats['cases']} cases on yash_fnmatch ({stats['cases_matching']} "
             f"matching, {stats['cases_multi']} with more than one allowed outcome, {stats['cases_open']} open), "
             f"{stats['mismatches']} disagree; TLC {r.wall:.1f}s, harness {time.time() - t0:.1f}s")
    smp = None
    with open(lines, encoding="utf-8") as f:
        for i, line in enumerate(f):
            if i > nlines // 2 and '"t":{' in line:
                d = json.loads(line)
                s0 = sorted(d["t"])[len(d["t"]) // 2]
                smp = {"family": name, "pattern": pattern_text(d["c"], d["l"]), "subject": s0,
                       "allowed_outcomes_per_configuration": d["t"][s0]}
                break
    with lock:
        for d in mism:
            cfg = d.get("cfg") or {}
            key = {"check": "enum", "kind": d["kind"], "pattern": pattern_text(d["c"], d["l"]), "flags": flags(cfg),
                   "subject": "".join(d["s"])}
            recs = [dict({"mode": "pc", "c": d["c"], "l": d["l"], "s": d["s"]},
                         **{k: bool(cfg.get(k)) for k in ("ab", "ae", "sh", "lp", "ci")})]
            rep.violation(key, f"{name}: yash_fnmatch disagrees with FnmatchExt.tla: {json.dumps(d)[:700]}", {"records": recs})
        acc["states"] += r.distinct
        acc["transitions"] += r.generated
        acc["families"][name] = stats
        for k in ("patterns", "cases", "cases_matching", "cases_multi", "cases_open", "nontrivial_patterns",
                  "literal_patterns", "error_patterns", "open_patterns"):
            acc["enum"][k] = acc["enum"].get(k, 0) + stats[k]
        if smp:
            acc["samples"].append(smp)
        acc["sample_files"].append(sample)
    os.remove(lines)
    os.remove(out)


def _shell(wd, name, tier, rep, acc, lock):
    lines = os.path.join(wd, f"{name}.lines.ndjson")
    r = vlib.tlc("Gen_FnmatchExt", f"Gen_FnmatchExt_{name}.cfg", workers=4, timeout=TIMEOUT[tier], json_out=lines, env=UTF8)
    vlib.tlc_must_pass(r, f"generator {name}")
    with open(lines, encoding="utf-8") as f:
        all_lines = f.readlines()
    header = [x for x in all_lines if x.startswith('{"dom"')]
    body = [x for x in all_lines if not x.startswith('{"dom"')]
    if len(header) != 1 or len(body) != r.distinct:
        raise vlib.ToolError("shell generator output incomplete")
    nproc = 4
    parts = []
    for k in range(nproc):
        p = os.path.join(wd, f"{name}.part{k}.ndjson")
        with open(p, "w", encoding="utf-8") as f:
            f.writelines(body[k::nproc])
        parts.append(p)

    def one(p):
        out = p + ".out"
        vlib.run_harness(PKG, ["shell", "--in", p, "--out", out], timeout=TIMEOUT[tier])
        return list(vlib.read_ndjson(out))

    t0 = time.time()
    tot = {}
    by_text = {}
    for x in body:
        d = json.loads(x)
        by_text[pattern_text(d["c"], d["l"])] = d
    with ThreadPoolExecutor(max_workers=nproc) as ex:
        for res in ex.map(one, parts):
            for d in res:
                if "stats" in d:
                    for k, v in d["stats"].items():
                        tot[k] = tot.get(k, 0) + v
                    continue
                if d["kind"] == "shell-missing":
                    raise vlib.ToolError(f"shell binding: probe missing: {json.dumps(d)[:800]}")
                text = pattern_text(d["c"], d["l"])
                src = by_text[text]
                row = [x for x in src["sh"] if x[0] == d["s"]]
                key = {"check": "shell", "kind": d["kind"], "pattern": text, "route": d["route"], "subject": d["s"]}
                with lock:
                    rep.violation(key, "the shell disagrees with FnmatchExt.tla (trim / case): " + json.dumps(d)[:700],
                                  {"shell": {"line": dict(src, sh=row)}})
    for p in parts:
        os.remove(p)
        os.remove(p + ".out")
    os.remove(lines)
    if tot.get("patterns", 0) + tot.get("skipped_open", 0) != r.distinct:
        raise vlib.ToolError("shell binding: not every pattern was run")
    with lock:
        acc["states"] += r.distinct
        acc["transitions"] += r.generated
        old = acc.setdefault("shell", {})
        for k, v in tot.items():
            old[k] = old.get(k, 0) + v
        d = json.loads(body[len(body) // 2])
        acc["samples"].append({"shell_case": {"pattern": pattern_text(d["c"], d["l"]), "rows": d["sh"][:3]}})
    vlib.log(f"[shell] {name}: {tot['patterns']} patterns, {tot['cases']} (pattern, subject) cases through the whole shell "
             f"(4 trims + case each, {tot['nontrivial']} where something is removed or selected; {tot['via_var']} via $p, "
             f"{tot['via_direct']} written directly) in {time.time() - t0:.1f}s, {tot['mismatches']} disagree")


# ---------------------------------------------------------------------------
# stage 3
# ---------------------------------------------------------------------------
def _validate(trace, shards, timeout):
    """Trace_FnmatchExt over `trace` in parallel shards.  Returns (rejects, judged, open, multi, states, transitions)."""
    with open(trace) as f:
        lines = f.readlines()
    n = len(lines)
    if n == 0:
        return [], 0, 0, 0, 0, 0
    size = (n + shards - 1) // shards
    parts = []
    for k in range(0, n, size):
        p = f"{trace}.shard{k // size}"
        with open(p, "w") as f:
            f.writelines(lines[k:k + size])
        parts.append((k, p))

    def one(part):
        k, p = part
        r = vlib.tlc("Trace_FnmatchExt", "Trace_FnmatchExt.cfg", workers=1, timeout=timeout, depth_first=True,
                     env=dict(UTF8, TRACE=os.path.abspath(p)), xmx="2g")
        vlib.tlc_must_pass(r, f"trace validation {os.path.basename(p)}")
        if any(x.startswith('"{') for x in r.lines):
            raise vlib.ToolError("a JSON line printed by Trace_FnmatchExt could not be decoded")
        return k, r

    rejects, judged, opened, multi, st, tr = [], 0, 0, 0, 0, 0
    with ThreadPoolExecutor(max_workers=shards) as ex:
        for k, r in ex.map(one, parts):
            st += r.distinct
            tr += r.generated
            for j in r.json:
                if "reject" in j:
                    j["line"] = k + j["reject"]
                    rejects.append(j)
                elif "judged" in j:
                    judged += j["judged"]
                    opened += j["open"]
                    multi += j["multi"]
    for _, p in parts:
        os.remove(p)
    if judged != n:
        raise vlib.ToolError(f"trace validation judged {judged} of {n} records")
    return rejects, judged, opened, multi, st, tr


def _report_rejects(rep, rejects, check):
    for j in rejects:
        rec = j["rec"]
        key = {"check": check, "kind": j["why"], "pattern": _rec_text(rec), "flags": flags(rec), "subject": "".join(rec["s"])}
        rep.violation(key, f"observation of the real yash_fnmatch not allowed by FnmatchExt.tla ({j['why']}; allowed "
                           f"outcomes {j.get('allowed')}): " + json.dumps(rec)[:700], {"records": [rec]})


def _random(wd, tier, rep, acc, lock):
    trace = os.path.join(wd, "random.ndjson")
    n = RANDOM[tier]
    vlib.run_harness(PKG, ["random", "--n", str(n), "--out", trace])
    rejects, judged, opened, multi, st, tr = _validate(trace, 4 if tier == "quick" else 8, TIMEOUT[tier])
    with lock:
        _report_rejects(rep, rejects, "random")
        with open(trace) as f:
            for i, line in enumerate(f):
                if i in (5, 1234):
                    acc["samples"].append({"random_record": json.loads(line)})
        acc["random"] = {"judged": judged, "open": opened, "more_than_one_allowed_outcome": multi, "rejected": len(rejects)}
        acc["states"] += st
        acc["transitions"] += tr
    os.remove(trace)
    vlib.log(f"[impl->spec] {judged} random records judged by Trace_FnmatchExt ({opened} open: only the structural "
             f"demands; {multi} where the documents allow more than one outcome; {len(rejects)} rejected)")


def _samples(wd, tier, rep, acc, lock):
    trace = os.path.join(wd, "samples.ndjson")
    with open(trace, "w") as out:
        for p in acc["sample_files"]:
            with open(p) as f:
                out.write(f.read())
            os.remove(p)
    rejects, judged, opened, multi, st, tr = _validate(trace, 2 if tier == "quick" else 6, TIMEOUT[tier])
    _report_rejects(rep, rejects, "sample")
    acc["sampled"] = {"judged": judged, "open": opened, "more_than_one_allowed_outcome": multi, "rejected": len(rejects)}
    acc["states"] += st
    acc["transitions"] += tr
    os.remove(trace)
    vlib.log(f"[impl->spec] {judged} observations of the enumerated cases (every {EVERY[tier]}th case, every parser error, "
             f"open patterns, every disagreement) judged by Trace_FnmatchExt ({opened} open, {len(rejects)} rejected)")


# ---------------------------------------------------------------------------
def run(tier):
    t0 = time.time()
    wd = vlib.workdir(PID)
    rep = vlib.Reporter(PID)
    vlib.build_harness(PKG)
    acc = {"states": 0, "transitions": 0, "families": {}, "enum": {}, "samples": [], "sample_files": []}
    lock = threading.Lock()
    jobs = [lambda: _random(wd, tier, rep, acc, lock)]
    jobs += [lambda n=n: _enum_one(wd, n, tier, rep, acc, lock) for n in ENUM[tier]]
    jobs += [lambda n=n: _shell(wd, n, tier, rep, acc, lock) for n in SHELL[tier]]
    jobs += [lambda: _calib(tier, acc, lock), lambda: _laws(tier, acc, lock)]
    errors = []

    def guarded(j):
        if errors:
            return
        try:
            j()
        except Exception as e:  # re-raised below (ToolError keeps exit code 2)
            errors.append(e)

    with ThreadPoolExecutor(max_workers=4) as ex:
        list(ex.map(guarded, jobs))
    if errors:
        raise errors[0]
    _samples(wd, tier, rep, acc, lock)

    rc = rep.finish()
    en, sh = acc["enum"], acc.get("shell", {})
    vlib.write_evidence(PID, tier, {
        "states": acc["states"],
        "transitions": acc["transitions"],
        "traces_validated_against_impl": acc["random"]["judged"] + acc["sampled"]["judged"],
        "samples": acc["samples"][:8],
        "evaluations": 3 * en.get("cases", 0) + 5 * sh.get("cases", 0) + acc["random"]["judged"] + acc["sampled"]["judged"],
        "distinct_nontrivial": en.get("nontrivial_patterns", 0),
        "rule": "enumerated patterns with a defined meaning that denote some part of some subject of the domain (each "
                "compared on every subject under every configuration of its family: is_match, find, rfind)",
        "exhaustive": True,
        "spec_to_impl": en,
        "per_family": acc["families"],
        "shell_binding": sh,
        "random_records": acc["random"],
        "sampled_observations": acc["sampled"],
        "calibration_facts": acc.get("calib_facts"),
        "wrong_variants_refuted": acc.get("refuted"),
        "theorems": LAW_NAMES,
        "theorems_checked_on_patterns": acc.get("laws_patterns"),
        "known_findings_hit": {k: v[1] for k, v in rep.known_hits.items()},
    }, time.time() - t0, violations=len(rep.violations), assumptions=[
        "POSIX locale: collation and character classes of ASCII; no locale support (docs/src/patterns.md)",
        "case folding is specified for ASCII and the characters listed in FnmatchExt!WideTable; case-insensitive cases "
        "with other non-ASCII characters are open",
        "patterns whose meaning POSIX leaves open and patterns with multi-character collating elements: only the "
        "structural API invariants are demanded",
        "TLC and its Json module are trusted",
    ])
    return rc


def replay(path):
    with open(path) as f:
        obj = json.load(f)
    wd = vlib.workdir(PID + "-replay")
    rp = obj["replay"]
    bad = False
    if "records" in rp:
        src = os.path.join(wd, "in.ndjson")
        with open(src, "w") as f:
            for rec in rp["records"]:
                f.write(json.dumps(rec) + "\n")
        out = os.path.join(wd, "out.ndjson")
        vlib.run_harness(PKG, ["redo", "--in", src, "--out", out])
        rejects, judged, _, _, _, _ = _validate(out, 1, 600)
        for rec in vlib.read_ndjson(out):
            print("observed:", json.dumps(rec))
        for j in rejects:
            print(f"rejected by FnmatchExt.tla ({j['why']}; allowed outcomes {j.get('allowed')})")
        bad = bool(rejects)
    elif "shell" in rp:
        src = os.path.join(wd, "in.ndjson")
        with open(src, "w") as f:
            f.write(json.dumps(rp["shell"]["line"]) + "\n")
        out = os.path.join(wd, "out.ndjson")
        vlib.run_harness(PKG, ["shell", "--in", src, "--out", out])
        for d in vlib.read_ndjson(out):
            if "stats" not in d:
                print("shell disagrees:", json.dumps(d)[:800])
                bad = True
    print("rejected" if bad else "accepted")
    if bad:
        print(f"VIOLATION property={PID} replay={path}")
    return 1 if bad else 0
