"""C06 — parser totality and print/re-parse (DESIGN.md section 6, C06).

spec/Syntax.tla is a token-level specification of the shell grammar in three
forms — a generative grammar, a reference parser `Parse` giving the tree a
token sequence denotes, and `Canon`, the canonical single-line token sequence
of a tree — which TLC checks against each other on every derivation.

spec -> impl   TLC enumerates derivations (profiles cmd / struct / lex / word /
               wordall / hd, breadth-first up to a size bound and by
               `-simulate` beyond it) and token soup (every sequence over a
               token alphabet with reserved words, unbalanced brackets and text
               that does not lex) and prints {toks, exp, tree, canon}.  The
               harness renders the tokens with seeded surface variation, runs
               the real parser (tree must be the tree of the spec), the real
               printer and the real parser again (tree must be the same).
impl -> spec   mutations of the derivations (delete / swap / duplicate one
               token), every script of the scripted-test corpus and seeded
               random strings are run through the real parser and printer; the
               records {toks, out, tree, rt, ahead} are validated by
               spec/Trace_Syntax.tla (Total, Bounded, RoundTrip, Conform).
"""
import json
import os
import re
import time
from concurrent.futures import ThreadPoolExecutor

import vlib

PID = "C06"
PKG = "yv-c06"

# (profile, environment overrides of the bounds)
GEN = {
    "quick": [("lex", {"MAXTOK": 4}), ("cmd", {"MAXTOK": 6}), ("word", {"MAXUNITS": 2}), ("hd", {"MAXTOK": 11}),
              ("struct", {"MAXTOK": 8}), ("ctl", {"MAXTOK": 13}), ("wordall", {"MAXUNITS": 1})],
    "thorough": [("lex", {"MAXTOK": 5}), ("cmd", {"MAXTOK": 7}), ("hd", {"MAXTOK": 12}), ("wordall", {"MAXUNITS": 2}),
                 ("struct", {"MAXTOK": 9}), ("ctl", {"MAXTOK": 15})],
}
# profiles whose derivations are also mutated (impl -> spec)
MUTATED = {"quick": {"cmd", "struct", "ctl", "hd"}, "thorough": {"cmd", "struct", "ctl", "hd"}}
# (profile, MAXTOK, traces per worker)
SIM = {
    "quick": [("lex", 16, 50), ("cmd", 14, 30)],
    "thorough": [("lex", 20, 600), ("hd", 18, 400), ("struct", 26, 400), ("cmd", 18, 400), ("word", 12, 2000)],
}
# (alphabet, maximal length)
SOUP = {
    "quick": [("full", 2), ("small", 3), ("tiny", 4)],
    "thorough": [("full", 3), ("small", 4), ("tiny", 5)],
}
VARIANTS = {"quick": 3, "thorough": 4}
MUTANTS = {"quick": 1, "thorough": 1}
MUT_EVERY = {"quick": 2, "thorough": 1}      # mutate every n-th derivation
RANDOM_SOUP = {"quick": 20000, "thorough": 400000}


def _key(rec, fail):
    """Identifying fields of a failing case (matched against known_findings.json)."""
    marks = rec.get("marks", "")
    if isinstance(marks, list):
        marks = ",".join(marks)
    text = rec.get("text", "")
    return {
        "fail": fail,
        "out": rec.get("out"),
        "cause": (rec.get("detail") or "")[:120],
        "rt": rec.get("rt"),
        "rt_detail": rec.get("rt_detail", ""),
        "marks": marks,
        "portable": bool(rec.get("portable", False)),
        "text": text if len(text) <= 4000 else text[-4000:],
        # the same without line continuations (for matching on the shape of a line)
        "text_nc": (text if len(text) <= 4000 else text[-4000:]).replace("\\\n", ""),
    }


def _report(rep, rec, fail, what):
    key = _key(rec, fail)
    detail = {
        "totality": "the parser did not terminate with a tree or a syntax error",
        "readahead": "the parser pulled more than one line beyond the lines it needed",
        "bounded": "the parser pulled more than one line beyond the lines it needed",
        "roundtrip": "printing a tree the parser produced and parsing the text again does not give an equal tree",
        "rejected": "the parser rejected a program that is well-formed per the token grammar (Syntax!Parse)",
        "tree": "the parser's tree differs from the tree the token grammar prescribes (Syntax!Parse)",
        "conform": "the parser's result differs from the tree the token grammar prescribes (Syntax!Parse)",
        "total": "the parser did not terminate with a tree or a syntax error",
    }.get(fail, fail)
    replay = {k: rec.get(k) for k in ("text", "variant", "portable", "extra", "printed", "out", "detail",
                                       "rt", "rt_detail", "marks", "id", "toks") if k in rec}
    rep.violation(key, f"{what}: {detail}", replay)


def _gen_job(wd, name, cfg, env, tier, simulate=None, depth=None, tool_seed=None, soup=False):
    """One TLC generation run followed by its replay on the real code."""
    gen = os.path.join(wd, name + ".gen.ndjson")
    res = os.path.join(wd, name + ".res.ndjson")
    mut = os.path.join(wd, name + ".mut.ndjson")
    twd = os.path.join(wd, "tlc-" + name)
    os.makedirs(twd, exist_ok=True)
    r = vlib.tlc("Syntax", cfg, workers=6, timeout=3000, json_out=gen, env=env, workdir=twd,
                 simulate=simulate, depth=depth, tool_seed=tool_seed, xmx="6g")
    vlib.tlc_must_pass(r, f"Syntax {name}")
    n = vlib.count_lines(gen)
    vlib.log(f"[tlc] {name}: {r.distinct} states, {r.generated} generated, {n} lines, {r.wall:.1f}s")
    args = ["replay", "--in", gen, "--out", res, "--variants", VARIANTS[tier]]
    want_mut = name in MUTATED[tier]
    if want_mut:
        args += ["--mutants", MUTANTS[tier], "--mut-every", MUT_EVERY[tier], "--mut-out", mut]
    t0 = time.time()
    vlib.run_harness(PKG, args, timeout=3000)
    fails, summary = [], None
    for rec in vlib.read_ndjson(res):
        if rec.get("summary"):
            summary = rec
        else:
            fails.append(rec)
    if summary is None:
        raise vlib.ToolError(f"harness replay of {name} wrote no summary")
    vlib.log(f"[p4] {name}: {summary['cases']} renderings of {summary['lines']} lines replayed in "
             f"{time.time() - t0:.1f}s, {len(fails)} failing, canon drift {summary['canon_drift']}")
    os.remove(gen)
    os.remove(res)
    return {"name": name, "tlc": r, "lines": n, "summary": summary, "fails": fails,
            "mut": mut if want_mut else None}


_REJ = re.compile(r'<<"REJECT", (\d+), "(\w+)", "([^"]*)">>')
_OPI = re.compile(r'<<"OPINION", (\d+)>>')


def _validate(trace, shards=8):
    """Trace_Syntax over an ndjson file, sharded.  Returns (rejections, opinionated, info):
    rejections = [(record, why)]."""
    with open(trace) as f:
        lines = f.readlines()
    n = len(lines)
    if n == 0:
        return [], 0, {"events": 0, "wall": 0.0, "states": 0}
    k = max(1, min(shards, (n + 1999) // 2000))
    per = (n + k - 1) // k
    pieces = [(i, min(n, i + per)) for i in range(0, n, per)]
    paths = []
    for j, (a, b) in enumerate(pieces):
        p = f"{trace}.shard{j}"
        with open(p, "w") as f:
            f.writelines(lines[a:b])
        paths.append(p)
    t0 = time.time()

    def one(j):
        twd = os.path.join(os.path.dirname(trace), f"tlc-trace-{os.path.basename(trace)}-{j}")
        os.makedirs(twd, exist_ok=True)
        return vlib.tlc("Trace_Syntax", "Trace_Syntax.cfg", workers=1, timeout=3000, depth_first=True,
                        want_lines=True, env={"TRACE": os.path.abspath(paths[j])}, workdir=twd, xmx="3g")

    with ThreadPoolExecutor(max_workers=len(paths)) as ex:
        results = list(ex.map(one, range(len(paths))))
    rej, opinion, states = [], 0, 0
    for (a, b), r in zip(pieces, results):
        if not r.ok:
            raise vlib.ToolError(f"Trace_Syntax failed: {(r.error or r.violation or '')[:1500]}")
        states += r.distinct
        got_opinion = False
        for line in r.lines:
            m = _REJ.search(line)
            if m:
                rej.append((json.loads(lines[a + int(m.group(1)) - 1]), m.group(2)))
            m = _OPI.search(line)
            if m:
                opinion += int(m.group(1))
                got_opinion = True
        if not got_opinion or r.distinct != (b - a) + 1:
            raise vlib.ToolError(f"Trace_Syntax did not walk the whole shard ({r.distinct} states for {b - a} records)")
    for p in paths:
        os.remove(p)
    return rej, opinion, {"events": n, "wall": time.time() - t0, "states": states}


def run(tier):
    t0 = time.time()
    wd = vlib.workdir(PID)
    rep = vlib.Reporter(PID)
    vlib.build_harness(PKG)
    seed = vlib.seed()

    jobs = []
    for prof, env in GEN[tier]:
        jobs.append(dict(name=prof, cfg=f"MC_Syntax_{prof}.cfg", env=env))
    for prof, maxtok, traces in SIM[tier]:
        jobs.append(dict(name=f"sim-{prof}", cfg=f"MC_Syntax_{prof}.cfg",
                         env={"MAXTOK": maxtok, "MAXUNITS": 3},
                         simulate=traces, depth=400, tool_seed=seed))
    for alpha, maxlen in SOUP[tier]:
        jobs.append(dict(name=f"soup-{alpha}", cfg="MC_Syntax_soup.cfg", env={"SOUP": alpha, "MAXTOK": maxlen},
                         soup=True))
    with ThreadPoolExecutor(max_workers=2) as ex:
        futs = [ex.submit(_gen_job, wd, j["name"], j["cfg"], j.get("env"), tier, j.get("simulate"),
                          j.get("depth"), j.get("tool_seed"), j.get("soup", False)) for j in jobs]
        results = [f.result() for f in futs]

    states = transitions = 0
    replayed_lines = replayed_cases = rt_checked = 0
    canon_compared = canon_drift = 0
    soup_tok = {"lines": 0, "spec_ok": 0, "spec_err": 0, "spec_no_opinion": 0, "impl_ok_spec_err": 0}
    kinds, samples, per_profile, drift_samples = {}, [], {}, []
    for r in results:
        s = r["summary"]
        if not r["name"].startswith("sim-"):
            states += r["tlc"].distinct
            transitions += r["tlc"].generated
        per_profile[r["name"]] = {"lines": s["lines"], "renderings": s["cases"], "failing": len(r["fails"]),
                                  "tlc_states": r["tlc"].distinct, "tlc_wall_s": round(r["tlc"].wall, 1)}
        if r["name"].startswith("soup-"):
            soup_tok["lines"] += s["lines"]
            soup_tok["spec_ok"] += s["exp_ok"]
            soup_tok["spec_err"] += s["exp_err"]
            soup_tok["spec_no_opinion"] += s["exp_un"]
            soup_tok["impl_ok_spec_err"] += s["impl_ok_spec_err"]
        replayed_lines += s["lines"]
        replayed_cases += s["cases"]
        rt_checked += s["rt_checked"]
        canon_compared += s["canon_compared"]
        canon_drift += s["canon_drift"]
        drift_samples += s["drift_samples"][:2]
        for k, v in s["kinds"].items():
            kinds[k] = kinds.get(k, 0) + v
        if len(samples) < 8:
            samples += s["samples"][:2]
        if s["timeouts"] >= 3:
            vlib.log(f"[p4] {r['name']}: replay cut short after {s['timeouts']} hangs of the code under test")
        for f in r["fails"]:
            _report(rep, f, f["fail"], f"replay of {r['name']} line {f.get('line')} variant {f.get('variant')}")
    if canon_drift:
        vlib.log(f"NOTE: the printer's text differs from the spec's canonical tokens in {canon_drift} of "
                 f"{canon_compared} derivations (not a violation; the re-parse decides): {drift_samples[:2]}")

    # impl -> spec: mutated derivations, judged by Trace_Syntax
    mut_all = os.path.join(wd, "mutants.trace.ndjson")
    with open(mut_all, "w") as out:
        for r in results:
            if r["mut"] and os.path.exists(r["mut"]):
                with open(r["mut"]) as f:
                    for line in f:
                        out.write(line)
                os.remove(r["mut"])
    rej, opinion, info = _validate(mut_all, shards=8 if tier == "thorough" else 6)
    mutants = info["events"]
    vlib.log(f"[p3] mutated derivations: {mutants} records validated by Trace_Syntax in {info['wall']:.1f}s "
             f"({opinion} well-formed per the token grammar), {len(rej)} rejected")
    for rec, why in rej:
        _report(rep, rec, "roundtrip" if why == "roundtrip" else "totality" if why == "total" else why,
                f"mutated derivation {rec.get('id')}")
    with open(mut_all) as f:
        for i, line in enumerate(f):
            if i in (5, 5005) and len(samples) < 12:
                r0 = json.loads(line)
                samples.append({"mutant": r0["text"], "out": r0["out"], "rt": r0["rt"]})
    os.remove(mut_all)

    # impl -> spec: scripted-test corpus and random strings (totality, read-ahead, round trip)
    texts = os.path.join(wd, "texts.trace.ndjson")
    vlib.run_harness(PKG, ["corpus", "--dir", os.path.join(vlib.REPO, "yash-cli", "tests", "scripted_test"),
                           "--out", texts], timeout=3000)
    corpus_n = vlib.count_lines(texts)
    corpus_ok = sum(1 for r in vlib.read_ndjson(texts) if r["out"] == "ok")
    soupf = os.path.join(wd, "soup.ndjson")
    vlib.run_harness(PKG, ["soup", "--n", RANDOM_SOUP[tier], "--out", soupf], timeout=3000)
    soup_out = {}
    with open(texts, "a") as out:
        with open(soupf) as f:
            for line in f:
                o = json.loads(line)["out"]
                soup_out[o] = soup_out.get(o, 0) + 1
                out.write(line)
    os.remove(soupf)
    rejt, _, infot = _validate(texts, shards=8 if tier == "thorough" else 4)
    soup_n = infot["events"] - corpus_n
    rejc = [(r, w) for r, w in rejt if not re.match(r"s\d+$", r.get("id", ""))]
    rejs = [(r, w) for r, w in rejt if re.match(r"s\d+$", r.get("id", ""))]
    vlib.log(f"[p3] scripted-test corpus: {corpus_n} inputs (files and embedded scripts, both parsing modes), "
             f"{corpus_ok} parsed; [soup] {soup_n} random strings {soup_out}; validated by Trace_Syntax in "
             f"{infot['wall']:.1f}s, rejected: corpus {len(rejc)}, soup {len(rejs)}")
    for rec, why in rejc:
        _report(rep, rec, "roundtrip" if why == "roundtrip" else "totality" if why == "total" else why,
                f"corpus input {rec.get('id')}")
    for rec, why in rejs:
        _report(rep, rec, "roundtrip" if why == "roundtrip" else "totality" if why == "total" else why,
                f"random string {rec.get('id')}")
    os.remove(texts)

    rc = rep.finish()
    needed = ["t:simple", "t:comp", "t:func", "t:group", "t:sub", "t:for", "t:while", "t:until", "t:if", "t:case",
              "if:elif", "if:else", "for:in", "for:no-in", "case:;;", "case:;&", "case:;|", "item:async",
              "pipeline:negated", "pipeline:multi", "op:&&", "op:||", "assign:array", "word:single-field-mode",
              "redir:fd", "op:<<", "op:<<-", "op:<", "op:>", "op:>>", "op:>|", "op:<>", "op:<&", "op:>&", "op:<<<",
              "op:>>|", "t:lit", "t:bs", "t:sq", "t:dq", "t:dsq", "t:tilde", "t:raw", "t:braced", "t:cs", "t:bq",
              "t:arith", "modifier:none", "modifier:len", "modifier:sw", "modifier:trim", "t:ctl", "t:oct", "t:hex",
              "t:uni", "t:esc"]
    not_exercised = [k for k in needed if kinds.get(k, 0) == 0]
    if not_exercised:
        raise vlib.ToolError(f"constructs of the grammar never generated: {not_exercised}")
    vlib.write_evidence(PID, tier, {
        "states": states,
        "transitions": transitions,
        "traces_validated_against_impl": replayed_lines + mutants + corpus_n,
        "samples": samples[:12],
        "evaluations": replayed_cases + mutants + corpus_n,
        "distinct_nontrivial": replayed_lines - soup_tok["spec_no_opinion"],
        "rule": "one per distinct complete derivation of the token grammar (or token-soup sequence about which "
                "Syntax!Parse has an opinion) printed by TLC and replayed on the real parser and printer; "
                "renderings, mutants and corpus inputs counted under evaluations",
        "exhaustive": True,
        "bounds": {"gen": GEN[tier], "simulate": SIM[tier], "token_soup": SOUP[tier], "variants": VARIANTS[tier]},
        "profiles": per_profile,
        "renderings_replayed": replayed_cases,
        "trees_round_tripped": rt_checked,
        "canon_compared": canon_compared,
        "canon_drift": canon_drift,
        "constructs_generated": kinds,
        "constructs_not_generated": not_exercised,
        "token_soup": soup_tok,
        "mutants_validated": mutants,
        "mutants_well_formed": opinion,
        "corpus_inputs": corpus_n,
        "corpus_parsed_ok": corpus_ok,
        "soup": {"random_strings": soup_n, "outcomes": soup_out, "rejected": len(rejs)},
    }, time.time() - t0, violations=len(rep.violations), assumptions=[
        "trees are compared with locations erased; here-document bodies are re-supplied after the printed line",
        "round trip is checked in the default parsing mode (List::from_str and the command_line loop) and, for the "
        "corpus and random strings, also with the `portable` mode on both sides",
        "for arbitrary strings the specification only requires termination with a tree or an error, the "
        "read-ahead bound and the round trip of every tree produced (reported under coverage.soup)",
        "a stack overflow on pathologically deep nesting is outside the property (inputs are small)",
        "TLC 1.8.0 and the JSON community module are trusted",
    ])
    return rc


def replay(path):
    with open(path) as f:
        obj = json.load(f)
    rec = obj["replay"]
    wd = vlib.workdir(PID + "-replay")
    src = os.path.join(wd, "in.json")
    with open(src, "w") as f:
        json.dump({"text": rec.get("text", ""), "portable": bool(rec.get("portable")),
                   "extra": rec.get("extra") or {}}, f)
    rc, out, _ = vlib.run_harness(PKG, ["redo", "--in", src], check=False)
    print(out.strip())
    if rc == 1:
        print(f"VIOLATION property={PID} replay={path}")
        return 1
    if rc != 0:
        raise vlib.ToolError("redo failed")
    return 0
