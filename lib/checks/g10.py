"""G10 — the debugging options xtrace / verbose / noexec (specification-growth module; spec/XTrace.tla).

The oracle is the TLA+ definition spec/XTrace.tla, written from POSIX XCU `set` (-n -v -x), 2.5.3 (PS4),
2.9.1 and docs/src/debugging.md, environment/options.md, language/commands/simple.md and the public
documentation of yash_semantics::xtrace: a big-step interpreter of a small command language that yields the
exact text on standard error (trace lines, verbose echo, diagnostics as wildcards, concurrent pipeline
stages as interleavings), standard output, files, exit status and final variables / options, under every
policy for the points POSIX and the manual leave open (Alts).

 0. Calib_XTrace: the worked examples of the manual and the xtrace / verbose / noexec cases of
    yash-cli/tests/scripted_test/option-{p,y}.sh hold for the oracle (ASSUMEs).
 1. Negative configurations: for each named wrong variant of the semantics (PS4 cached, fields unquoted,
    PS4 expanded before the command, redirections not traced, assignment-only commands not traced, verbose
    echo duplicated, noexec effective only from the next line, ...) TLC must find an enumerated scenario
    whose outcome under the variant is not allowed by the specification.
 2. spec -> impl: TLC (Gen_XTrace) enumerates scenarios of eight families, checks the laws of the model on
    each (re-reading of traced fields through Quote!Read, transparency of tracing, verbose echoes every
    line once, noexec executes nothing, the matcher accepts the canonical text) and prints script + allowed
    outcomes; harness/g10 runs every script on the real shell (simulated OS) as its standard input and
    (unless verbose may come on or the shell is interactive) as a -c string and demands that what it
    observes is one of the outcomes.
 3. impl -> spec: seeded random scenarios (deeper nesting, more redirections, function bodies, dot scripts)
    are rendered, run and recorded by the harness; TLC (Trace_XTrace) re-renders the script, evaluates
    XTrace!Alts and judges every record.
"""
import json
import os
import time

import vlib

PID = "G10"
PKG = "yv-g10"

TIERS = {
    "quick": dict(gen="Gen_XTrace_quick.cfg", nrandom=2000, timeout=600),
    "thorough": dict(gen="Gen_XTrace_thorough.cfg", nrandom=30000, timeout=2400),
}

# wrong variant -> a family in which the enumeration refutes it
NEGATIVE = [
    ("ps4once", "ps4"), ("ps4first", "ps4"), ("unquoted", "fields"), ("noredir", "redir"), ("noasg", "ps4"),
    ("mute", "toggle"), ("vdup", "verbose"), ("mutev", "verbose"), ("nxline", "noexec"), ("nxignore", "noexec"),
]

SHARD = 4000


def _summary(out):
    line = [l for l in out.strip().splitlines() if l.startswith("{")][-1]
    return json.loads(line)


def _negatives(wd, totals):
    refuted = []
    for variant, fam in NEGATIVE:
        cfg = os.path.join(wd, f"neg_{variant}.cfg")
        with open(cfg, "w") as f:
            f.write("SPECIFICATION Spec\n"
                    f'CONSTANT Fams = {{"{fam}"}}\nCONSTANT Deep = 0\nCONSTANT NegVariant = "{variant}"\n'
                    "INVARIANT Refuted\n")
        r = vlib.tlc("Gen_XTrace", cfg, workers=2, timeout=300)
        if r.ok or not (r.violation and "Refuted" in r.violation):
            vlib.log(f"[neg] variant {variant}: NOT refuted\n{(r.error or r.violation or '')[:1500]}")
            raise vlib.ToolError(f"negative configuration {variant}: the enumeration does not tell the wrong "
                                 "variant from the specification")
        totals["states"] += r.distinct
        totals["transitions"] += r.generated
        refuted.append(variant)
    vlib.log(f"[neg] {len(refuted)} wrong variants refuted by TLC: {' '.join(refuted)}")
    return refuted


def _validate(rep, trace, timeout, totals):
    with open(trace) as f:
        lines = f.readlines()
    n = len(lines)
    verdicts = {"ok": 0}
    reasons = {}
    wall = 0.0
    for a in range(0, n, SHARD):
        part = lines[a:a + SHARD]
        p = f"{trace}.shard"
        with open(p, "w") as f:
            f.writelines(part)
        r = vlib.tlc("Trace_XTrace", "Trace_XTrace.cfg", workers=8, timeout=timeout, env={"TRACE": os.path.abspath(p)})
        os.remove(p)
        vlib.tlc_must_pass(r, "trace validation (Trace_XTrace)")
        if r.distinct != 2 * len(part) - 1:
            raise vlib.ToolError(f"trace validation judged {r.distinct} states for {len(part)} records")
        wall += r.wall
        totals["states"] += r.distinct
        totals["transitions"] += r.generated
        nok = len(part)
        for j in r.json:
            rec = json.loads(part[j["i"] - 1])
            if j["v"] in ("render", "illformed"):
                raise vlib.ToolError(f"harness generator/renderer and XTrace.tla disagree ({j['v']}: {j['why']}) on\n"
                                     + "\n".join(rec["script"]))
            if j["v"] == "ok":          # accepted, several alternatives
                verdicts["ok-alternatives"] = verdicts.get("ok-alternatives", 0) + 1
                continue
            nok -= 1
            if j["v"] == "open":
                k = "open:" + j["class"]
                verdicts[k] = verdicts.get(k, 0) + 1
                reasons[j["why"]] = reasons.get(j["why"], 0) + 1
                continue
            verdicts["reject"] = verdicts.get("reject", 0) + 1
            rep.violation({"dir": "impl->spec", "fam": "random", "symptom": "reject", "script": "\n".join(rec["script"]),
                           "opts": "".join(k for k in "xvni" if rec["sc"]["o"][k]), "env": ""},
                          f"random scenario: what the shell shows is none of the {j['n']} outcome(s) XTrace.tla allows; "
                          "script:\n" + "\n".join(rec["script"]) + "\nobserved: " + json.dumps(rec["obs"])[:3000],
                          {"sc": rec["sc"], "dir": "impl->spec"})
        verdicts["ok"] += nok
    vlib.log(f"[p4<-] {n} random records judged by TLC in {wall:.1f}s: {verdicts}")
    return n, verdicts, reasons


def run(tier):
    t0 = time.time()
    T = TIERS[tier]
    wd = vlib.workdir(PID)
    rep = vlib.Reporter(PID)
    totals = {"states": 0, "transitions": 0}

    # 0. calibration
    r = vlib.tlc("Calib_XTrace", "Calib_XTrace.cfg", workers=1, timeout=300)
    vlib.tlc_must_pass(r, "calibration examples (Calib_XTrace)")
    vlib.log(f"[calib] Calib_XTrace: all ASSUMEs hold ({r.wall:.1f}s)")

    # 1. negative configurations
    refuted = _negatives(wd, totals)

    # 2. spec -> impl
    gen = os.path.join(wd, "gen.ndjson")
    r = vlib.tlc("Gen_XTrace", T["gen"], workers=8, timeout=T["timeout"], json_out=gen)
    vlib.tlc_must_pass(r, f"enumeration and laws {T['gen']}")
    ngen = vlib.count_lines(gen)
    if ngen == 0:
        raise vlib.ToolError("enumeration printed nothing")
    totals["states"] += r.distinct
    totals["transitions"] += r.generated
    vlib.log(f"[p4->] {T['gen']}: {r.distinct} states, {ngen} scenarios enumerated, laws L1-L5 hold on each ({r.wall:.1f}s)")
    samples = []
    with open(gen) as f:
        for i, line in enumerate(f):
            if i % 997 == 421 and len(samples) < 4:
                e = json.loads(line)
                samples.append({"fam": e["fam"], "script": e["script"], "opts": e["o"], "allowed": e["alts"]})
    mism = os.path.join(wd, "mismatch.ndjson")
    t1 = time.time()
    _, out, _ = vlib.run_harness(PKG, ["replay", "--in", gen, "--out", mism, "--threads", "8"], timeout=T["timeout"])
    st1 = _summary(out)
    vlib.log(f"[p4->] replayed on the real shell in {time.time() - t1:.1f}s: {st1['shell_runs']} shell runs; classes "
             f"{st1['by_class']}; {st1['mismatches']} mismatches")
    if st1["scenarios"] != ngen:
        raise vlib.ToolError("harness did not replay every scenario")
    for m in vlib.read_ndjson(mism):
        rep.violation(m["key"], m["detail"] + "; script:\n" + "\n".join(m["script"]) + "\nobserved: "
                      + json.dumps(m["obs"])[:3000],
                      {"sc": m["sc"], "dir": "spec->impl", "alts": m["alts"], "obs": m["obs"]})
    os.remove(gen)

    # 3. impl -> spec
    trace = os.path.join(wd, "random.ndjson")
    _, out, _ = vlib.run_harness(PKG, ["random", "--n", T["nrandom"], "--out", trace, "--threads", "8"],
                                 timeout=T["timeout"])
    st2 = _summary(out)
    nrec, verdicts, reasons = _validate(rep, trace, T["timeout"], totals)
    with open(trace) as f:
        for i, line in enumerate(f):
            if i % 499 == 77 and len(samples) < 6:
                rec = json.loads(line)
                samples.append({"fam": "random", "script": rec["script"], "opts": rec["sc"]["o"], "observed": rec["obs"]})
    os.remove(trace)

    rc = rep.finish()
    vlib.write_evidence(PID, tier, {
        "states": totals["states"],
        "transitions": totals["transitions"],
        "traces_validated_against_impl": nrec,
        "samples": samples,
        "evaluations": st1["shell_runs"] + st2["shell_runs"],
        "distinct_nontrivial": st1["nontrivial"] + verdicts.get("ok", 0) + verdicts.get("ok-alternatives", 0),
        "rule": "enumerated scenarios of class ok whose expected standard error is non-empty, plus random scenarios of "
                "class ok accepted by Trace_XTrace",
        "exhaustive": True,
        "exhaustive_bound": f"all scenarios of the families of {T['gen']} (see spec/Gen_XTrace.tla); random beyond",
        "config": T["gen"],
        "enumerated": ngen,
        "enumerated_by_family": st1["by_fam"],
        "enumerated_by_class": st1["by_class"],
        "alternatives_per_scenario": st1["alternatives"],
        "constructs_exercised_by_enumeration": st1["features"],
        "constructs_exercised_by_random": st2["features"],
        "wrong_variants_refuted_by_tlc": refuted,
        "laws_checked_on_every_enumerated_scenario": ["L1 re-read", "L2 transparency", "L3 verbose once in order",
                                                       "L4 noexec executes nothing", "L5 matcher accepts canonical text"],
        "random_records": nrec,
        "random_verdicts": verdicts,
        "random_open_reasons": reasons,
        "mismatches_spec_to_impl": st1["mismatches"],
    }, time.time() - t0, violations=len(rep.violations), assumptions=[
        "runs are on the simulated OS; the script is the shell's standard input (a regular file); echo / cat / snap are "
        "the shared probe built-ins (regular built-ins), true / false / : / set / eval / . the shell's own",
        "diagnostic messages are matched as wildcards (one or more whole lines, none starting with what a trace line "
        "would start with); their text is not compared",
        "where a command redirects its own descriptor 2 the trace may go to either standard error (policy rd); whether "
        "`set +x` itself is traced is open (policy off, POSIX: unspecified); both are enumerated as alternatives",
        "rendering of a here-document in the trace (operator as written, then contents and delimiter after the line) is "
        "taken from the module documentation of yash_semantics::xtrace",
        "left open (class open, only termination demanded): -v with eval / dot scripts (not documented), assignments + "
        "redirections without a command name, PS4 with side effects in a redirection-only command, a temporary "
        "variable reassigned during the command, diagnostics written to a redirected descriptor 2, a pipe writer "
        "without reader, `! set -n`, errors in interactive shells, one file opened twice",
        "verbose for -c strings is not covered (the echo is documented for input read through a descriptor): scenarios "
        "in which verbose may come on run as standard input only, all others also as a -c string; "
        "interactive runs compare standard output and exit status only (prompts are not modelled)",
        "traces of the stages of one pipeline are compared up to interleaving; everything else in order",
        "TLC and the JSON community module are trusted",
    ])
    return rc


def replay(path):
    with open(path) as f:
        obj = json.load(f)
    sc = obj["replay"]["sc"]
    wd = vlib.workdir(PID + "-replay")
    src = os.path.join(wd, "sc.json")
    with open(src, "w") as f:
        json.dump({"sc": sc}, f)
    t = os.path.join(wd, "one.ndjson")
    vlib.run_harness(PKG, ["one", "--in", src, "--out", t])
    r = vlib.tlc("Trace_XTrace", "Trace_XTrace.cfg", workers=1, timeout=300, env={"TRACE": os.path.abspath(t)})
    vlib.tlc_must_pass(r, "replay validation")
    rec = json.loads(open(t).read())
    print("script:\n" + "\n".join(rec["script"]))
    print("observed: " + json.dumps(rec["obs"], indent=1))
    bad = [j for j in r.json if j["v"] in ("reject", "render", "illformed")]
    if bad:
        print(f"rejected: {bad[0]}")
        print(f"VIOLATION property={PID} replay={path}")
        return 1
    print("accepted" + (f" ({r.json[0]})" if r.json else ""))
    return 0
