"""G09 (specification growth) - invocation, initialisation and termination of
the shell: what the parsed command line means (source of commands, $0,
positional parameters, option states incl. interactive / monitor / stdin /
cmdline / login), which initialisation files are read, the variables the shell
sets when it starts (PPID, IFS, PS1/PS2/PS4, OPTIND, PWD, LINENO), the lookup
of the command_file, the exit status of the shell, the EXIT trap on every exit
path, and which shell errors end a non-interactive / an interactive shell.

Oracle: spec/Startup.tla, written from POSIX XCU sh, 2.5.2/2.5.3, 2.8.1/2.8.2,
exit / exec / dot / trap, and docs/src/startup.md, termination.md,
interactive/README.md, environment/options.md, traps.md,
language/parameters/*.md, language/commands/exit_status.md,
builtins/{exit,exec,trap}.md.  Option SYNTAX is C20's.

P1  TLC checks the laws of Startup.tla (Laws, TrapNeutral,
    InteractiveSurvives) on every enumerated scenario (spec/Gen_Startup.tla,
    invariant Check), the calibration examples of the manual and of
    startup-p/-y.sh, exit-p.sh, trap-p/-y.sh, error-p/-y.sh, lineno-p.sh,
    ppid-p.sh (spec/Calib_Startup.tla), and six negative configurations
    (Gen_Startup_neg_*.cfg): each named wrong variant of a rule must be
    refuted by the laws.
P4  enumeration, spec -> impl: Gen_Startup prints every scenario of six
    families with its rendering and the outcomes Startup!Expect allows;
    harness/g09 runs each on the simulated OS (all of run_as_shell_process
    re-assembled from its public pieces, terminals and real/effective ids
    simulated) and a sample (small families: all) on the real OS through the
    true entry point yash_cli::main() (real argv[0], environment, pty).
P4  validation, impl -> spec: seeded random scenarios over the whole scenario
    space, rendered by the harness, run, recorded; spec/Trace_Startup.tla
    checks the rendering and judges every run.
"""
import json
import os
import threading
import time

import vlib

PID = "G09"
PKG = "yv-g09"

TIERS = {
    "quick": {"gen": "Gen_Startup_quick.cfg", "real_every": 70, "random": (6000, 500), "timeout": 900},
    "thorough": {"gen": "Gen_Startup_thorough.cfg", "real_every": 12, "random": (200000, 15000), "timeout": 3000},
}
NEGATIVE = ["interactive-stdin-only", "monitor-only-explicit", "rc-noninteractive", "trap-twice", "trap-status",
            "interactive-exits-on-error"]


def _tty(sc):
    return ("T" if sc.get("tin") else "F") + ("T" if sc.get("terr") else "F")


def _key(direction, mode, sc, plan, field, pos, exp, got):
    """What identifies a deviation: the scenario and the first deviating item."""
    return {"dir": direction, "mode": mode, "field": field, "pos": pos, "fp": f"{field}@{pos}", "exp": exp, "got": got, "rc": plan.get("rc", ""), "last": plan.get("last", ""), "inter": bool(plan.get("inter", False)),
            "a0": sc.get("a0", ""), "opts": " ".join(sc.get("opts", [])), "sep": sc.get("sep", ""),
            "ops": "|".join(sc.get("ops", [])), "tty": _tty(sc), "ids": sc.get("ids", ""),
            "env": ";".join(f"{n}={v}" for n, v in sc.get("env", [])), "files": " ".join(sc.get("files", [])),
            "prog": " ".join(sc.get("prog", [])), "trap": sc.get("trap", "")}


def _describe(sc, argv):
    return (f"argv {argv}, stdin/stderr terminals {_tty(sc)}, ids {sc.get('ids')}, environment {sc.get('env')}, "
            f"files {sc.get('files')}, program {sc.get('prog')}, EXIT trap {sc.get('trap')!r}")


def _exercise(gen):
    """Which rules of Startup.tla the enumerated scenarios exercise (TLC's -coverage runs
    out of memory on this string-heavy functional specification): counts per rule tag."""
    import collections
    c = {k: collections.Counter() for k in ("family", "class", "source", "interactive", "rcfile", "last_command",
                                            "trap", "alternatives", "status", "stderr", "argv0", "tty", "ids")}
    for j in vlib.read_ndjson(gen):
        sc, plan = j["sc"], j["plan"]
        c["family"][j["fam"]] += 1
        c["class"][j["class"]] += 1
        c["source"][plan["src"]] += 1
        c["interactive"][str(plan["inter"]).lower()] += 1
        c["rcfile"][plan["rc"]] += 1
        c["last_command"][plan["last"] or "-"] += 1
        c["trap"][sc["trap"] or "-"] += 1
        c["alternatives"][str(len(j["alts"]))] += 1
        c["argv0"][sc["a0"]] += 1
        c["tty"][_tty(sc)] += 1
        c["ids"][sc["ids"]] += 1
        for a in j["alts"]:
            c["status"]["signal" if a["sig"] else ("1-125" if a["lo"] != a["hi"] else str(a["lo"]))] += 1
            c["stderr"][a["err"]] += 1
    return {k: dict(sorted(v.items())) for k, v in c.items()}


def _side(cfgs, side):
    """Calibration and the negative configurations (run beside the main pipeline)."""
    try:
        side["calib"] = vlib.tlc("Calib_Startup", "Calib_Startup.cfg", workers=1, timeout=cfgs["timeout"])
        neg = {}
        for n in NEGATIVE:
            neg[n] = vlib.tlc("Gen_Startup", f"Gen_Startup_neg_{n}.cfg", workers=2, timeout=cfgs["timeout"], xmx="2g")
        side["neg"] = neg
    except Exception as e:  # reported by the caller
        side["e"] = e


def _validate(trace, timeout, workers=6):
    n = vlib.count_lines(trace)
    if n == 0:
        return [], 0, 0.0, 0
    r = vlib.tlc("Trace_Startup", "Trace_Startup.cfg", workers=workers, timeout=timeout, env={"TRACE": os.path.abspath(trace)})
    vlib.tlc_must_pass(r, "trace validation Trace_Startup")
    if r.distinct != 2 * n - 1:
        raise vlib.ToolError(f"trace validation reached {r.distinct} of {2 * n - 1} index ranges")
    return r.json, n, r.wall, r.distinct


def run(tier):
    t0 = time.time()
    cfgs = TIERS[tier]
    wd = vlib.workdir(PID)
    rep = vlib.Reporter(PID)
    vlib.build_harness(PKG)
    side = {}
    th = threading.Thread(target=_side, args=(cfgs, side))
    th.start()
    try:
        return _run(tier, cfgs, wd, rep, side, th, t0)
    finally:
        th.join()


def _run(tier, cfgs, wd, rep, side, th, t0):
    # ---- spec -> impl -------------------------------------------------------
    gen = os.path.join(wd, "gen.ndjson")
    r = vlib.tlc("Gen_Startup", cfgs["gen"], workers=8, timeout=cfgs["timeout"], json_out=gen)
    vlib.tlc_must_pass(r, f"enumeration and laws {cfgs['gen']}")
    states, transitions = r.distinct, r.generated
    nlines = vlib.count_lines(gen)
    vlib.log(f"[tlc] {cfgs['gen']}: {r.distinct} states, {nlines} scenarios (laws hold on every one), "
             f"{r.generated} transitions, {r.wall:.1f}s")
    if nlines == 0 or nlines > r.distinct:
        raise vlib.ToolError(f"TLC printed {nlines} scenario lines for {r.distinct} states")
    mis = os.path.join(wd, "mismatch.ndjson")
    _, out, _ = vlib.run_harness(PKG, ["replay", "--in", gen, "--out", mis, "--real-every", str(cfgs["real_every"]),
                                       "--threads", "8"], timeout=cfgs["timeout"])
    summ = json.loads(out.strip().splitlines()[-1])
    if summ["scenarios"] != nlines or summ["sim"]["cases"] != nlines or summ["real"]["cases"] == 0:
        raise vlib.ToolError(f"replay covered {summ['sim']['cases']} of {nlines} scenarios, {summ['real']['cases']} on the real OS")
    vlib.log(f"[p4] replay: {summ['sim']['cases']} scenarios on the simulated OS, {summ['real']['cases']} on the real OS "
             f"({summ['real']['with_tty']} with a pty); {summ['usage']} usage errors, {summ['unspec']} unspecified; "
             f"{summ['sim']['mismatches'] + summ['real']['mismatches']} deviation(s)")
    for m in vlib.read_ndjson(mis):
        sc = m["sc"]
        plan = m.get("plan", {})
        detail = (f"{m['mode']}: {_describe(sc, m['argv'])}: observed {m['seen']}; allowed {m['alts']} "
                  f"(deviating: {m['field']}, line {m['pos']}: expected {m['exp']!r}, got {m['got']!r})")
        rep.violation(_key("spec->impl", m["mode"], sc, plan, m["field"], m["pos"], m["exp"], m["got"]), detail, m["line"])
    exercised = _exercise(gen)
    os.remove(gen)
    os.remove(mis)

    # ---- impl -> spec -------------------------------------------------------
    runs, real_n = cfgs["random"]
    trace = os.path.join(wd, "random.ndjson")
    _, out, _ = vlib.run_harness(PKG, ["random", "--runs", str(runs), "--real", str(real_n), "--out", trace, "--threads", "8"],
                                 timeout=cfgs["timeout"])
    rsumm = json.loads(out.strip().splitlines()[-1])
    verdicts, nrec, wall, tstates = _validate(trace, cfgs["timeout"])
    recs = list(vlib.read_ndjson(trace))
    counts = {"ok": 0, "unspec": 0, "reject": 0}
    nruns = sum(len(rec["runs"]) for rec in recs)
    for v in verdicts:
        if v["v"] == "render":
            raise vlib.ToolError(f"random record {v['i']}: the harness rendering differs from Startup.tla's")
        counts[v["v"]] += 1
        if v["v"] == "reject":
            rec = recs[v["i"] - 1]
            run_ = next((x for x in rec["runs"] if x["mode"] == v["mode"]), {})
            rep.violation(_key("impl->spec", v["mode"], rec["sc"], v, v["field"], v["pos"], v["exp"], v["got"]),
                          f"{v['mode']}: random scenario {rec['id']}: {_describe(rec['sc'], rec['argv'])}: observed {run_} is not "
                          f"allowed by Startup.tla ({v['field']}, line {v['pos']}: expected {v['exp']!r}, got {v['got']!r})",
                          dict(rec, reject=v))
    counts["ok"] = nruns - counts["unspec"] - counts["reject"]
    vlib.log(f"[p4] random: {nrec} scenarios, {nruns} runs ({rsumm['real_runs']} on the real OS) judged by Trace_Startup "
             f"in {wall:.1f}s: {counts}")
    samples = list(summ["samples"][:3])
    for rec in recs[:3]:
        samples.append({"argv": rec["argv"], "random": True, "runs": [{k: x[k] for k in ("mode", "out", "status", "sig")} for x in rec["runs"]]})
    os.remove(trace)

    th.join()
    if "e" in side:
        raise side["e"]
    vlib.tlc_must_pass(side["calib"], "calibration examples Calib_Startup")
    for n, nr in side["neg"].items():
        if not nr.violation or "Check" not in nr.violation:
            raise vlib.ToolError(f"negative configuration {n}: the laws of Startup.tla do not refute the wrong variant "
                                 f"({(nr.error or 'no violation')[:300]})")
    vlib.log(f"[tlc] calibration passed; {len(side['neg'])} wrong variants refuted by the laws")

    rc = rep.finish()
    cases = summ["sim"]["cases"] + summ["real"]["cases"]
    vlib.write_evidence(PID, tier, {
        "states": states + tstates,
        "transitions": transitions,
        "traces_validated_against_impl": cases + nruns,
        "samples": samples,
        "evaluations": cases + nruns,
        "distinct_nontrivial": summ["nontrivial"],
        "rule": "distinct enumerated scenarios of class ok in which the specification requires output on standard output "
                "(rcfile markers, observation of $0 / parameters / options / variables, $? lines, EXIT trap output), "
                "each confirmed on the real shell",
        "exhaustive": True,
        "bounds": {"cfg": cfgs["gen"], "tlc_wall_s": round(r.wall, 1), "scenarios": nlines},
        "enumeration": summ,
        "rules_exercised": exercised,
        "random": dict(rsumm, verdicts=counts),
        "negative_configs_refuted": sorted(side["neg"]),
        "known_finding_hits": {fid: n for fid, (_, n) in rep.known_hits.items()},
        "not_covered": ["profile files (the manual: not implemented - the model only says they are never read)",
                        "option spellings, --help / --version, +c / +s (C20; the latter marked 'not working' in startup-y.sh)",
                        "both `-` and `--`, operands before `-` (XCU sh: undefined)",
                        "$ENV that expands to a relative pathname, several --rcfile / --norcfile options, -i with differing "
                        "ids (unspecified: run, must terminate, counted as unspec)",
                        "command_file that exists but cannot be read (the sandbox runs as root), directories, ELOOP",
                        "real != effective ids on the real OS (simulated OS only)",
                        "ignoreeof, the suspended-jobs guard, signals sent from outside, SIGINT in interactive shells",
                        "errexit beyond failing simple commands (C10), shell errors inside functions / compound commands "
                        "(Semantics.tla), syntax errors later in a -c string (C18)",
                        "PWD inherited from the environment (G01), LINENO in -c strings (unspecified)"],
    }, time.time() - t0, violations=len(rep.violations), assumptions=[
        "the simulated runs re-assemble yash-cli/src/lib.rs from its public pieces; lib.rs itself is exercised by the real-OS runs only",
        "exit status 2 for invalid invocations as in startup-y.sh (POSIX: 1-125); 384+signal as documented in exit_status.md",
        "a diagnostic on standard error is only classified (empty / non-empty), its text is not compared",
        "TLC 1.8.0 and the JSON community module are trusted",
    ])
    return rc


def replay(path):
    with open(path) as f:
        obj = json.load(f)
    rec = obj["replay"]
    wd = vlib.workdir(PID + "-replay")
    src = os.path.join(wd, "in.ndjson")
    with open(src, "w") as f:
        f.write(json.dumps(rec) + "\n")
    res = os.path.join(wd, "out.ndjson")
    _, out, _ = vlib.run_harness(PKG, ["redo", "--in", src, "--out", res])
    print(out.rstrip())
    if "alts" in rec:       # a deviation found by the enumeration: the harness compared
        bad = json.loads(out.strip().splitlines()[-1])["bad"]
    else:                   # a rejected random scenario: run it again and let TLC judge
        verdicts, _, _, _ = _validate(res, 300, workers=1)
        bad = 0
        for v in verdicts:
            print(json.dumps(v))
            if v["v"] == "reject":
                bad += 1
    if bad:
        print(f"VIOLATION property={PID} replay={path}")
    return 1 if bad else 0
