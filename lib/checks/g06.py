"""G06 (specification growth) - shell options and positional parameters as state: the `set` and `shift`
built-ins, the spellings of option names, the `set -o` / `set +o` listings, `$-`, `$#`, `$@`, `$*`, `$0`,
positional parameters across function calls, and the shell's own command line.

Oracle: spec/SetOpts.tla, written from POSIX XCU 2.5.1, 2.5.2, 2.8.1, 2.9.5, `set`, `shift`, `sh` and the
manual (docs/src/environment/options.md, builtins/set.md, shift.md, README.md, language/parameters/positional.md,
special.md, startup.md, termination.md).

P1  TLC checks the theorems of SetOpts.tla on every explored state and operation (spec/Gen_SetOpts.tla,
    invariant Emit: shift n leaves $# - n parameters, set -- never changes options, errors change nothing,
    nothing changes $0, a function call restores the positional parameters, every listing mentions every option
    exactly once and `set +o` re-evaluated in any state restores the options, $- and the options determine each
    other) and the calibration examples from the manual and set-p.sh / shift-p.sh / option-p.sh / startup-p.sh
    (spec/Calib_SetOpts.tla).
P4  enumeration, spec -> impl: TLC explores command lines x states reachable by successful operations and
    prints, per state, the events the specification prescribes for every operation of a fan of ~440 spellings
    (plus ~680 abbreviations and case / punctuation variants at two roots) and for a catalogue of ~130 command
    lines; harness/g06 starts the real shell (simulated OS) with that command line and the script
    <witness; operation> for every (state, operation) and compares every observation.
P4  the same catalogue of command lines through the true entry point yash_cli::main() on the real OS (exit
    status of an invalid command line, --help / --version, $-, $#, $0, "$@" printed with /bin/echo).
P4  validation, impl -> spec: seeded random command lines and operation sequences run by the real shell,
    recorded and judged by TLC (spec/Trace_SetOpts.tla).
"""
import json
import os
import threading
import time

import vlib

PID = "G06"
PKG = "yv-g06"

TIERS = {
    "quick": {"gen": "Gen_SetOpts_quick.cfg", "random": (6000, 6), "timeout": 600},
    "thorough": {"gen": "Gen_SetOpts_thorough.cfg", "random": (40000, 8), "timeout": 3000},
}

OBS = 'obs "$-" "$#" "$0" "$*" "$@"'

# every clause of the argument syntax / start-up rules must be exercised by the enumeration (TLC's own coverage
# report is not feasible on this recursive specification)
EXPECTED_CLASSES = ["set:options", "set:operands", "set:options+operands", "set:variables", "set:listing", "set:unknown",
                    "set:ambiguous", "set:missing", "set:unmodifiable", "set:nonportable", "shift", "call", "lo", "lp",
                    "sh:run:c", "sh:run:s", "sh:run:f", "sh:info", "sh:error", "sh:error:unknown", "sh:error:ambiguous",
                    "sh:error:missing", "sh:error:nonportable", "sh:error:unnegatable", "sh:error:argument"]


def _cmds(lines):
    return "; ".join(l for l in lines if l != OBS)


def _key(direction, what, argv, pre, op, field):
    return {"dir": direction, "what": what, "argv": " ".join(argv), "pre": pre, "op": op, "field": field}


CHUNK = 20000      # records per TLC run (one big JSON file makes the JVM thrash)


def _validate(trace, timeout, workers=6):
    """Run Trace_SetOpts over `trace` (in chunks); returns ({1-based record index: verdict}, records, wall)."""
    n = vlib.count_lines(trace)
    if n == 0:
        return {}, 0, 0.0
    verdicts, wall, done = {}, 0.0, 0
    with open(trace) as f:
        while done < n:
            part = trace + ".part"
            k = 0
            with open(part, "w") as g:
                for line in f:
                    g.write(line)
                    k += 1
                    if k == CHUNK:
                        break
            r = vlib.tlc("Trace_SetOpts", "Trace_SetOpts.cfg", workers=workers, timeout=timeout, env={"TRACE": os.path.abspath(part)})
            vlib.tlc_must_pass(r, "trace validation Trace_SetOpts")
            if r.distinct != 2 * k - 1:
                raise vlib.ToolError(f"trace validation reached {r.distinct} of {2 * k - 1} index ranges")
            for j in r.json:
                verdicts[done + j["i"]] = dict(j, i=done + j["i"])
            wall += r.wall
            done += k
            os.remove(part)
    return verdicts, n, wall


def run(tier):
    t0 = time.time()
    cfgs = TIERS[tier]
    wd = vlib.workdir(PID)
    rep = vlib.Reporter(PID)
    vlib.build_harness(PKG)

    side = {}

    def do_calib():
        try:
            side["c"] = vlib.tlc("Calib_SetOpts", "Calib_SetOpts.cfg", workers=1, timeout=cfgs["timeout"])
        except Exception as e:  # reported below
            side["e"] = e

    th = threading.Thread(target=do_calib)
    th.start()
    try:
        return _run(tier, cfgs, wd, rep, side, th, t0)
    finally:
        th.join()


def _run(tier, cfgs, wd, rep, side, th, t0):
    # ---- spec -> impl -------------------------------------------------------
    gen = os.path.join(wd, "gen.ndjson")
    r = vlib.tlc("Gen_SetOpts", cfgs["gen"], workers=8, timeout=cfgs["timeout"], json_out=gen, xmx="2g")
    vlib.tlc_must_pass(r, f"enumeration and theorems {cfgs['gen']}")
    states, transitions = r.distinct, r.generated
    vlib.log(f"[tlc] {cfgs['gen']}: {r.distinct} states (theorems hold on every one), {r.generated} transitions, "
             f"depth {r.depth}, {r.wall:.1f}s")
    nlines = vlib.count_lines(gen)
    if nlines != r.distinct:
        raise vlib.ToolError(f"TLC printed {nlines} state lines for {r.distinct} states")
    mis = os.path.join(wd, "mismatch.ndjson")
    _, out, _ = vlib.run_harness(PKG, ["replay", "--in", gen, "--out", mis], timeout=cfgs["timeout"])
    summ = json.loads(out.strip().splitlines()[-1])
    if summ["states"] != r.distinct or summ["cases"] == 0 or summ["starts"] == 0:
        raise vlib.ToolError(f"replay covered {summ['states']} of {r.distinct} states, {summ['cases']} cases, "
                             f"{summ['starts']} command lines")
    missing = [c for c in EXPECTED_CLASSES if summ["by_class"].get(c, 0) == 0]
    if missing:
        raise vlib.ToolError(f"clauses of the specification not exercised by the enumeration: {missing}")
    vlib.log(f"[p4] replay: {summ['cases']} (state, operation) cases over {summ['states']} states (fan {summ['fan']}, "
             f"big fan {summ['bigfan']}) and {summ['starts']} command lines on the real shell; {summ['unspec']} left open by "
             f"the specification; {summ['mismatches']} deviation(s); prescribed effects {summ['by_effect']}")
    for m in vlib.read_ndjson(mis):
        exp = m["exp"][m["at"]] if m["at"] < len(m["exp"]) else {}
        if m["what"] == "start":
            detail = (f"command line {m['argv']}: the specification prescribes '{m['k']}' with first observation "
                      f"{json.dumps(exp)}; observed {json.dumps(m['obs'])[:600]} (deviating: {m['field']})")
        else:
            detail = (f"command line {m['argv']}, state {json.dumps(m['s'])} reached by `{_cmds(m['prelines'])}`: "
                      f"`{_cmds(m['lines'])}` -> expected event {m['at']} is {json.dumps(exp)}; observed "
                      f"{json.dumps(m['obs']['evs'][-3:])[:900]} exit {m['obs']['exit']} ({m['obs']['outcome']}) "
                      f"(deviating: {m['field']})")
        rep.violation(_key("spec->impl", m["what"], m["argv"], _cmds(m["prelines"]), _cmds(m["lines"]), m["field"]), detail, m)
    # the catalogue of command lines once more through the true entry point yash_cli::main() on the real OS
    rmis = os.path.join(wd, "real-mismatch.ndjson")
    _, out, _ = vlib.run_harness(PKG, ["real", "--in", gen, "--out", rmis], timeout=cfgs["timeout"])
    real = json.loads(out.strip().splitlines()[-1])
    if real["real_cases"] == 0:
        raise vlib.ToolError("the real-OS stage ran no command line")
    vlib.log(f"[p4] real OS, yash_cli::main(): {real['real_cases']} command lines ({real['kinds']}; {real['skipped']} need another "
             f"argv[0] or are left open), {real['mismatches']} deviation(s)")
    for m in vlib.read_ndjson(rmis):
        if m["field"] == "timeout":
            raise vlib.ToolError(f"real-OS stage: {m['argv']} did not finish in time")
        rep.violation(_key("spec->impl", "real", m["argv"], "", "", m["field"]),
                      f"real OS, true entry point: command line {m['argv']}: the specification prescribes '{m['k']}'"
                      f"{' with first observation ' + json.dumps(m['exp'][0]) if m['exp'] else ''}; observed "
                      f"{json.dumps(m['obs'])[:600]} (deviating: {m['field']})", m)
    os.remove(gen)
    os.remove(mis)
    os.remove(rmis)

    # ---- impl -> spec -------------------------------------------------------
    runs, length = cfgs["random"]
    trace = os.path.join(wd, "random.ndjson")
    _, out, _ = vlib.run_harness(PKG, ["random", "--runs", str(runs), "--len", str(length), "--out", trace],
                                 timeout=cfgs["timeout"])
    rsumm = json.loads(out.strip().splitlines()[-1])
    verdicts, nrec, wall = _validate(trace, cfgs["timeout"])
    counts = {"ok": 0, "unspec": 0, "misplaced": 0, "reject": 0}
    samples = list(summ["samples"][:3])
    for i, rec in enumerate(vlib.read_ndjson(trace), start=1):
        v = verdicts.get(i)
        if i <= 2:
            samples.append({"random": rec["argv"], "script": rec["script"], "kind": rec["kind"], "exit": rec["exit"],
                            "observations": len(rec["evs"]), "verdict": "ok" if v is None else v["v"]})
        if v is None:
            counts["ok"] += 1
            continue
        if v["v"] == "render":
            raise vlib.ToolError(f"random record {i}: the script is not Script(ops)")
        counts[v["v"]] += 1
        if v["v"] == "reject":
            rep.violation(_key("impl->spec", "random", rec["argv"], "", _cmds(rec["script"].splitlines()), v["f"]),
                          f"random run {rec['id']}: command line {rec['argv']}, script `{_cmds(rec['script'].splitlines())}`: "
                          f"expected event {v['k']} of SetOpts.tla is not what the shell showed ({v['f']}); "
                          f"observed kind {rec['kind']}, exit {rec['exit']}, {len(rec['evs'])} observations",
                          dict(rec, reject_event=v["k"]))
    vlib.log(f"[p4] random: {nrec} runs ({rsumm['ops']} operations, {rsumm['events']} observations; {rsumm['kinds']}) "
             f"validated by Trace_SetOpts in {wall:.1f}s: {counts}")
    os.remove(trace)

    th.join()
    if "e" in side:
        raise side["e"]
    vlib.tlc_must_pass(side["c"], "calibration examples Calib_SetOpts")

    rc = rep.finish()
    cases = summ["cases"] + summ["starts"] + real["real_cases"]
    vlib.write_evidence(PID, tier, {
        "states": states,
        "transitions": transitions,
        "traces_validated_against_impl": cases + nrec,
        "samples": samples,
        "evaluations": cases + rsumm["ops"],
        "distinct_nontrivial": summ["nontrivial"],
        "rule": "distinct (command line, state, operation) cases in which the specification prescribes a change of "
                "the options or the positional parameters, a non-zero status or an exit of the shell, each "
                "confirmed on the real shell",
        "exhaustive": True,
        "bounds": {"cfg": cfgs["gen"], "depth": r.depth, "tlc_wall_s": round(r.wall, 1), "fan": summ["fan"],
                   "bigfan": summ["bigfan"]},
        "enumeration": {k: summ[k] for k in ("states", "cases", "starts", "unspec", "mismatches", "by_kind", "by_effect", "by_class")},
        "real_os_entry_point": real,
        "random": dict(rsumm, verdicts=counts),
        "known_finding_hits": {fid: n for fid, (_, n) in rep.known_hits.items()},
        "not_covered": ["interactive shells (-i, terminals, job-control side of -m, ignoreeof, prompts)",
                        "login through set (options.md and set.md disagree), +c / +s / -V on the command line",
                        "the output of `set` without arguments (C07), write errors of the listings (status 1)",
                        "the effect of the options other than errexit and exec on later commands (C02 / C10 and others)",
                        "non-ASCII characters in option names, IFS other than the default for \"$*\"",
                        "command lines started under another name than the harness binary on the real OS (sh, -yash: "
                        "simulated OS only)"],
    }, time.time() - t0, violations=len(rep.violations), assumptions=[
        "an invalid `set` / `shift` command changes neither options nor parameters (the manual says status 2 / "
        "'error'; atomicity is how the project's tests read it)",
        "exit status 2 for invalid options of set as documented in docs/src/builtins/set.md (POSIX: > 0)",
        "the observation built-ins obs / lst of harness/g06 leave $? unchanged",
        "TLC 1.8.0 and the JSON community module are trusted",
    ])
    return rc


def replay(path):
    with open(path) as f:
        obj = json.load(f)
    rec = obj["replay"]
    wd = vlib.workdir(PID + "-replay")
    src = os.path.join(wd, "in.ndjson")
    with open(src, "w") as f:
        f.write(json.dumps(rec) + "\n")
    res = os.path.join(wd, "out.ndjson")
    _, out, _ = vlib.run_harness(PKG, ["redo", "--in", src, "--out", res])
    bad = 0
    if "ops" in rec:        # a rejected random run: run it again and let TLC judge
        verdicts, n, _ = _validate(res, 300, workers=1)
        for i, r in enumerate(vlib.read_ndjson(res), start=1):
            v = verdicts.get(i)
            print(f"{r['argv']}\n{r['script'].rstrip()}\n  -> kind {r['kind']}, exit {r['exit']}, "
                  f"{len(r['evs'])} observations: {('ok' if v is None else json.dumps(v))}")
            if v is not None and v["v"] == "reject":
                bad += 1
    else:                   # a deviation found by the enumeration
        for r in vlib.read_ndjson(res):
            print(r["argv"])
            print(r["script"].rstrip())
            print(f"  -> {r['verdict']}")
        bad = json.loads(out.strip().splitlines()[-1])["bad"]
    if bad:
        print(f"VIOLATION property={PID} replay={path}")
    return 1 if bad else 0
