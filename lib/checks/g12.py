"""G12 (specification growth) - shell functions as a state machine.

Oracle: spec/ShFunctions.tla (the planned name Functions.tla clashes with a
CommunityModules module), written from POSIX XCU 2.9.5, 2.9.1, 2.8.1, 2.13, 2.15
(return, unset, break) and docs/src/language/functions.md, commands/simple.md,
parameters/variables.md (local variables), builtins/{typeset,unset,return}.md:
the function table (define / unset / read-only / listing) and the call protocol
(positional parameters, local variables, temporary assignments, redirections
of the call and of the definition command, return, exit status, subshells).

 0. Calib_Functions: the examples of the manual and the function cases of the
    repository's scripted tests hold for the oracle (ASSUMEs).
 1. MC_Functions: the machine run step by step over every scenario of seven
    families; TLC proves the invariants / action properties (call restores,
    read-only stable, define inert, only three commands change the table,
    unset -f processes every operand, subshell containment, observations are
    call-time, redirections of the definition at each call, running body
    stable, listing round trip).  Twelve negative configurations (named wrong
    variants of the machine) must each be refuted by the property named below.
 2. spec -> impl, script level: Gen_Functions prints script + expectation per
    scenario; harness/g12 runs every specified script on the real shell
    (simulated OS) and compares stdout, files, exit status, the final function
    table (state inspection), the final listing; the listing is re-read by a
    fresh shell and must recreate the table.
 3. spec -> impl, call level: Gen_FunctionSet prints every sequence of
    define / unset / get over two names with the results the table layer
    demands; harness/g12 replays them on yash_env::function::FunctionSet.
 4. impl -> spec: seeded random scenarios (all commands mixed, nested deeper)
    rendered and run by the harness, judged by TLC (Trace_Functions).
"""
import json
import os
import re
import time
from concurrent.futures import ThreadPoolExecutor

import vlib

PID = "G12"
PKG = "yv-g12"

TIERS = {
    "quick": dict(gen=["Gen_Functions_quick.cfg"], mc="MC_Functions_quick.cfg", coverage=False,
                  api="Gen_FunctionSet_quick.cfg", nrandom=6000, timeout=600),
    "thorough": dict(gen=["Gen_Functions_thorough_a.cfg", "Gen_Functions_thorough_b.cfg"], mc="MC_Functions_thorough.cfg",
                     coverage=True,
                     api="Gen_FunctionSet_thorough.cfg", nrandom=60000, timeout=2400),
}

# wrong variant of the machine -> the property of MC_Functions that must refute it
NEGATIVE = {
    "ret_loop_norestore": "P_CallRestores",
    "local_leak": "P_CallRestores",
    "unset_ro_ok": "P_ReadOnlyStable",
    "def_overwrites_ro": "P_DefineInert",
    "unset_stops": "P_UnsetAll",
    "list_no_ro": "ListRoundTrip",
    "def_time_expansion": "P_ObsFaithful",
    "redir_def_once": "P_OnlyChangers",
    "redir_at_def": "P_CallRedirects",
    "redef_live": "BodyStable",
    "sub_leak": "P_SubContained",
    "def_runs_body": "P_DefineInert",
}

SHARD = 10000       # records per Trace_Functions run


def _summary(out):
    line = [l for l in out.strip().splitlines() if l.startswith("{")][-1]
    return json.loads(line)


def _negative(variant):
    cfg = f"MC_Functions_neg_{variant}.cfg"
    r = vlib.tlc("MC_Functions", cfg, workers=1, timeout=300, xmx="1g")
    txt = r.violation or r.error or ""
    m = re.search(r"(?:Action property|Invariant) (\w+) is violated", txt)
    return variant, (m.group(1) if m else None), r


def _model(T):
    """Stage 1: MC_Functions (positive) and the negative configurations, side by side."""
    totals = {"states": 0, "transitions": 0}
    with ThreadPoolExecutor(max_workers=4) as ex:
        pos = ex.submit(vlib.tlc, "MC_Functions", T["mc"], workers=4, timeout=T["timeout"], coverage=T["coverage"])
        negs = list(ex.map(_negative, sorted(NEGATIVE)))
        r = pos.result()
    vlib.tlc_must_pass(r, f"model checking {T['mc']}")
    totals["states"] += r.distinct
    totals["transitions"] += r.generated
    acts = {k: v for k, v in r.coverage.items() if k.startswith("A")}
    if T["coverage"] and (len(acts) != 13 or min(acts.values()) == 0):
        raise vlib.ToolError(f"not every action of the model is exercised: {acts}")
    vlib.log(f"[mc] {T['mc']}: {r.distinct} states, 3 invariants + 8 action properties hold ({r.wall:.1f}s)")
    refuted = {}
    for variant, prop, rn in negs:
        if rn.ok or prop != NEGATIVE[variant]:
            vlib.log((rn.error or rn.violation or "")[:1500])
            raise vlib.ToolError(f"wrong variant {variant} is not refuted by {NEGATIVE[variant]} (got {prop})")
        refuted[variant] = prop
        totals["states"] += rn.distinct
        totals["transitions"] += rn.generated
    vlib.log(f"[mc] {len(refuted)} wrong variants refuted: " + ", ".join(f"{v} by {p}" for v, p in sorted(refuted.items())))
    return r, refuted, acts, totals


def _validate(rep, trace, timeout, totals):
    with open(trace) as f:
        lines = f.readlines()
    n = len(lines)
    verdicts = {"ok": 0}
    wall = 0.0
    for a in range(0, n, SHARD):
        part = lines[a:a + SHARD]
        p = f"{trace}.shard"
        with open(p, "w") as f:
            f.writelines(part)
        r = vlib.tlc("Trace_Functions", "Trace_Functions.cfg", workers=8, timeout=timeout,
                     env={"TRACE": os.path.abspath(p)})
        os.remove(p)
        vlib.tlc_must_pass(r, "trace validation (Trace_Functions)")
        if r.distinct != 2 * len(part) - 1:
            raise vlib.ToolError(f"trace validation judged {r.distinct} states for {len(part)} records")
        wall += r.wall
        totals["states"] += r.distinct
        totals["transitions"] += r.generated
        nok = len(part)
        for j in r.json:
            nok -= 1
            rec = json.loads(part[j["i"] - 1])
            if j["v"] == "render":
                raise vlib.ToolError("harness renderer and ShFunctions!Script disagree on " + json.dumps(rec["sc"])[:2000])
            if j["v"] == "open":
                k = "open:" + j["class"]
                verdicts[k] = verdicts.get(k, 0) + 1
                continue
            verdicts["reject"] = verdicts.get("reject", 0) + 1
            rep.violation({"dir": "impl->spec", "fam": "random", "symptom": j["why"], "script": rec["script"],
                           "args": " ".join(rec["sc"]["args"])},
                          f"random scenario: {j['why']} differ(s) from what ShFunctions.tla demands; script:\n"
                          + rec["script"] + f"\nobserved: status {rec['st']}, stdout {rec['out']}, table {rec['tab']}, "
                          f"listing {rec['lst']}, re-read {rec['rt']}",
                          {"sc": rec["sc"], "why": j["why"], "dir": "impl->spec"})
        verdicts["ok"] += nok
    vlib.log(f"[p4<-] {n} random records judged by TLC in {wall:.1f}s: {verdicts}")
    return n, verdicts


def run(tier):
    t0 = time.time()
    T = TIERS[tier]
    wd = vlib.workdir(PID)
    rep = vlib.Reporter(PID)
    totals = {"states": 0, "transitions": 0}
    vlib.build_harness(PKG)

    # 0. calibration
    r = vlib.tlc("Calib_Functions", "Calib_Functions.cfg", workers=1, timeout=300)
    vlib.tlc_must_pass(r, "calibration examples (Calib_Functions)")
    vlib.log(f"[calib] Calib_Functions: all ASSUMEs hold ({r.wall:.1f}s)")

    # 1. the model (in the background while the enumeration runs)
    pool = ThreadPoolExecutor(max_workers=1)
    model = pool.submit(_model, T)

    # 2. spec -> impl, script level
    st1 = {"scenarios": 0, "shell_runs": 0, "by_class": {}, "by_family": {}, "nontrivial": 0, "mismatches": 0,
           "features": {}}
    samples = []
    ngen = 0
    for cfg in T["gen"]:
        gen = os.path.join(wd, "gen.ndjson")
        r = vlib.tlc("Gen_Functions", cfg, workers=6, timeout=T["timeout"], json_out=gen)
        vlib.tlc_must_pass(r, f"enumeration {cfg}")
        n = vlib.count_lines(gen)
        if n != r.distinct or n == 0:
            raise vlib.ToolError(f"enumeration printed {n} lines for {r.distinct} states")
        totals["states"] += r.distinct
        totals["transitions"] += r.generated
        ngen += n
        vlib.log(f"[p4->] {cfg}: {r.distinct} scenarios enumerated by TLC in {r.wall:.1f}s")
        with open(gen) as f:
            for i, line in enumerate(f):
                if i % 1777 == 42 and len(samples) < 5:
                    e = json.loads(line)
                    if e["cls"] == "ok" and len(e["out"]) > 1:
                        samples.append({k: e[k] for k in ("fam", "args", "script", "out", "st", "fo", "fp", "tab")})
        mism = os.path.join(wd, "mismatch.ndjson")
        t1 = time.time()
        _, out, _ = vlib.run_harness(PKG, ["replay", "--in", gen, "--out", mism, "--threads", "8"], timeout=T["timeout"])
        s = _summary(out)
        vlib.log(f"[p4->] replayed on the real shell in {time.time() - t1:.1f}s: {s['shell_runs']} shell runs; "
                 f"classes {s['by_class']}; {s['mismatches']} mismatches")
        if s["scenarios"] != n:
            raise vlib.ToolError("harness did not replay every scenario")
        for k in ("scenarios", "shell_runs", "nontrivial", "mismatches"):
            st1[k] += s[k]
        for k in ("by_class", "by_family", "features"):
            for a, b in s[k].items():
                st1[k][a] = st1[k].get(a, 0) + b
        for m in vlib.read_ndjson(mism):
            rep.violation(m["key"], m["detail"] + "; script:\n" + m["key"]["script"],
                          {"dir": "spec->impl", "script": m["key"]["script"], "args": m["exp"]["args"], "exp": m["exp"],
                           "obs": m["obs"]})
        os.remove(gen)

    # 3. spec -> impl, call level
    api = os.path.join(wd, "api.ndjson")
    r = vlib.tlc("Gen_FunctionSet", T["api"], workers=4, timeout=T["timeout"], json_out=api)
    vlib.tlc_must_pass(r, f"enumeration {T['api']}")
    totals["states"] += r.distinct
    totals["transitions"] += r.generated
    napi = vlib.count_lines(api)
    mism = os.path.join(wd, "apimismatch.ndjson")
    _, out, _ = vlib.run_harness(PKG, ["api", "--in", api, "--out", mism], timeout=T["timeout"])
    st3 = _summary(out)
    if st3["sequences"] != napi or napi == 0:
        raise vlib.ToolError("harness did not replay every operation sequence")
    vlib.log(f"[p2] {T['api']}: {r.distinct} table states, {napi} operation sequences, {st3['calls']} calls replayed on "
             f"FunctionSet; results {st3['by_result']}; {st3['mismatches']} mismatches")
    for m in vlib.read_ndjson(mism):
        rep.violation(m["key"], m["detail"], {"dir": "spec->impl", "api": m["exp"], "obs": m["obs"]})
    os.remove(api)

    # 4. impl -> spec
    trace = os.path.join(wd, "random.ndjson")
    _, out, _ = vlib.run_harness(PKG, ["random", "--n", T["nrandom"], "--out", trace, "--threads", "8"],
                                 timeout=T["timeout"])
    st2 = _summary(out)
    nrec, verdicts = _validate(rep, trace, T["timeout"], totals)
    with open(trace) as f:
        for i, line in enumerate(f):
            if i % 997 == 77 and len(samples) < 7:
                e = json.loads(line)
                samples.append({k: e[k] for k in ("script", "out", "st", "tab", "lst")})
    os.remove(trace)

    mc, refuted, acts, mtot = model.result()
    pool.shutdown()
    totals["states"] += mtot["states"]
    totals["transitions"] += mtot["transitions"]

    rc = rep.finish()
    vlib.write_evidence(PID, tier, {
        "states": totals["states"],
        "transitions": totals["transitions"],
        "traces_validated_against_impl": nrec,
        "samples": samples,
        "evaluations": st1["shell_runs"] + st2["shell_runs"] + st3["calls"],
        "distinct_nontrivial": st1["nontrivial"] + verdicts.get("ok", 0) + st3["sequences"],
        "rule": "enumerated scenarios of class ok that print at least two lines, plus random scenarios of class ok "
                "accepted by Trace_Functions, plus operation sequences replayed on FunctionSet",
        "exhaustive": True,
        "exhaustive_bound": f"all scenarios of the seven families at the bounds of {T['gen']} (spec/Gen_Functions.tla); all "
                            f"operation sequences of {T['api']}; random beyond",
        "model_checked_states": mc.distinct,
        "model_actions_exercised": acts,
        "wrong_variants_refuted": refuted,
        "enumerated": ngen,
        "enumerated_by_class": st1["by_class"],
        "enumerated_by_family": st1["by_family"],
        "rules_exercised_by_enumeration": st1["features"],
        "functionset_sequences": st3["sequences"],
        "functionset_calls": st3["calls"],
        "functionset_results": st3["by_result"],
        "random_records": nrec,
        "random_verdicts": verdicts,
        "mismatches_spec_to_impl": st1["mismatches"] + st3["mismatches"],
    }, time.time() - t0, violations=len(rep.violations), assumptions=[
        "`obs` (prints $? and its operands, leaves $? unchanged), `lsf` (normal form of a typeset -fp listing), "
        "`status`, `cat`, `echo`, `snap` are built-ins registered by the harness; runs are on the simulated OS only",
        "the final function table is read through the EXIT trap (`snap end` state inspection + raw `typeset -fp`); "
        "traps, the display form of commands (C07) and the command search order (C02/G04) are used as observers only",
        "scenarios of class open (break with no lexically enclosing loop, return outside a function or directly in a "
        "subshell, redirection on a command that is not found, typeset -fr with several operands one of which is "
        "missing, `>` on a file another live descriptor writes) and deep (more than MaxDepth nested calls) are "
        "skipped and counted (enumeration) or only required to terminate (random)",
        "exit statuses the texts call non-zero are symbolic: any status 1..255 is accepted",
        "names f g h, variables v t, words without blanks: quoting, field splitting and parameter expansion proper "
        "belong to C01/C16; readonly -f (documented as not yet supported), function keyword, special built-in names, "
        "LINENO, traps and errexit inside functions are not covered",
        "TLC and the JSON community module are trusted",
    ])
    return rc


def replay(path):
    with open(path) as f:
        obj = json.load(f)
    rp = obj["replay"]
    wd = vlib.workdir(PID + "-replay")
    if "api" in rp:
        src = os.path.join(wd, "api.ndjson")
        with open(src, "w") as f:
            f.write(json.dumps(rp["api"]) + "\n")
        mism = os.path.join(wd, "m.ndjson")
        vlib.run_harness(PKG, ["api", "--in", src, "--out", mism])
        bad = list(vlib.read_ndjson(mism))
        for m in bad:
            print(m["detail"])
        if bad:
            print(f"VIOLATION property={PID} replay={path}")
            return 1
        print("accepted")
        return 0
    if rp.get("dir") == "spec->impl":
        src = os.path.join(wd, "gen.ndjson")
        with open(src, "w") as f:
            f.write(json.dumps(rp["exp"]) + "\n")
        mism = os.path.join(wd, "m.ndjson")
        vlib.run_harness(PKG, ["replay", "--in", src, "--out", mism, "--threads", "1"])
        bad = list(vlib.read_ndjson(mism))
        print("script:\n" + rp["script"])
        for m in bad:
            print(f"{m['key']['symptom']}: {m['detail']}")
        if bad:
            print(f"VIOLATION property={PID} replay={path}")
            return 1
        print("accepted")
        return 0
    src = os.path.join(wd, "sc.json")
    with open(src, "w") as f:
        json.dump({"sc": rp["sc"]}, f)
    t = os.path.join(wd, "one.ndjson")
    vlib.run_harness(PKG, ["one", "--in", src, "--out", t])
    r = vlib.tlc("Trace_Functions", "Trace_Functions.cfg", workers=1, timeout=300, env={"TRACE": os.path.abspath(t)})
    vlib.tlc_must_pass(r, "replay validation")
    rec = json.loads(open(t).read())
    print("script:\n" + rec["script"])
    print(f"{rec['outcome']} status={rec['st']} out={rec['out']} tab={rec['tab']} lst={rec['lst']}")
    bad = [j for j in r.json if j["v"] in ("reject", "render")]
    if bad:
        print(f"rejected: {bad[0]}")
        print(f"VIOLATION property={PID} replay={path}")
        return 1
    print("accepted" + (f" ({r.json[0]})" if r.json else ""))
    return 0
