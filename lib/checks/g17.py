"""G17 (specification growth) - the select protocol of `Concurrent<S>` (yash-env):
wakers, timers, signals and ONE blocking select call shared by many tasks.

Oracle: spec/ConcSelect.tla, written from the doc comments of
yash_env::system::concurrency / system::Select / waker and POSIX XSH pselect,
read/write with O_NONBLOCK, sigprocmask/sigaction.  A concurrent state machine
with one action per critical section; external events (other processes writing
/ draining / closing pipe ends, signals, time) may fall between any two.

 0. Calib_ConcSelect: the worked examples of the project (doc example of
    Concurrent, the scenarios of the unit tests next to the code, scripted
    POSIX tests about traps) are behaviours of the specification.
 1. Model checking: every Gen_ConcSelect_* configuration is a bounded model
    whose complete state graph TLC explores, checking 10 invariants and 10 step
    laws (no lost wake-up, nobody woken without cause, signals to ALL waiters
    exactly once, timers never early, masks inside / outside select, ...);
    liveness (a sent signal reaches its waiter, expired timers fire, readers
    of readable pipes are woken, woken tasks are polled, systems of sleeping
    and yielding tasks terminate) under fairness with the run-loop discipline; nine named wrong variants (negative
    configurations) must each be refuted by the property named below.
 2. spec -> impl: the same TLC runs print, per distinct quiescent state, the
    history leading to it (task scripts, driver calls, external events at
    their exact places, every event the code must produce with the world
    after it).  harness/g17 replays each on the real Concurrent<Spy<
    VirtualSystem>> - the Spy under the wrapper reports its system calls and
    injects the external events between its critical sections - and compares
    event by event.
 3. impl -> spec: seeded random larger systems (up to 8 tasks, ~12 operations,
    3 pipes, 3 signals) under a random driver with random external events are
    recorded and judged by Trace_ConcSelect (every record must be explained by
    a step of the specification; the invariants hold on the matched states).
"""
import json
import os
import re
import time
from concurrent.futures import ThreadPoolExecutor

import vlib

PID = "G17"
PKG = "yv-g17"

TIERS = {
    "quick": dict(gen=["sig_q", "rw_q", "tmr_q", "mix_q", "rw2_q"], live=["MC_ConcSelect_live_q.cfg", "MC_ConcSelect_term_q.cfg"],
                  nrandom=1500, shards=4, timeout=300, coverage=False),
    "thorough": dict(gen=["sig_q", "rw_q", "tmr_q", "mix_q", "rw2_q", "sig_t", "rw_t", "tmr_t", "mix_t", "rw2_t"],
                     live=["MC_ConcSelect_live_t.cfg", "MC_ConcSelect_term_q.cfg"], nrandom=40000, shards=8, timeout=1500, coverage=True),
}

# wrong variant -> the property that must refute it
NEGATIVE = {
    "nonatomic": "L_SignalWait",          # unblock, then wait for the NEXT event: lost wake-up, hang
    "sig_one": "P_SignalsToAll",          # caught signals delivered to one waiter only
    "timer_first": "P_NoLostTimer",       # only the earliest timer fires
    "timer_early": "P_NoSpurious",        # timers fire one tick early
    "no_rereg": "I_PendingRegistered",    # a task that finds EAGAIN again does not register again
    "mask_overwrite": "I_SelMask",        # select mask recomputed from the current mask each time
    "mask_always": "I_CaughtInside",      # signals unblocked in select although nobody waits for them
    "sa_before_block": "I_CaughtInside",  # handler installed before the signal is blocked
    "eintr_drop": "I_PendingRegistered",  # EINTR forgets the descriptor registrations
}

INVS = 10
PROPS = 10


def _summary(out):
    line = [l for l in out.strip().splitlines() if l.startswith("{")][-1]
    return json.loads(line)


def _cfg_consts(cfg):
    txt = open(os.path.join(vlib.SPEC, cfg)).read()
    g = lambda k: re.search(rf"^\s*{k} = (.*)$", txt, re.M).group(1).strip()
    base = re.sub(r"[{} ]", "", g("Base0"))
    return dict(np=int(g("NP")), ns=int(g("NS")), nt=int(g("NT")), base=base)


def _violated(r):
    txt = r.violation or r.error or ""
    m = re.search(r"(?:Action property|Invariant|Temporal property) (\w+) (?:is|was) violated", txt)
    return m.group(1) if m else None


def _negative(variant):
    r = vlib.tlc("MC_ConcSelect", f"MC_ConcSelect_neg_{variant}.cfg", workers=1, timeout=300, xmx="1g")
    return variant, _violated(r), r


def _gen_and_replay(name, wd, T, rep, cover):
    """One bounded model: TLC checks the invariants and laws on its whole state
    graph and prints the histories; the harness replays them."""
    cfg = f"Gen_ConcSelect_{name}.cfg"
    out = os.path.join(wd, f"gen_{name}.ndjson")
    r = vlib.tlc("Gen_ConcSelect", cfg, workers=T.get("gen_workers", 2), timeout=T["timeout"], json_out=out, coverage=cover)
    vlib.tlc_must_pass(r, f"model checking + enumeration {cfg}")
    n = vlib.count_lines(out)
    if n == 0:
        raise vlib.ToolError(f"{cfg}: no history printed")
    c = _cfg_consts(cfg)
    mism = os.path.join(wd, f"mism_{name}.ndjson")
    t1 = time.time()
    _, o, _ = vlib.run_harness(PKG, ["replay", "--in", out, "--out", mism, "--np", c["np"], "--ns", c["ns"], "--nt", c["nt"],
                                     "--base", c["base"], "--threads", "4", "--cfg", name], timeout=T["timeout"])
    s = _summary(o)
    if s["histories"] != n:
        raise vlib.ToolError(f"{cfg}: harness replayed {s['histories']} of {n} histories")
    vlib.log(f"[mc+p2] {cfg}: {r.distinct} states / {r.generated} transitions, {INVS} invariants + {PROPS} step laws hold "
             f"({r.wall:.1f}s); {n} histories ({s['events']} events) replayed on the real code in {time.time() - t1:.1f}s, "
             f"{s['mismatches']} deviate")
    sample = None
    with open(out) as f:
        for i, line in enumerate(f):
            if i == n // 2:
                sample = {"cfg": name, "history": [[e[0], e[1], e[2], e[3], e[4], e[5], e[6], e[7]] for e in json.loads(line)]}
    for m in vlib.read_ndjson(mism):
        hist = " ".join(f"{e[0]}" + (f"({e[1]})" if e[1] else "") for e in m["history"][: m["index"] + 1])
        rep.violation(m["key"],
                      f"{name}: event {m['index'] + 1} of the history deviates ({m['key']['symptom']}): the specification "
                      f"prescribes {m['expected']}, the code produced {m['got']}; history so far: {hist}",
                      {"dir": "spec->impl", "history": m["history"], "np": m["np"], "ns": m["ns"], "nt": m["nt"], "base": m["base"]})
    os.remove(out)
    return dict(name=name, states=r.distinct, transitions=r.generated, histories=n, summary=s, sample=sample,
                coverage=r.coverage)


def _run_boundary(line):
    return line.startswith('{"a":') and '"e":"reset"' in line


def _validate(rep, trace, T, totals):
    """Trace_ConcSelect over the recorded runs, in shards cut at `reset` records."""
    with open(trace) as f:
        lines = f.readlines()
    starts = [i for i, l in enumerate(lines) if '"e":"reset"' in l]
    nruns = len(starts)
    per = max(1, (nruns + T["shards"] - 1) // T["shards"])
    pieces = []
    for k in range(0, nruns, per):
        a = starts[k]
        b = starts[k + per] if k + per < nruns else len(lines)
        pieces.append((a, b))

    def one(ab):
        a, b = ab
        p = f"{trace}.{a}"
        with open(p, "w") as f:
            f.writelines(lines[a:b])
        r = vlib.tlc("Trace_ConcSelect", "Trace_ConcSelect.cfg", workers=1, timeout=T["timeout"], env={"TRACE": os.path.abspath(p)},
                     depth_first=True, xmx="2g")
        os.remove(p)
        return a, b, r

    verdicts = {"accepted": 0, "F1": 0, "reject": 0}
    t0 = time.time()
    with ThreadPoolExecutor(max_workers=T["shards"]) as ex:
        results = list(ex.map(one, pieces))
    for a, b, r in results:
        if r.violation and "TraceInv" in r.violation:
            # an invariant of the specification fails on a state the real code reached
            rep.violation({"dir": "impl->spec", "symptom": "invariant", "what": (_violated(r) or "TraceInv")},
                          "an invariant of ConcSelect is violated on the behaviour recorded from the real code:\n"
                          + r.violation[:1500], {"dir": "impl->spec", "shard": [a, b], "seed": vlib.seed()})
            continue
        vlib.tlc_must_pass(r, "trace validation (Trace_ConcSelect)")
        ends = [j for j in r.json if j.get("v") == "end"]
        if not ends or ends[0]["n"] != b - a:
            raise vlib.ToolError("trace validation did not reach the end of its shard")
        totals["states"] += r.distinct
        totals["transitions"] += r.generated
        bad_runs = 0
        for j in r.json:
            if j["v"] in ("reject", "F1"):
                bad_runs += 1
                g = a + j["i"] - 1                 # 0-based global index of the offending record
                s = max(x for x in starts if x <= g)
                run = json.loads(lines[s])
                rec = json.loads(lines[g])
                verdicts[j["v"]] += 1
                if j["v"] == "F1":
                    key = {"dir": "impl->spec", "symptom": f"{rec['e']}:w.nb:cleared-in-flight", "overlap": True}
                else:
                    key = {"dir": "impl->spec", "symptom": f"reject:{rec['e']}", "event": rec["e"], "result": rec["r"]}
                ctx = [json.loads(x) for x in lines[max(s, g - 12): g + 1]]
                rep.violation(key,
                              f"random run {run['a']} (seed {run['b']}): record {g - s} is not explained by any step of "
                              f"ConcSelect: {rec}; preceding records: "
                              + " | ".join(f"{c['e']}:{c['t']}:{c['a']}:{c['b']}:{c['r']}:{c['x']}" for c in ctx),
                              {"dir": "impl->spec", "seed": run["b"], "idx": run["a"]})
        verdicts["accepted"] += ends[0]["runs"] - bad_runs
    vlib.log(f"[p3] {len(lines)} records of {nruns} random runs judged by TLC in {time.time() - t0:.1f}s: {verdicts}")
    return nruns, len(lines), verdicts


def run(tier):
    t0 = time.time()
    T = TIERS[tier]
    wd = vlib.workdir(PID)
    rep = vlib.Reporter(PID)
    totals = {"states": 0, "transitions": 0}
    vlib.build_harness(PKG)

    # 0. calibration
    r = vlib.tlc("Calib_ConcSelect", "Calib_ConcSelect.cfg", workers=1, timeout=300)
    vlib.tlc_must_pass(r, "calibration examples (Calib_ConcSelect)")
    vlib.log(f"[calib] Calib_ConcSelect: 20 worked examples are behaviours of the specification ({r.wall:.1f}s)")

    pool = ThreadPoolExecutor(max_workers=6)
    # 3a. record random runs (cheap)
    trace = os.path.join(wd, "random.ndjson")
    _, out, _ = vlib.run_harness(PKG, ["random", "--n", T["nrandom"], "--out", trace, "--threads", "4"], timeout=T["timeout"])
    st3 = _summary(out)

    # 1a + 2. bounded models: model checking and replay;  1b. liveness and the negative configurations;
    # 3b. trace validation - all side by side
    gfuts = [pool.submit(_gen_and_replay, name, wd, T, rep, T["coverage"] and name == "mix_q") for name in T["gen"]]
    lives = [(c, pool.submit(vlib.tlc, "MC_ConcSelect", c, workers=2, timeout=T["timeout"])) for c in T["live"]]
    vfut = pool.submit(_validate, rep, trace, T, totals)
    negs = [pool.submit(_negative, v) for v in sorted(NEGATIVE)]
    gens = [f.result() for f in gfuts]
    for g in gens:
        totals["states"] += g["states"]
        totals["transitions"] += g["transitions"]
    nruns, nrec, verdicts = vfut.result()
    samples = [g["sample"] for g in gens[:2] if g["sample"]]
    with open(trace) as f:
        head = [json.loads(next(f)) for _ in range(12)]
    samples.append({"random_run_prefix": [[e["e"], e["t"], e["a"], e["b"], e["r"], e["x"]] for e in head]})
    os.remove(trace)

    # 1b. results
    live_states = 0
    for c, f in lives:
        lr = f.result()
        vlib.tlc_must_pass(lr, f"liveness {c}")
        totals["states"] += lr.distinct
        totals["transitions"] += lr.generated
        live_states += lr.distinct
        vlib.log(f"[mc] {c}: {lr.distinct} states, the liveness properties hold under fairness ({lr.wall:.1f}s)")
    refuted = {}
    for f in negs:
        variant, prop, rn = f.result()
        if rn.ok or prop != NEGATIVE[variant]:
            vlib.log((rn.error or rn.violation or "")[:1500])
            raise vlib.ToolError(f"wrong variant {variant} is not refuted by {NEGATIVE[variant]} (got {prop})")
        refuted[variant] = prop
        totals["states"] += rn.distinct
        totals["transitions"] += rn.generated
    pool.shutdown()
    vlib.log(f"[mc] {len(refuted)} wrong variants refuted: " + ", ".join(f"{v} by {p}" for v, p in sorted(refuted.items())))

    acts = {}
    for g in gens:
        for k, v in g["coverage"].items():
            acts[k] = acts.get(k, 0) + v
    if T["coverage"]:
        need = {"Poll", "IORetry", "Park", "D2", "Cont", "Finish", "CancelTask", "SelBegin", "SelCall", "SelWake", "SelEnd", "Ext"}
        missing = [a for a in need if acts.get(a, 0) == 0]
        if missing:
            raise vlib.ToolError(f"actions of the model not exercised: {missing} ({acts})")

    kinds = {}
    for g in gens:
        for k, v in g["summary"]["kinds"].items():
            kinds[k] = kinds.get(k, 0) + v
    # every operation kind, every system-call outcome and every kind of select return was replayed
    for k in ["op:R", "op:W", "op:WA", "op:S", "op:G", "op:D", "op:C", "op:Y", "rd:EAGAIN", "rd:ok", "rd:EBADF", "wr:EAGAIN", "wr:ok",
              "wr:EPIPE", "sr:ok", "sr:EINTR", "sr:EBADF", "sw", "cancel", "xw", "xr", "xc", "xs", "xt", "xn", "sc:poll", "sc:block",
              "sc:timeout", "sc:block+mask", "sc:poll+mask", "sc:timeout+mask"]:
        if kinds.get(k, 0) == 0:
            raise vlib.ToolError(f"no replayed history exercises {k}")
    histories = sum(g["histories"] for g in gens)
    events = sum(g["summary"]["events"] for g in gens)
    nontrivial = sum(g["summary"]["nontrivial"] for g in gens)
    rc = rep.finish()
    vlib.write_evidence(PID, tier, {
        "states": totals["states"],
        "transitions": totals["transitions"],
        "traces_validated_against_impl": histories + nruns,
        "samples": samples,
        "evaluations": events + nrec,
        "distinct_nontrivial": nontrivial + verdicts["accepted"],
        "rule": "replayed histories in which at least one select/peek woke at least one task, plus random runs accepted "
                "by Trace_ConcSelect",
        "exhaustive": True,
        "exhaustive_bound": "every behaviour of the bounded models " + ", ".join(T["gen"])
                            + " (spec/Gen_ConcSelect_*.cfg: 2-3 tasks, 2-3 operations each, 1-2 pipes, 1-2 signals, 2-3 "
                              "external events, 2-3 select/peek calls); histories of every distinct quiescent state (_q) or of "
                              "the states where a budget is exhausted (_t); random beyond",
        "models": [{k: g[k] for k in ("name", "states", "transitions", "histories")} for g in gens],
        "liveness_states": live_states,
        "wrong_variants_refuted": refuted,
        "model_actions_exercised": acts,
        "histories_replayed": histories,
        "events_compared": events,
        "real_events_by_kind": kinds,
        "mismatches_spec_to_impl": sum(g["summary"]["mismatches"] for g in gens),
        "random_runs": nruns,
        "random_records": nrec,
        "random_verdicts": verdicts,
        "random_events_by_kind": st3["kinds"],
    }, time.time() - t0, violations=len(rep.violations), assumptions=[
        "the system under the wrapper is yash-env's VirtualSystem behind a delegating Spy (harness/g17/src/spy.rs) that "
        "reports read, write, sigprocmask, sigaction and select calls at their completion; external events are performed "
        "on the raw VirtualSystem of the same process (a write by 'another process' is a write through the raw handle)",
        "pipes are counted in units of PIPE_BUF bytes (capacity PIPE_SIZE = 2 units); the data itself belongs to C14",
        "the clock is the virtual clock in whole seconds; signals 1..3 are SIGUSR1, SIGUSR2, SIGINT; only the Catch and "
        "Ignore dispositions are set (a default-action signal would terminate the process: run_virtual, C13)",
        "the order in which one select return wakes its tasks is not specified (sets are compared); timers of one return "
        "must be woken in deadline order, equal deadlines in any order",
        "dropping a select future that is still blocked, BlockSignals / RunBlocking while select runs and fork are outside "
        "the documented contract or belong to C11 / C13 and are not exercised",
        "TLC and the JSON community module are trusted",
    ])
    return rc


def replay(path):
    with open(path) as f:
        obj = json.load(f)
    rp = obj["replay"]
    wd = vlib.workdir(PID + "-replay")
    src = os.path.join(wd, "case.json")
    t = os.path.join(wd, "one.ndjson")
    if rp.get("dir") == "spec->impl":
        with open(src, "w") as f:
            json.dump(rp, f)
        _, out, _ = vlib.run_harness(PKG, ["one", "--in", src, "--out", t])
        s = _summary(out)
        for line in open(t):
            print(line.rstrip())
        if s["mismatch"]:
            print(f"deviation at event {s['index'] + 1} ({s['symptom']}): expected {s['expected']}, got {s['got']}")
            print(f"VIOLATION property={PID} replay={path}")
            return 1
        print("accepted")
        return 0
    if "idx" not in rp:
        print("this record (an invariant violation of a whole shard) is replayed by re-running the check with the same seed")
        return 2
    with open(src, "w") as f:
        json.dump({"seed": rp["seed"], "idx": rp["idx"]}, f)
    vlib.run_harness(PKG, ["one", "--in", src, "--out", t])
    r = vlib.tlc("Trace_ConcSelect", "Trace_ConcSelect.cfg", workers=1, timeout=300, env={"TRACE": os.path.abspath(t)},
                 depth_first=True)
    if r.violation:
        print(r.violation[:2000])
        print(f"VIOLATION property={PID} replay={path}")
        return 1
    vlib.tlc_must_pass(r, "replay validation")
    bad = [j for j in r.json if j["v"] in ("reject", "F1")]
    if bad:
        recs = open(t).read().splitlines()
        print(f"{bad[0]['v']} at record {bad[0]['i']}: {recs[bad[0]['i'] - 1]}")
        print(f"VIOLATION property={PID} replay={path}")
        return 1
    print("accepted")
    return 0
