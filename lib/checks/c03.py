"""C03 — arithmetic expansion is exact 64-bit C arithmetic or an error, never
wrong (DESIGN.md section 6, C03; pattern P4 both ways).

Specification: spec/Int64.tla (exact integers on limbs), spec/Arith.tla
(expression trees, Eval = set of allowed outcomes, Toks/Text = unparsing with
the minimal parentheses of the C grammar, Parse = that grammar).

 0  oracle sanity by TLC: Check_Int64 (limb arithmetic == native arithmetic on
    small operands, algebraic identities at the carry boundaries),
    Check_Arith (worked examples of the manual / POSIX test-suite / C).
 1  spec -> impl: TLC enumerates expression trees over boundary operands
    (Gen_Arith, ten families) and prints {text, env, allowed outcomes}; the
    harness evaluates each text with the real yash_arith::eval and, for a
    sample, through the whole shell (`$(( ))` on the simulated OS, including
    `$((x))` vs `$(($x))`); the observed outcome must be an allowed one.
 2  impl -> spec: the harness generates random deeper trees, token soup,
    Unicode text and mutated expressions, evaluates them with the real code
    (panics are data) and TLC validates every record (Trace_Arith):
    out in Allowed(in); for soup only "returned, did not crash".
A mismatch that is exactly what the named deviation `decimal-only-variables`
of Arith.tla predicts is keyed dev=decimal-only-variables (finding F3).
"""
import json
import os
import re
import time
from concurrent.futures import ThreadPoolExecutor

import vlib

PID = "C03"
PKG = "yv-c03"

TIERS = {
    "quick": dict(gen_cfg="Gen_Arith_quick.cfg", int_cfg="Check_Int64.cfg", workers=8,
                  random_n=16000, random_depth=4, soup_n=6000, shell_every=12, shellsoup_n=1500, shards=8),
    "thorough": dict(gen_cfg="Gen_Arith_thorough.cfg", int_cfg="Check_Int64_big.cfg", workers=8,
                     random_n=120000, random_depth=6, soup_n=60000, shell_every=2, shellsoup_n=8000, shards=8),
}


# ---------------------------------------------------------------------------
# judging an observation against the allowed set printed by TLC
# ---------------------------------------------------------------------------
def admits(allowed, o, shell=False):
    """Arith!Admits on the JSON forms (the generator prints the allowed set)."""
    if o["t"] == "p":
        return False
    if any(a["t"] == "u" for a in allowed):
        return True
    if o["t"] == "v":
        return any(a["t"] == "v" and a["v"] == o["v"] and a["env"] == o["env"] for a in allowed)
    if shell or o["t"] == "e":   # the shell run only tells "value" from "error"
        return any(a["t"] in ("e", "s") for a in allowed)
    return any(a["t"] == "s" or (a["t"] == "e" and a["c"] == "NotAssignable") for a in allowed)


_OPS = ["<<=", ">>=", "||", "&&", "|=", "^=", "&=", "==", "!=", "<=", ">=", "<<", ">>", "+=", "-=", "*=", "/=", "%=",
        "++", "--", "?", ":", "|", "^", "&", "=", "!", "<", ">", "+", "-", "*", "/", "%", "~", "(", ")"]
_TOK = re.compile("|".join(re.escape(o) for o in _OPS))


def count_ops(text, acc):
    for m in _TOK.finditer(text):
        acc[m.group(0)] = acc.get(m.group(0), 0) + 1


def compact_env(env):
    return {k: (v["s"] if v["set"] else None) for k, v in sorted(env.items())}


def show_out(o):
    if o["t"] == "v":
        return "v:" + o["v"] + " " + json.dumps(compact_env(o["env"]), sort_keys=True)
    return o["t"] + ":" + o.get("c", "")


def judge_gen(rep, gen_path, obs_path, direction, stats, samples):
    """Compare harness observations (line i <-> generated case i)."""
    shell = direction == "shell"
    obs = {}
    for d in vlib.read_ndjson(obs_path):
        obs[d["i"]] = d
    n = 0
    with open(gen_path) as f:
        for i, line in enumerate(f):
            d = obs.get(i)
            if d is None:
                continue
            g = json.loads(line)
            o = d["out"]
            n += 1
            fam = g["id"][0]
            stats["by_family"][fam] = stats["by_family"].get(fam, 0) + 1
            if not shell:
                count_ops(g["text"], stats["ops"])
            if len(samples) < 4 and i in (17, 20011, 40507, 90001) and not shell:
                samples.append({"text": g["text"], "env": compact_env(g["env"]),
                                "allowed": [show_out(a) for a in g["allowed"]], "observed": show_out(o)})
            if admits(g["allowed"], o, shell):
                if o["t"] == "e" and not shell and any(a["t"] == "e" for a in g["allowed"]):
                    cls = sorted({a["c"] for a in g["allowed"] if a["t"] == "e"})
                    k = "/".join(cls) + " -> " + o["c"]
                    stats["error_classes"][k] = stats["error_classes"].get(k, 0) + 1
                if any(a["t"] == "u" for a in g["allowed"]):
                    stats["unspecified"] += 1
                continue
            dev = "decimal-only-variables" if g["dev"] and admits(g["dev"], o, shell) else ""
            key = {"dir": direction, "text": g.get("dtext") or g["text"], "env": compact_env(g["env"]),
                   "expected": sorted(show_out(a) for a in g["allowed"]), "observed": show_out(o), "dev": dev}
            replay = {"dir": direction, "text": g["text"], "env": g["env"], "allowed": g["allowed"], "dev": g["dev"],
                      "script": d.get("script", ""), "observed": o}
            rep.violation(key, f"{direction}: outcome of the real code is not allowed by Arith.tla", replay)
    return n


# ---------------------------------------------------------------------------
# trace validation (all rejects are reported, validation continues)
# ---------------------------------------------------------------------------
_REJ = re.compile(r'<<"REJECT", (\d+), "([^"]*)">>')


def validate(trace_path, shards, timeout=1500):
    """Returns (rejects [(global line no (1-based), reason)], total TLC states, wall, lines)."""
    with open(trace_path) as f:
        lines = f.readlines()
    n = len(lines)
    if n == 0:
        return [], 0, 0.0, lines
    per = max(1, (n + shards - 1) // shards)
    pieces = []
    for k in range(0, n, per):
        p = f"{trace_path}.shard{k // per}"
        with open(p, "w") as f:
            f.writelines(lines[k:k + per])
        pieces.append((k, p))
    t0 = time.time()

    def one(piece):
        k, p = piece
        r = vlib.tlc("Trace_Arith", "Trace_Arith.cfg", workers=1, timeout=timeout, env={"TRACE": os.path.abspath(p)},
                     depth_first=True, want_lines=True, xmx="2g")
        if not r.ok:
            raise vlib.ToolError(f"trace validation failed on {p}: {(r.error or r.violation or '')[:1500]}")
        rej = []
        for ln in r.lines:
            m = _REJ.search(ln)
            if m:
                rej.append((k + int(m.group(1)), m.group(2)))
        return rej, r.distinct

    with ThreadPoolExecutor(max_workers=shards) as ex:
        results = list(ex.map(one, pieces))
    for _, p in pieces:
        try:
            os.remove(p)
        except OSError:
            pass
    rejects = sorted(r for rs, _ in results for r in rs)
    return rejects, sum(s for _, s in results), time.time() - t0, lines


def num_of(v):
    """Int64.tla number (sign + limbs in base 2^15) as a Python int."""
    m = sum(d * 32768 ** i for i, d in enumerate(v["m"]))
    return -m if v["n"] else m


def chars(cell):
    return "".join(cell["s"]) if cell["set"] else None


def judge_trace(rep, trace_path, shards):
    """Validates one ndjson file of harness records (random trees and soup,
    each carrying its direction `dir`); returns (#records by dir, TLC states, wall, #rejected)."""
    rejects, states, wall, lines = validate(trace_path, shards)
    by_dir = {}
    for ln in lines:
        m = re.search(r'"dir":\s*"(\w+)"', ln)
        d = m.group(1) if m else "?"
        by_dir[d] = by_dir.get(d, 0) + 1
    for (ln, why) in rejects:
        rec = json.loads(lines[ln - 1])
        direction = rec["dir"]
        if why == "text":
            raise vlib.ToolError(f"harness text differs from Arith!Text for record {ln}: {lines[ln - 1][:600]}")
        if rec["k"] == "soup":
            text = "".join(chr(c) for c in rec["cp"])
            key = {"dir": direction, "text": text, "observed": rec["out"]["t"] + ":" + rec["out"]["c"], "dev": ""}
            rep.violation(key, f"{direction}: the real code crashed on this text", {"dir": direction, "rec": rec})
        else:
            dev = why.split(":", 1)[1] if ":" in why else ""
            o = rec["out"]
            key = {"dir": direction, "text": rec["text"], "env": {k: chars(v) for k, v in sorted(rec["env"].items())},
                   "observed": (o["t"] + ":" + (o["c"] or "")), "dev": dev}
            rep.violation(key, f"{direction}: outcome of the real code is not in Allowed(tree, env)",
                          {"dir": direction, "rec": rec})
    return by_dir, states, wall, len(rejects)


# ---------------------------------------------------------------------------
def run(tier):
    t0 = time.time()
    T = TIERS[tier]
    wd = vlib.workdir(PID)
    rep = vlib.Reporter(PID)
    vlib.build_harness(PKG)

    # 0. oracle sanity
    r = vlib.tlc("Check_Int64", T["int_cfg"], workers=T["workers"], timeout=1500, xmx="2g")
    vlib.tlc_must_pass(r, "oracle sanity Check_Int64")
    sanity_states = r.distinct
    vlib.log(f"[tlc] Check_Int64 ({T['int_cfg']}): {r.distinct} operand pairs agree with native arithmetic, "
             f"boundary identities hold, {r.wall:.1f}s")
    r = vlib.tlc("Check_Arith", "Check_Arith.cfg", workers=1, timeout=600, xmx="2g")
    vlib.tlc_must_pass(r, "oracle calibration Check_Arith")
    vlib.log(f"[tlc] Check_Arith: calibration examples hold, {r.wall:.1f}s")

    # 1. spec -> impl
    gen = os.path.join(wd, "gen.ndjson")
    r = vlib.tlc("Gen_Arith", T["gen_cfg"], workers=T["workers"], timeout=3000, json_out=gen, xmx="3g")
    vlib.tlc_must_pass(r, f"generator {T['gen_cfg']}")
    states, transitions = r.distinct, r.generated
    n_gen = vlib.count_lines(gen)
    vlib.log(f"[tlc] {T['gen_cfg']}: {r.distinct} states, {n_gen} cases with allowed outcomes, {r.wall:.1f}s")
    stats = {"by_family": {}, "error_classes": {}, "unspecified": 0, "ops": {}}
    samples = []
    obs = os.path.join(wd, "obs.ndjson")
    vlib.run_harness(PKG, ["replay", "--in", gen, "--out", obs])
    n_replayed = judge_gen(rep, gen, obs, "gen", stats, samples)
    vlib.log(f"[p4] {n_replayed} generated cases evaluated by yash_arith::eval and compared "
             f"({stats['unspecified']} with an unspecified outcome)")
    if n_replayed != n_gen:
        raise vlib.ToolError(f"replayed {n_replayed} of {n_gen} cases")
    shobs = os.path.join(wd, "shell.ndjson")
    sh_stats = {"by_family": {}, "error_classes": {}, "unspecified": 0, "ops": {}}
    vlib.run_harness(PKG, ["shell", "--in", gen, "--every", T["shell_every"], "--out", shobs], timeout=3000)
    n_shell = judge_gen(rep, gen, shobs, "shell", sh_stats, [])
    vlib.log(f"[p4] {n_shell} generated cases run through the whole shell ($((..)), incl. $((x)) vs $(($x)))")

    # 2. impl -> spec
    tr = os.path.join(wd, "random.ndjson")
    vlib.run_harness(PKG, ["random", "--n", T["random_n"], "--depth", T["random_depth"], "--out", tr])
    sp = os.path.join(wd, "soup.ndjson")
    vlib.run_harness(PKG, ["soup", "--n", T["soup_n"], "--out", sp])
    ssp = os.path.join(wd, "shellsoup.ndjson")
    vlib.run_harness(PKG, ["shellsoup", "--n", T["shellsoup_n"], "--out", ssp], timeout=3000)
    with open(tr) as f:
        for i, line in enumerate(f):
            if i in (5, 1234):
                d = json.loads(line)
                samples.append({"text": d["text"], "env": {k: chars(v) for k, v in d["env"].items()},
                                "observed": d["out"]["t"] + ":" + (str(num_of(d["out"]["v"])) if d["out"]["t"] == "v"
                                                                   else d["out"]["c"])})
    soup_classes = {}
    for d in vlib.read_ndjson(sp):
        k = d["out"]["t"] + ":" + d["out"]["c"]
        soup_classes[k] = soup_classes.get(k, 0) + 1
    alltr = os.path.join(wd, "trace.ndjson")
    with open(alltr, "w") as out:
        # interleave so that every shard gets a similar mix of cheap and expensive records
        files = [open(p) for p in (tr, sp, ssp)]
        live = list(files)
        while live:
            for f in list(live):
                ln = f.readline()
                if ln:
                    out.write(ln)
                else:
                    live.remove(f)
        for f in files:
            f.close()
    by_dir, st1, w1, rej = judge_trace(rep, alltr, T["shards"])
    n_rand, n_soup, n_ssoup = by_dir.get("random", 0), by_dir.get("soup", 0), by_dir.get("shellsoup", 0)
    vlib.log(f"[p4] Trace_Arith validated {n_rand} random trees (depth <= {T['random_depth']}), {n_soup} soup texts and "
             f"{n_ssoup} soup texts through the shell in {w1:.1f}s; {rej} rejected")
    for p in (gen, obs, shobs, tr, sp, ssp, alltr):
        try:
            os.remove(p)
        except OSError:
            pass

    rc = rep.finish()
    known = sum(n for _, n in rep.known_hits.values())
    vlib.write_evidence(PID, tier, {
        "states": states + st1,
        "transitions": transitions + st1,
        "traces_validated_against_impl": n_replayed + n_shell + n_rand + n_soup + n_ssoup,
        "samples": samples,
        "evaluations": n_replayed + n_shell + n_rand + n_soup + n_ssoup,
        "distinct_nontrivial": n_replayed - stats["unspecified"] + n_rand,
        "rule": "generated cases whose allowed set is not 'unspecified' (each a distinct expression/environment) "
                "plus random trees; soup and shell re-runs counted only in evaluations",
        "exhaustive": True,
        "exhaustive_note": "exhaustive per family over the stated operand/operator tables (Gen_Arith.tla); "
                           "random beyond",
        "generator_config": T["gen_cfg"],
        "generated_cases": n_gen,
        "cases_by_family": {str(k): v for k, v in sorted(stats["by_family"].items())},
        "unspecified_outcome_cases": stats["unspecified"],
        "operators_in_generated_texts": dict(sorted(stats["ops"].items())),
        "shell_cases": n_shell,
        "random_trees": n_rand, "random_depth": T["random_depth"],
        "soup_texts": n_soup, "shell_soup_texts": n_ssoup,
        "soup_outcome_classes": dict(sorted(soup_classes.items(), key=lambda kv: -kv[1])[:12]),
        "error_class_spec_vs_impl": stats["error_classes"],
        "oracle_sanity_pairs": sanity_states,
        "tlc_action_coverage": {"Next": transitions},
        "coverage_note": "the generator model has the single action Next; TLC's -coverage mode is infeasible on the "
                         "recursive oracle (441 states did not finish in 280 s), so exercise of the specification is "
                         "measured by cases_by_family, operators_in_generated_texts and error_class_spec_vs_impl",
        "known_finding_cases": known,
    }, time.time() - t0, violations=len(rep.violations), assumptions=[
        "TLC and the Json/IOUtils community modules are trusted",
        "variables are plain strings in a map (nounset off); assignment never fails (no read-only variables)",
        "side-effect order inside one expression (C 6.5p2 unsequenced), ++/-- or = applied to a ?: result, and "
        "variable values that are neither integer constants nor clearly non-numeric are 'unspecified': any outcome "
        "but a crash is accepted",
        ">> of a negative number is required to be the arithmetic shift (floor division), as in arith-p.sh",
        "error classes are informative only: any evaluation error is accepted where an error is required",
        "inputs are bounded in length (<= ~200 characters); stack exhaustion on pathological nesting is not examined",
    ])
    return rc


def replay(path):
    with open(path) as f:
        obj = json.load(f)
    rp = obj["replay"]
    wd = vlib.workdir(PID + "-replay")
    src = os.path.join(wd, "case.json")
    with open(src, "w") as f:
        json.dump(rp, f)
    out = os.path.join(wd, "out.ndjson")
    vlib.run_harness(PKG, ["redo", "--in", src, "--out", out])
    d = next(vlib.read_ndjson(out))
    if rp["dir"] in ("gen", "shell"):
        ok = admits(rp["allowed"], d["out"], rp["dir"] == "shell")
        print(f"text={rp['text']!r} env={compact_env(rp['env'])} observed={show_out(d['out'])} "
              f"allowed={[show_out(a) for a in rp['allowed']]}")
    else:
        rejects, _, _, _ = validate(out, 1)
        ok = not rejects
        print(f"record re-evaluated: {json.dumps(d)[:800]}; rejects={rejects}")
    print("accepted" if ok else "rejected")
    if not ok:
        print(f"VIOLATION property={PID} replay={path}")
    return 0 if ok else 1
