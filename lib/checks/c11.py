"""C11 — signal dispositions always match the traps; a caught signal runs its
trap once (DESIGN.md section 6, C11).

P1  TLC checks the invariants of the property (disposition = max(internal,
    user action); vacant => inherited; initially ignored signals stick; KILL /
    STOP never trapped; caught <=> blocked; a delivered instance is owed until
    taken, and is taken once) on every reachable state of the implementation-
    shaped model spec/Trap.tla, per group of signal classes, from every
    combination of inherited dispositions.
P2  every distinct state of that graph is rebuilt on a real
    yash_env::trap::TrapSet over Rc<Concurrent<VirtualSystem>> (its history is
    replayed) and every operation of the alphabet is applied there; what the
    public API and the simulated process show afterwards is recorded.  For
    every operation that makes two or more system calls, every signal is also
    raised just before each later system call of the operation (a harness-side
    wrapper of the SignalSystem): the outcome must be that of the signal
    arriving before or after the whole operation.
P3  all records (histories step by step, then one record per (state,
    operation)) plus long random histories over all conditions are validated
    by TLC against the abstract contract spec/TrapAbs.tla (Trace_Trap).
P4  whole shell: TLC enumerates scripts from spec/TrapRun.tla (trap / kill /
    subshell / pipeline / command substitution / loop / function at every
    syntactic position, nested; signals from a background process under
    enumerated schedules) together with the set of probe traces the
    specification allows; the real shell runs them on the simulated OS and
    every observed trace must be a member of that set.
"""
import json
import os
import re
import time
from concurrent.futures import ThreadPoolExecutor

import vlib

PID = "C11"
PKG = "yv-c11"

# (cfg file in spec/, conditions projected and used as alphabet)
QUICK = [
    ("MC_Trap_usr_chld.cfg", "USR1,CHLD"),
    ("MC_Trap_int_quit.cfg", "INT,QUIT"),
    ("MC_Trap_term_tstp.cfg", "TERM,TSTP"),
    ("MC_Trap_kill_stop_exit.cfg", "KILL,STOP,EXIT"),
    ("MC_Trap_usr_exit.cfg", "USR1,EXIT"),
    # every signal starts with a handler installed before the shell (as SEGV/BUS on a real kernel)
    ("MC_Trap_caught_on_entry.cfg", "INT,USR1"),
]
QUICK_NAMES = {c for c, _ in QUICK}
# thorough: generated configurations (sigs, with EXIT, history bound)
THOROUGH_GEN = [
    (("CHLD", "INT"), False, 100),
    (("CHLD", "TSTP"), False, 100),
    (("USR1", "INT"), False, 100),
    (("USR1", "TSTP"), False, 100),
    (("INT", "TERM"), False, 100),
    (("INT", "TSTP"), False, 100),
    (("QUIT", "TSTP"), False, 100),
    (("QUIT", "TERM"), False, 100),
    (("CHLD", "TERM"), False, 100),
    (("INT", "KILL"), True, 100),
    (("INT", "QUIT", "TERM"), False, 4),
    (("USR1", "CHLD", "INT"), False, 4),
    # all signal classes at once, from the two uniform start-ups (all default / all ignored)
    (("USR1", "CHLD", "INT", "QUIT", "TERM", "TSTP", "KILL", "STOP"), True, 2),
]

CFG_TEMPLATE = """SPECIFICATION Spec
CONSTANTS
  Sigs = {%s}
  WithExit = %s
  MaxH = %d
  UniformInit = %s
  InitVals = {"D", "I"}
VIEW view
INVARIANT Consistent
INVARIANT EmitState
PROPERTY ExactlyOnce
PROPERTY InitiallyIgnoredRefused
"""


def _is_reset(line):
    return line.startswith('{"ev":"reset"')


def _is_boundary(line):
    # a shard may start at a new history or at a self-contained mid-operation record
    return line.startswith('{"ev":"reset"') or line.startswith('{"a":{')


def _validate_file(path, tag):
    """One JVM over one ndjson piece.  Returns the list of rejections
    [{"l": 1-based line, "why": [names of the failed checks]}]."""
    wd = os.path.join(os.path.dirname(path), "meta-" + tag)
    os.makedirs(wd, exist_ok=True)
    r = vlib.tlc("Trace_Trap", "Trace_Trap.cfg", workers=1, timeout=1500, env={"TRACE": os.path.abspath(path)},
                 depth_first=True, want_lines=True, xmx="3g", workdir=wd)
    fails = []
    for ln in r.lines:
        if ln.startswith('"REJECT-WHY '):
            payload = ln[len('"REJECT-WHY '):-1].replace('\\"', '"').replace('\\\\', '\\')
            fails.append(json.loads(payload))
    if not r.ok:
        # the only acceptable way to stop early is none: every record must be processed
        raise vlib.ToolError(f"Trace_Trap could not process {path}: {(r.error or r.violation or '')[:1500]}")
    return fails


def validate(rep, trace, ranges, shards=8):
    """Validate an ndjson trace against TrapAbs; report every non-conforming
    record.  `ranges` = [(first line, end line, name, conds)] describes which
    configuration each part of the file came from."""
    t0 = time.time()
    with open(trace) as f:
        lines = f.readlines()
    n = len(lines)
    per = {name: {"records": b - a, "rejected": 0, "skipped": 0} for a, b, name, _ in ranges}
    if n == 0:
        return {"events": 0, "failures": 0, "skipped": 0, "wall": 0.0, "per_range": per}
    target = max(1, (n + shards - 1) // shards)
    pieces, start = [], 0
    while start < n:
        j = min(n, start + target)
        while j < n and not _is_boundary(lines[j]):
            j += 1
        pieces.append((start, j))
        start = j
    paths = []
    for k, (a, b) in enumerate(pieces):
        p = f"{trace}.shard{k}"
        with open(p, "w") as f:
            f.writelines(lines[a:b])
        paths.append(p)
    with ThreadPoolExecutor(max_workers=shards) as ex:
        results = list(ex.map(lambda kp: _validate_file(kp[1], f"{os.path.basename(trace)}-{kp[0]}"),
                              enumerate(paths)))
    for p in paths:
        try:
            os.remove(p)
        except OSError:
            pass
    nfail = skipped = 0
    rejfile = os.path.join(os.path.dirname(trace), "rejected.ndjson")
    for (a, b), fails in zip(pieces, results):
        for fl in fails:
            idx = a + fl["l"] - 1          # global 0-based index of the failing record
            rec = json.loads(lines[idx])
            name, conds = next((nm, cs) for x, y, nm, cs in ranges if x <= idx < y)
            why = sorted(fl["why"])
            if rec["ev"] == "mid":
                # self-contained: a signal arriving between two system calls of one operation
                op = rec["op"]
                key = {"ev": "mid", "op": op["op"], "c": op.get("c", ""), "a": op.get("a", ""), "ov": op.get("ov", False),
                       "ii": op.get("ii", False), "ks": op.get("ks", False), "sig": rec["sig"], "k": rec["k"],
                       "n": rec["n"], "same_signal": rec["sig"] == op.get("c", ""), "why": " | ".join(why),
                       "outcomes": f"before:{rec['a']['proc']} after:{rec['b']['proc']} during:{rec['m']['proc']}",
                       "init": rec["init"], "h": [_short(o) for o in rec["h"]]}
                replay_obj = {"init": rec["init"], "conds": conds.split(","), "h": rec["h"], "op": op,
                              "mid": {"sig": rec["sig"], "k": rec["k"]}, "observed": rec, "why": why}
            else:
                # the history: back to the last reset
                k = idx
                while k >= 0 and not _is_reset(lines[k]):
                    k -= 1
                reset = json.loads(lines[k])
                hist = [json.loads(x)["op"] for x in lines[k + 1:idx] if '"ev":"step"' in x[:14]]
                if rec["ev"] == "step":
                    m = idx + 1
                    while m < n and not _is_boundary(lines[m]):
                        m += 1
                    skipped += m - idx - 1
                    per[name]["skipped"] += m - idx - 1
                op = rec.get("op", {"op": "reset"})
                key = {"ev": rec["ev"], "op": op.get("op"), "c": op.get("c", ""), "a": op.get("a", ""), "ov": op.get("ov", False),
                       "ii": op.get("ii", False), "ks": op.get("ks", False), "why": " | ".join(why),
                       "symptom": _symptom(reset["init"], rec),
                       "init": reset["init"], "h": [_short(o) for o in hist]}
                replay_obj = {"init": reset["init"], "conds": conds.split(","), "h": hist,
                              "op": rec.get("op"), "observed": rec, "why": why}
            rep.violation(key, f"{name}: step not allowed by TrapAbs: {why}", replay_obj)
            nfail += 1
            per[name]["rejected"] += 1
            with open(rejfile, "a") as rf:
                rf.write(json.dumps({"what": name, "key": key, "observed": rec}) + "\n")
    return {"events": n, "failures": nfail, "skipped": skipped, "wall": time.time() - t0, "per_range": per}


def _symptom(init, rec):
    """Short description (for matching known findings only) of entries that
    claim to be inherited but do not show the inherited action."""
    out = []
    for c, e in sorted(rec.get("post", {}).get("c", {}).items()):
        if e.get("orig") == "I" and c != "EXIT" and e.get("act") != ("I" if init.get(c) == "I" else "D"):
            out.append(f"{c}:inherited-{init.get(c)}-shown-as-{e.get('act')}")
    return ",".join(out)


def _short(o):
    s = o["op"]
    if o.get("c"):
        s += ":" + o["c"]
    if o.get("a"):
        s += ":" + o["a"] + ("!" if o.get("ov") else "")
    if o["op"] == "enter_subshell":
        s += ":" + ("i" if o.get("ii") else "-") + ("k" if o.get("ks") else "-")
    return s


def _generate(wd, cfg, conds, name, workers, mid):
    """TLC model check + state enumeration, then replay on the real TrapSet."""
    gen = os.path.join(wd, name + ".states.ndjson")
    r = vlib.tlc("Trap", cfg, workers=workers, json_out=gen, coverage=(name in QUICK_NAMES), timeout=2400,
                 workdir=os.path.join(wd, "meta-" + name))
    vlib.tlc_must_pass(r, f"model check {name}")
    vlib.log(f"[tlc] {name}: {r.distinct} distinct states, {r.generated} generated, depth {r.depth}, {r.wall:.1f}s")
    trace = os.path.join(wd, name + ".trace.ndjson")
    _, _, err = vlib.run_harness(PKG, ["replay", "--conds", conds, "--in", gen, "--out", trace])
    st = json.loads(err.strip().splitlines()[-1])
    st["mid_trace"] = None
    if mid:
        # a signal arriving between two system calls of one operation
        mtrace = os.path.join(wd, name + ".mid.ndjson")
        _, _, err = vlib.run_harness(PKG, ["midop", "--conds", conds, "--in", gen, "--out", mtrace])
        ms = json.loads(err.strip().splitlines()[-1])
        st["mid"], st["mid_cases"] = ms["records"], ms["cases"]
        st["mid_trace"] = mtrace
    os.remove(gen)
    return r, st, trace


MAX_TIMEOUTS = 3     # whole shell: programs allowed to hit the run time limit before the phase is cut short
BATCH = 700_000      # records per validation batch (bounds the memory of the driver)
SIM_WAIT_ARTIFACT = "no job to wait for"


def _ev(e):
    return (e["t"], e["st"], e["d"])


def _shell_symptom(ob, allowed):
    """Classification of a non-member trace (used only to match known findings)."""
    om, oc = [_ev(e) for e in ob["m"]], [_ev(e) for e in ob["c"]]
    istrap = lambda e: e[0].startswith("T")
    for a in allowed:
        am, ac = [_ev(e) for e in a["m"]], [_ev(e) for e in a["c"]]
        # only recorded dispositions differ
        if len(am) == len(om) and len(ac) == len(oc):
            diffs = [(x, y) for x, y in zip(am + ac, om + oc) if x != y]
            if diffs and all(x[0] == y[0] and x[1] == y[1] for x, y in diffs):
                return "disposition-differs:" + ",".join(f"{x[0]}:{x[2]}->{y[2]}" for x, y in diffs)
    for a in allowed:
        am, ac = [_ev(e) for e in a["m"]], [_ev(e) for e in a["c"]]
        if ac != oc or [e for e in am if not istrap(e)] != [e for e in om if not istrap(e)]:
            continue
        def positions(tr):
            pos, k = [], 0
            for e in tr:
                if istrap(e):
                    pos.append(k)
                else:
                    k += 1
            return pos
        pa, po = positions(am), positions(om)
        # the action ran, no earlier than allowed, but not where allowed (later position, later $?,
        # or fewer runs because a later delivery coalesced with the one still unhandled)
        if 1 <= len(po) <= len(pa) and all(x >= y for x, y in zip(po, pa)):
            return "trap-action-ran-late"
    if not any(istrap(e) for e in om) and any(any(istrap(_ev(e)) for e in a["m"]) for a in allowed):
        return "trap-action-never-ran"
    return "other"


def phase2(rep, wd, tier):
    """Whole shell: scripts generated from spec/TrapRun.tla; observed traces must be allowed."""
    progs = os.path.join(wd, "programs.ndjson")
    cfg = "Gen_TrapRun.cfg" if tier == "quick" else "Gen_TrapRun_big.cfg"
    r = vlib.tlc("TrapRun", cfg, workers=4, json_out=progs, timeout=1200, workdir=os.path.join(wd, "meta-traprun"))
    vlib.tlc_must_pass(r, f"program generation {cfg}")
    obs = os.path.join(wd, "observed.ndjson")
    dfs, cap, nrand = (8, 200, 3) if tier == "quick" else (10, 2000, 10)
    # The harness ends with exit code 3 when one run of the shell does not return (code under test
    # looping without yielding): that is data.  It is restarted after the program concerned; after
    # MAX_TIMEOUTS such programs the rest is not run (counted).
    st = {"runs": 0}
    timeouts, start, part = [], 0, 0
    total_progs = vlib.count_lines(progs)
    with open(obs, "w") as allobs:
        while start < total_progs and len(timeouts) < MAX_TIMEOUTS:
            piece = f"{obs}.{part}"
            part += 1
            rc, _, err = vlib.run_harness(PKG, ["shell", "--in", progs, "--out", piece, "--dfs", str(dfs), "--cap", str(cap),
                                                "--random", str(nrand), "--start", str(start)], check=False)
            if os.path.exists(piece):
                with open(piece) as f:
                    for line in f:
                        if line.endswith("\n"):
                            allobs.write(line)
                os.remove(piece)
            if rc == 0:
                st["runs"] += json.loads(err.strip().splitlines()[-1])["runs"]
                start = total_progs
            elif rc == 3 and os.path.exists(piece + ".timeout"):
                with open(piece + ".timeout") as f:
                    t = json.loads(f.readline())
                os.remove(piece + ".timeout")
                timeouts.append(t)
                start = t["index"] + 1
            else:
                raise vlib.ToolError(f"harness shell exited {rc}: {err[-1500:]}")
    not_run = total_progs - start if len(timeouts) >= MAX_TIMEOUTS else 0
    # real-kernel stage: the programs marked "real" (inherited handler for SEGV = the Rust runtime's)
    # run on the real OS in the mirror runner; their traces join the same membership check
    realobs = obs + ".real"
    _, _, err = vlib.run_harness(PKG, ["shellreal", "--in", progs, "--out", realobs])
    n_real = json.loads(err.strip().splitlines()[-1])["programs"]
    with open(obs, "a") as allobs, open(realobs) as f:
        for line in f:
            allobs.write(line)
    os.remove(realobs)
    for t in timeouts:
        rep.violation({"phase": "shell", "fam": t["fam"], "symptom": "timeout", "script": t["script"], "schedule": t["schedule"]},
                      f"whole shell, {t['fam']}: the shell did not return within the time limit",
                      {"phase": "shell", "script": t["script"], "init": t["init"], "schedule": "fifo",
                       "observed": {"outcome": "timeout"}, "allowed": t["allowed"]})
    n_prog = n_obs = n_bad = n_skip = 0
    fams = {}
    samples = []
    for o in vlib.read_ndjson(obs):
        n_prog += 1
        fam = o["fam"].split(":")[0]
        fams[fam] = fams.get(fam, 0) + 1
        allowed = {json.dumps({"m": a["m"], "c": a["c"]}, sort_keys=True) for a in o["allowed"]}
        if len(samples) < 2 and o["fam"] in ("sync1:sub", "nested"):
            samples.append({"script": o["script"], "allowed": o["allowed"],
                            "observed": [{"m": x["m"], "c": x["c"]} for x in o["observed"]]})
        for ob in o["observed"]:
            if SIM_WAIT_ARTIFACT in ob.get("stderr", ""):
                # the simulator's wait(-1) reports ECHILD although a child is alive (a reaped child
                # follows it in pid order): the script ends before the signal is sent.  Not a
                # behaviour of the shell; skipped and counted.
                n_skip += ob["count"]
                continue
            n_obs += 1
            member = json.dumps({"m": ob["m"], "c": ob["c"]}, sort_keys=True) in allowed
            # "deadlock" (the main shell blocked for ever) is part of the trace as the pseudo event
            # DEADLOCK, so membership decides whether the specification allows it
            if ob["outcome"] in ("completed", "deadlock") and member:
                continue
            n_bad += 1
            key = {"phase": "shell", "fam": o["fam"], "symptom": _shell_symptom(ob, o["allowed"]) if ob["outcome"] in ("completed", "deadlock") else ob["outcome"],
                   "script": o["script"], "schedule": ob["schedule"]}
            rep.violation(key, f"whole shell, {o['fam']}: observed probe trace not allowed by TrapRun",
                          {"phase": "shell", "script": o["script"], "init": o["init"], "opts": o.get("opts") or "",
                           "schedule": ob["schedule"],
                           "observed": ob, "allowed": o["allowed"]})
    vlib.log(f"[p4] whole shell: {n_prog} generated scripts, {st['runs']} runs, {n_obs} distinct observed traces "
             f"checked for membership, {n_bad} not allowed, {n_skip} runs skipped (simulator wait artifact); TLC {r.wall:.1f}s")
    os.remove(progs)
    os.remove(obs)
    if timeouts:
        vlib.log(f"[p4] whole shell: {len(timeouts)} program(s) did not return within the time limit; "
                 f"{not_run} programs not run after that")
    return {"scripts": n_prog, "runs": st["runs"], "distinct_traces_checked": n_obs, "not_allowed": n_bad + len(timeouts),
            "timeouts": len(timeouts), "programs_not_run_after_timeouts": not_run,
            "programs_also_run_on_the_real_kernel": n_real,
            "runs_skipped_simulator_wait_artifact": n_skip, "families": fams, "generator_cfg": cfg,
            "schedule_exploration": {"dfs_depth": dfs, "cap": cap, "random_per_script": nrand},
            "samples": samples}


def run(tier):
    t0 = time.time()
    wd = vlib.workdir(PID)
    rep = vlib.Reporter(PID)
    vlib.build_harness(PKG)
    coverage_actions = {}
    samples = []
    configs = [(c, conds, c) for c, conds in QUICK]
    if tier == "thorough":
        for sigs, ex, maxh in THOROUGH_GEN:
            name = "MC_Trap_gen_" + "_".join(s.lower() for s in sigs) + ("_exit" if ex else "") + f"_h{maxh}.cfg"
            path = os.path.join(wd, name)
            with open(path, "w") as f:
                f.write(CFG_TEMPLATE % (", ".join(f'"{s}"' for s in sigs), "TRUE" if ex else "FALSE", maxh,
                                        "TRUE" if len(sigs) > 3 else "FALSE"))
            configs.append((path, ",".join(sigs) + (",EXIT" if ex else ""), name))
    for d in ("meta-" + n for _, _, n in configs):
        os.makedirs(os.path.join(wd, d), exist_ok=True)
    # P1 + P2: model check / enumerate / replay, three configurations at a time
    with ThreadPoolExecutor(max_workers=3) as ex:
        gens = list(ex.map(lambda c: _generate(wd, c[0], c[1], c[2], 4, c[2] in QUICK_NAMES), configs))
    # P3 input: random long histories over all eleven conditions
    rtrace = os.path.join(wd, "random.trace.ndjson")
    runs, steps = (400, 40) if tier == "quick" else (6000, 60)
    _, _, err = vlib.run_harness(PKG, ["random", "--runs", str(runs), "--steps", str(steps), "--out", rtrace])
    rst = json.loads(err.strip().splitlines()[-1])
    # validation: everything is concatenated (each history starts with its own reset record) and
    # validated in batches of at most BATCH records
    parts = [(name, conds, trace) for (cfg, conds, name), (r, st, trace) in zip(configs, gens)]
    parts.append(("random", ",".join(ALL_CONDS), rtrace))
    nmid = 0
    for (cfg, conds, name), (r, st, trace) in zip(configs, gens):
        if st.get("mid_trace"):
            parts.append(("mid:" + name, conds, st["mid_trace"]))
            nmid += st["mid"]
    with open(parts[0][2]) as f:
        for i, line in enumerate(f):
            if i in (0, 57, 4242):
                samples.append(json.loads(line))
            if i > 4242:
                break
    info = {"events": 0, "failures": 0, "skipped": 0, "wall": 0.0, "per_range": {}}
    batch, size = [], 0
    sized = [(p, vlib.count_lines(p[2])) for p in parts]
    for k, (part, n) in enumerate(sized):
        batch.append((part, n))
        size += n
        if size >= BATCH or k == len(sized) - 1:
            alltrace = os.path.join(wd, "batch.trace.ndjson")
            ranges, pos = [], 0
            with open(alltrace, "w") as out:
                for (name, conds, trace), cnt in batch:
                    with open(trace) as f:
                        for line in f:
                            out.write(line)
                    ranges.append((pos, pos + cnt, name, conds))
                    pos += cnt
                    os.remove(trace)
            one = validate(rep, alltrace, ranges, shards=8 if tier == "quick" else 12)
            os.remove(alltrace)
            for key in ("events", "failures", "skipped", "wall"):
                info[key] += one[key]
            info["per_range"].update(one["per_range"])
            batch, size = [], 0
    vlib.log(f"[p3] {info['events']} records validated against TrapAbs in {info['wall']:.1f}s "
             f"({info['failures']} rejected, {info['skipped']} skipped downstream of a rejected step)")
    states = transitions = tries = drift = 0
    per_config = []
    for (cfg, conds, name), (r, st, trace) in zip(configs, gens):
        states += r.distinct
        transitions += r.generated
        tries += st["tries"]
        drift += st["drift"]
        for a, c in r.coverage.items():
            coverage_actions[a] = coverage_actions.get(a, 0) + c
        pc = info["per_range"][name]
        vlib.log(f"[p2] {name}: {st['states']} live states x {st['alphabet']} operations = {st['tries']} tries; "
                 f"{pc['records']} records, {pc['rejected']} rejected, drift {st['drift']}")
        per_config.append({"cfg": name, "conds": conds, "tlc_states": r.distinct, "tlc_transitions": r.generated,
                           "depth": r.depth, "live_states_replayed": st["states"], "tries": st["tries"],
                           "records": pc["records"], "rejected": pc["rejected"],
                           "skipped_downstream_of_a_rejected_step": pc["skipped"], "drift": st["drift"]})
    p2 = phase2(rep, wd, tier)
    vlib.log(f"[p2] signal arriving between two system calls of one operation: {nmid} records, "
             f"{sum(v['rejected'] for k, v in info['per_range'].items() if k.startswith('mid:'))} rejected")
    rr = info["per_range"]["random"]
    vlib.log(f"[p3] random histories: {runs} histories of <= {steps} operations over {len(ALL_CONDS)} conditions, "
             f"{rr['records']} records, {rr['rejected']} rejected")
    rc = rep.finish()
    unexercised = [a for a, c in coverage_actions.items() if c == 0]
    vlib.write_evidence(PID, tier, {
        "states": states,
        "transitions": transitions,
        "traces_validated_against_impl": info["events"] + p2["distinct_traces_checked"],
        "samples": samples + p2.pop("samples"),
        "evaluations": info["events"] + p2["runs"],
        "distinct_nontrivial": tries,
        "rule": "one record per (distinct live model state, operation of the alphabet) executed on the real TrapSet "
                "over the simulated process; history steps and random histories are counted in `evaluations` only",
        "exhaustive": True,
        "configs": per_config,
        "tlc_action_coverage": coverage_actions,
        "actions_not_exercised": unexercised,
        "random_history_records": rr["records"],
        "random_histories": runs,
        "random_histories_ended_by_signal": rst.get("histories_ended_by_signal"),
        "records_rejected": info["failures"],
        "records_skipped_downstream_of_a_rejected_step": info["skipped"],
        "drift": drift,
        "mid_operation_records": nmid,
        "mid_operation_cases": sum(st.get("mid_cases", 0) for _, st, _ in gens),
        "mid_operation_rejected": sum(v["rejected"] for k, v in info["per_range"].items() if k.startswith("mid:")),
        "whole_shell": p2,
    }, time.time() - t0, violations=len(rep.violations), assumptions=[
        "the inherited signal mask is empty; inherited dispositions range over {default, ignored} per signal",
        "coalescing of deliveries of one signal that arrive before the same poll is allowed (POSIX standard signals)",
        "a signal delivered under the default action ends the history (the shell is killed or stopped)",
        "whole shell: the simulator is cooperative, so a signal from another process arrives only where the main "
        "shell blocks (foreground subshell, command substitution, wait); arrival at every other position is "
        "exercised by the shell signalling itself (kill -s SIG $$) at that position",
        "whole shell: on interrupting `wait` the trap action may see either the previous $? or wait's own (> 128)",
        "whole shell, interactive (-i): run through the shared runner's non-interactive read-eval loop, so SIGINT "
        "ends the script after the boundary at which pending trap actions run; inherited dispositions are not varied there",
        "a handler inherited from before the shell started ('C' on entry) is the default disposition for the shell; "
        "deliveries to such a foreign handler are not exercised (what it does is not the shell's)",
        "TLC 1.8.0 and the JSON community module are trusted",
    ])
    return rc


ALL_CONDS = ["EXIT", "INT", "QUIT", "KILL", "TERM", "CHLD", "STOP", "TSTP", "TTIN", "TTOU", "USR1"]


def replay(path):
    with open(path) as f:
        obj = json.load(f)
    rec = obj["replay"]
    if rec.get("phase") == "shell":
        return _replay_shell(path, rec)
    wd = vlib.workdir(PID + "-replay")
    src = os.path.join(wd, "in.ndjson")
    with open(src, "w") as f:
        f.write(json.dumps({"init": rec["init"], "conds": rec["conds"], "h": rec["h"], "op": rec["op"],
                            "mid": rec.get("mid")}) + "\n")
    t = os.path.join(wd, "one.ndjson")
    vlib.run_harness(PKG, ["redo", "--in", src, "--out", t])
    fails = _validate_file(t, "replay")
    if fails:
        print(f"rejected: {fails}")
        print(f"VIOLATION property={PID} replay={path}")
        return 1
    print("accepted")
    return 0


def _replay_shell(path, rec):
    args = ["shell1", "--script", rec["script"], "--init", json.dumps(rec["init"]), "--opts", rec.get("opts") or ""]
    sch = rec.get("schedule", "fifo")
    if sch == "real":
        wd = vlib.workdir(PID + "-replay")
        src, dst = os.path.join(wd, "p.ndjson"), os.path.join(wd, "o.ndjson")
        with open(src, "w") as f:
            f.write(json.dumps({"fam": "replay", "real": True, "script": rec["script"], "init": rec["init"],
                                "opts": "", "allowed": rec["allowed"]}) + "\n")
        vlib.run_harness(PKG, ["shellreal", "--in", src, "--out", dst])
        ob = next(vlib.read_ndjson(dst))["observed"][0]
        allowed = {json.dumps({"m": a["m"], "c": a["c"]}, sort_keys=True) for a in rec["allowed"]}
        ok = ob["outcome"] == "completed" and json.dumps({"m": ob["m"], "c": ob["c"]}, sort_keys=True) in allowed
        print("observed:", json.dumps({"m": ob["m"], "c": ob["c"], "outcome": ob["outcome"]}))
        print("accepted" if ok else f"VIOLATION property={PID} replay={path}")
        return 0 if ok else 1
    m = re.match(r"prefix\[(.*)\]", sch)
    if m:
        args += ["--prefix", m.group(1).replace(" ", "")]
    elif sch.startswith("random"):
        args += ["--seed", sch[len("random"):]]
    _, out, _ = vlib.run_harness(PKG, args)
    ob = json.loads(out.splitlines()[0])["observed"]
    allowed = {json.dumps({"m": a["m"], "c": a["c"]}, sort_keys=True) for a in rec["allowed"]}
    ok = ob["outcome"] in ("completed", "deadlock") and json.dumps({"m": ob["m"], "c": ob["c"]}, sort_keys=True) in allowed
    print("observed:", json.dumps({"m": ob["m"], "c": ob["c"], "outcome": ob["outcome"]}))
    if ok:
        print("accepted")
        return 0
    print(f"VIOLATION property={PID} replay={path}")
    return 1
