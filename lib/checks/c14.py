"""C14 -- data through pipes and command substitutions arrives complete and in
order (DESIGN.md section 6, C14; spec/Pipe.tla, PipeData.tla).

P1  TLC model-checks the pipeline of processes (spec/Pipe.tla via MC_Pipe) with
    PIPE_BUF=2, PIPE_SIZE=4, payload 0..10, 2-4 stages: capacity, order,
    conservation (exactly once), completeness, no lost wake-up, NO DEADLOCK
    (deadlock checking on), termination under fairness; lemmas on Strip and on
    the kernel rules.  NEGATIVE configurations (seeded model faults: dropped
    wake-up in Read, write_all not advancing, read_all stopping at a short
    read) MUST be caught by TLC, else the model is vacuous (tool error).
P2  (a) scenario catalogue: TLC (Gen_Pipe) generates scripts x payload sizes
    around every boundary of the real constants x tails with newlines, each
    with the expected observation; harness/c14 runs each in the real shell on
    the simulated OS under explored schedules (DFS over choice points, windows
    deeper in the run, seeded random schedules);
    (b) system-call level: TLC (Gen_PipeK) generates histories of requests on
    one pipe (raw kernel calls, and through Concurrent); the harness replays
    them on the real objects with sizes scaled / mapped to the real boundaries.
P2c a reduced slice of the growth module G05 (checks.g05.run_stage; spec/ReadBuiltin.tla):
    the `read` built-in fed through a pipe in chunks of 1-3 bytes with characters of
    2-4 bytes, judged by ReadBuiltin.tla (status, variables, bytes left in the pipe).
P3  every record produced by the real code -- one per (scenario, distinct
    observation) and one per executed system-call step -- is validated by TLC
    (Trace_Pipe) against PipeData with the REAL constants 512 / 1024.
"""
import json
import os
import re
import threading
import time
from concurrent.futures import ThreadPoolExecutor

import vlib

PID = "C14"
PKG = "yv-c14"
REAL = {"PIPE_BUF": 512, "PIPE_SIZE": 1024}       # constants of Trace_Pipe.cfg / Gen_Pipe_*.cfg

# (cfg, expectation) -- expectation: "pass" or a regex the TLC failure must match
MC = {
    "quick": [
        ("MC_Pipe_s2.cfg", "pass"),
        ("MC_Pipe_s3.cfg", "pass"),
        ("MC_Pipe_live_q.cfg", "pass"),
        ("MC_Pipe_neg_dropwake.cfg", r"Deadlock reached"),
        ("MC_Pipe_neg_noadvance.cfg", r"Invariant (Conservation|Order) is violated"),
        ("MC_Pipe_neg_shortread.cfg", r"Invariant (Completeness|Conservation) is violated|Deadlock reached"),
    ],
    "thorough": [
        ("MC_Pipe_s2.cfg", "pass"),
        ("MC_Pipe_s3.cfg", "pass"),
        ("MC_Pipe_s4.cfg", "pass"),
        ("MC_Pipe_live.cfg", "pass"),
        ("MC_Pipe_neg_dropwake.cfg", r"Deadlock reached"),
        ("MC_Pipe_neg_noadvance.cfg", r"Invariant (Conservation|Order) is violated"),
        ("MC_Pipe_neg_shortread.cfg", r"Invariant (Completeness|Conservation) is violated|Deadlock reached"),
    ],
}
COVERAGE_CFG = "MC_Pipe_s3.cfg"
MODEL_ACTIONS = ["Write", "SelectW", "Read", "SelectR", "Exit", "Finished"]

# system-call level drivers: (cfg, size maps)
KGEN = {
    "quick": [("Gen_PipeK_k2.cfg", "x256,edge,edge2"), ("Gen_PipeK_k3.cfg", "edge"), ("Gen_PipeK_c2.cfg", "x256,edge,edge2")],
    "thorough": [("Gen_PipeK_k2.cfg", "x256,edge,edge2"), ("Gen_PipeK_k3big.cfg", "x256,edge"),
                 ("Gen_PipeK_c2big.cfg", "x256,edge,edge2")],
}
KRAND = {"quick": (150, 40), "thorough": (3000, 60)}          # (histories, steps) per level

E2E = {
    "quick": ["--dfs", "6", "--dfs-max", "48", "--windows", "12,40", "--win-depth", "3", "--win-max", "8",
              "--random", "10"],
    "thorough": ["--dfs", "8", "--dfs-max", "250", "--windows", "10,25,60,150", "--win-depth", "4", "--win-max", "16",
                 "--random", "40"],
}


class _LockedReporter:
    """Reporter shared with the stage that runs concurrently (checks.g05.run_stage)."""

    def __init__(self, rep):
        self._rep = rep
        self._lock = threading.Lock()

    def violation(self, key, detail, replay_obj):
        with self._lock:
            return self._rep.violation(key, detail, replay_obj)

    def __getattr__(self, name):
        return getattr(self._rep, name)


def _mc_one(cfg, expect, workers):
    r = vlib.tlc("MC_Pipe", cfg, workers=workers, timeout=2400, deadlock=True, coverage=(cfg == COVERAGE_CFG))
    return cfg, expect, r


def _model_check(tier):
    """P1.  Returns (states, transitions, per-config info, coverage)."""
    if os.environ.get("C14_SKIP_MC"):       # development switch (mutant loops): P1 does not depend on /repo
        vlib.log("[tlc] C14_SKIP_MC set: model checking skipped")
        return 0, 0, {"skipped": True}, {}
    jobs = MC[tier]
    workers = 4 if tier == "quick" else 6
    with ThreadPoolExecutor(max_workers=3 if tier == "quick" else 2) as ex:
        results = list(ex.map(lambda j: _mc_one(j[0], j[1], workers), jobs))
    states = transitions = 0
    info = {}
    coverage = {}
    for cfg, expect, r in results:
        if expect == "pass":
            vlib.tlc_must_pass(r, f"model check {cfg}")
            states += r.distinct
            transitions += r.generated
            info[cfg] = {"distinct": r.distinct, "generated": r.generated, "depth": r.depth, "wall": round(r.wall, 1)}
            vlib.log(f"[tlc] {cfg}: {r.distinct} distinct states, {r.generated} generated, depth {r.depth}, {r.wall:.1f}s")
            if cfg == COVERAGE_CFG:
                coverage = {a: r.coverage.get(a, 0) for a in MODEL_ACTIONS}
        else:
            text = r.violation or ""
            if r.ok or not re.search(expect, text):
                vlib.log(f"[tlc] NEGATIVE configuration {cfg} was not caught as expected ({expect}):\n"
                         f"{(r.violation or r.error or 'TLC passed')[:1500]}")
                raise vlib.ToolError(f"negative configuration {cfg}: TLC did not find the seeded fault")
            what = re.search(expect, text).group(0)
            info[cfg] = {"negative": True, "found": what, "wall": round(r.wall, 1)}
            vlib.log(f"[tlc] {cfg} (seeded model fault): TLC found '{what}' as required, {r.wall:.1f}s")
    return states, transitions, info, coverage


def _check_consts():
    _, out, _ = vlib.run_harness(PKG, ["consts"])
    c = json.loads(out)
    if c != REAL:
        raise vlib.ToolError(f"the simulated kernel's pipe constants are {c}; Trace_Pipe.cfg / Gen_Pipe assume {REAL} "
                             f"(update the cfg constants and the size maps of harness/c14)")
    return c


def _short_sc(sc):
    """Readable one-line rendering of a scenario term (for violation keys)."""
    k = sc["k"]
    kids = ",".join(_short_sc(c) for c in sc["ch"])
    extra = ""
    if k in ("emit", "here"):
        extra += str(sc["n"])
    if sc["c"]:
        extra += "+" + "".join(chr(c) if 33 <= c < 127 else f"\\x{c:02x}" for c in sc["c"])
    if sc["fs"]:
        extra += "|" + "|".join(sc["fs"])
    if sc["flag"]:
        extra += "!"
    return f"{k}({extra}{';' if extra and kids else ''}{kids})"


def _validate_runs(rep, trace, catalogue, shards, samples):
    ok, info = vlib.validate_trace_sharded("Trace_Pipe", trace, shards=shards, timeout=2400)
    if not ok:
        for f in info.get("failures", []):
            if not f.get("record"):
                raise vlib.ToolError(f"trace rejected without a record: {f}")
            rec = json.loads(f["record"])
            key = {"kind": "run", "scenario": _short_sc(rec["sc"]), "outcome": rec["outcome"], "status": rec["status"]}
            line = catalogue.get(rec["id"])
            rep.violation(key, f"run not allowed by Expect(sc): outcome={rec['outcome']} status={rec['status']} "
                               f"obs={json.dumps(rec['obs'])[:400]} errs={rec['errs']} detail={rec.get('detail', '')[:200]}",
                          {"kind": "run", "record": rec, "line": line})
    return info


def _validate_k(rep, trace, src, histories, level_of, shards):
    ok, info = vlib.validate_trace_sharded("Trace_Pipe", trace, shards=shards, timeout=2400)
    if not ok:
        with open(src) as f:
            srcs = f.read().splitlines()
        for f in info.get("failures", []):
            if not f.get("record") or not f.get("line"):
                raise vlib.ToolError(f"trace rejected without a record: {f}")
            rec = json.loads(f["record"])
            origin = srcs[f["line"] - 1].split(" ")
            hist = histories.get(origin[0])
            op = rec.get("op", {})
            key = {"kind": "k", "op": op.get("op"), "req": (rec.get("pre", {}).get("act", [{}] * 9)[op.get("a", 1) - 1].get("k")
                                                           if op.get("op") == "poll" else op.get("k")),
                   "res": rec.get("res", {}).get("r", "panic" if "panic" in rec else "?")}
            rep.violation(key, f"system-call step not allowed by KStep: {json.dumps(rec)[:900]}",
                          {"kind": "k", "record": rec, "origin": origin, "history": hist})
    return info


def run(tier):
    t0 = time.time()
    wd = vlib.workdir(PID)
    rep = _LockedReporter(vlib.Reporter(PID))
    vlib.build_harness(PKG)
    consts = _check_consts()
    samples = []
    from checks import g05
    with ThreadPoolExecutor(max_workers=2) as bg:
        mc_future = bg.submit(_model_check, tier)
        # the `read` built-in taking its input from a pipe in small chunks (characters of
        # 2-4 bytes split by short reads): reduced slice of G05 (spec/ReadBuiltin.tla)
        read_future = bg.submit(g05.run_stage, tier, rep, "c14")

        # ---- P2a/P3: scenario catalogue through the real shell -------------
        cat = os.path.join(wd, "catalogue.ndjson")
        r = vlib.tlc("Gen_Pipe", f"Gen_Pipe_{tier}.cfg", workers=4, timeout=1200, json_out=cat, tool_seed=vlib.seed())
        vlib.tlc_must_pass(r, "scenario catalogue (Gen_Pipe)")
        with open(cat) as f:          # TLC's workers print in any order: sort, so that ids and schedules are reproducible
            lines = sorted(f)
        with open(cat, "w") as f:
            f.writelines(lines)
        catalogue = {}
        forms = {}
        with open(cat) as f:
            for i, line in enumerate(f):
                o = json.loads(line)
                catalogue[i] = o
                forms[o["sc"]["k"]] = forms.get(o["sc"]["k"], 0) + 1
        vlib.log(f"[gen] catalogue: {len(catalogue)} scenarios {forms} in {r.wall:.1f}s")
        trace = os.path.join(wd, "runs.ndjson")
        _, out, _ = vlib.run_harness(PKG, ["run", "--in", cat, "--out", trace, "--threads", "8"] + E2E[tier], timeout=3000)
        runinfo = json.loads(out.strip().splitlines()[-1])
        vlib.log(f"[e2e] {runinfo['runs']} runs of {runinfo['scenarios']} scenarios -> {runinfo['records']} distinct "
                 f"(scenario, observation) records" + (" -- ABORTED after a hang" if runinfo.get("aborted") else ""))
        info = _validate_runs(rep, trace, catalogue, 4 if tier == "quick" else 8, samples)
        vlib.log(f"[p3] runs: {info['events']} records validated against Expect(sc) in {info['wall']:.1f}s")
        run_records = info["events"]
        with open(trace) as f:
            for i, line in enumerate(f):
                if i in (0, 700, 1900):
                    o = json.loads(line)
                    samples.append({"script": _short_sc(o["sc"]), "sched": o["sched"], "runs": o["runs"],
                                    "outcome": o["outcome"], "obs": o["obs"]})
        multi = sum(1 for _ in open(trace)) - len(catalogue)
        os.remove(trace)

        # ---- P2b/P3: system-call level ------------------------------------
        ktrace = os.path.join(wd, "k.ndjson")
        ksrc = ktrace + ".src"
        kinfo = {}
        histories = {}
        level_of = {}
        parts = []
        for cfg, maps in KGEN[tier]:
            gen = os.path.join(wd, cfg + ".hist.ndjson")
            r = vlib.tlc("Gen_PipeK", cfg, workers=1, timeout=1800, json_out=gen)   # one worker: strict BFS, deterministic histories
            vlib.tlc_must_pass(r, f"driver {cfg}")
            part = os.path.join(wd, cfg + ".k.ndjson")
            _, out, _ = vlib.run_harness(PKG, ["krep", "--in", gen, "--out", part, "--actors", "3", "--maps", maps,
                                               "--name", cfg], timeout=3000)
            ki = json.loads(out.strip().splitlines()[-1])
            ki.update({"driver_states": r.distinct, "driver_transitions": r.generated})
            kinfo[cfg] = ki
            vlib.log(f"[k] {cfg}: {r.distinct} driver states, {ki['histories']} histories x maps {maps}: "
                     f"{ki['steps']} steps executed, {ki['skipped']} skipped, {ki['records']} distinct records")
            with open(gen) as f:
                for i, line in enumerate(f):
                    histories[f"{cfg}:{i}"] = line.strip()
            parts.append(part)
            os.remove(gen)
        n, steps = KRAND[tier]
        for level in ("K", "C"):
            part = os.path.join(wd, f"rand{level}.k.ndjson")
            _, out, _ = vlib.run_harness(PKG, ["krand", "--level", level, "--n", str(n), "--steps", str(steps),
                                               "--actors", "3", "--out", part, "--name", f"rand{level}"])
            ki = json.loads(out.strip().splitlines()[-1])
            kinfo[f"random-{level}"] = ki
            vlib.log(f"[k] random level {level}: {ki['histories']} histories, {ki['steps']} steps, {ki['records']} distinct records")
            with open(part + ".hist") as f:
                for i, line in enumerate(f):
                    histories[f"rand{level}:{i}"] = line.strip()
            os.remove(part + ".hist")
            parts.append(part)
        with open(ktrace, "w") as o, open(ksrc, "w") as osrc:
            for p in parts:
                with open(p) as f:
                    o.write(f.read())
                with open(p + ".src") as f:
                    osrc.write(f.read())
                os.remove(p)
                os.remove(p + ".src")
        info = _validate_k(rep, ktrace, ksrc, histories, level_of, 8)
        vlib.log(f"[p3] system-call steps: {info['events']} records validated against KStep in {info['wall']:.1f}s")
        k_records = info["events"]
        with open(ktrace) as f:
            for i, line in enumerate(f):
                if i in (3, 5000):
                    samples.append(json.loads(line))
        os.remove(ktrace)
        os.remove(ksrc)

        states, transitions, mcinfo, coverage = mc_future.result()
        read_stage = read_future.result()

    unexercised = [a for a, c in coverage.items() if c == 0]
    if unexercised:
        vlib.log(f"[tlc] NOTE: model actions not exercised in {COVERAGE_CFG}: {unexercised}")
    if runinfo.get("aborted"):
        vlib.log("[e2e] NOTE: the harness stopped at a run that did not return (recorded as outcome 'hang')")
    rc = rep.finish()
    vlib.write_evidence(PID, tier, {
        "states": states,
        "transitions": transitions,
        "traces_validated_against_impl": run_records + k_records,
        "samples": samples,
        "evaluations": runinfo["runs"] + sum(k["steps"] for k in kinfo.values()),
        "distinct_nontrivial": run_records + k_records,
        "rule": "one record per (scenario, distinct observation over all explored schedules) plus one per distinct "
                "executed system-call step {pre, op, res, post}; evaluations = shell runs + executed steps",
        "exhaustive": False,
        "model_checking": mcinfo,
        "tlc_action_coverage": coverage,
        "actions_not_exercised": unexercised,
        "scenarios": len(catalogue),
        "scenario_forms": forms,
        "shell_runs": runinfo["runs"],
        "run_records": run_records,
        "scenarios_with_schedule_dependent_observation_records": multi,
        "syscall_level": kinfo,
        "syscall_records": k_records,
        "real_constants": consts,
        "aborted_on_hang": bool(runinfo.get("aborted")),
        "read_stage": read_stage,
    }, time.time() - t0, violations=len(rep.violations), assumptions=[
        "the processes of a pipeline interleave only where the simulated kernel lets them (between polls of the "
        "scheduler); schedules are explored by bounded DFS, windows and seeded random choice, not exhaustively",
        "Concurrent is used with one request at a time per descriptor (a shell process runs one task)",
        "filters of the catalogue are the probes cat / scat (copying); payload bytes are ASCII",
        "TLC 1.8.0 and the JSON community module are trusted",
    ])
    return rc


def replay(path):
    with open(path) as f:
        obj = json.load(f)
    rp = obj["replay"]
    if isinstance(rp, dict) and rp.get("stage") == "g05":
        from checks import g05
        return g05.replay(path)
    wd = vlib.workdir(PID + "-replay")
    vlib.build_harness(PKG)
    t = os.path.join(wd, "one.ndjson")
    if rp["kind"] == "run":
        src = os.path.join(wd, "line.ndjson")
        line = dict(rp["line"])
        line["id"] = rp["record"]["id"]
        with open(src, "w") as f:
            f.write(json.dumps(line) + "\n")
        vlib.run_harness(PKG, ["one", "--in", src, "--out", t, "--sched", rp["record"]["sched"]])
    else:
        src = os.path.join(wd, "hist.ndjson")
        with open(src, "w") as f:
            f.write((rp["history"] or json.dumps({"h": []})) + "\n")
        origin = rp["origin"]
        vlib.run_harness(PKG, ["krep", "--in", src, "--out", t, "--actors", "3", "--maps", origin[1], "--name", "replay"])
    ok, info = vlib.validate_trace("Trace_Pipe", t)
    print("accepted" if ok else f"rejected: {info}")
    if not ok:
        print(f"VIOLATION property={PID} replay={path}")
    return 0 if ok else 1
