"""C01 — word expansion yields exactly the fields POSIX prescribes (DESIGN.md section 6, C01).

The oracle is the TLA+ definition spec/Expand.tla (over spec/Split.tla, spec/Chars.tla),
written from POSIX XCU 2.2/2.5.2/2.6 and docs/src/language/words/*.md.

 0. Calib_Expand: ~230 worked examples of the manual and of the project's POSIX
    conformance scripts hold for the oracle (ASSUMEs; failure = tool error).
 1. MC_Split: sanity theorems of the field-splitting definition (declarative
    characterisation = three-state machine, partition, no separator inside a
    field, ...) on all attributed strings up to a bound.
 2. spec -> impl: TLC enumerates (word, state, IFS, nounset) and prints the allowed
    outcomes (Gen_Expand); harness/c01 renders each word to shell text, runs
    `probe <word>` in the real shell on the simulated OS and compares fields / error /
    assigned values.  Likewise `read` lines (Gen_ReadSplit).
 3. impl -> spec: random larger words / states / IFS values / `read` lines are run
    on the real shell, the observations are recorded and TLC (Trace_Expand)
    checks each against the outcomes the specification allows.
"""
import json
import os
import time

import vlib

PID = "C01"
PKG = "yv-c01"

TIERS = {
    # split_len, gen cfg, read cfg, random words, random reads, units
    "quick": dict(split="MC_Split_5.cfg", gen="Gen_Expand_quick.cfg", read="Gen_ReadSplit_4.cfg",
                  nrandom=30000, nread=4000, trace_timeout=600, gen_timeout=600),
    "thorough": dict(split="MC_Split_7.cfg", gen="Gen_Expand_thorough.cfg", read="Gen_ReadSplit_6.cfg",
                     nrandom=200000, nread=30000, trace_timeout=2400, gen_timeout=2400),
}


def _state_str(st):
    def val(v):
        return repr(v["v"]) if v["set"] else "unset"
    return "x=%s y=%s pos=%s IFS=%s%s $?=%s" % (val(st["x"]), val(st["y"]), st["pos"], val(st["ifs"]),
                                                 " nounset" if st["nounset"] else "", st["st"])


def _expected_features():
    """Rules of the specification that the enumeration must exercise (tags computed by the harness)."""
    exp = []
    for q in ("dq", "uq"):
        for cls in ("unset", "empty", "nonempty"):
            for c in ("", ":"):
                for a in "-=?+":
                    exp.append(f"sw{c}{a}/{q}/{cls}")
            for t in ("#", "##", "%", "%%"):
                exp.append(f"trim{t}/{q}/{cls}")
            exp.append(f"$par/{q}/{cls}")
        for p in "@*":
            for n in (0, 1, 2):
                exp.append(f"${p}/{q}/npos={n}")
        exp += [f"lit/{q}", f"bs/{q}"]
    exp += [f"len/{cls}" for cls in ("unset", "empty", "nonempty")]
    exp += ["sq", "dq", "dq-empty", "$#", "$?", "state/nounset", "out/two-allowed", "out/assigned",
            "out/assigned-IFS", "out/has-empty-field", "out/err-unset", "out/err-vacant", "out/err-nonassignable",
            "out/fields=0", "out/fields=1", "out/fields=2", "out/fields=>2"]
    return exp


def _parse_summary(out):
    line = [l for l in out.strip().splitlines() if l.startswith("{")][-1]
    return json.loads(line)


SHARD = 40000      # records per TLC run (the whole file is held as one TLA+ value)


def _validate(rep, trace, what, timeout, totals, mb=False):
    """Run Trace_Expand over `trace` (in shards); report every rejected record."""
    with open(trace) as f:
        lines = f.readlines()
    n = len(lines)
    accepted = skipped = nrej = 0
    wall = 0.0
    for a in range(0, n, SHARD):
        part = lines[a:a + SHARD]
        p = f"{trace}.shard"
        with open(p, "w") as f:
            f.writelines(part)
        r = vlib.tlc("Trace_Expand", "Trace_Expand.cfg", workers=8, timeout=timeout, env={"TRACE": os.path.abspath(p)})
        os.remove(p)
        vlib.tlc_must_pass(r, f"trace validation ({what})")
        if r.distinct != 2 * len(part) - 1:
            raise vlib.ToolError(f"trace validation ({what}) judged {r.distinct} states for {len(part)} records")
        wall += r.wall
        totals["states"] += r.distinct
        totals["transitions"] += r.generated
        for j in r.json:
            if j["v"] == "skip":
                skipped += 1
                continue
            nrej += 1
            rec = json.loads(part[j["i"] - 1])
            exp = j["exp"]
            if rec.get("kind") == "read":
                key = {"dir": "impl->spec", "what": "read", "line": rec["line"], "n": rec["n"], "ifs": rec["ifs"]}
                detail = f"read: observed {rec['obs']}, allowed {exp}"
            else:
                key = {"dir": "impl->spec", "what": "word", "text": rec["text"], "state": _state_str(rec["st"])}
                detail = (f"`probe {rec['text']}` in [{_state_str(rec['st'])}] gave {rec['obs']['k']} "
                          f"{rec['obs']['f']} x={rec['obs']['x']} y={rec['obs']['y']}; allowed: {exp}")
            rec["mb"] = mb
            rep.violation(key, detail, rec)
    accepted = n - nrej - skipped
    vlib.log(f"[p4<-] {what}: {n} records judged by TLC in {wall:.1f}s: {accepted} accepted, "
             f"{skipped} outside the modelled fragment, {nrej} rejected")
    return n - skipped


def run(tier):
    t0 = time.time()
    cfg = TIERS[tier]
    wd = vlib.workdir(PID)
    rep = vlib.Reporter(PID)
    totals = {"states": 0, "transitions": 0}
    vlib.build_harness(PKG)

    # 0. calibration of the oracle
    r = vlib.tlc("Calib_Expand", "Calib_Expand.cfg", workers=1, timeout=300)
    vlib.tlc_must_pass(r, "calibration examples (Calib_Expand)")
    vlib.log(f"[calib] worked examples of the manual / POSIX scripts hold for the oracle ({r.wall:.1f}s)")

    # 1. sanity theorems of Split
    r = vlib.tlc("MC_Split", cfg["split"], workers=8, timeout=cfg["gen_timeout"])
    vlib.tlc_must_pass(r, f"Split sanity theorems ({cfg['split']})")
    vlib.log(f"[tlc] {cfg['split']}: {r.distinct} attributed strings x IFS: machine = declarative definition, "
             f"partition, no separator in a field, quoted text never split ({r.wall:.1f}s)")
    totals["states"] += r.distinct
    totals["transitions"] += r.generated
    split_states = r.distinct

    # 2. spec -> impl, words
    gen = os.path.join(wd, "gen.ndjson")
    r = vlib.tlc("Gen_Expand", cfg["gen"], workers=8, timeout=cfg["gen_timeout"], env={"SEED": str(vlib.seed())},
                 json_out=gen)
    vlib.tlc_must_pass(r, f"enumeration {cfg['gen']}")
    totals["states"] += r.distinct
    totals["transitions"] += r.generated
    nvec = vlib.count_lines(gen)
    vlib.log(f"[tlc] {cfg['gen']}: {r.distinct} states, {nvec} vectors printed ({r.wall:.1f}s)")
    mism = os.path.join(wd, "mismatch.ndjson")
    _, out, _ = vlib.run_harness(PKG, ["replay", "--in", gen, "--out", mism, "--threads", "8"])
    s_words = _parse_summary(out)
    if s_words["cases"] + s_words["skipped"] != nvec:
        raise vlib.ToolError(f"replay covered {s_words['cases']}+{s_words['skipped']} of {nvec} vectors")
    for rec in vlib.read_ndjson(mism):
        key = {"dir": "spec->impl", "what": "word", "text": rec["text"], "state": _state_str(rec["st"])}
        detail = (f"`probe {rec['text']}` in [{_state_str(rec['st'])}]: allowed {rec['out']}, "
                  f"observed {rec['obs']}")
        rep.violation(key, detail, {"kind": "word", "w": rec["w"], "st": rec["st"], "mb": True})
    vlib.log(f"[p4->] words: {s_words['cases']} vectors replayed in {s_words['runs']} shell runs "
             f"({s_words['ok']} expansions with {s_words['fields']} fields, {s_words['errors']} expected errors, "
             f"{s_words['ambiguous']} with two allowed outcomes, {s_words['skipped']} skipped): "
             f"{s_words['mismatches']} mismatches")
    os.remove(gen)
    features = s_words.get("features", {})
    not_exercised = [t for t in _expected_features() if not features.get(t)]
    if not_exercised:
        vlib.log(f"NOTE: rules of the specification not exercised by the enumeration: {not_exercised}")

    # 2b. spec -> impl, read
    genr = os.path.join(wd, "genread.ndjson")
    r = vlib.tlc("Gen_ReadSplit", cfg["read"], workers=8, timeout=cfg["gen_timeout"], json_out=genr)
    vlib.tlc_must_pass(r, f"enumeration {cfg['read']}")
    totals["states"] += r.distinct
    totals["transitions"] += r.generated
    nread = vlib.count_lines(genr)
    mismr = os.path.join(wd, "mismatch-read.ndjson")
    _, out, _ = vlib.run_harness(PKG, ["read-replay", "--in", genr, "--out", mismr])
    s_read = _parse_summary(out)
    if s_read["cases"] != nread:
        raise vlib.ToolError(f"read replay covered {s_read['cases']} of {nread} vectors")
    for rec in vlib.read_ndjson(mismr):
        key = {"dir": "spec->impl", "what": "read", "line": rec["line"], "n": rec["n"], "ifs": rec["ifs"]}
        rep.violation(key, f"read: allowed {rec['out']}, observed {rec['obs']}",
                      {"kind": "read", "line": rec["line"], "n": rec["n"], "ifs": rec["ifs"], "mb": True})
    vlib.log(f"[p4->] read: {s_read['cases']} (line, #variables, IFS) vectors replayed, "
             f"{s_read['ambiguous']} with two allowed outcomes: {s_read['mismatches']} mismatches ({r.wall:.1f}s TLC)")
    os.remove(genr)

    # 3. impl -> spec
    trace = os.path.join(wd, "random.ndjson")
    vlib.run_harness(PKG, ["random", "--n", cfg["nrandom"], "--out", trace, "--threads", "8"])
    judged = _validate(rep, trace, "random words", cfg["trace_timeout"], totals)
    samples = list(s_words["samples"][:3])
    with open(trace) as f:
        for i, line in enumerate(f):
            if i in (5, 1234):
                rec = json.loads(line)
                samples.append({"text": rec["text"], "state": _state_str(rec["st"]), "observed": rec["obs"]["f"],
                                "k": rec["obs"]["k"]})
    os.remove(trace)
    tracer = os.path.join(wd, "random-read.ndjson")
    vlib.run_harness(PKG, ["read-random", "--n", cfg["nread"], "--out", tracer])
    judged_read = _validate(rep, tracer, "random read lines", cfg["trace_timeout"], totals)
    os.remove(tracer)
    samples += s_read["samples"][:1]

    rc = rep.finish()
    vlib.write_evidence(PID, tier, {
        "states": totals["states"],
        "transitions": totals["transitions"],
        "traces_validated_against_impl": s_words["cases"] + s_read["cases"] + judged + judged_read,
        "samples": samples,
        "evaluations": s_words["cases"] + s_read["cases"] + judged + judged_read,
        "distinct_nontrivial": s_words["cases"] + s_read["cases"],
        "rule": "distinct (word AST, shell state, IFS, nounset) vectors and (line, #vars, IFS) vectors enumerated by TLC "
                "and executed on the real shell; random recorded vectors counted separately",
        "exhaustive": tier == "thorough",
        "exhaustive_over": ("all one-unit words of the alphabet U of Gen_Expand x 12 states x 5 IFS values x nounset; "
                            + ("all pairs with a Core unit and all triples Core x Mid x Core"
                               if tier == "thorough" else
                               "a seeded 1/4 sample of the pairs with a Core unit and of the triples Core x Mid x Core")
                            + "; all read lines up to the bound x 5 IFS values x 1..3 variables; "
                              "all attributed strings up to the bound for the Split theorems"),
        "bounds": {"split_theorems": cfg["split"], "enumeration": cfg["gen"], "read": cfg["read"],
                   "random_words": cfg["nrandom"], "random_read_lines": cfg["nread"],
                   "random_word_units": "<= 12 (nested units included)", "random_value_chars": "<= 8"},
        "split_theorem_states": split_states,
        "spec_to_impl_words": {k: s_words[k] for k in ("cases", "ok", "errors", "ambiguous", "skipped", "fields",
                                                        "mismatches", "runs")},
        "spec_to_impl_read": {k: s_read[k] for k in ("cases", "ambiguous", "mismatches")},
        "rule_coverage": features,
        "rules_not_exercised": not_exercised,
        "impl_to_spec_words_judged": judged,
        "impl_to_spec_read_judged": judged_read,
    }, time.time() - t0, violations=len(rep.violations), assumptions=[
        "pathname expansion is switched off (set -f) so that C05 is not entangled; tilde expansion, command "
        "substitution and arithmetic expansion inside words are not generated",
        "trim patterns are restricted to literals, quoting, * and ? (bracket expressions and backslashes coming from "
        "expansions are skipped and counted; they belong to C04)",
        "inputs POSIX leaves unspecified are skipped (modifiers on $@/$*, nested double quotes in \"${x-...}\") or "
        "judged against a set of outcomes (\"$@\" next to other empty text inside one pair of double quotes with no "
        "positional parameters; `read` with exactly as many fields as variables and a trailing non-blank separator)",
        "the model character 'e' is rendered as U+00E9 in the enumeration direction",
        "TLC 1.8.0 and the JSON community module are trusted",
    ])
    return rc


def replay(path):
    with open(path) as f:
        obj = json.load(f)
    rec = obj["replay"]
    wd = vlib.workdir(PID + "-replay")
    src = os.path.join(wd, "in.ndjson")
    with open(src, "w") as f:
        f.write(json.dumps(rec) + "\n")
    t = os.path.join(wd, "one.ndjson")
    vlib.run_harness(PKG, ["one", "--in", src, "--out", t])
    r = vlib.tlc("Trace_Expand", "Trace_Expand.cfg", workers=1, timeout=300, env={"TRACE": os.path.abspath(t)})
    vlib.tlc_must_pass(r, "replay validation")
    with open(t) as f:
        print("observed:", f.read().strip())
    rejected = [j for j in r.json if j["v"] == "reject"]
    if rejected:
        print("allowed by the specification:", json.dumps(rejected[0]["exp"]))
        print(f"VIOLATION property={PID} replay={path}")
        return 1
    print("accepted")
    return 0
