\* P1 (quick): every interleaving of every script of the catalogue; deadlock
\* checking ON (./check passes deadlock=True); Emit prints the P3 catalogue.
SPECIFICATION Spec
CONSTANTS
  Variant = "ok"
  MaxP = 7
  Scripts <- CatQuick
INVARIANTS NoErr InvReapOnce InvStatusTrue InvNoFgLeft InvJobsSound InvDenotation Emit
\* the scripts of CatFgStopX are only listed (P3 runs them), not explored
CONSTRAINT ModelChecked
