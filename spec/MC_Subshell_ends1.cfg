\* C08 quick: every way a subshell can end x script and interactive parent, at most 1 mutator
CONSTANTS
  MaxPre = 1
  MaxChild = 2
  MaxPost = 1
  MaxTotal = 1
  MinPre = 0
  MinTotal = 0
  Leaky = FALSE
  ForkBug = "none"
  Alphabet <- EndCmds
  PreAlphabet <- OptOnCmds
  Kinds <- EndKinds
  Modes <- BothModes
  Fins <- AllFins
  Ctxs <- MainCtx
INIT Init
NEXT Next
INVARIANTS NoForeignTrapAction EntryIsForkImage PendingCleared ParentTrapOnce ContextDuplicated TrapRule SharedDescriptions Final Emit
PROPERTIES Isolation CopyNotReference
