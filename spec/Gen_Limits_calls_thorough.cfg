\* G08 enumeration: family calls, thorough
SPECIFICATION Spec
VIEW View
CONSTANTS
  Family = "calls"
  Depth = 2
  Level = "full"
INVARIANT Emit
