SPECIFICATION Spec
CONSTANTS
  Profile = "cmd"
  MaxTok = 6
  MaxUnits = 0
INVARIANT GenInv
