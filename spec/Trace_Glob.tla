----------------------------- MODULE Trace_Glob -----------------------------
(***************************************************************************)
(* C05, impl -> spec: every record                                         *)
(*   {nodes, cwd, us, ng, pn, out}                                         *)
(* observed on the real shell (file tree, working directory, word as       *)
(* units, noglob?, no-result?, delivered fields) is judged against         *)
(* Glob!Allowed.  One step per record; a record that is not accepted is    *)
(* printed with its index and verdict and the run goes on (the driver      *)
(* lib/checks/c05.py turns verdicts into violations / known findings and   *)
(* checks that every record was reached).                                  *)
(*   "reject"       the delivered fields are not an allowed result         *)
(*   "unspecified"  a component of the word has no specified meaning; the   *)
(*                  result passed the weak judgement (existing, sorted)     *)
(*   "outside"      the expansion reads a directory that is not modelled   *)
(*   "bad-input"    the record is not a well-formed case (tool error)      *)
(***************************************************************************)
EXTENDS Glob, Json, IOUtils

Rec == ndJsonDeserialize(IOEnv.TRACE)

VARIABLE l
vars == <<l>>

TreeOfNodes(ns) ==
  [p \in {ns[i].p : i \in 1..Len(ns)} |->
     LET i == CHOOSE i \in 1..Len(ns) : ns[i].p = p IN [k |-> ns[i].k, to |-> ns[i].to]]

Judge(r) ==
  LET T == TreeOfNodes(r.nodes) IN
  IF ~WellFormed(r.us) \/ ~WellFormedTree(T) \/ ~IsDir(T, r.cwd) \/ Len(r.cwd) = 0 \/ r.cwd[1] # "w"
  THEN "bad-input"
  ELSE IF r.pn THEN "reject"
  ELSE IF r.ng THEN (IF r.out \in Allowed(r.us, T, r.cwd, TRUE) THEN "ok" ELSE "reject")
  ELSE IF Unspecified(r.us)
  THEN (IF WeakScansOutside(r.us, T, r.cwd, "w") THEN "outside"
        ELSE IF WeakAllowed(r.out, r.us, T, r.cwd) THEN "unspecified" ELSE "reject")
  ELSE IF ScansOutside(r.us, T, r.cwd, "w") THEN "outside"
  ELSE IF r.out \in Allowed(r.us, T, r.cwd, FALSE) THEN "ok" ELSE "reject"

TraceInit == l = 1

TraceNext ==
  /\ l <= Len(Rec)
  /\ LET v == Judge(Rec[l]) IN IF v = "ok" THEN TRUE ELSE PrintT(ToJson([i |-> l, v |-> v]))
  /\ l' = l + 1

TraceSpec == TraceInit /\ [][TraceNext]_vars
=============================================================================
