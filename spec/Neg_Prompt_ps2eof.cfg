SPECIFICATION Spec
CONSTANT Fams = {"eof"}
CONSTANT Deep = 0
CONSTANT Variant = "ps2eof"
INVARIANT Refute
