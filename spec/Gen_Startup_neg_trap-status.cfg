SPECIFICATION Spec
CONSTANT Fams = {"term"}
CONSTANT Deep = 0
CONSTANT Variant = "trap-status"
INVARIANT Check
