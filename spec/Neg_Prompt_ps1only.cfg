SPECIFICATION Spec
CONSTANT Fams = {"multi"}
CONSTANT Deep = 0
CONSTANT Variant = "ps1only"
INVARIANT Refute
