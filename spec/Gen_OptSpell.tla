---------------------------- MODULE Gen_OptSpell ----------------------------
(***************************************************************************)
(* Class generator for C20 phase 2.  One TLC state per job:                *)
(*   <<"valid", b, e>>   catalogue entry e of utility b: prints the class  *)
(*                       Spellings(table, ModeExt, inv) of equivalent      *)
(*                       argument vectors                                  *)
(*   <<"bad", b, 0>>     utility b: malformed vectors (unknown short/long  *)
(*                       option, ambiguous abbreviation, missing or        *)
(*                       unexpected option-argument), each rejected by     *)
(*                       OptParse!Parse with b's table                     *)
(*   <<"sh", 0, e>>, <<"shbad", 0, 0>>  the same for the shell's own       *)
(*                       command line                                      *)
(*   <<"getopts", 0, e>> invocations parsed by a script with the getopts   *)
(*                       built-in (short options only)                     *)
(*   <<"pvalid", b, e>>  entry e of utility b while the `portable` shell   *)
(*                       option is on: the class Spellings(table,          *)
(*                       ModePortable, inv), and as "pbad" the spellings   *)
(*                       of the extended syntax that README.md says are    *)
(*                       rejected then (long names, option-argument in the *)
(*                       same argument as a short option)                  *)
(* The invariant also checks the catalogue itself (tables well-formed,     *)
(* invocations valid, every class non-empty and parsing back to its        *)
(* invocation, every malformed vector rejected by the specification).      *)
(***************************************************************************)
EXTENDS OptCatalogue, Json

VARIABLE job
vars == <<job>>

NB == Len(Catalogue)

Jobs == {<<"valid", b, e>> : b \in 1..NB, e \in 1..12} \cup {<<"bad", b, 0>> : b \in 1..NB}
        \cup {<<"sh", 0, e>> : e \in 1..Len(ShCatalogue)} \cup {<<"shbad", 0, 0>>}
        \cup {<<"getopts", 0, e>> : e \in 1..5}
        \cup {<<"pvalid", b, e>> : b \in 1..NB, e \in 1..12}

RECURSIVE Join(_)
Join(cs) == IF cs = <<>> THEN "" ELSE cs[1] \o Join(Tail(cs))
Strs(vec) == [n \in 1..Len(vec) |-> Join(vec[n])]

RECURSIVE SetToSeqAny(_)
SetToSeqAny(S) == IF S = {} THEN <<>>
                  ELSE LET x == CHOOSE x \in S : TRUE IN <<x>> \o SetToSeqAny(S \ {x})

IdxByName(table, n) ==
  CHOOSE i \in DOMAIN table : table[i].s = n \/ (table[i].l # <<>> /\ table[i].l = Chars(n))
HasName(table, n) ==
  \E i \in DOMAIN table : table[i].s = n \/ (table[i].l # <<>> /\ table[i].l = Chars(n))

InvOf(table, e) ==
  Invocation([k \in DOMAIN e.opts |->
                LET i == IdxByName(table, e.opts[k][1]) IN
                InvOpt(i, table[i].a, IF Len(e.opts[k]) > 1 THEN Chars(e.opts[k][2]) ELSE <<>>)],
             [k \in DOMAIN e.ops |-> Chars(e.ops[k])])

EntryOK(table, e) ==
  /\ \A k \in DOMAIN e.opts : HasName(table, e.opts[k][1])
  /\ LET inv == InvOf(table, e) IN
       /\ ValidInv(table, inv)
       /\ \A k \in DOMAIN e.opts : (Len(e.opts[k]) > 1) = inv.opts[k].has

\* ---- malformed vectors -----------------------------------------------------
FreshLetter(table) ==
  LET cand == <<"Z", "Q", "z", "q", "K", "k">>
      free == {n \in 1..Len(cand) : \A i \in DOMAIN table : table[i].s # cand[n]}
  IN cand[CHOOSE n \in free : \A m \in free : n <= m]

AmbiguousPrefixes(table) ==
  {p \in UNION {{SubSeq(table[i].l, 1, n) : n \in 1..Len(table[i].l)} : i \in DOMAIN table} :
     LongResolve(table, p).n > 1}

First3(S) == {i \in S : Cardinality({j \in S : j < i}) < 3}

BadVecs(table, kinds, base) ==
  LET z == FreshLetter(table)
      plain == {i \in DOMAIN table : table[i].s # "" /\ ~table[i].a}
      longNoArg == {i \in DOMAIN table : table[i].l # <<>> /\ ~table[i].a}
      us == {<<"US", <<<<Hy, z>>>> \o base>>}
            \cup {<<"US", <<<<Hy, table[i].s, z>>>> \o base>> : i \in First3(plain)}
      ul == {<<"UL", <<Chars("--zz-unknown")>> \o base>>, <<"UL", <<Chars("--zz-unknown=1")>> \o base>>}
      am == {<<"AM", <<DD \o p>> \o base>> : p \in AmbiguousPrefixes(table)}
      ma == {<<"MA", <<<<Hy, table[i].s>>>>>> : i \in {i \in DOMAIN table : table[i].a /\ table[i].s # ""}}
            \cup {<<"MA", <<DD \o table[i].l>>>> : i \in {i \in DOMAIN table : table[i].a /\ table[i].l # <<>>}}
      ua == {<<"UA", <<DD \o table[i].l \o Chars("=x")>> \o base>> : i \in First3(longNoArg)}
  IN (IF "US" \in kinds THEN us ELSE {}) \cup (IF "UL" \in kinds THEN ul ELSE {})
     \cup (IF "AM" \in kinds THEN am ELSE {}) \cup (IF "MA" \in kinds THEN ma ELSE {})
     \cup (IF "UA" \in kinds THEN ua ELSE {})

BadOK(table, bad) == \A x \in bad : ~Parse(table, ModeExt, x[2]).ok

BadJson(bad) == SetToSeqAny({[cls |-> x[1], v |-> Strs(x[2])] : x \in bad})

\* ---- getopts-driven parsing (script level) ----------------------------------
\* while getopts abo: ...: options a, b without and o with an option-argument
T_getopts == << OS("a", ""), OS("b", ""), OSA("o", "") >>
ModeShortOnly == OptMode(FALSE, TRUE, TRUE)
GetoptsEntries == <<
  CE("", "", << <<"a">>, <<"b">> >>, <<"x", "-a">>),
  CE("", "", << <<"a">>, <<"o", "val">>, <<"b">> >>, <<>>),
  CE("", "", << <<"o", "-a">>, <<"a">>, <<"a">> >>, <<"-">>),
  CE("", "", << <<"b">>, <<"o", "--">> >>, <<"--", "y">>),
  CE("", "", << <<"b">>, <<"a">>, <<"b">>, <<"o", "1">>, <<"o", "2">> >>, <<"-b">>) >>
GetoptsCmd == "set -- @ARGS@; while getopts abo: opt; do probe \"$opt\" \"${OPTARG-unset}\"; done; shift $((OPTIND-1)); probe rest \"$@\"; OPTIND=1; unset opt"

\* ---- jobs ---------------------------------------------------------------------
Init == job \in Jobs
Next == UNCHANGED job
Spec == Init /\ [][Next]_vars

\* kill documents `-sTERM` as acceptable everywhere and set / the command line
\* have their own rules for `portable`: not part of the portable pass
PortableSkip == {"kill", "set"}
PortablePrelude == Prelude \o "; set -o portable"

NoGrouping(w) == \A n \in DOMAIN w : IsShortForm(w[n]) => Len(w[n]) = 2

PortableLines(c, e, idx) ==
  LET inv == InvOf(c.table, e)
      all == Spellings(c.table, ModeExt, inv)
      \* ulimit.md: "The portable option rejects grouped option letters"
      pcls == {w \in Spellings(c.table, ModePortable, inv) : c.b = "ulimit" => NoGrouping(w)}
      rej == {w \in all : ~Parse(c.table, ModePortable, w).ok \/ (c.b = "ulimit" /\ ~NoGrouping(w))}
  IN /\ Assert(\A w \in pcls : LET r == Parse(c.table, ModePortable, w) IN r.ok /\ Canon(w, r) = inv,
               <<"portable class does not parse back", c.b, idx>>)
     /\ Assert(pcls \cup rej = all /\ pcls \cap rej = {}, <<"portable split", c.b, idx>>)
     /\ PrintT(ToJson([kind |-> "pvalid", b |-> c.b, e |-> idx, cmd |-> c.cmd, prelude |-> PortablePrelude,
                       pre |-> e.pre, post |-> e.post, plain |-> Strs(PlainVec(c.table, inv)),
                       vecs |-> SetToSeqAny({Strs(w) : w \in pcls}),
                       bad |-> SetToSeqAny({[cls |-> "NP", v |-> Strs(w)] : w \in rej})]))

ClassLine(kind, name, cmd, table, mode, e, idx) ==
  LET inv == InvOf(table, e)
      cls == Spellings(table, mode, inv)
  IN /\ Assert(WellFormed(table), <<"table not well-formed", name>>)
     /\ Assert(EntryOK(table, e), <<"bad catalogue entry", name, idx>>)
     /\ Assert(cls # {} /\ PlainVec(table, inv) \in cls, <<"plain spelling missing", name, idx>>)
     /\ Assert(\A w \in cls : LET r == Parse(table, mode, w) IN r.ok /\ Canon(w, r) = inv,
               <<"class does not parse back", name, idx>>)
     /\ PrintT(ToJson([kind |-> kind, b |-> name, e |-> idx, cmd |-> cmd, prelude |-> Prelude, pre |-> e.pre, post |-> e.post,
                       plain |-> Strs(PlainVec(table, inv)),
                       vecs |-> SetToSeqAny({Strs(w) : w \in cls})]))

Emit ==
  LET kind == job[1] b == job[2] e == job[3] IN
  CASE kind = "valid" ->
         (e <= Len(Catalogue[b].entries)) =>
            ClassLine("valid", Catalogue[b].b, Catalogue[b].cmd, Catalogue[b].table, ModeExt,
                      Catalogue[b].entries[e], e)
    [] kind = "bad" ->
         LET c == Catalogue[b]
             e1 == c.entries[1]
             base == [k \in DOMAIN e1.ops |-> Chars(e1.ops[k])]
             bad == BadVecs(c.table, c.bad, base)
         IN /\ Assert(BadOK(c.table, bad), <<"malformed vector accepted by the specification", c.b>>)
            /\ PrintT(ToJson([kind |-> "bad", b |-> c.b, e |-> 0, cmd |-> c.cmd, prelude |-> Prelude, pre |-> e1.pre,
                              post |-> e1.post, bad |-> BadJson(bad)]))
    [] kind = "sh" -> ClassLine("sh", "sh", "", T_sh, ModeExt, ShCatalogue[e], e)
    [] kind = "shbad" ->
         LET base == PlainVec(T_sh, InvOf(T_sh, ShCatalogue[1]))
             bad == BadVecs(T_sh, ShBad, base)
         IN /\ Assert(BadOK(T_sh, bad), <<"malformed vector accepted by the specification", "sh">>)
            /\ PrintT(ToJson([kind |-> "shbad", b |-> "sh", e |-> 0, cmd |-> "", prelude |-> "", pre |-> "", post |-> "",
                              bad |-> BadJson(bad)]))
    [] kind = "pvalid" ->
         (e <= Len(Catalogue[b].entries) /\ Catalogue[b].b \notin PortableSkip) =>
            PortableLines(Catalogue[b], Catalogue[b].entries[e], e)
    [] kind = "getopts" ->
         (e <= Len(GetoptsEntries)) =>
            ClassLine("getopts", "getopts-loop", GetoptsCmd, T_getopts, ModeShortOnly, GetoptsEntries[e], e)
=============================================================================
