\* negative configuration: the wrong variant "def_runs_body" must be refuted by P_DefineInert
SPECIFICATION Spec
CONSTANTS
  MaxDepth = 4
  Variant = "def_runs_body"
  Fams = {"pos"}
  LB = 1
  LM = 1
  Wide = {}
  Stepwise = TRUE
PROPERTY P_DefineInert
