SPECIFICATION Spec
CONSTANTS
  Fuel = 24
  TickLimit = 2
  K = 3
  Alphabet <- AlphaAll
  ItemAlphabet <- ItemsAll
  Mode = "c02"
INVARIANT Laws
CHECK_DEADLOCK FALSE
