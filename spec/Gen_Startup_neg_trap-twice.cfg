SPECIFICATION Spec
CONSTANT Fams = {"term"}
CONSTANT Deep = 0
CONSTANT Variant = "trap-twice"
INVARIANT Check
