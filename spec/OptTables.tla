------------------------------ MODULE OptTables ------------------------------
(***************************************************************************)
(* The bounded domain of C20's quantifier: "all option specifications over *)
(* a small alphabet x all argument vectors up to length 5 over {-, --, -a, *)
(* -ab, -b, -oX, -o, --long, --lo, --l, --long=X, X}".                     *)
(*                                                                         *)
(* TableOf(id), id \in 0..NTables-1, enumerates a family of option tables  *)
(* over the short names a, b, o and the long names long, lo, lock          *)
(* (mixed-radix decoding of id):                                           *)
(*   fa, fb, fo \in 0..2  a / b / o: absent, present, present with the     *)
(*                        other argument kind (a, b: 1 = no argument,      *)
(*                        2 = argument; o: 1 = argument, 2 = no argument)  *)
(*   ls \in 0..5          long names present: {}, {long}, {long, lo},      *)
(*                        {long, lock}, {long, lo, lock}, {lo}             *)
(*   hl \in 0..3          who is called `long`: own spec without / with    *)
(*                        argument, the a-spec, the o-spec                 *)
(*   hs \in 0..2          who is called `lo`: own spec without / with      *)
(*                        argument, the b-spec                             *)
(*   hk \in 0..1          `lock` without / with argument                   *)
(*   ex \in 0..3          extension flag on: nobody, the first spec, the   *)
(*                        spec called `long`, the last spec                *)
(*   ord \in 0..1         table order natural / reversed                   *)
(***************************************************************************)
EXTENDS OptParse

LONG == Chars("long")
LO == Chars("lo")
LOCK == Chars("lock")

Tokens == << Chars("-"), Chars("--"), Chars("-a"), Chars("-ab"), Chars("-b"), Chars("-oX"),
             Chars("-o"), Chars("--long"), Chars("--lo"), Chars("--l"), Chars("--long=X"),
             Chars("X") >>
NTok == Len(Tokens)

NTables == 3 * 3 * 3 * 6 * 4 * 3 * 2 * 4 * 2

OTOpt1(c, x) == IF c THEN <<x>> ELSE <<>>

TableOf(id) ==
  LET fa == id % 3
      fb == (id \div 3) % 3
      fo == (id \div 9) % 3
      ls == (id \div 27) % 6
      hl == (id \div 162) % 4
      hs == (id \div 648) % 3
      hk == (id \div 1944) % 2
      ex == (id \div 3888) % 4
      ord == (id \div 15552) % 2
      hasLong == ls \in {1, 2, 3, 4}
      hasLo == ls \in {2, 4, 5}
      hasLock == ls \in {3, 4}
      longOnA == hasLong /\ hl = 2 /\ fa > 0
      longOnO == hasLong /\ hl = 3 /\ fo > 0
      longAlone == hasLong /\ ~longOnA /\ ~longOnO
      loOnB == hasLo /\ hs = 2 /\ fb > 0
      loAlone == hasLo /\ ~loOnB
      base == OTOpt1(fa > 0, OptSpec("a", IF longOnA THEN LONG ELSE <<>>, fa = 2, FALSE))
              \o OTOpt1(fb > 0, OptSpec("b", IF loOnB THEN LO ELSE <<>>, fb = 2, FALSE))
              \o OTOpt1(fo > 0, OptSpec("o", IF longOnO THEN LONG ELSE <<>>, fo = 1, FALSE))
              \o OTOpt1(longAlone, OptSpec("", LONG, hl \in {1, 3}, FALSE))
              \o OTOpt1(loAlone, OptSpec("", LO, hs = 1, FALSE))
              \o OTOpt1(hasLock, OptSpec("", LOCK, hk = 1, FALSE))
      n == Len(base)
      L == {i \in 1..n : base[i].l = LONG}
      xi == IF n = 0 \/ ex = 0 THEN 0
            ELSE IF ex = 1 THEN 1
            ELSE IF ex = 2 THEN (IF L = {} THEN 0 ELSE CHOOSE i \in L : TRUE)
            ELSE n
      withx == [i \in 1..n |-> IF i = xi THEN [base[i] EXCEPT !.x = TRUE] ELSE base[i]]
  IN IF ord = 0 THEN withx ELSE [i \in 1..n |-> withx[n + 1 - i]]

ArgvOf(v) == [n \in 1..Len(v) |-> Tokens[v[n]]]
=============================================================================
