SPECIFICATION Spec
CONSTANT Fams = {"exp1", "ps2", "multi", "eof", "jobs", "read", "modes"}
CONSTANT Deep = 0
CONSTANT Variant = "spec"
INVARIANT Laws
