SPECIFICATION LSpec
CONSTANTS
  Names = {"x", "y"}
  Vals = {"a", "b"}
  MaxDepth = 9
  PosVals <- PosNone
  Thens = {"none", "assign", "export", "ro"}
  MaxLen = 10
  MaxCalls = 2
  Cmds = {"assign", "sassign", "pbuiltin", "call", "ext", "typeset", "export", "readonly", "unset", "setpos"}
INVARIANT TypeOK
INVARIANT DepthMatchesFrames
INVARIANT EmitScript
