INIT Init
NEXT Next
VIEW view
CONSTANTS
  PNorm <- AlphaCollT
  PLit <- NoChars
  PMacro <- CollMacros
  PLen = 5
  SAlpha <- StrFull
  SLen = 3
  Kind = "match"
INVARIANT Emit
