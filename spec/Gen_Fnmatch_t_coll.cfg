INIT Init
NEXT Next
VIEW view
CONSTANTS
  PNorm <- AlphaColl
  PLit <- NoChars
  PMacro <- CollMacros
  PLen = 6
  SAlpha <- StrFull
  SLen = 3
  Kind = "match"
INVARIANT Emit
