SPECIFICATION Spec
CONSTANT Family = "p"
CONSTANT Slice = 1
CONSTANT Level = 1
CONSTANT Depth = 0
CONSTANT RLen = 0
VIEW View
INVARIANT Emit
