---------------------------- MODULE ProcGroupsScn ----------------------------
(***************************************************************************)
(* The scenario catalogue of G16: families of command lists (with the      *)
(* signals the terminal driver sends) crossed with shell configurations.   *)
(* Used by the bounded model (MC_ProcGroups) and by the generator          *)
(* (Gen_ProcGroups).  Tags are q<k>z: no tag is a substring of another, so *)
(* `%?tag` names the job whose text contains the probe.                    *)
(***************************************************************************)
EXTENDS ProcGroups

T(k) == "q" \o ToString(k) \o "z"
P(k) == Pb(T(k))
Sc(prog, env) == [prog |-> prog, env |-> env]

\* foreground jobs that end by themselves (every configuration)
FamFg == <<
  Sc(<<P(1), Sub(<<P(2)>>), P(3)>>, <<>>),
  Sc(<<P(1), Pipe(<<P(2)>>, <<P(3)>>), P(4)>>, <<>>),
  Sc(<<Sub(<<P(1), Ret(3)>>), P(2)>>, <<>>),
  Sc(<<Pipe(<<P(1), Ret(2)>>, <<P(2), Ret(5)>>), P(3)>>, <<>>),
  Sc(<<Sub(<<P(1), Sub(<<P(2)>>), P(3)>>), P(4)>>, <<>>),
  Sc(<<Sub(<<Pipe(<<P(1)>>, <<P(2)>>), P(3)>>), P(4)>>, <<>>),
  Sc(<<Pipe(<<Sub(<<P(1)>>)>>, <<P(2)>>), P(3)>>, <<>>),
  Sc(<<CSub(<<P(1)>>), P(2)>>, <<>>),
  Sc(<<Sub(<<CSub(<<P(1)>>), P(2)>>), P(3)>>, <<>>),
  Sc(<<Sub(<<Async(<<P(1)>>), P(2)>>), P(3)>>, <<>>),
  Sc(<<Sub(<<P(1)>>), Pipe(<<P(2)>>, <<P(3)>>), P(4)>>, <<>>) >>

\* asynchronous lists (every configuration)
FamAsync == <<
  Sc(<<Async(<<P(1)>>), P(2), Wait(1), P(3)>>, <<>>),
  Sc(<<Async(<<Pipe(<<P(1)>>, <<P(2)>>)>>), P(3), Wait(1), P(4)>>, <<>>),
  Sc(<<Async(<<P(1), Ret(4)>>), Wait(1), P(2)>>, <<>>),
  Sc(<<Async(<<P(1)>>), Sub(<<P(2)>>), P(3), Wait(1)>>, <<>>),
  Sc(<<Async(<<P(1)>>), Async(<<P(2)>>), P(3), Wait(1), Wait(2), P(4)>>, <<>>),
  Sc(<<Async(<<Sub(<<P(1)>>), P(2)>>), Wait(1), P(3)>>, <<>>) >>

\* jobs that stop themselves; fg and bg (job control only)
FamStop(sig) == <<
  Sc(<<Sub(<<P(1), StopMe(sig), P(2)>>), P(3), Fg(1), P(4)>>, <<>>),
  Sc(<<Sub(<<P(1), StopMe(sig), P(2), Ret(6)>>), P(3), Bg(1), P(4), Wait(1), P(5)>>, <<>>),
  Sc(<<Sub(<<P(1), StopMe(sig), P(2), StopMe(sig), P(3)>>), Fg(1), P(4), Fg(1), P(5)>>, <<>>),
  Sc(<<Sub(<<P(1), StopMe(sig), P(2)>>), Sub(<<P(3), StopMe(sig), P(4)>>), P(5), Fg(2), Fg(1), P(6)>>, <<>>),
  Sc(<<Async(<<P(1), StopMe(sig), P(2)>>), P(3), Fg(1), P(4)>>, <<>>),
  \* the jobs a subshell inherits are not its own
  Sc(<<Sub(<<P(1), StopMe(sig), P(2)>>), Sub(<<P(3), Fg(1), P(4), Bg(1), P(5)>>), Fg(1), P(6)>>, <<>>) >>

\* jobs stopped and interrupted from the terminal (job control only)
FamTty == <<
  Sc(<<Sub(<<P(1), Pause>>), P(2), Fg(1), P(3)>>, <<"TSTP", "INT">>),
  Sc(<<Pipe(<<P(1), Pause>>, <<P(2), Pause>>), P(3), Fg(1), P(4)>>, <<"TSTP", "INT">>),
  Sc(<<Pipe(<<P(1), Pause>>, <<P(2), Pause>>), P(3), Bg(1), P(4), Kill(1, "TERM"), Wait(1), P(5)>>, <<"TSTP">>),
  Sc(<<Sub(<<P(1), Pause>>), P(2)>>, <<"INT">>),
  Sc(<<Async(<<P(1), Pause>>), P(2), Fg(1), P(3)>>, <<"INT">>),
  Sc(<<Async(<<P(1), Pause>>), Sub(<<P(2), Pause>>), P(3), Kill(1, "TERM"), Wait(1), P(4)>>, <<"INT">>),
  Sc(<<Sub(<<P(1), Pause>>), P(2), Bg(1), P(3), Kill(1, "TERM"), Wait(1), P(4)>>, <<"TSTP">>) >>

\* several jobs at once (job control only; thorough tier)
FamMix == <<
  Sc(<<Async(<<P(1), Pause>>), Async(<<P(2), Pause>>), P(3), Fg(2), P(4), Fg(1), P(5)>>, <<"INT", "INT">>),
  Sc(<<Sub(<<P(1), Pause>>), Sub(<<P(2), Pause>>), P(3), Bg(1), Fg(2), P(4), Kill(1, "TERM"), Wait(1), P(5)>>,
     <<"TSTP", "TSTP", "INT">>),
  Sc(<<Pipe(<<P(1), Pause>>, <<P(2), Pause>>), Pipe(<<P(3), Pause>>, <<P(4), Pause>>), Fg(1), Fg(2), P(5)>>,
     <<"TSTP", "TSTP", "INT", "INT">>),
  Sc(<<Sub(<<P(1), StopMe("TSTP"), P(2), StopMe("STOP"), P(3), Ret(9)>>), Bg(1), P(4), Fg(1), P(5)>>, <<>>),
  Sc(<<Async(<<Pipe(<<P(1), Pause>>, <<P(2), Pause>>)>>), P(3), Fg(1), P(4)>>, <<"TSTP">>) >>

\* a process below the job's first process stops alone: nobody is told, the
\* job hangs (the specification predicts the hang)
FamHang == <<
  Sc(<<Sub(<<P(1), Sub(<<P(2), StopMe("TSTP"), P(3)>>), P(4)>>), P(5)>>, <<>>),
  Sc(<<Pipe(<<P(1), StopMe("STOP"), P(2)>>, <<P(3)>>), P(4)>>, <<>>) >>

\* a pipeline one of whose commands has already finished is stopped and resumed
\* (G16-F1), a job is signalled right after it has been started (G16-F2 in an
\* interactive shell) or when it has just terminated (G16-F1)
FamZomb == <<
  Sc(<<Pipe(<<P(1)>>, <<P(2), Pause>>), P(3), Fg(1), P(4)>>, <<"TSTP", "INT">>),
  Sc(<<Async(<<P(1), Pause>>), Kill(1, "TERM"), Wait(1), P(2)>>, <<>>),
  Sc(<<Async(<<P(1), Ret(5)>>), Kill(1, "INT"), Wait(1), P(2)>>, <<>>) >>

\* without job control the terminal signals reach everybody in the shell's group
FamNoMon == <<
  Sc(<<Async(<<P(1), Pause>>), Sub(<<P(2), Pause>>), P(3)>>, <<"INT">>),
  Sc(<<Async(<<P(1)>>), Fg(1), Bg(1), P(2), Wait(1), P(3)>>, <<>>) >>

Fam(f) == CASE f = "fg" -> FamFg [] f = "async" -> FamAsync
            [] f = "stop" -> FamStop("TSTP") \o FamStop("STOP")
            [] f = "stop1" -> FamStop("TSTP")
            [] f = "tty" -> FamTty [] f = "zomb" -> FamZomb [] f = "nomon" -> FamNoMon [] f = "mix" -> FamMix
            [] f = "hang" -> FamHang
FamNo(f) == CASE f = "fg" -> 1 [] f = "async" -> 2 [] f = "stop" -> 3 [] f = "stop1" -> 3 [] f = "tty" -> 4
              [] f = "zomb" -> 5 [] f = "nomon" -> 6 [] f = "mix" -> 7 [] f = "hang" -> 8
NeedsMonitor(f) == f \in {"stop", "stop1", "tty", "zomb", "mix", "hang"}

\* shell configurations: name -> [m, i, fg0, spg, sl]
CfgTable == <<
  [name |-> "m",   m |-> TRUE,  i |-> FALSE, fg0 |-> "shell", spg |-> "outer", sl |-> FALSE],
  [name |-> "mi",  m |-> TRUE,  i |-> TRUE,  fg0 |-> "shell", spg |-> "outer", sl |-> FALSE],
  [name |-> "-",   m |-> FALSE, i |-> FALSE, fg0 |-> "shell", spg |-> "outer", sl |-> FALSE],
  [name |-> "i",   m |-> FALSE, i |-> TRUE,  fg0 |-> "shell", spg |-> "outer", sl |-> FALSE],
  [name |-> "mo",  m |-> TRUE,  i |-> FALSE, fg0 |-> "shell", spg |-> "own",   sl |-> FALSE],
  [name |-> "mio", m |-> TRUE,  i |-> TRUE,  fg0 |-> "shell", spg |-> "own",   sl |-> FALSE],
  [name |-> "mb",  m |-> TRUE,  i |-> FALSE, fg0 |-> "other", spg |-> "outer", sl |-> FALSE],
  [name |-> "mib", m |-> TRUE,  i |-> TRUE,  fg0 |-> "other", spg |-> "own",   sl |-> FALSE],
  [name |-> "ml",  m |-> TRUE,  i |-> FALSE, fg0 |-> "other", spg |-> "own",   sl |-> TRUE],
  [name |-> "mil", m |-> TRUE,  i |-> TRUE,  fg0 |-> "other", spg |-> "own",   sl |-> TRUE] >>

Scenario(f, k, n, enf) ==
  LET cf == CfgTable[n]
      sc == Fam(f)[k]
  IN [id |-> 10000 * FamNo(f) + 100 * k + n + (IF enf THEN 50 ELSE 0), m |-> cf.m, i |-> cf.i, fg0 |-> cf.fg0, spg |-> cf.spg, sl |-> cf.sl,
      enf |-> enf, log |-> FALSE, prog |-> sc.prog, env |-> sc.env]

Triples(fams, cfgs) ==
  {t \in fams \X (1..20) \X (1..Len(CfgTable)) :
     /\ t[2] <= Len(Fam(t[1]))
     /\ CfgTable[t[3]].name \in cfgs
     /\ NeedsMonitor(t[1]) => CfgTable[t[3]].m
     /\ (t[1] = "nomon") => ~CfgTable[t[3]].m}

Catalogue(fams, cfgs, enfs) == {Scenario(t[1], t[2], t[3], e) : t \in Triples(fams, cfgs), e \in enfs}

=============================================================================
