\* NEGATIVE configuration: the named wrong action "unblock_no_sigchld" (a
\* pending signal that terminates the process when it is unblocked does not
\* raise SIGCHLD at the parent); TLC MUST report a deadlock: the parent sleeps
\* in `wait` forever.
SPECIFICATION Spec
CONSTANTS
  Variant = "unblock_no_sigchld"
  MaxP = 7
  Scripts <- CatNegSig
INVARIANTS NoErr InvReapOnce InvStatusTrue InvNoFgLeft InvJobsSound InvDenotation
