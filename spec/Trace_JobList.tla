---------------------------- MODULE Trace_JobList ----------------------------
(***************************************************************************)
(* P3/P2 validation for C12: every record {pre, op, res, post} observed on *)
(* the real JobList must be a step of JobListAbs, and every history must   *)
(* chain (the pre-state of a step is the post-state of the one before it   *)
(* unless the record starts a new history).                                *)
(***************************************************************************)
EXTENDS JobListAbs, Json, IOUtils

Rec == ndJsonDeserialize(IOEnv.TRACE)

VARIABLE l
vars == <<l>>

TraceInit == l = 1

StepOK(r) == ~r.pn /\ Step(r.pre, r.op, r.res, r.post)

TraceNext ==
  /\ l <= Len(Rec)
  /\ StepOK(Rec[l])
  /\ l' = l + 1

TraceSpec == TraceInit /\ [][TraceNext]_vars

Accepted ==
  LET d == TLCGet("stats").diameter
  IN IF d - 1 = Len(Rec) THEN TRUE
     ELSE Print(<<"REJECT", d, ToJson(Rec[d])>>, FALSE)
=============================================================================
