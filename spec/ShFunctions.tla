------------------------------ MODULE ShFunctions ----------------------------
(***************************************************************************)
(* Shell functions as a state machine (specification-growth module G12).   *)
(*                                                                         *)
(* Written from POSIX.1-2024 XCU 2.9.5 (function definition command),      *)
(* 2.9.1 (simple commands: assignments and redirections of a function      *)
(* call), 2.8.1 (consequences of shell errors), 2.13 (subshells), 2.15     *)
(* (break, return, unset) and the project manual                           *)
(* docs/src/language/functions.md, language/commands/simple.md,            *)
(* language/parameters/variables.md#local-variables,                       *)
(* builtins/{typeset,unset,return}.md.  It is NOT a transcription of       *)
(* yash-env/src/function.rs or yash-semantics.                             *)
(*                                                                         *)
(* Two layers:                                                             *)
(*  1. the function TABLE  name -> [d defined, ro read-only, b body, ...]  *)
(*     with the operations TDefine / TUnset / TMakeRO / TList (results     *)
(*     include the error kinds) -- bound call by call to                   *)
(*     yash_env::function::FunctionSet;                                    *)
(*  2. the CALL PROTOCOL: a small-step machine executing a script made of  *)
(*     a fixed command alphabet.  The shell execution environment is       *)
(*     S = [funs, glob, loc, pos, fd1, st, out, fo, fp, cap, stk, ...]     *)
(*     and stk is the control stack of activations (main, call, loop,      *)
(*     sub, pipe, cs).  StepF(S) is the (deterministic) successor; Exec    *)
(*     iterates it; Kind(S) names the action the step belongs to (Define,  *)
(*     Call, Return, UnsetF, MakeReadonly, List, ...).                     *)
(*                                                                         *)
(* What neither POSIX nor the manual fixes puts the run in class "open"    *)
(* (nothing is demanded but termination without a panic):                  *)
(*   - break with no lexically enclosing loop (XCU 2.15 break: unspecified *)
(*     whether a loop of the caller encloses it), return outside a         *)
(*     function or directly in a subshell of a function,                   *)
(*   - a redirection on a command name that is not found (order of         *)
(*     redirection and failed command search),                             *)
(*   - `typeset -fr a b` with several operands one of which is not a       *)
(*     function (what happens to the others),                              *)
(*   - truncating `>` on a file that another live descriptor writes        *)
(*     (file offsets are out of scope here),                               *)
(*   - `unset v` while a local variable v of a function hides another one. *)
(* Class "deep": more than MaxDepth nested calls (skipped and counted).    *)
(*                                                                         *)
(* Exit statuses the texts only call "non-zero" are the symbolic NZ (-1);  *)
(* the conformance check accepts any status 1..255 for it.                 *)
(*                                                                         *)
(* Variant # "" selects a named WRONG variant of the machine; the negative *)
(* model-checking configurations show that each is refuted by one of the   *)
(* invariants / action properties of MC_Functions.                         *)
(***************************************************************************)
EXTENDS Integers, Sequences, FiniteSets, TLC

CONSTANTS MaxDepth,   \* bound on nested function calls
          Variant     \* "" = the specification; otherwise a named wrong variant

Names == {"f", "g", "h", "v"}
\* "in alphabetical order" (typeset.md, Printing functions)
NameOrder == <<"f", "g", "h", "v">>
NZ == -1

(***************************************************************************)
(* Commands.  k kind, n name, a words, x string operand, i integer         *)
(* operand, r redirection, b nested commands.                              *)
(*   obs            observation: prints $? "$0" $# "$@" . ${v-U} ${t-U}    *)
(*                  and leaves $? unchanged (a regular built-in)           *)
(*   asg  n=x       assignment                                             *)
(*   loc  n=x       typeset n=x  (local to the function being executed)    *)
(*   set  a         set -- a...                                            *)
(*   st   i         `status i`: a regular built-in returning i             *)
(*   ret  i         return [i]   (i < 0: no operand)                       *)
(*   call n a x r   [t=x] n a... [r]   a word "@" stands for "$@"          *)
(*   rec  n         if $# > 0: shift; n "$@"   (spelt with case ... esac)    *)
(*   def  n b x i r n() { b; } r  (i = 1: n() ( b ) r; x spelling of n)    *)
(*   unsetf a i     [command] unset -f a...   (i = 1: through `command`)   *)
(*   mkro a         typeset -fr a...                                       *)
(*   list x         typeset -fp | lsf  (x = "r": -frp, "nr": -fp +r,       *)
(*                  "np": typeset -f, the -p may be omitted)               *)
(*   unsetv n       unset n   (the variable; functions are another         *)
(*                  namespace: functions.md, unset.md Compatibility)       *)
(*   for  i b       for i in 1..i; do b; done                              *)
(*   brk            break                                                  *)
(*   sub b          ( b )                                                  *)
(*   pipe b         { b; } | cat                                           *)
(*   cs b           echo "[$( b )]"                                        *)
(* Redirections r: "" none, ">o" truncating to /tmp/o, ">>p" appending to  *)
(* /tmp/p, "<x" from the nonexistent /tmp/x (fails).                       *)
(***************************************************************************)
Cmd(k, n, a, x, i, r, b) == [k |-> k, n |-> n, a |-> a, x |-> x, i |-> i, r |-> r, b |-> b]
CObs == Cmd("obs", "", <<>>, "", 0, "", <<>>)
CAsg(n, x) == Cmd("asg", n, <<>>, x, 0, "", <<>>)
CLoc(n, x) == Cmd("loc", n, <<>>, x, 0, "", <<>>)
CSet(a) == Cmd("set", "", a, "", 0, "", <<>>)
CSt(i) == Cmd("st", "", <<>>, "", i, "", <<>>)
CRet(i) == Cmd("ret", "", <<>>, "", i, "", <<>>)
CCall(n, a) == Cmd("call", n, a, "", 0, "", <<>>)
CCallX(n, a, x, r) == Cmd("call", n, a, x, 0, r, <<>>)
CRec(n) == Cmd("rec", n, <<>>, "", 0, "", <<>>)
CDef(n, b) == Cmd("def", n, <<>>, "lit", 0, "", b)
CDefX(n, b, x, i, r) == Cmd("def", n, <<>>, x, i, r, b)
CUnset(a, i) == Cmd("unsetf", "", a, "", i, "", <<>>)
CMkro(a) == Cmd("mkro", "", a, "", 0, "", <<>>)
CList(x) == Cmd("list", "", <<>>, x, 0, "", <<>>)
CUnsetV(n) == Cmd("unsetv", n, <<>>, "", 0, "", <<>>)
CFor(i, b) == Cmd("for", "", <<>>, "", i, "", b)
CBrk == Cmd("brk", "", <<>>, "", 0, "", <<>>)
CSub(b) == Cmd("sub", "", <<>>, "", 0, "", b)
CPipe(b) == Cmd("pipe", "", <<>>, "", 0, "", b)
CCs(b) == Cmd("cs", "", <<>>, "", 0, "", b)

(***************************************************************************)
(* Layer 1: the function table.                                            *)
(* functions.md: "You can redefine a function ... The new definition       *)
(* replaces the old one."  "Read-only functions cannot be redefined or     *)
(* removed."  unset.md: "Unsetting a read-only variable or function is an  *)
(* error.  It is not an error to unset a variable or function that is not  *)
(* set."  typeset.md: "It is an error to modify a non-existent function";  *)
(* "the read-only attribute cannot be removed".                            *)
(***************************************************************************)
Undef == [d |-> FALSE, ro |-> FALSE, b |-> <<>>, r |-> "", p |-> 0]
Entry(b, r, p) == [d |-> TRUE, ro |-> FALSE, b |-> b, r |-> r, p |-> p]
EmptyTable == [n \in Names |-> Undef]

IsRO(T, n) == T[n].d /\ T[n].ro

\* res: "new" | "replaced" | "err"
TDefine(T, n, e) ==
  IF IsRO(T, n) /\ Variant # "def_overwrites_ro" THEN [t |-> T, res |-> "err"]
  ELSE [t |-> [T EXCEPT ![n] = e], res |-> IF T[n].d THEN "replaced" ELSE "new"]

\* res: "removed" | "absent" | "err"
TUnset(T, n) ==
  IF IsRO(T, n) /\ Variant # "unset_ro_ok" THEN [t |-> T, res |-> "err"]
  ELSE [t |-> [T EXCEPT ![n] = Undef], res |-> IF T[n].d THEN "removed" ELSE "absent"]

\* res: "ok" | "err"
TMakeRO(T, n) ==
  IF ~T[n].d THEN [t |-> T, res |-> "err"]
  ELSE [t |-> [T EXCEPT ![n].ro = TRUE], res |-> "ok"]

\* unset -f a...: every operand is processed, errors are collected
\* (unset.md Errors; doc comment of yash_builtin::unset::semantics::unset_functions)
RECURSIVE TUnsetAll(_, _, _)
TUnsetAll(T, ns, i) ==
  IF i > Len(ns) THEN [t |-> T, err |-> FALSE]
  ELSE LET R == TUnset(T, ns[i])
       IN IF R.res = "err" /\ Variant = "unset_stops" THEN [t |-> T, err |-> TRUE]
          ELSE LET Q == TUnsetAll(R.t, ns, i + 1)
               IN [t |-> Q.t, err |-> Q.err \/ R.res = "err"]

RECURSIVE TMakeROAll(_, _, _)
TMakeROAll(T, ns, i) ==
  IF i > Len(ns) THEN [t |-> T, err |-> FALSE]
  ELSE LET R == TMakeRO(T, ns[i])
           Q == TMakeROAll(R.t, ns, i + 1)
       IN [t |-> Q.t, err |-> Q.err \/ R.res = "err"]

\* The listing of `typeset -fp`: for each function, in alphabetical order, a
\* definition command, followed by `typeset -fr name` iff it is read-only.
\* filt: "" all, "r" read-only ones only, "nr" the others only.
RECURSIVE TListFrom(_, _, _)
TListFrom(T, filt, i) ==
  IF i > Len(NameOrder) THEN <<>>
  ELSE LET n == NameOrder[i]
           sel == T[n].d /\ (filt \in {"", "np"} \/ (filt = "r") = T[n].ro)
           me == IF ~sel THEN <<>>
                 ELSE <<[k |-> "F", n |-> n]>> \o
                      (IF T[n].ro /\ Variant # "list_no_ro" THEN <<[k |-> "R", n |-> n]>> ELSE <<>>)
       IN me \o TListFrom(T, filt, i + 1)
TList(T, filt) == TListFrom(T, filt, 1)

\* "a format that can be evaluated as shell code to recreate the functions":
\* evaluating the listing, in order, in a shell without functions.
RECURSIVE Relist(_, _, _, _)
Relist(T0, ls, i, T) ==
  IF i > Len(ls) THEN T
  ELSE LET l == ls[i]
       IN IF l.k = "F" THEN Relist(T0, ls, i + 1, TDefine(T, l.n, [T0[l.n] EXCEPT !.ro = FALSE]).t)
          ELSE Relist(T0, ls, i + 1, TMakeRO(T, l.n).t)
RoundTrip(T) == Relist(T, TList(T, ""), 1, EmptyTable) = T

(***************************************************************************)
(* Layer 2: the machine.                                                   *)
(*   funs  function table          glob  global variables v, t ("U" unset) *)
(*   loc   stack of local-variable frames, one per function being          *)
(*         executed ("-" = not declared in this frame); the frame also     *)
(*         holds the temporary assignment t=x of the call                  *)
(*   pos   positional parameters   fd1   where standard output goes: "out" *)
(*         the shell's stdout, "o"/"p" the files, "c<k>" capture buffer k  *)
(*   st    $?    out, fo, fp  lines written so far    cap  capture buffers *)
(*   stk   activations [k, code, sv]   done / cls  finished, and how       *)
(* A line is [s, t]: s = the $? an observation printed (-2: none), t text. *)
(***************************************************************************)
Frame(t) == [v |-> "-", t |-> t]
Line(s, t) == [s |-> s, t |-> t]
Act(k, code, sv) == [k |-> k, code |-> code, sv |-> sv]
NoSave == [fd1 |-> "-"]

FrontOf(s) == SubSeq(s, 1, Len(s) - 1)
Top(S) == S.stk[Len(S.stk)]
SubLike == {"sub", "pipe", "cs"}

InitState(args, main) ==
  [funs |-> EmptyTable, glob |-> [v |-> "U", t |-> "U"], loc |-> <<>>, pos |-> args, fd1 |-> "out",
   st |-> 0, out |-> <<>>, fo |-> <<>>, fp |-> <<>>, cap |-> <<>>,
   stk |-> <<Act("main", main, NoSave)>>, done |-> FALSE, cls |-> "ok"]

Halt(S, cls) == [S EXCEPT !.done = TRUE, !.cls = cls]

\* ----- variables (variables.md, Local variables: dynamic scope) ---------
Declared(S, x) == {j \in 1..Len(S.loc) : S.loc[j][x] # "-"}
MaxOf(I) == CHOOSE j \in I : \A m \in I : m <= j
Lookup(S, x) == IF Declared(S, x) = {} THEN S.glob[x] ELSE S.loc[MaxOf(Declared(S, x))][x]
Assign(S, x, val) ==
  IF Declared(S, x) = {} THEN [S EXCEPT !.glob[x] = val]
  ELSE [S EXCEPT !.loc[MaxOf(Declared(S, x))][x] = val]
\* typeset x=val: local to the current function; outside a function the variable is global
Typeset(S, x, val) ==
  IF S.loc = <<>> THEN [S EXCEPT !.glob[x] = val] ELSE [S EXCEPT !.loc[Len(S.loc)][x] = val]

\* ----- output ------------------------------------------------------------
CapName(k) == CASE k = 1 -> "c1" [] k = 2 -> "c2" [] k = 3 -> "c3" [] OTHER -> "c4"
CapIdx(s) == CASE s = "c1" -> 1 [] s = "c2" -> 2 [] s = "c3" -> 3 [] OTHER -> 4
MaxCap == 4

Write(S, ln) ==
  CASE S.fd1 = "out" -> [S EXCEPT !.out = Append(@, ln)]
    [] S.fd1 = "o" -> [S EXCEPT !.fo = Append(@, ln)]
    [] S.fd1 = "p" -> [S EXCEPT !.fp = Append(@, ln)]
    [] OTHER -> [S EXCEPT !.cap[CapIdx(S.fd1)] = Append(@, ln)]
RECURSIVE WriteAll(_, _, _)
WriteAll(S, ls, i) == IF i > Len(ls) THEN S ELSE WriteAll(Write(S, ls[i]), ls, i + 1)

RECURSIVE JoinSp(_, _)
JoinSp(ws, i) == IF i > Len(ws) THEN "" ELSE " " \o ws[i] \o JoinSp(ws, i + 1)

ObsText(S) == "o ? yash " \o ToString(Len(S.pos)) \o JoinSp(S.pos, 1) \o " . "
              \o Lookup(S, "v") \o " " \o Lookup(S, "t")
ObsLine(S) == Line(S.st, ObsText(S))

ListLine(l) == Line(-2, l.k \o " " \o l.n)
ListLines(ls) == [i \in 1..Len(ls) |-> ListLine(ls[i])]

\* the text of echo "[$( ... )]" : the captured lines between brackets
Bracket(ls) ==
  IF ls = <<>> THEN <<Line(-2, "[]")>>
  ELSE [i \in 1..Len(ls) |->
          [ls[i] EXCEPT !.t = (IF i = 1 THEN "[" ELSE "") \o @ \o (IF i = Len(ls) THEN "]" ELSE "")]]

\* ----- redirections ------------------------------------------------------
\* some live descriptor (the current one or one saved by an activation) writes /tmp/o
Busy(S, f) == S.fd1 = f \/ \E j \in 1..Len(S.stk) : S.stk[j].sv.fd1 = f

\* performs redirection r; res "ok" | "fail" | "open"; live: descriptors that are
\* saved for later but not yet recorded in an activation
Redirect(S, r, live) ==
  CASE r = "" -> [S |-> S, res |-> "ok"]
    [] r = ">o" -> IF Busy(S, "o") \/ "o" \in live THEN [S |-> S, res |-> "open"]
                   ELSE [S |-> [S EXCEPT !.fo = <<>>, !.fd1 = "o"], res |-> "ok"]
    [] r = ">>p" -> [S |-> [S EXCEPT !.fd1 = "p"], res |-> "ok"]
    [] OTHER -> [S |-> S, res |-> "fail"]

\* ----- control -------------------------------------------------------------
CallDepth(S) == Cardinality({j \in 1..Len(S.stk) : S.stk[j].k = "call"})

RECURSIVE ExpandArgs(_, _, _)
ExpandArgs(a, pos, i) ==
  IF i > Len(a) THEN <<>>
  ELSE (IF a[i] = "@" THEN pos ELSE <<a[i]>>) \o ExpandArgs(a, pos, i + 1)

\* Leaving a subshell-like activation: the parent's environment is what it
\* was (XCU 2.13: changes made to the subshell environment cannot affect the
\* shell environment); what comes back is $? and the bytes written.
EndSubLike(S, status) ==
  LET a == Top(S)
      base == [S EXCEPT !.stk = FrontOf(@),
                        !.funs = IF Variant = "sub_leak" THEN @ ELSE a.sv.funs,
                        !.glob = a.sv.glob, !.loc = a.sv.loc, !.pos = a.sv.pos,
                        !.fd1 = a.sv.fd1, !.st = status]
  IN CASE a.k = "sub" -> base
       [] a.k = "pipe" ->
            \* the last command of the pipeline is `cat`: status 0
            [WriteAll([base EXCEPT !.cap = FrontOf(@)], S.cap[Len(S.cap)], 1) EXCEPT !.st = 0]
       [] OTHER ->
            [WriteAll([base EXCEPT !.cap = FrontOf(@)], Bracket(S.cap[Len(S.cap)]), 1) EXCEPT !.st = 0]

\* The shell (or the subshell being executed) exits: XCU 2.8.1, special
\* built-in utility error in a non-interactive shell "shall exit".
Exit(S, status) ==
  LET J == {j \in 1..Len(S.stk) : S.stk[j].k \in SubLike}
  IN IF J = {} THEN [S EXCEPT !.done = TRUE, !.st = status]
     ELSE LET j == MaxOf(J)
              \* capture buffers opened by sub-like activations above j are dropped
              above == Cardinality({m \in (j + 1)..Len(S.stk) : S.stk[m].k \in {"pipe", "cs"}})
              S1 == [S EXCEPT !.stk = SubSeq(@, 1, j), !.cap = SubSeq(@, 1, Len(@) - above)]
          IN EndSubLike(S1, status)

\* The function call on top of the stack completes (XCU 2.9.5: "When the
\* function completes, the positional parameters shall be restored";
\* variables.md: "Local variables are removed when the function returns";
\* simple.md: "Assigned variables are removed", "Redirections are canceled").
\* via: "end" | "ret" | "retloop"
CompleteCall(S, via) ==
  LET a == Top(S)
      keepPos == Variant = "ret_loop_norestore" /\ via = "retloop"
      keepLoc == Variant = "local_leak" /\ via # "end"
  IN [S EXCEPT !.stk = FrontOf(@),
               !.pos = IF keepPos THEN @ ELSE a.sv.pos,
               !.loc = IF keepLoc THEN @ ELSE FrontOf(@),
               !.fd1 = a.sv.fd1]

\* return [n] (return.md; XCU 2.15): ends the innermost function being
\* executed in this execution environment.
Return(S, c) ==
  LET J == {j \in 1..Len(S.stk) : S.stk[j].k # "loop"}
      j == MaxOf(J)
      status == IF c.i < 0 THEN S.st ELSE c.i
  IN IF S.stk[j].k # "call" THEN Halt(S, "open")
     ELSE CompleteCall([S EXCEPT !.stk = SubSeq(@, 1, j), !.st = status],
                       IF j < Len(S.stk) THEN "retloop" ELSE "ret")

\* The function call proper.  XCU 2.9.1: redirections of the simple command
\* are performed, then the assignments (in effect during the execution of the
\* function), the arguments become the positional parameters ($0 unchanged);
\* the body -- with the redirections of the function definition command,
\* performed at each call -- runs in the current environment.
DoCall(S, c) ==
  LET fn == S.funs[c.n]
  IN IF ~fn.d THEN
        \* XCU 2.9.1.4 / 2.8.2: command not found, status 127
        (IF c.r # "" THEN Halt(S, "open") ELSE [S EXCEPT !.st = 127])
     ELSE IF c.r = "<x" THEN [S EXCEPT !.st = NZ]     \* 2.8.1: shall not exit; the function is not run
     ELSE IF CallDepth(S) >= MaxDepth THEN Halt(S, "deep")
     ELSE
     LET R1 == Redirect(S, c.r, {})
     IN IF R1.res = "open" THEN Halt(S, "open")
        ELSE
        LET S1 == [R1.S EXCEPT !.loc = Append(@, Frame(IF c.x = "" THEN "-" ELSE c.x)),
                               !.pos = ExpandArgs(c.a, S.pos, 1)]
            body == IF fn.p = 1 THEN <<CSub(fn.b)>> ELSE fn.b
            act == Act("call", body, [pos |-> S.pos, fd1 |-> S.fd1, n |-> c.n, body |-> body])
            dr == IF Variant = "redir_at_def" THEN "" ELSE fn.r
            R2 == Redirect(S1, dr, {S.fd1})
        IN CASE R2.res = "open" -> Halt(S, "open")
             [] R2.res = "fail" ->
                  \* redirection error on the compound command that is the body
                  [CompleteCall([S1 EXCEPT !.stk = Append(@, act)], "end") EXCEPT !.st = NZ]
             [] OTHER ->
                  LET S2 == [R2.S EXCEPT !.stk = Append(@, act)]
                  IN IF Variant = "redir_def_once" THEN [S2 EXCEPT !.funs[c.n].r = ""] ELSE S2

EnterSub(S, c) ==
  LET sv == [funs |-> S.funs, glob |-> S.glob, loc |-> S.loc, pos |-> S.pos, fd1 |-> S.fd1]
  IN IF c.k = "sub" THEN [S EXCEPT !.stk = Append(@, Act("sub", c.b, sv))]
     ELSE IF Len(S.cap) >= MaxCap THEN Halt(S, "deep")
     ELSE [S EXCEPT !.stk = Append(@, Act(c.k, c.b, sv)), !.cap = Append(@, <<>>),
                    !.fd1 = CapName(Len(S.cap) + 1)]

\* the "definition-time expansion" wrong variant freezes the observation text
RECURSIVE Freeze(_, _, _)
Freeze(b, S, i) ==
  IF i > Len(b) THEN <<>>
  ELSE <<IF b[i].k = "obs" THEN [b[i] EXCEPT !.x = ObsText(S)] ELSE b[i]>> \o Freeze(b, S, i + 1)

\* Function definition command (XCU 2.9.5; functions.md "Defining functions"):
\* nothing of the body is executed or expanded; status 0, or non-zero if a
\* read-only function with that name exists.
Define(S, c) ==
  LET body == IF Variant = "def_time_expansion" THEN Freeze(c.b, S, 1) ELSE c.b
      R == TDefine(S.funs, c.n, Entry(body, c.r, c.i))
      S1 == IF R.res = "err" THEN [S EXCEPT !.st = NZ] ELSE [S EXCEPT !.funs = R.t, !.st = 0]
      \* wrong variants
      S2 == IF Variant = "redir_at_def" /\ c.r = ">o" /\ R.res # "err" THEN [S1 EXCEPT !.fo = <<>>] ELSE S1
      S3 == IF Variant = "redef_live" /\ R.res = "replaced"
            THEN [S2 EXCEPT !.stk = [j \in 1..Len(@) |->
                       IF @[j].k = "call" /\ @[j].sv.n = c.n THEN [@[j] EXCEPT !.code = c.b] ELSE @[j]]]
            ELSE S2
  IN IF Variant = "def_runs_body" /\ R.res # "err"
     THEN [S3 EXCEPT !.stk = Append(@, Act("loop", c.b, [fd1 |-> "-", body |-> c.b, left |-> 0]))]
     ELSE S3

\* unset -f a... : a special built-in (XCU 2.15); an error in a special built-in makes a
\* non-interactive shell exit unless it is executed through `command` (XCU command).
UnsetF(S, c) ==
  LET R == TUnsetAll(S.funs, c.a, 1)
      S1 == [S EXCEPT !.funs = R.t]
  IN IF ~R.err THEN [S1 EXCEPT !.st = 0]
     ELSE IF c.i = 1 THEN [S1 EXCEPT !.st = NZ]
     ELSE Exit(S1, NZ)

\* typeset -fr a... (typeset.md "Modifying function attributes")
MakeReadonly(S, c) ==
  LET R == TMakeROAll(S.funs, c.a, 1)
  IN IF ~R.err THEN [S EXCEPT !.funs = R.t, !.st = 0]
     ELSE IF Len(c.a) = 1 THEN [S EXCEPT !.st = NZ]
     ELSE Halt(S, "open")

\* One command c; S already has c removed from the code of the top activation.
Exec1(S, c) ==
  CASE c.k = "obs" -> Write(S, IF c.x = "" THEN ObsLine(S) ELSE Line(S.st, c.x))
    [] c.k = "asg" -> [Assign(S, c.n, c.x) EXCEPT !.st = 0]
    [] c.k = "loc" -> [Typeset(S, c.n, c.x) EXCEPT !.st = 0]
    [] c.k = "set" -> [S EXCEPT !.pos = c.a, !.st = 0]
    [] c.k = "st" -> [S EXCEPT !.st = c.i]
    [] c.k = "ret" -> Return(S, c)
    [] c.k = "call" -> DoCall(S, c)
    [] c.k = "rec" ->
         IF S.pos = <<>> THEN [S EXCEPT !.st = 0]
         ELSE DoCall([S EXCEPT !.pos = Tail(@), !.st = 0], CCall(c.n, <<"@">>))
    [] c.k = "def" -> Define(S, c)
    [] c.k = "unsetf" -> UnsetF(S, c)
    [] c.k = "mkro" -> MakeReadonly(S, c)
    [] c.k = "list" -> [WriteAll(S, ListLines(TList(S.funs, c.x)), 1) EXCEPT !.st = 0]
    \* unset n: the variable only ("POSIX allows the built-in to unset the same-named function
    \* ... Yash does not do this"); what it does to a variable hidden by a local one is
    \* "not portable" (unset.md) and left open here
    [] c.k = "unsetv" -> IF Declared(S, c.n) # {} THEN Halt(S, "open") ELSE [S EXCEPT !.glob[c.n] = "U", !.st = 0]
    [] c.k = "for" ->
         [S EXCEPT !.stk = Append(@, Act("loop", c.b, [fd1 |-> "-", body |-> c.b, left |-> c.i - 1]))]
    [] c.k = "brk" ->
         IF Top(S).k = "loop" THEN [S EXCEPT !.stk = FrontOf(@), !.st = 0] ELSE Halt(S, "open")
    [] c.k \in SubLike -> EnterSub(S, c)

\* The code of the top activation is exhausted.
EndAct(S) ==
  LET a == Top(S)
  IN CASE a.k = "main" -> [S EXCEPT !.done = TRUE]
       [] a.k = "call" -> CompleteCall(S, "end")
       [] a.k = "loop" ->
            IF a.sv.left > 0
            THEN [S EXCEPT !.stk[Len(S.stk)] = Act("loop", a.sv.body, [a.sv EXCEPT !.left = @ - 1])]
            ELSE [S EXCEPT !.stk = FrontOf(@)]
       [] OTHER -> EndSubLike(S, S.st)

Kind(S) ==
  IF S.done THEN "done"
  ELSE IF Top(S).code = <<>> THEN "end_" \o Top(S).k
  ELSE Head(Top(S).code).k

StepF(S) ==
  IF Top(S).code = <<>> THEN EndAct(S)
  ELSE LET c == Head(Top(S).code)
       IN Exec1([S EXCEPT !.stk[Len(S.stk)].code = Tail(@)], c)

RECURSIVE Exec(_)
Exec(S) == IF S.done THEN S ELSE Exec(StepF(S))

(***************************************************************************)
(* Script text.                                                            *)
(***************************************************************************)
RedirText(r) == CASE r = "" -> "" [] r = ">o" -> " >/tmp/o" [] r = ">>p" -> " >>/tmp/p" [] OTHER -> " </tmp/x"

RECURSIVE Words(_, _)
Words(a, i) == IF i > Len(a) THEN "" ELSE " " \o (IF a[i] = "@" THEN "\"$@\"" ELSE a[i]) \o Words(a, i + 1)

RECURSIVE Nums(_, _)
Nums(n, i) == IF i > n THEN "" ELSE " " \o ToString(i) \o Nums(n, i + 1)

NameText(n, style) ==
  CASE style = "var" -> "${n-" \o n \o "}"
    [] style = "quo" -> "\"" \o n \o "\""
    [] OTHER -> n

ObsCommand == "obs \"$0\" $# \"$@\" . \"${v-U}\" \"${t-U}\""

RECURSIVE CmdText(_), BodyText(_, _)
CmdText(c) ==
  CASE c.k = "obs" -> ObsCommand
    [] c.k = "asg" -> c.n \o "=" \o c.x
    [] c.k = "loc" -> "typeset " \o c.n \o "=" \o c.x
    [] c.k = "set" -> "set --" \o Words(c.a, 1)
    [] c.k = "st" -> "status " \o ToString(c.i)
    [] c.k = "ret" -> IF c.i < 0 THEN "return" ELSE "return " \o ToString(c.i)
    [] c.k = "call" -> (IF c.x = "" THEN "" ELSE "t=" \o c.x \o " ") \o c.n \o Words(c.a, 1) \o RedirText(c.r)
    [] c.k = "rec" -> "case $# in 0) ;; *) shift; " \o c.n \o " \"$@\";; esac"
    [] c.k = "def" -> NameText(c.n, c.x) \o "() "
                      \o (IF c.i = 1 THEN "( " \o BodyText(c.b, 1) \o " )" ELSE "{ " \o BodyText(c.b, 1) \o "; }")
                      \o RedirText(c.r)
    [] c.k = "unsetf" -> (IF c.i = 1 THEN "command " ELSE "") \o "unset -f" \o Words(c.a, 1)
    [] c.k = "mkro" -> "typeset -fr" \o Words(c.a, 1)
    [] c.k = "unsetv" -> "unset " \o c.n
    [] c.k = "list" -> (CASE c.x = "r" -> "typeset -frp" [] c.x = "nr" -> "typeset -fp +r" [] c.x = "np" -> "typeset -f"
                          [] OTHER -> "typeset -fp")
                       \o " | lsf"
    [] c.k = "for" -> "for i in" \o Nums(c.i, 1) \o "; do " \o BodyText(c.b, 1) \o "; done"
    [] c.k = "brk" -> "break"
    [] c.k = "sub" -> "( " \o BodyText(c.b, 1) \o " )"
    [] c.k = "pipe" -> "{ " \o BodyText(c.b, 1) \o "; } | cat"
    [] c.k = "cs" -> "echo \"[$( " \o BodyText(c.b, 1) \o " )]\""
BodyText(b, i) ==
  IF i > Len(b) THEN ""
  ELSE CmdText(b[i]) \o (IF i < Len(b) THEN "; " ELSE "") \o BodyText(b, i + 1)

\* the text of the compound command (with redirections) of a table entry
EntryText(e) ==
  (IF e.p = 1 THEN "( " \o BodyText(e.b, 1) \o " )" ELSE "{ " \o BodyText(e.b, 1) \o "; }") \o RedirText(e.r)

\* The EXIT trap is the observer of the final state: `snap` records the
\* function table, the raw listing follows the marker line.
Prologue == "trap 'snap end; echo ===; typeset -fp' EXIT; "
Script(sc) == Prologue \o BodyText(sc.main \o <<CObs>>, 1)

(***************************************************************************)
(* A scenario [args, main] and what is expected of it.                     *)
(***************************************************************************)
Start(sc) == InitState(sc.args, sc.main \o <<CObs>>)

RECURSIVE TabFrom(_, _)
TabFrom(T, i) ==
  IF i > Len(NameOrder) THEN <<>>
  ELSE (IF T[NameOrder[i]].d
        THEN <<[n |-> NameOrder[i], ro |-> T[NameOrder[i]].ro, txt |-> EntryText(T[NameOrder[i]])]>>
        ELSE <<>>) \o TabFrom(T, i + 1)

Expect(sc) ==
  LET F == Exec(Start(sc))
  IN [cls |-> F.cls, out |-> F.out, st |-> F.st, fo |-> F.fo, fp |-> F.fp, tab |-> TabFrom(F.funs, 1),
      script |-> Script(sc)]
=============================================================================
