---- MODULE T1_tmp ----
EXTENDS Prompt, Json
C0 == [src |-> "stdin", tin |-> TRUE, terr |-> TRUE, iflag |-> "", ign |-> FALSE, vb |-> FALSE, mflag |-> "", ps1 |-> NoPS, ps2 |-> NoPS, via |-> "rc"]
E1 == <<Ev("probe", "", "a", 0, <<>>), Ev("ps", "PS1", "", 0, <<Tok("lit","","@"), Tok("inc","n",""), Tok("lit","","!! ")>>),
        Ev("multi", "if", "k", 0, <<>>), Ev("synerr", "ifdone", "", 0, <<>>), Ev("bg", "", "3", 1, <<>>), Ev("tick","","",0,<<>>), Ev("eof","","",0,<<>>)>>
RR == Session(C0, E1, "spec")
ASSUME PrintT(RR.pat)
ASSUME PrintT(RR.chunks)
ASSUME PrintT(Render(RR.pat))
ASSUME PrintT(Matches(RR.pat, Render(RR.pat)))
ASSUME PrintT(Matches(RR.pat, RenderLast(RR.pat)))
ASSUME PrintT(Matches(RR.pat, Render(RR.pat) \o "x"))
====
