------------------------------ MODULE RedirAbs ------------------------------
(***************************************************************************)
(* ORACLE of property C09: what one command with a redirection list must   *)
(* do to the descriptor table and to the files, written from POSIX XCU     *)
(* 2.7 (Redirection), 2.8.1 (Consequences of Shell Errors), 2.9.1 (Simple  *)
(* Commands), the manual docs/src/language/redirections and                *)
(* docs/src/termination.md, and the module documentation of redir.rs       *)
(* (descriptors reserved by the shell).  Nothing here is transcribed from  *)
(* the implementation's call sequence.                                     *)
(*                                                                         *)
(* Verdict(rec) judges one OBSERVATION RECORD of one executed command:     *)
(*   rec.kind    special | builtin | function | group | subshell | pipe |  *)
(*               notfound | external | empty | exec (without operands) |   *)
(*               exec WITH operands, by what becomes of the utility:       *)
(*               execnf (no such utility in PATH) | execnx (a pathname     *)
(*               that does not exist) | execne (a file that cannot be      *)
(*               executed) | execdir (a directory) | execxf (found, but    *)
(*               the system refuses to execute it) |                       *)
(*               dot (`. file`) | cmddot (`command . file`): the command   *)
(*               body is read from a file, for which the shell needs a     *)
(*               descriptor of its own while the body runs                 *)
(*   rec.inter   the command is executed by an interactive shell (not in a *)
(*               subshell of it)                                           *)
(*   rec.nc      noclobber option on                                       *)
(*   rec.lim     RLIMIT_NOFILE in force (AbsNoLimit = not lowered)         *)
(*   rec.flt     a system call of the shell was made to fail while the     *)
(*               command was being applied (fault injection)               *)
(*   rec.bst     exit status the command body itself ends with             *)
(*   rec.list    the redirections, left to right: [t, op, path, n, data]   *)
(*               op in in(<) out(>) clob(>|) app(>>) rw(<>) dupin(<&n)     *)
(*               dupout(>&n) closein(<&-) closeout(>&-) here(<<)           *)
(*               piper / pipew (the command is a pipeline element or a     *)
(*               command substitution: the shell itself connects a pipe)   *)
(*   rec.before  descriptor table of the shell just before the command     *)
(*   rec.ran, rec.in   whether the command body ran, and the table it saw  *)
(*   rec.wr      the body's attempts to write one unit to descriptors      *)
(*   rec.after   descriptor table just after the command (or when the      *)
(*               shell exits because of it: rec.exited)                    *)
(*   rec.st      $? after the command / exit status of the shell           *)
(*   rec.files0, rec.files1   files before and after                       *)
(*   rec.stchk, rec.fchk      whether status / files were observable       *)
(* A table is a sequence of [fd, id, cx, r, w, app, off, path, data]; `id` *)
(* identifies the open file description (stable over the run).            *)
(*                                                                         *)
(* The result is the set of violated clauses (empty = allowed).            *)
(***************************************************************************)
EXTENDS Integers, Sequences, FiniteSets, TLC

AbsNoLimit == 9999
AbsGap     == "00"

RunKinds  == {"special", "builtin", "function", "group", "subshell", "pipe", "dot", "cmddot"}
\* special built-ins: an error (of a redirection, or of the built-in itself: XCU
\* 2.8.1, and `dot`: "if no readable file is found, a non-interactive shell shall
\* abort") ends a non-interactive shell; not so through `command`
\* `exec utility` whose utility cannot be executed (XCU exec: "If exec is
\* specified with a utility ... any redirections shall take effect"; exit status
\* 127 if the utility is not found, 126 if it is found but cannot be invoked; a
\* non-interactive shell exits, an interactive one need not; the manual,
\* builtins/exec.md: the redirections are made permanent "even if there are
\* operands", observable "when the utility cannot be invoked and the shell does
\* not exit"; "if the shell is not interactive, the current shell process will
\* exit with an error")
ExecOpKinds == {"execnf", "execnx", "execne", "execdir", "execxf"}
ExecKinds   == {"exec"} \cup ExecOpKinds
\* (an interactive shell does not exit on these errors: XCU 2.8.1 "the shell
\* shall not exit" in the interactive column)
ExitKinds == {"special", "exec", "dot"} \cup ExecOpKinds
\* commands that need a descriptor of the shell's own to run at all
NeedsFd   == {"dot", "cmddot"}

Entries(tab) == {tab[i] : i \in DOMAIN tab}
TabFn(tab)   == [f \in {e.fd : e \in Entries(tab)} |-> CHOOSE e \in Entries(tab) : e.fd = f]
FilesFn(fs)  == [p \in {e.path : e \in Entries(fs)} |->
                   LET e == CHOOSE x \in Entries(fs) : x.path = p
                   IN [kind |-> e.kind, data |-> e.data]]
Trip(tab)    == {<<e.fd, e.id, e.cx>> : e \in Entries(tab)}
Ids(tab)     == {e.id : e \in Entries(tab)}

\* attributes of an open file description; w: "y" | "n" | "u" (unspecified)
Attr(path, r, w, app, off, data) ==
  [path |-> path, r |-> r, w |-> w, app |-> app, off |-> off, data |-> data]

AbsPut(data, off, tok) ==
  LET padded == IF off > Len(data)
                THEN data \o [i \in 1 .. (off - Len(data)) |-> AbsGap] ELSE data
  IN IF off + 1 <= Len(padded) THEN [padded EXCEPT ![off + 1] = tok]
     ELSE Append(padded, tok)

-----------------------------------------------------------------------------
(* Meaning of one redirection (XCU 2.7.1 - 2.7.7).  S = [T, O, F, fail]:   *)
(* T maps the user-visible descriptors to names of open file descriptions  *)
(* (an observed id, or -i for the one opened by the i-th redirection), O   *)
(* gives their attributes, F the files, fail the index of the redirection  *)
(* that failed (0 = none).  `I` = descriptors reserved by the shell.       *)

FileEffect(F, p, trunc) ==
  IF F[p].kind = "none" THEN [F EXCEPT ![p] = [kind |-> "reg", data |-> <<>>]]
  ELSE IF trunc /\ F[p].kind = "reg" THEN [F EXCEPT ![p].data = <<>>]
  ELSE F

AbsRedir(S, r, i, nc, I) ==
  LET t       == r.t
      nm      == 0 - i
      kind    == S.F[r.path].kind
      Fail    == [S EXCEPT !.fail = i]
      Open(o, F2) == [S EXCEPT !.T = (t :> nm) @@ @, !.O = (nm :> o) @@ @, !.F = F2]
      Copy(n, needR) ==
        IF n \in I THEN Fail                              \* reserved by the shell (redir.rs)
        ELSE IF n \notin DOMAIN S.T THEN Fail             \* 2.7.5/2.7.6: not open
        ELSE IF needR /\ ~S.O[S.T[n]].r THEN Fail         \* not open for input
        ELSE IF ~needR /\ S.O[S.T[n]].w = "n" THEN Fail   \* not open for output
        ELSE [S EXCEPT !.T = (t :> S.T[n]) @@ @]
      Close == [S EXCEPT !.T = [f \in DOMAIN S.T \ {t} |-> S.T[f]]]
  IN IF t \in I THEN Fail
     ELSE CASE r.op = "in"   -> IF kind = "none" THEN Fail
                                ELSE Open(Attr(r.path, TRUE, "n", FALSE, 0, <<>>), S.F)
          [] r.op = "out"  -> IF kind = "dir" THEN Fail
                              ELSE IF nc /\ kind = "reg" THEN Fail       \* 2.7.2 noclobber
                              ELSE Open(Attr(r.path, FALSE, "y", FALSE, 0, <<>>),
                                        FileEffect(S.F, r.path, TRUE))
          [] r.op = "clob" -> IF kind = "dir" THEN Fail
                              ELSE Open(Attr(r.path, FALSE, "y", FALSE, 0, <<>>),
                                        FileEffect(S.F, r.path, TRUE))
          [] r.op = "app"  -> IF kind = "dir" THEN Fail
                              ELSE Open(Attr(r.path, FALSE, "y", TRUE, 0, <<>>),
                                        FileEffect(S.F, r.path, FALSE))
          [] r.op = "rw"   -> IF kind = "dir" THEN Fail
                              ELSE Open(Attr(r.path, TRUE, "y", FALSE, 0, <<>>),
                                        FileEffect(S.F, r.path, FALSE))
          [] r.op = "dupin"    -> Copy(r.n, TRUE)
          [] r.op = "dupout"   -> Copy(r.n, FALSE)
          [] r.op \in {"closein", "closeout"} -> Close
          [] r.op = "here"  -> Open(Attr("#", TRUE, "u", FALSE, 0, r.data), S.F)
          [] r.op = "piper" -> Open(Attr("|", TRUE, "n", FALSE, 0, <<>>), S.F)
          [] r.op = "pipew" -> Open(Attr("|", FALSE, "y", FALSE, 0, <<>>), S.F)

\* Initial abstract state taken from the observed table before the command.
AbsInit(rec) ==
  LET B == TabFn(rec.before)
      E == Entries(rec.before)
  IN [T |-> [f \in {g \in DOMAIN B : ~B[g].cx} |-> B[f].id],
      O |-> [x \in Ids(rec.before) |->
               LET e == CHOOSE y \in E : y.id = x
               IN Attr(e.path, e.r, IF e.w THEN "y" ELSE "n", e.app, e.off, e.data)],
      F |-> FilesFn(rec.files0),
      fail |-> 0]

Reserved(rec) == {e.fd : e \in {x \in Entries(rec.before) : x.cx}}

(* The list applied left to right (2.7: "evaluated from beginning to end").*)
(* stop = 0: only the operators' own errors.  stop = s > 0: descriptor     *)
(* allocation fails in the s-th redirection (possible only under a lowered *)
(* limit); eff tells whether the file had already been created/truncated.  *)
AbsList(rec, stop, eff) ==
  LET n == Len(rec.list)
      I == Reserved(rec)
      st[i \in 0 .. n] ==
        IF i = 0 THEN AbsInit(rec)
        ELSE LET P == st[i - 1]
             IN IF P.fail # 0 THEN P
                ELSE LET N == AbsRedir(P, rec.list[i], i, rec.nc, I)
                     IN IF i # stop \/ N.fail # 0 THEN N
                        ELSE [P EXCEPT !.fail = i, !.F = IF eff THEN N.F ELSE P.F]
  IN st[n]

\* path a diagnostic goes to: whatever descriptor 2 is at that moment
ErrPath(S) == IF 2 \in DOMAIN S.T THEN {S.O[S.T[2]].path} ELSE {}

(* The body writes one unit to each descriptor listed in rec.wr.           *)
AbsMarks(S, wr) ==
  LET n == Len(wr)
      M0 == [O |-> S.O, F |-> S.F, good |-> TRUE, taint |-> {}]
      mk[j \in 0 .. n] ==
        IF j = 0 THEN M0
        ELSE LET M == mk[j - 1]
                 x == wr[j]
             IN IF x.fd \notin DOMAIN S.T THEN [M EXCEPT !.good = @ /\ ~x.ok]
                ELSE LET nm == S.T[x.fd]
                         o  == M.O[nm]
                     IN IF o.w = "n" THEN [M EXCEPT !.good = @ /\ ~x.ok]
                        ELSE IF o.w = "u" THEN [M EXCEPT !.taint = @ \cup {o.path}]
                        ELSE IF ~x.ok THEN [M EXCEPT !.good = FALSE]
                        ELSE IF o.path \notin DOMAIN M.F THEN M
                        ELSE IF M.F[o.path].kind # "reg" THEN M
                        \* content or offset not made of whole units: not tracked
                        ELSE IF o.off < 0 \/ M.F[o.path].data = <<"!!">>
                             THEN [M EXCEPT !.taint = @ \cup {o.path}]
                        ELSE LET pos == IF o.app THEN Len(M.F[o.path].data) ELSE o.off
                             IN [M EXCEPT !.F[o.path].data = AbsPut(@, pos, x.tok),
                                          !.O[nm].off = pos + 1]
  IN mk[n]

-----------------------------------------------------------------------------
(* Comparing an observed table with the prescribed one.  Descriptions      *)
(* opened by the list must be new ones, distinct exactly as prescribed.    *)
\* (used: the description has been written through since it was opened - a
\* diagnostic message - so that its offset and, if it is the temporary file of a
\* here-document that happens to be writable, its content are not prescribed)
AttrOK(o, e, used) ==
  /\ e.path = o.path
  /\ e.r = o.r
  /\ (o.w = "u" \/ e.w = (o.w = "y"))
  /\ e.app = o.app
  /\ (used \/ e.off = 0)
  /\ (o.path = "#" => (e.data = o.data \/ (used /\ o.w = "u")))

MatchTabU(T, O, Ob, known, used) ==
  /\ DOMAIN T = DOMAIN Ob
  /\ \A f \in DOMAIN T :
        IF T[f] >= 0 THEN Ob[f].id = T[f]
        ELSE Ob[f].id \notin known /\ AttrOK(O[T[f]], Ob[f], T[f] \in used)
  /\ \A f, g \in DOMAIN T :
        (T[f] < 0 /\ T[g] < 0) => ((T[f] = T[g]) <=> (Ob[f].id = Ob[g].id))
MatchTab(T, O, Ob, known) == MatchTabU(T, O, Ob, known, {})

UserPart(tab) == LET B == TabFn(tab) IN [f \in {g \in DOMAIN B : ~B[g].cx} |-> B[f]]

\* "Descriptors the shell opens for its own use stay at 10 or above with
\* close-on-exec set": in these scripts the user never opens a descriptor
\* >= 10, so every descriptor >= 10 is the shell's own.
InternalOK(tab) == \A e \in Entries(tab) : e.cx <=> (e.fd >= 10)

\* after = before, or what differs is only extra shell-internal descriptors
AfterClause(rec) ==
  LET A == Trip(rec.after)
      B == Trip(rec.before)
  IN IF A = B THEN {}
     ELSE IF B \subseteq A /\ \A x \in A \ B : x[1] >= 10 /\ x[3]
          THEN {"after_leak"} ELSE {"after_changed"}

ExecAfterClause(rec, S) ==
  LET A == {x \in Trip(rec.after) : x[3]}
      B == {x \in Trip(rec.before) : x[3]}
      cxc == IF A = B THEN {}
             ELSE IF B \subseteq A /\ \A x \in A \ B : x[1] >= 10 THEN {"after_leak"}
             ELSE {"after_changed"}
      \* `exec utility` failed: a diagnostic message went to what descriptor 2 had become
      used == IF rec.kind \in ExecOpKinds /\ 2 \in DOMAIN S.T THEN {S.T[2]} ELSE {}
  IN cxc \cup (IF MatchTabU(S.T, S.O, UserPart(rec.after), Ids(rec.before), used) THEN {} ELSE {"after_exec"})

ExpectedStatus(rec) ==
  CASE rec.kind \in RunKinds -> rec.bst
    [] rec.kind = "notfound" -> 127
    [] rec.kind = "external" -> 126        \* found but cannot be executed (XCU 2.8.2)
    [] rec.kind = "empty"    -> 0
    [] rec.kind = "exec"     -> 0
    [] rec.kind \in {"execnf", "execnx"} -> 127
    [] rec.kind \in {"execne", "execdir", "execxf"} -> 126

Clauses(rec, S) ==
  LET failed == S.fail # 0
      runs   == rec.kind \in RunKinds /\ ~failed
      M      == IF runs /\ rec.ran THEN AbsMarks(S, rec.wr)
                ELSE [O |-> S.O, F |-> S.F, good |-> TRUE, taint |-> {}]
      taint  == M.taint \cup (IF failed \/ rec.kind \in {"notfound", "external"} \cup ExecOpKinds
                               THEN ErrPath(S) ELSE {})
      \* the shell ends because of this command
      exits  == ~rec.inter /\ (IF failed THEN rec.kind \in ExitKinds ELSE rec.kind \in ExecOpKinds)
      F1     == FilesFn(rec.files1)
      filesOK == \A p \in DOMAIN M.F :
                    \/ p \in taint
                    \/ /\ p \in DOMAIN F1
                       /\ F1[p].kind = M.F[p].kind
                       /\ (M.F[p].kind = "reg" => F1[p].data = M.F[p].data)
  IN (IF rec.ran = runs THEN {} ELSE {"ran"})
     \cup (IF runs /\ rec.ran /\ ~MatchTab(S.T, S.O, UserPart(rec.in), Ids(rec.before))
           THEN {"in_table"} ELSE {})
     \cup (IF InternalOK(rec.before) /\ InternalOK(rec.after) /\ (rec.ran => InternalOK(rec.in))
           THEN {} ELSE {"internal"})
     \cup (IF M.good THEN {} ELSE {"wr"})
     \* redirections on `exec` persist, with or without operands; where the shell
     \* ends with the failed `exec utility` nobody can observe its table any more
     \cup (IF rec.kind \in ExecKinds /\ ~failed
           THEN (IF rec.kind \in ExecOpKinds /\ exits /\ rec.exited THEN {} ELSE ExecAfterClause(rec, S))
           ELSE AfterClause(rec))
     \cup (IF ~rec.stchk THEN {}
           ELSE IF failed THEN (IF rec.st >= 1 /\ rec.st <= 125 THEN {} ELSE {"status"})
           ELSE IF rec.st = ExpectedStatus(rec) THEN {} ELSE {"status"})
     \cup (IF ~rec.stchk \/ rec.exited = exits THEN {} ELSE {"exit"})
     \cup (IF ~rec.fchk \/ filesOK THEN {} ELSE {"files"})

(* Allowed outcomes: the operators' own meaning; under a lowered limit, or *)
(* when a system call was made to fail (open, the temporary file of a      *)
(* here-document, writing or rewinding it, F_DUPFD, pipe: any step may     *)
(* fail after the previous ones succeeded),                                *)
(* also a failure                              in any redirection, or - for a  *)
(* command that needs a descriptor of the shell's own - in the command     *)
(* itself after its redirections were applied (stop = Len(list) + 1: the   *)
(* command does not run, fails like any failing command of its kind, and   *)
(* the table must still be what it was before).  The                       *)
(* verdict is that of the outcome the observation is closest to (fewest    *)
(* violated clauses), with the index of the redirection failing in it.     *)
\* the system may refuse a call the shell makes for this command
Loose(rec) == rec.lim # AbsNoLimit \/ rec.flt

Outcomes(rec) ==
  {<<0, FALSE>>} \cup
  (IF Loose(rec) THEN (1 .. Len(rec.list)) \X BOOLEAN ELSE {}) \cup
  (IF Loose(rec) /\ rec.kind \in NeedsFd THEN {<<Len(rec.list) + 1, FALSE>>} ELSE {})

\* the state after the list, for outcome o
AbsOutcome(rec, o) ==
  LET S == AbsList(rec, o[1], o[2])
  IN IF o[1] = Len(rec.list) + 1 /\ S.fail = 0 THEN [S EXCEPT !.fail = o[1]] ELSE S

VerdictFull(rec) ==
  LET sem == AbsList(rec, 0, FALSE)
      cs  == Clauses(rec, sem)
  IN IF cs = {} \/ ~Loose(rec) THEN [clauses |-> cs, fail |-> sem.fail]
     ELSE LET cand == {[clauses |-> Clauses(rec, AbsOutcome(rec, o)),
                        fail |-> AbsOutcome(rec, o).fail] : o \in Outcomes(rec)}
              semV == [clauses |-> cs, fail |-> sem.fail]
          IN IF \A d \in cand : Cardinality(cs) <= Cardinality(d.clauses) THEN semV
             ELSE CHOOSE c \in cand : \A d \in cand : Cardinality(c.clauses) <= Cardinality(d.clauses)

Verdict(rec) == VerdictFull(rec).clauses

\* index of the redirection the oracle says fails by its own meaning (0 if none)
SemFail(rec) == AbsList(rec, 0, FALSE).fail
=============================================================================
