\* negative configuration: the wrong variant "sub_leak" must be refuted by P_SubContained
SPECIFICATION Spec
CONSTANTS
  MaxDepth = 4
  Variant = "sub_leak"
  Fams = {"sub"}
  LB = 1
  LM = 1
  Wide = {}
  Stepwise = TRUE
PROPERTY P_SubContained
