----------------------------- MODULE Semantics -----------------------------
(***************************************************************************)
(* Semantics of the core command language of the shell (properties C02 and *)
(* C10), written from POSIX.1-2024 XCU 2.8.1 (consequences of shell        *)
(* errors), 2.9.1-2.9.5 (simple commands, pipelines, lists, compound       *)
(* commands, functions), 2.15 (break, continue, exit, return, set -e, trap)*)
(* and the project manual (docs/src/termination.md,                        *)
(* docs/src/language/commands/*.md, docs/src/builtins/*.md).  It is NOT a  *)
(* transcription of yash-semantics.                                        *)
(*                                                                         *)
(* The definition is a big-step interpreter Ev(node, state, context) over  *)
(* an abstract syntax tree.  Leaf commands are abstract observation        *)
(* points and control-flow built-ins:                                      *)
(*    mk m n   records <<m, $?>> and returns status n (regular built-in)   *)
(*    probe m  records <<m, $?>> and leaves $? unchanged (regular built-in)*)
(*    tick     increments a counter; succeeds the first TickLimit times    *)
(*    name     simple command `name` resolved in the POSIX search order    *)
(*    nil      a command whose words expand to nothing (`$unset`, "$@")    *)
(*    break n, continue n, return [n], exit [n], `:` and `.` (special)     *)
(*    the error leaves of 2.8.1 (assignment to a read-only variable,       *)
(*    ${U?} on an unset variable, `. /nonexistent`, redirection from a     *)
(*    nonexistent file)                                                    *)
(*                                                                         *)
(* A program yields the sequence of recorded <<marker, $?>> pairs, the     *)
(* final exit status and the number of EXIT-trap runs, or is classified    *)
(* "unspec" where POSIX leaves the behaviour open (rule 4.3.1 of DESIGN.md:*)
(* such programs are skipped and counted) or "div" when it does not        *)
(* terminate within the fuel (the property quantifies over programs        *)
(* executed to completion).                                                *)
(*                                                                         *)
(* Exit statuses POSIX only bounds ("non-zero", "between 1 and 125") are   *)
(* symbolic: the k-th such error of a run has status -(10+k).  A symbolic  *)
(* status is non-zero; the conformance check binds each symbol to the      *)
(* first value observed for it (which must lie in 1..255) and requires     *)
(* every later occurrence to be that same value.                           *)
(***************************************************************************)
EXTENDS Integers, Sequences, FiniteSets, TLC

CONSTANTS Fuel,        \* bound on loop iterations + function calls of one run
          TickLimit    \* `tick` succeeds this many times (per environment)

(***************************************************************************)
(* Syntax.  A program text is a sequence of tokens in prefix form; Parse   *)
(* turns it into a tree.  Token = [k, n, s, w, r]:                          *)
(*   k kind, n numeric operand, s string operand,                          *)
(*   w = 1: the simple command is run through the `command` built-in,      *)
(*   r = 1: the simple command carries a redirection that fails            *)
(*          (`< /nonexistent`).                                            *)
(* Tree node = token + m (marker: index of the token) + c (children).      *)
(***************************************************************************)
Tok(k, n, s, w, r) == [k |-> k, n |-> n, s |-> s, w |-> w, r |-> r]

LeafKinds == {"mk", "P", "tick", "cmd", "nil", "brk", "cnt", "ret", "exit", "nop", "dot",
              "asg", "asgc", "exp", "trap", "empty", "esac"}

\* Slot types: "C" any command, "N" any command but a sequential list,
\* "B" a possibly empty case body, "I" a chain of case items.
SlotsOf(k) ==
  CASE k \in LeafKinds -> <<>>
    [] k \in {"not", "sub", "rx", "def", "for"} -> <<"C">>
    [] k = "seq" -> <<"N", "C">>
    [] k \in {"and", "or", "pipe", "if", "while", "until"} -> <<"C", "C">>
    [] k = "ife" -> <<"C", "C", "C">>
    [] k = "case" -> <<"I">>
    [] k = "item" -> <<"B", "I">>

Arity(k) == Len(SlotsOf(k))

RECURSIVE ParseAt(_, _), ParseKids(_, _, _)
\* ParseAt(toks, i) = [t |-> tree rooted at token i, nx |-> index after it]
ParseAt(toks, i) ==
  LET tk == toks[i]
      ks == ParseKids(toks, i + 1, Arity(tk.k))
  IN [t |-> [k |-> tk.k, n |-> tk.n, s |-> tk.s, w |-> tk.w, r |-> tk.r, m |-> i, c |-> ks.c],
      nx |-> ks.nx]
ParseKids(toks, i, a) ==
  IF a = 0 THEN [c |-> <<>>, nx |-> i]
  ELSE LET first == ParseAt(toks, i)
           rest == ParseKids(toks, first.nx, a - 1)
       IN [c |-> <<first.t>> \o rest.c, nx |-> rest.nx]

Parse(toks) == ParseAt(toks, 1).t

\* A token sequence is a complete program iff parsing consumes it exactly.
RECURSIVE Open(_, _, _)
Open(toks, i, need) ==   \* number of still open slots after reading toks[i..]
  IF i > Len(toks) THEN need
  ELSE IF need = 0 THEN -1
  ELSE Open(toks, i + 1, need - 1 + Arity(toks[i].k))
WellFormed(toks) == Len(toks) > 0 /\ Open(toks, 1, 1) = 0

(***************************************************************************)
(* Run-time state and context.                                             *)
(*   st    $?                                                              *)
(*   tr    recorded <<marker, $?>> pairs, in execution order; the members  *)
(*         of a multi-command pipeline are listed in pipeline order (they  *)
(*         run concurrently; the conformance check linearises the observed *)
(*         events of concurrent processes the same way)                    *)
(*   dv    why execution is being abandoned: "none", "brk"/"cnt" (dn loops *)
(*         still to leave), "ret", "exit" (this shell environment          *)
(*         terminates with status st), "unspec", "div"                     *)
(*   fn    function table, v the `for` variable, c the tick counter        *)
(*   trap  marker of the EXIT trap action set in this environment, -1 none *)
(*   nt    number of EXIT trap actions run so far (all environments)       *)
(*   e     errexit option (1 = on)                                         *)
(*   fired TRUE iff this environment is terminating because of errexit     *)
(*   lc    ghost tag (no influence on the outcome): the rule "status of    *)
(*         the last compound-list-2 executed" was applied after a body cut *)
(*         short by continue                                               *)
(* Context (dynamic, handed down):                                         *)
(*   ig    -e is being ignored (XCU 2.15 set -e, exception 2)              *)
(*   ld    number of loops lexically enclosing the command in the current  *)
(*         function body and execution environment                         *)
(*   od    further loops in progress in the same execution environment     *)
(*         that do not lexically enclose the command                       *)
(*   infn  a function is being executed in this execution environment      *)
(***************************************************************************)
FNames == {"f", "g", "true", "false", "status"}
\* `true`/`false`: substitutive built-ins (found through PATH); `status`: a
\* regular built-in of the test bed that returns its operand, 0 without one.
BuiltinStatus(name) == CASE name \in {"true", "status"} -> 0 [] name = "false" -> 1 [] OTHER -> -1

Undef == [k |-> "undef", n |-> 0, s |-> "", w |-> 0, r |-> 0, m |-> 0, c |-> <<>>]

State0(e, trap) ==
  [st |-> 0, tr |-> <<>>, dv |-> "none", dn |-> 0, fn |-> [x \in FNames |-> Undef],
   v |-> "", c |-> 0, fuel |-> Fuel, en |-> 0, trap |-> trap, nt |-> 0, e |-> e,
   fired |-> FALSE, lc |-> FALSE]

Ctx0 == [ig |-> FALSE, ld |-> 0, od |-> 0, infn |-> FALSE]

Abandon(S, why) == [S EXCEPT !.dv = why]

\* XCU 2.15 set -e: "when any command fails ... the shell immediately shall
\* exit, as if by executing the exit special built-in utility with no
\* arguments".  Applied after simple commands, multi-command pipelines and
\* subshells (exception 3 removes all other compound commands).
Errexit(S, C) ==
  IF S.dv = "none" /\ S.e = 1 /\ ~C.ig /\ S.st # 0
  THEN [S EXCEPT !.dv = "exit", !.fired = TRUE]
  ELSE S

NewErr(S) == [S EXCEPT !.st = -(10 + S.en), !.en = @ + 1]
\* 2.8.1 "shall exit": special built-in errors, redirection errors with
\* special built-ins, variable assignment errors, expansion errors, syntax
\* errors (non-interactive shell; in a subshell the subshell exits).
ShellError(S) == [NewErr(S) EXCEPT !.dv = "exit"]
\* 2.8.1 "shall not exit" / termination.md: the command is not run, $? is
\* non-zero; the shell exits only if errexit says so.
SoftError(S, C) == Errexit(NewErr(S), C)

Record(S, m) == [S EXCEPT !.tr = Append(@, <<m, S.st>>)]

\* The EXIT trap action is `probe <marker>`: it records $? and leaves it.
RunExitTrap(S) ==
  IF S.trap >= 0 /\ S.dv \in {"none", "exit"}
  THEN [Record(S, S.trap) EXCEPT !.nt = @ + 1, !.trap = -1]
  ELSE S

Match(pat, subj) ==
  CASE pat = "*" -> TRUE
    [] pat = "a|b" -> subj \in {"a", "b"}
    [] OTHER -> pat = subj

Words(s) == CASE s = "ab" -> <<"a", "b">> [] s = "a" -> <<"a">> [] s = "ba" -> <<"b", "a">>
              [] s = "abc" -> <<"a", "b", "c">> [] OTHER -> <<>>

IsSpecial(k) == k \in {"brk", "cnt", "ret", "exit", "nop", "dot", "trap"}

Fn(S, name) == IF name \in FNames THEN S.fn[name] ELSE Undef

RECURSIVE Ev(_, _, _), WLoop(_, _, _, _, _, _), FLoop(_, _, _, _), Items(_, _, _, _, _, _)

\* A subshell environment: a duplicate of the shell environment (2.13); traps
\* are reset; loops of the parent do not enclose its commands (break,
\* continue: "executing in the same execution environment").  The duplicate
\* is still executing the function its parent was executing, so `return`
\* stops that execution in the subshell: nothing is left for the subshell
\* to do and it terminates with the status of return, while the parent goes
\* on in the function (at top level return stays unspecified).  What comes
\* back is $?, the observations and the bookkeeping.
Sub(t, S, C) ==
  LET S0 == Ev(t, [S EXCEPT !.trap = -1, !.fired = FALSE],
               [ig |-> C.ig, ld |-> 0, od |-> 0, infn |-> C.infn])
      S1 == IF S0.dv = "ret" THEN [S0 EXCEPT !.dv = "exit"] ELSE S0
      S2 == RunExitTrap(S1)
  IN [S EXCEPT !.st = S2.st, !.tr = S2.tr, !.fuel = S2.fuel, !.en = S2.en, !.nt = S2.nt,
               !.lc = S2.lc,
               !.dv = IF S2.dv \in {"unspec", "div"} THEN S2.dv ELSE "none"]

\* Function call (2.9.5): the body runs in the current environment; return
\* ends the innermost function only.
Call(body, S, C) ==
  IF S.fuel = 0 THEN Abandon(S, "div")
  ELSE LET S1 == Ev(body, [S EXCEPT !.fuel = @ - 1],
                    [ig |-> C.ig, ld |-> 0, od |-> C.ld + C.od, infn |-> TRUE])
       IN IF S1.dv = "ret" THEN [S1 EXCEPT !.dv = "none"] ELSE S1

\* break n / continue n (2.15): n = 0 is an operand error; without a
\* lexically enclosing loop, or with n exceeding the lexically enclosing
\* loops while another loop is in progress, the behaviour is unspecified;
\* otherwise min(n, ld) loops are left.
LoopExit(t, S, C) ==
  IF t.n = 0 THEN (IF t.w = 1 THEN SoftError(S, C) ELSE ShellError(S))
  ELSE IF C.ld = 0 \/ (t.n > C.ld /\ C.od > 0) THEN Abandon(S, "unspec")
  ELSE [S EXCEPT !.st = 0, !.dv = t.k, !.dn = IF t.n < C.ld THEN t.n ELSE C.ld]

\* Simple commands.  2.9.1.4 command search: special built-in, function,
\* other built-in, PATH; `command` suppresses the function lookup and the
\* special properties of special built-ins.
Simple(t, S, C) ==
  IF t.k \in {"asg", "asgc", "exp"} THEN ShellError(S)
  ELSE IF t.r = 1 THEN
     \* the redirection fails; the command is not run
     (IF IsSpecial(t.k) /\ t.w = 0 THEN ShellError(S)
      ELSE IF t.k = "cmd" /\ (t.w = 1 \/ Fn(S, t.s) = Undef) /\ BuiltinStatus(t.s) < 0
           THEN Abandon(S, "unspec")  \* order of redirection and failed command search
      ELSE SoftError(S, C))
  ELSE
  CASE t.k = "mk" -> Errexit([Record(S, t.m) EXCEPT !.st = t.n], C)
    [] t.k = "P" -> Errexit(Record(S, t.m), C)
    [] t.k = "tick" -> Errexit([S EXCEPT !.c = @ + 1, !.st = IF S.c + 1 <= TickLimit THEN 0 ELSE 1], C)
    [] t.k = "nop" -> [S EXCEPT !.st = 0]
    \* 2.9.1: all words expand to nothing, no command substitution: "the
    \* command shall complete with a zero exit status"
    [] t.k = "nil" -> [S EXCEPT !.st = 0]
    [] t.k = "trap" -> [S EXCEPT !.st = 0, !.trap = t.m]
    [] t.k = "dot" -> IF t.w = 1 THEN SoftError(S, C) ELSE ShellError(S)
    [] t.k \in {"brk", "cnt"} -> LoopExit(t, S, C)
    [] t.k = "ret" -> IF ~C.infn THEN Abandon(S, "unspec")
                      ELSE [S EXCEPT !.dv = "ret", !.st = IF t.n < 0 THEN S.st ELSE t.n]
    [] t.k = "exit" -> [S EXCEPT !.dv = "exit", !.st = IF t.n < 0 THEN S.st ELSE t.n]
    [] t.k = "cmd" ->
         IF t.w = 0 /\ Fn(S, t.s) # Undef THEN Errexit(Call(Fn(S, t.s), S, C), C)
         ELSE IF BuiltinStatus(t.s) >= 0 THEN Errexit([S EXCEPT !.st = BuiltinStatus(t.s)], C)
         ELSE Errexit([S EXCEPT !.st = 127], C)    \* 2.8.2: command not found

LeaveLoop(S) == IF S.dn = 1 THEN [S EXCEPT !.dv = "none", !.dn = 0] ELSE [S EXCEPT !.dn = @ - 1]

\* while/until (2.9.4.3/4): status of the last compound-list-2 executed, 0 if none.
\* last: status of the last body executed; lastn: of the last body that ran to its end.
WLoop(t, S, C, last, lastn, until) ==
  IF S.fuel = 0 THEN Abandon(S, "div")
  ELSE
  LET C1 == [C EXCEPT !.ld = @ + 1]
      S1 == Ev(t.c[1], [S EXCEPT !.fuel = @ - 1], [C1 EXCEPT !.ig = TRUE])
  IN CASE S1.dv = "brk" ->
            \* break in the *condition*.  2.9.4.3 says "the exit status of the last
            \* compound-list-2 executed" (dash), but break itself completes with 0 and
            \* bash and this project return that; yash-semantics pins it in a unit test
            \* commented "It is POSIXly unclear what the exit status ... should be".
            \* Where the two readings differ the run is unspecified.
            (IF S1.dn = 1
             THEN (IF last # 0 THEN Abandon(S1, "unspec") ELSE [LeaveLoop(S1) EXCEPT !.st = 0])
             ELSE LeaveLoop(S1))
       [] S1.dv = "cnt" -> (IF S1.dn = 1 THEN WLoop(t, LeaveLoop(S1), C, last, lastn, until)
                            ELSE LeaveLoop(S1))
       [] S1.dv # "none" -> S1
       [] (S1.st = 0) = until -> [S1 EXCEPT !.st = last, !.lc = @ \/ last # lastn]
       [] OTHER ->
          (LET S2 == Ev(t.c[2], S1, C1)
           IN CASE S2.dv = "brk" -> LeaveLoop(S2)
                [] S2.dv = "cnt" -> (IF S2.dn = 1 THEN WLoop(t, LeaveLoop(S2), C, S2.st, lastn, until)
                                     ELSE LeaveLoop(S2))
                [] S2.dv # "none" -> S2
                [] OTHER -> WLoop(t, S2, C, S2.st, S2.st, until))

\* for (2.9.4.2): status of the last command executed, 0 if there are no items.
FLoop(t, ws, S, C) ==
  IF ws = <<>> THEN S
  ELSE IF S.fuel = 0 THEN Abandon(S, "div")
  ELSE
  LET S1 == Ev(t.c[1], [S EXCEPT !.v = Head(ws), !.fuel = @ - 1], [C EXCEPT !.ld = @ + 1])
  IN CASE S1.dv = "brk" -> LeaveLoop(S1)
       [] S1.dv = "cnt" -> (IF S1.dn = 1 THEN FLoop(t, Tail(ws), LeaveLoop(S1), C) ELSE LeaveLoop(S1))
       [] S1.dv # "none" -> S1
       [] OTHER -> FLoop(t, Tail(ws), S1, C)

\* case (2.9.4.5 and case.md): zero if no pattern matches or the last
\* executed clause is empty, else the status of the last executed clause.
\* z = "no clause executed yet, or the last executed clause was empty".
Items(it, subj, fall, z, S, C) ==
  IF it.k = "esac" THEN (IF z THEN [S EXCEPT !.st = 0] ELSE S)
  ELSE IF fall \/ Match(it.s, subj) THEN
    LET body == it.c[1]
        empty == body.k = "empty"
        S1 == IF empty THEN S ELSE Ev(body, S, C)
    IN IF S1.dv # "none" THEN S1
       ELSE CASE it.n = 0 -> (IF empty THEN [S1 EXCEPT !.st = 0] ELSE S1)
              [] it.n = 1 -> Items(it.c[2], subj, TRUE, empty, S1, C)
              [] OTHER -> Items(it.c[2], subj, FALSE, empty, S1, C)
  ELSE Items(it.c[2], subj, FALSE, z, S, C)

Ev(t, S, C) ==
  CASE t.k = "seq" ->
         LET S1 == Ev(t.c[1], S, C) IN IF S1.dv # "none" THEN S1 ELSE Ev(t.c[2], S1, C)
    [] t.k \in {"and", "or"} ->
         \* 2.9.3: left-associative, equal precedence; -e ignored for all but the last
         LET S1 == Ev(t.c[1], S, [C EXCEPT !.ig = TRUE])
         IN IF S1.dv # "none" THEN S1
            ELSE IF (S1.st = 0) = (t.k = "and") THEN Ev(t.c[2], S1, C) ELSE S1
    [] t.k = "not" ->
         \* 2.9.2: `!` inverts the status only; -e ignored inside
         LET S1 == Ev(t.c[1], S, [C EXCEPT !.ig = TRUE])
         IN IF S1.dv # "none" THEN S1 ELSE [S1 EXCEPT !.st = IF S1.st = 0 THEN 1 ELSE 0]
    [] t.k = "pipe" ->
         \* 2.9.2: each command in a subshell; status of the last command
         LET S1 == Sub(t.c[1], S, C)
         IN IF S1.dv # "none" THEN S1
            ELSE Errexit(Sub(t.c[2], [S1 EXCEPT !.st = S.st], C), C)
    [] t.k = "sub" -> Errexit(Sub(t.c[1], S, C), C)
    [] t.k = "rx" -> SoftError(S, C)   \* redirection error with a compound command
    [] t.k = "def" -> [S EXCEPT !.fn[t.s] = t.c[1], !.st = 0]
    [] t.k = "if" ->
         LET S1 == Ev(t.c[1], S, [C EXCEPT !.ig = TRUE])
         IN IF S1.dv # "none" THEN S1
            ELSE IF S1.st = 0 THEN Ev(t.c[2], S1, C) ELSE [S1 EXCEPT !.st = 0]
    [] t.k = "ife" ->
         LET S1 == Ev(t.c[1], S, [C EXCEPT !.ig = TRUE])
         IN IF S1.dv # "none" THEN S1
            ELSE IF S1.st = 0 THEN Ev(t.c[2], S1, C) ELSE Ev(t.c[3], S1, C)
    [] t.k = "while" -> WLoop(t, S, C, 0, 0, FALSE)
    [] t.k = "until" -> WLoop(t, S, C, 0, 0, TRUE)
    [] t.k = "for" -> IF Words(t.s) = <<>> THEN [S EXCEPT !.st = 0] ELSE FLoop(t, Words(t.s), S, C)
    [] t.k = "case" -> Items(t.c[1], IF t.s = "v" THEN S.v ELSE t.s, FALSE, TRUE, S, C)
    [] OTHER -> Simple(t, S, C)

(***************************************************************************)
(* A whole program.  The shell reads and executes one complete command     *)
(* line at a time (2.3, 2.10): the items of the top-level sequential list  *)
(* are the lines.  Options of a run: e errexit, t EXIT trap set on the     *)
(* first line (action `probe 0`), y > 0: a line with a syntax error        *)
(* follows line y (the rest is never read).  A run may also have the       *)
(* monitor option on (field m of the options, where present): XCU 2.15     *)
(* set -e/-m and 2.9 give it no influence on anything this specification   *)
(* speaks about (job control changes process groups and reporting, not     *)
(* which commands run, $? or when the shell exits), so Run does not read   *)
(* it; the conformance check runs such scenarios against the same outcome. *)
(***************************************************************************)
RECURSIVE Lines(_)
Lines(t) == IF t.k = "seq" THEN <<t.c[1]>> \o Lines(t.c[2]) ELSE <<t>>

RECURSIVE RunLines(_, _, _, _)
RunLines(ls, i, y, S) ==
  IF S.dv # "none" THEN S
  ELSE IF y > 0 /\ i = y + 1 THEN ShellError(S)
  ELSE IF i > Len(ls) THEN S
  ELSE RunLines(ls, i + 1, y, Ev(ls[i], S, Ctx0))

Run(t, o) ==
  LET S1 == RunLines(Lines(t), 1, o.y, State0(o.e, IF o.t = 1 THEN 0 ELSE -1))
      S2 == RunExitTrap(S1)
  IN [oc |-> IF S2.dv \in {"unspec", "div"} THEN S2.dv ELSE "ok",
      tr |-> S2.tr, st |-> S2.st, nt |-> S2.nt, fired |-> S2.fired, x |-> S2.dv,
      tag |-> IF S2.lc THEN "C" ELSE ""]

NLines(t) == Len(Lines(t))
=============================================================================
