\* P1 (thorough): every interleaving of every script of the catalogue; deadlock
\* checking ON (./check passes deadlock=True); Emit prints the P3 catalogue.
SPECIFICATION Spec
CONSTANTS
  Variant = "ok"
  MaxP = 10
  Scripts <- CatThorough
INVARIANTS NoErr InvReapOnce InvStatusTrue InvNoFgLeft InvJobsSound InvDenotation Emit
