SPECIFICATION Spec
CONSTANTS
  Cfg = "t4"
  Bug = "none"
  Sim = TRUE
INVARIANT TypeOK
INVARIANT InternalInv
INVARIANT Conforms
INVARIANT Emit
