SPECIFICATION Spec
CONSTANT Fams = {"core", "long", "wide", "delim", "bytes", "errs", "noin"}
CONSTANT Deep = 2
INVARIANT Emit
