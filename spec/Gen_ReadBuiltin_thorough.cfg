SPECIFICATION Spec
CONSTANT Fams = {"core", "wide", "delim", "bytes", "errs", "noin"}
CONSTANT Deep = 2
INVARIANT Emit
