--------------------------- MODULE Calib_ListsExt ---------------------------
(***************************************************************************)
(* Calibration of the oracle ListsExt.tla (G18): worked examples           *)
(* transcribed by hand from the project manual (/repo/docs/src/language/   *)
(* commands/{pipelines,lists,case,loops,grouping}.md, builtins/wait.md)    *)
(* and from the POSIX-conformance scripts /repo/yash-cli/tests/            *)
(* scripted_test/{pipeline,async,case,for,grouping,wait,error}-p.sh and    *)
(* case-y.sh, for the part inside the modelled fragment.  `echo x` is      *)
(* transcribed as say or as an observation point mk(m, 0), `echo $?` as    *)
(* probe(m), `(exit n)` / `exit n` in a pipeline as exit n, `false` as     *)
(* mk(m, 1), `cat` as rd.  A failing ASSUME is a defect of the oracle      *)
(* (tool error), never a violation - except under a wrong Variant (the     *)
(* negative configurations), where at least one must fail.                 *)
(***************************************************************************)
EXTENDS ListsExt

L(k, n, s, m) == [k |-> k, n |-> n, s |-> s, m |-> m, c |-> <<>>]
N(k, n, s, m, c) == [k |-> k, n |-> n, s |-> s, m |-> m, c |-> c]
Mk(m, n) == L("mk", n, "", m)
P(m) == L("P", 0, "", m)
Pv(m) == L("pv", 0, "", m)
Pb(m) == L("pb", 0, "", m)
SayN(n) == L("say", n, "", 0)
Rdm(m) == L("rd", 0, "", m)
Asg(w) == L("asg", 0, w, 0)
Ro == L("ro", 0, "", 0)
SetPf(n) == L("setpf", n, "", 0)
SetPp(n) == L("setpp", n, "", 0)
Wait(s) == L("wait", 0, s, 0)
Kill(s) == L("kill", 0, s, 0)
Exit(n) == L("exit", n, "", 0)
Brk(n) == L("brk", n, "", 0)
False == Mk(900, 1)
True == Mk(901, 0)
RECURSIVE SeqL(_)
SeqL(cs) == IF Len(cs) = 1 THEN cs[1] ELSE N("seq", 0, "", 0, <<cs[1], SeqL(Tail(cs))>>)
And(a, b) == N("and", 0, "", 0, <<a, b>>)
Or(a, b) == N("or", 0, "", 0, <<a, b>>)
Not(a) == N("not", 0, "", 0, <<a>>)
Subsh(a) == N("sub", 0, "", 0, <<a>>)
Bg(a) == N("bg", 0, "", 0, <<a>>)
Pipe(a, b) == N("pipe", 0, "", 0, <<a, b>>)
Pipe3(a, b, c) == N("pipe3", 0, "", 0, <<a, b, c>>)
Redir(s, a) == N("rdr", 0, s, 0, <<a>>)
If(c, t) == N("if", 0, "", 0, <<c, t>>)
For(s, m, b) == N("for", 0, s, m, <<b>>)
Esac == L("esac", 0, "", 0)
Empty == L("empty", 0, "", 0)
Item(pat, term, m, body, next) == N("item", term, pat, m, <<body, next>>)
Case(subj, m, items) == N("case", 0, subj, m, <<items>>)

RN(t) == Run(t, [e |-> 0, pf |-> FALSE])
RP(t) == Run(t, [e |-> 0, pf |-> TRUE])
RE(t) == Run(t, [e |-> 1, pf |-> FALSE])
REP(t) == Run(t, [e |-> 1, pf |-> TRUE])
\* markers of the observations, in canonical order, auxiliary ones (>= 900) dropped
Ms(r) == SelectSeq([i \in 1..Len(r.tr) |-> r.tr[i].m], LAMBDA m : m < 900 \/ m >= 1000)
\* [m, st] / [m, x] of the observations with marker < 900
MS(r) == LET t == SelectSeq(r.tr, LAMBDA e : e.m < 900 \/ e.m >= 1000) IN [i \in 1..Len(t) |-> <<t[i].m, t[i].st>>]
MX(r) == LET t == SelectSeq(r.tr, LAMBDA e : e.m < 900 \/ e.m >= 1000) IN [i \in 1..Len(t) |-> <<t[i].m, t[i].x>>]
Ok(r) == r.oc = "ok"

\* ---- pipeline-p.sh:27 'without pipefail, exit status of pipeline is from last command' ----
ASSUME RN(Pipe3(Exit(0), Exit(0), Exit(0))).st = 0
ASSUME RN(Pipe3(Exit(1), Exit(2), Exit(0))).st = 0
ASSUME RN(Pipe3(Exit(3), Exit(0), Exit(0))).st = 0
ASSUME RN(Pipe3(Exit(0), Exit(0), Exit(4))).st = 4
ASSUME RN(Pipe3(Exit(5), Exit(6), Exit(7))).st = 7
\* ---- pipeline-p.sh:46 'exit status of negated pipelines (without pipefail)' ----
ASSUME RN(Not(Pipe3(Exit(1), Exit(2), Exit(0)))).st = 1
ASSUME RN(Not(Pipe3(Exit(0), Exit(0), Exit(4)))).st = 0
\* ---- pipeline-p.sh:65 'with pipefail, last failed command determines exit status' ----
ASSUME RP(Pipe3(Exit(0), Exit(0), Exit(0))).st = 0
ASSUME RP(Pipe3(Exit(1), Exit(2), Exit(0))).st = 2
ASSUME RP(Pipe3(Exit(3), Exit(0), Exit(0))).st = 3
ASSUME RP(Pipe3(Exit(0), Exit(0), Exit(4))).st = 4
ASSUME RP(Pipe3(Exit(5), Exit(6), Exit(7))).st = 7
\* ---- pipeline-p.sh:84 'exit status of negated pipelines (with pipefail)' ----
ASSUME RP(Not(Pipe3(Exit(0), Exit(0), Exit(0)))).st = 1
ASSUME RP(Not(Pipe3(Exit(1), Exit(2), Exit(0)))).st = 0
ASSUME RP(Not(Pipe3(Exit(3), Exit(0), Exit(0)))).st = 0
\* ---- pipeline-p.sh:111 'pipeline enabling pipefail does not affect itself': false | set -o pipefail -> 0 ----
ASSUME RN(Pipe(False, SetPf(1))).st = 0
\* ... nor any later pipeline: the last command ran in a subshell (pipelines.md "yash-rs runs all commands in subshells")
ASSUME RN(SeqL(<<Pipe(False, SetPf(1)), Pipe(False, True)>>)).st = 0
\* ---- pipelines.md 'Catching errors': set -o pipefail; echo foo | ( cat; exit 42 ) | grep foo; echo $? -> 42 ----
ASSUME LET r == RN(SeqL(<<SetPf(1), Pipe3(SayN(1), SeqL(<<Rdm(1), Exit(42)>>), True), P(2)>>))
       IN Ok(r) /\ MS(r) = <<<<1, 0>>, <<2, 42>>>> /\ MX(r)[1] = <<1, 1>>
\* set +o pipefail: the same pipeline -> 0
ASSUME LET r == RN(SeqL(<<SetPf(1), SetPf(0), Pipe3(SayN(1), SeqL(<<Rdm(1), Exit(42)>>), True), P(2)>>))
       IN Ok(r) /\ MS(r) = <<<<1, 0>>, <<2, 0>>>>
\* ---- pipeline-p.sh:5 '2-command pipeline': echo foo | cat ----
ASSUME LET r == RN(Pipe(SayN(3), Rdm(1))) IN Ok(r) /\ MX(r) = <<<<1, 3>>>> /\ r.out = <<>>
\* ---- pipeline-p.sh:138 'redirection overrides pipeline': echo foo >/dev/null | cat -> nothing ----
ASSUME LET r == RN(Pipe(Redir(">f", SayN(3)), Rdm(1))) IN Ok(r) /\ MX(r) = <<<<1, 0>>>> /\ r.ff = <<3>>
\* ---- pipeline-p.sh:125 'compound commands in pipeline' ----
ASSUME LET r == RN(Pipe3(SeqL(<<SayN(1), SayN(2)>>), Subsh(SeqL(<<Rdm(1), SayN(4)>>)), If(True, Rdm(2))))
       IN Ok(r) /\ MX(r) = <<<<1, 12>>, <<2, 4>>>>
\* ---- pipelines.md 'Negation': ! applies to the pipeline as a whole ----
ASSUME RN(Not(Pipe(True, False))).st = 0
ASSUME RN(Pipe(True, Not(False))).st = 0
\* assignments in a pipeline do not reach the shell, also from the last command (pipelines.md Compatibility)
ASSUME MX(RN(SeqL(<<Pipe(Asg("a"), Asg("b")), Pv(1)>>))) = <<<<1, 0>>>>
\* errexit applies to the status of the pipeline (exit_status.md "only applies to the result of pipelines")
ASSUME LET r == RE(SeqL(<<Pipe(False, True), P(1)>>)) IN Ms(r) = <<1>> /\ r.x = "none"
ASSUME LET r == REP(SeqL(<<Pipe(False, True), P(1)>>)) IN Ms(r) = <<>> /\ r.x = "exit" /\ r.st = 1
ASSUME LET r == REP(SeqL(<<Not(Pipe(False, True)), P(1)>>)) IN MS(r) = <<<<1, 0>>>> /\ r.x = "none"

\* ---- async-p.sh:28 'asynchronous command runs in subshell': a=1; { a=2; echo $a; }& wait $!; echo $a ----
ASSUME LET r == RN(SeqL(<<Asg("a"), Bg(SeqL(<<Asg("b"), Pv(1)>>)), Wait("last"), Pv(2)>>))
       IN Ok(r) /\ MX(r) = <<<<1, 2>>, <<2, 1>>>>
          /\ r.tr[1].p = <<1>> /\ r.tr[2].p = <<>> /\ r.win = <<[p |-> <<1>>, lo |-> 0, hi |-> 0, a |-> 1]>>
\* ---- async-p.sh:61 'exit status of asynchronous list': true& echo $?; false& echo $? -> 0 0 ----
ASSUME MS(RN(SeqL(<<Bg(True), P(1), Bg(False), P(2)>>))) = <<<<1, 0>>, <<2, 0>>>>
\* ---- async-p.sh:37 'stdin of asynchronous list is null without job control': cat& wait; (next line not consumed) ----
ASSUME LET r == RN(SeqL(<<Bg(Rdm(1)), Wait("all"), Rdm(2)>>)) IN Ok(r) /\ MX(r) = <<<<1, 0>>, <<2, 7>>>>
\* ---- async-p.sh:54 'stdin of asynchronous list is null for first command only': cat - file | cat | cat & wait ----
ASSUME LET r == RN(SeqL(<<Bg(Pipe3(SeqL(<<Rdm(1), SayN(2)>>), Rdm(3), True)), Wait("all")>>))
       IN Ok(r) /\ MX(r) = <<<<1, 0>>, <<3, 2>>>>
\* ---- lists.md 'Input redirection': echo Input | { cat & read -r line; echo "Read line: $line"; } ----
ASSUME LET r == RN(Pipe(SayN(4), SeqL(<<Bg(Rdm(1)), Rdm(2)>>))) IN Ok(r) /\ MX(r) = <<<<1, 0>>, <<2, 4>>>>
\* 2.9.3.1 "before any explicit redirections are performed": an explicit redirection wins
ASSUME LET r == RN(SeqL(<<Bg(Redir("<g", Rdm(1))), Wait("all")>>)) IN Ok(r) /\ MX(r) = <<<<1, 5>>>>
ASSUME LET r == RN(SeqL(<<Redir("<g", Bg(Rdm(1))), Wait("all")>>)) IN Ok(r) /\ MX(r) = <<<<1, 0>>>>
\* ---- async-p.sh:70 'asynchronous and-or lists': a=1; a=2 && echo $a& wait; echo $a ----
ASSUME MX(RN(SeqL(<<Asg("a"), Bg(And(Asg("b"), Pv(1))), Wait("all"), Pv(2)>>))) = <<<<1, 2>>, <<2, 1>>>>
\* ---- wait-p.sh:15 'waiting for specific single job': exit 11& wait $! -> 11 ----
ASSUME RN(SeqL(<<Bg(Exit(11)), Wait("last")>>)).st = 11
\* ---- wait-p.sh:5 'waiting for all jobs': ... exit 1& wait -> 0 (wait.md: "If there is no operand, the exit status is 0") ----
ASSUME RN(SeqL(<<Bg(Exit(1)), Wait("all")>>)).st = 0
\* ---- wait-p.sh:27 'waiting for unknown job': exit 1& wait $! $(($!+1)) -> 127 ----
ASSUME RN(SeqL(<<Bg(Exit(1)), Wait("unk")>>)).st = 127
\* 2.9.3.1: once wait has reported on it the process ID is no longer known
ASSUME MS(RN(SeqL(<<Bg(Exit(3)), Wait("last"), P(1), Wait("last"), P(2)>>))) = <<<<1, 3>>, <<2, 127>>>>
\* ---- wait-p.sh:32 'jobs are not inherited to subshells': exit 1& p=$!; (wait $p) -> 127 ----
ASSUME RN(SeqL(<<Bg(Exit(1)), Subsh(Wait("last"))>>)).st = 127
\* ---- wait-p.sh:42 'jobs are not propagated from subshells': exit 1& (exit 2&) wait $! -> 1 ----
ASSUME RN(SeqL(<<Bg(Exit(1)), Subsh(Bg(Exit(2))), Wait("last")>>)).st = 1
\* $! is unchanged by foreground commands, subshells and pipelines (2.5.2: "the most recent asynchronous list")
ASSUME LET r == RN(SeqL(<<Pb(1), Bg(True), Pb(2), Subsh(True), Pipe(True, True), Pb(3), Bg(True), Pb(4)>>))
       IN MX(r) = <<<<1, 0>>, <<2, -101>>, <<3, -101>>, <<4, -102>>>>
\* 2.9.3.1: SIGINT and SIGQUIT are ignored in an asynchronous list without job control; SIGTERM is not
ASSUME LET r == RN(SeqL(<<Bg(SeqL(<<Kill("INT"), P(1)>>)), Wait("last"), P(2)>>)) IN MS(r) = <<<<1, 0>>, <<2, 0>>>>
ASSUME LET r == RN(SeqL(<<Bg(SeqL(<<Kill("TERM"), P(1)>>)), Wait("last"), P(2)>>)) IN MS(r) = <<<<2, -1015>>>>
ASSUME LET r == RN(SeqL(<<Subsh(SeqL(<<Kill("INT"), P(1)>>)), P(2)>>)) IN MS(r) = <<<<2, -1002>>>>
\* the shell does not wait for asynchronous lists: the window of the child stays open
ASSUME LET r == RN(SeqL(<<Bg(P(1)), P(2)>>)) IN r.win = <<[p |-> <<1>>, lo |-> 0, hi |-> -1, a |-> 1]>>
\* ---- for-p.sh:103 'commands ending with an asynchronous command': for v in 1 2; do true; echo& done; wait ----
ASSUME LET r == RN(SeqL(<<For("ab", 1, SeqL(<<True, Bg(SayN(1))>>)), Wait("all")>>)) IN Ok(r) /\ r.out = <<1, 1>> /\ r.st = 0

\* ---- case-p.sh:156 'patterns are not expanded after first match' ----
ASSUME LET r == RN(Case("b", 1, Item("Pa", 0, 2, Mk(3, 0), Item("Pb", 0, 4, Mk(5, 0), Item("Pc", 0, 6, Mk(7, 0), Esac)))))
       IN Ms(r) = <<201, 401, 5>>
\* ---- case-y.sh:3 'patterns separated by | are expanded and matched in order' ----
ASSUME Ms(RN(Case("a", 1, Item("Pb|Pa|Pc", 0, 2, Mk(3, 0), Esac)))) = <<201, 202, 3>>
\* ---- case.md "The value is always expanded first" ----
ASSUME Ms(RN(Case("Pa", 1, Item("Pb|Pa", 0, 2, Mk(3, 0), Esac)))) = <<100, 201, 202, 3>>
\* ---- case-p.sh:178/184 'exit status of case command (unmatched ...)': false; case x in esac -> 0 ----
ASSUME RN(SeqL(<<False, Case("a", 1, Esac)>>)).st = 0
ASSUME RN(SeqL(<<False, Case("c", 1, Item("a", 0, 2, Exit(11), Item("b", 0, 3, Exit(17), Esac)))>>)).st = 0
\* ---- case-p.sh:195 '(matched, non-empty)' -> 17 ----
ASSUME RN(Case("b", 1, Item("a", 0, 2, Subsh(Exit(11)), Item("b", 0, 3, SeqL(<<True, Subsh(Exit(17))>>), Esac)))).st = 17
\* ---- case-y.sh:18 'exit status of case command (matched, empty)' -> 0; case.md Exit status ----
ASSUME RN(SeqL(<<False, Case("b", 1, Item("a", 0, 2, Empty, Item("b", 0, 3, Empty, Esac)))>>)).st = 0
\* ---- case-p.sh:203 'executing item after ;&': case 1 in 0) ;; 1) echo matched 1;& 2) echo matched 2; (exit 42);& esac -> 42 ----
ASSUME LET r == RN(Case("b", 1, Item("a", 0, 2, Mk(3, 0), Item("b", 1, 4, Mk(5, 0), Item("c", 1, 6, SeqL(<<Mk(7, 0), Subsh(Exit(42))>>), Esac)))))
       IN Ms(r) = <<5, 7>> /\ r.st = 42
\* ---- case-p.sh:214 'exit status after empty ;& in case command': (exit 1); case i in i) ;& j) echo $? esac -> 1 ----
ASSUME MS(RN(SeqL(<<Subsh(Exit(1)), Case("a", 1, Item("a", 1, 2, Empty, Item("b", 0, 3, P(4), Esac)))>>))) = <<<<4, 1>>>>
\* ---- case-y.sh:28 'exit status of case command with ;& followed by empty item' -> 0 ----
ASSUME RN(Case("a", 1, Item("a", 1, 2, Subsh(Exit(1)), Item("b", 0, 3, Empty, Esac)))).st = 0
\* ---- case-y.sh:35 'pattern matching after ;|' / case.md ';;&' example ----
ASSUME LET r == RN(Case("b", 1, Item("a", 0, 2, Mk(3, 0), Item("b", 2, 4, SeqL(<<Mk(5, 0), Subsh(Exit(12))>>),
                     Item("c", 0, 6, Mk(7, 0), Item("b", 2, 8, SeqL(<<P(9), Subsh(Exit(42))>>), Item("c", 0, 10, Mk(11, 0), Esac)))))))
       IN MS(r) = <<<<5, 0>>, <<9, 12>>>> /\ r.st = 42
\* ---- case.md 'Continuing to the next branch' (;&): foo) ;& bar) ;; baz) -> first two ----
ASSUME Ms(RN(Case("a", 1, Item("a", 1, 2, Mk(3, 0), Item("b", 0, 4, Mk(5, 0), Item("c", 0, 6, Mk(7, 0), Esac)))))) = <<3, 5>>
\* ---- case-p.sh:369 'redirection on case command' (here: standard output) ----
ASSUME LET r == RN(Redir(">f", Case("a", 1, Item("a", 0, 2, SeqL(<<SayN(1), SayN(2)>>), Esac)))) IN r.ff = <<1, 2>> /\ r.out = <<>>

\* ---- for-p.sh:5 'default words, no positional parameters' / :11 one positional parameter ----
ASSUME Ms(RN(For("@", 1, Mk(2, 0)))) = <<>>
ASSUME MX(RN(SeqL(<<SetPp(2), For("@", 1, Pv(2))>>))) = <<<<2, 1>>, <<2, 2>>>>
\* ---- for-p.sh:25 'explicit words, no words' ----
ASSUME Ms(RN(For("", 1, Mk(2, 0)))) = <<>>
\* ---- for-p.sh:134 'exit status with no words': false; for i do false; done -> 0 ----
ASSUME RN(SeqL(<<False, For("@", 1, False)>>)).st = 0
\* ---- for-p.sh:141 'exit status with some words': for x in 1 2 3; do (exit $x); done -> 3 ----
ASSUME RN(For("abc", 1, Mk(2, 3))).st = 3
\* ---- for-p.sh:162 'iteration variable is global' / loops.md: the variable keeps its last value ----
ASSUME MX(RN(SeqL(<<For("abc", 1, True), Pv(2)>>))) = <<<<2, 3>>>>
\* ---- for-p.sh:51 'expansion of words': expanded once, before the first iteration ----
ASSUME Ms(RN(For("Pab", 1, Mk(2, 0)))) = <<101, 102, 2, 2>>
\* ---- for-p.sh:148 'redirection on for loop' ----
ASSUME LET r == RN(SeqL(<<For("ab", 1, Redir(">>f", SayN(1))), Redir(">f", For("ab", 2, SayN(2))), Redir("<f", Rdm(3))>>))
       IN Ok(r) /\ MX(r) = <<<<3, 22>>>>
\* ---- error-p.sh:322 'assignment error in for loop kills non-interactive shell' ----
ASSUME LET r == RN(SeqL(<<Asg("a"), Ro, For("ab", 1, Mk(2, 0)), Mk(3, 0)>>)) IN Ms(r) = <<>> /\ r.x = "exit" /\ r.st <= -10
\* ... only that (sub)shell (2.8.1 / termination.md: in a subshell the subshell exits)
ASSUME LET r == RN(SeqL(<<Ro, Subsh(For("a", 1, Mk(2, 0))), P(3)>>)) IN MS(r) = <<<<3, -10>>>> /\ r.x = "none"

\* ---- grouping-p.sh:7 'effect of subshell' ----
ASSUME LET r == RN(SeqL(<<Asg("a"), Subsh(SeqL(<<Asg("b"), Pv(1), Exit(-1), Mk(2, 0)>>)), Pv(3)>>)) IN MX(r) = <<<<1, 2>>, <<3, 1>>>>
\* ---- grouping-p.sh:16 'exit status of subshell' ----
ASSUME RN(Subsh(SeqL(<<True, Exit(23)>>))).st = 23
\* ---- grouping-p.sh:20/61 'redirection on subshell' / 'on brace grouping' ----
ASSUME LET r == RN(SeqL(<<Redir(">f", Subsh(SeqL(<<SayN(1), SayN(2), SayN(3)>>))), Redir("<f", Subsh(Rdm(1)))>>)) IN MX(r) = <<<<1, 123>>>>
ASSUME LET r == RN(SeqL(<<Redir(">f", SeqL(<<SayN(1), SayN(2), SayN(3)>>)), Redir("<f", Rdm(1)), SayN(4)>>)) IN MX(r) = <<<<1, 123>>>> /\ r.out = <<4>>
\* ---- grouping-p.sh:49 'effect of brace grouping': { a=2; echo $a; exit; echo not reached; }; echo not reached ----
ASSUME LET r == RN(SeqL(<<Asg("a"), SeqL(<<Asg("b"), Pv(1), Exit(-1), Mk(2, 0)>>), Mk(3, 0)>>)) IN MX(r) = <<<<1, 2>>>> /\ r.x = "exit"

\* ---- classes ----
\* data left unread in a pipe: whether the writer is killed by SIGPIPE depends on the timing
ASSUME RN(Pipe(SayN(1), True)).oc = "open"
\* two processes writing to f at the same time
ASSUME RN(SeqL(<<Bg(Redir(">f", SayN(1))), Redir(">f", SayN(2))>>)).oc = "open"
ASSUME Ok(RN(SeqL(<<Bg(Redir(">f", SayN(1))), Wait("all"), Redir(">>f", SayN(2))>>)))
\* unordered writes to standard output: compared as a multiset
ASSUME LET r == RN(SeqL(<<Bg(SayN(1)), SayN(2)>>)) IN Ok(r) /\ r.orace
ASSUME LET r == RN(SeqL(<<Bg(SayN(1)), Wait("all"), SayN(2)>>)) IN Ok(r) /\ ~r.orace /\ r.out = <<1, 2>>
\* break without an enclosing loop in the same environment (as in Semantics.tla)
ASSUME RN(For("a", 1, Subsh(Brk(1)))).oc = "unspec"

\* ---- the conformance relation accepts the canonical order and rejects damaged runs ----
CalT == SeqL(<<Bg(SeqL(<<Mk(1, 0), Pb(2)>>)), Pb(3), Pipe(Mk(4, 2), Mk(5, 0)), Wait("last"), P(6)>>)
ASSUME Conforms(RN(CalT), Canonical(RN(CalT)))
\* the asynchronous list may run after the pipeline ...
ASSUME LET r == RN(CalT) c == Canonical(r)
       IN Conforms(r, [c EXCEPT !.tr = <<c.tr[3], c.tr[4], c.tr[5], c.tr[1], c.tr[2], c.tr[6]>>])
\* ... but not after `wait $!` has returned
ASSUME LET r == RN(CalT) c == Canonical(r)
       IN ~Conforms(r, [c EXCEPT !.tr = <<c.tr[3], c.tr[4], c.tr[5], c.tr[1], c.tr[6], c.tr[2]>>])
\* the commands of a pipeline do not run before the pipeline is started or after it has ended
ASSUME LET r == RN(CalT) c == Canonical(r)
       IN ~Conforms(r, [c EXCEPT !.tr = <<c.tr[1], c.tr[2], c.tr[4], c.tr[3], c.tr[5], c.tr[6]>>])
\* $! must be the process that ran the asynchronous list
ASSUME LET r == RN(CalT) c == Canonical(r) IN ~Conforms(r, [c EXCEPT !.tr[3].x = 77])
ASSUME LET r == RN(CalT) c == Canonical(r) IN ~Conforms(r, [c EXCEPT !.tr[6].st = 1])
ASSUME LET r == RN(CalT) c == Canonical(r) IN ~Conforms(r, [c EXCEPT !.st = 1])
=============================================================================
