----------------------------- MODULE Trace_Redir -----------------------------
(***************************************************************************)
(* P2/P3 validation for C09: every observation record produced by the real *)
(* shell (one executed command each: its redirection list and kind, the    *)
(* descriptor tables before / inside / after, the writes, the files, $?)   *)
(* is judged by the oracle RedirAbs!Verdict.  Records are independent of   *)
(* each other (each carries the observed table before the command), so the *)
(* file can be sharded anywhere.                                           *)
(*                                                                         *)
(* The validator does not stop at the first rejected record: it prints one *)
(* line {id, clauses, fail} per rejected record and goes on; the           *)
(* POSTCONDITION only checks that every record has been judged.            *)
(***************************************************************************)
EXTENDS RedirAbs, Json, IOUtils

Rec == ndJsonDeserialize(IOEnv.TRACE)

VARIABLE l
vars == <<l>>

TraceInit == l = 1

SetSeq(S) == LET f[T \in SUBSET S] ==
                   IF T = {} THEN <<>>
                   ELSE LET x == CHOOSE y \in T : TRUE IN <<x>> \o f[T \ {x}]
             IN f[S]

Judge(r) ==
  LET v == VerdictFull(r)
  IN IF v.clauses = {} THEN TRUE
     ELSE PrintT(ToJson([id |-> r.id, clauses |-> SetSeq(v.clauses), fail |-> v.fail]))

TraceNext ==
  /\ l <= Len(Rec)
  /\ Judge(Rec[l])
  /\ l' = l + 1

TraceSpec == TraceInit /\ [][TraceNext]_vars

Accepted ==
  LET d == TLCGet("stats").diameter
  IN IF d - 1 = Len(Rec) THEN TRUE
     ELSE Print(<<"INCOMPLETE", d, Len(Rec)>>, FALSE)
=============================================================================
