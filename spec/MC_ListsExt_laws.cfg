SPECIFICATION Spec
CONSTANTS
  Fuel = 24
  TickLimit = 2
  Variant = ""
  K = 3
  Alphabet <- AlphaAll
  ItemAlphabet <- ItemsAll
  Opts <- OptsPlain
INVARIANT Laws
CHECK_DEADLOCK FALSE
