SPECIFICATION Spec
CONSTANTS
  Fuel = 60
  TickLimit = 2
  K = 10
  Alphabet <- AlphaErrors
  ItemAlphabet <- NoItems
  Mode = "c10"
INVARIANT Emit
CHECK_DEADLOCK FALSE
