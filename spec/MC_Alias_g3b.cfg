SPECIFICATION Spec
CONSTANTS
  NameSeq <- NameSeq3
  GlobalNames = {"a","c"}
  LineFam = "g"
  Prune = TRUE
INVARIANT NoSelfNesting
INVARIANT ChainsSound
INVARIANT Deterministic
INVARIANT VariantNat
INVARIANT Emit
PROPERTY VariantDecreases
PROPERTY OnlyEligibleReplaced
