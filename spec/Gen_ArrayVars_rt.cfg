SPECIFICATION Spec
CONSTANT Family = "r"
CONSTANT Slice = 1
CONSTANT Level = 2
CONSTANT Depth = 0
CONSTANT RLen = 3
VIEW View
INVARIANT Emit
