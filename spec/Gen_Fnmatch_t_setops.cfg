INIT Init
NEXT Next
VIEW view
CONSTANTS
  PNorm <- AlphaSet
  PLit <- NoChars
  PMacro <- NoChars
  PLen = 6
  SAlpha <- StrSet
  SLen = 3
  Kind = "match"
INVARIANT Emit
