\* negative configuration: the wrong variant "pipe_no_job" must be refuted (law OwnGroup)
SPECIFICATION Spec
CONSTANTS
  Variant = "pipe_no_job"
  Fams = {"fg", "async", "stop1", "tty", "nomon"}
  Cfgs = {"m", "mi", "-", "ml", "mib"}
  Enf = {TRUE}
ALIAS Brief
INVARIANT OwnGroup
