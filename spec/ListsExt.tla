------------------------------ MODULE ListsExt ------------------------------
(***************************************************************************)
(* Lists, pipelines and compound commands beyond Semantics.tla (growth     *)
(* module G18), written from                                               *)
(*   POSIX.1-2024 XCU 2.9.2 (pipelines: each command in a subshell, exit   *)
(*   status, `!`, the pipefail option), 2.9.3 (lists), 2.9.3.1             *)
(*   (asynchronous lists: `$!`, exit status 0, standard input, SIGINT and  *)
(*   SIGQUIT), 2.9.4.1 (grouping commands), 2.9.4.2 (for), 2.9.4.3 (case   *)
(*   incl. `;&`), 2.9.4 (redirections of compound commands), 2.8.1         *)
(*   (variable assignment error), 2.5.2 (`$!`, `$?`), 2.13 (subshell       *)
(*   environments), 2.15 set -e / -o pipefail, XCU wait                    *)
(* and the project manual docs/src/language/commands/{pipelines,lists,     *)
(* case,loops,grouping,exit_status}.md, docs/src/builtins/wait.md.         *)
(* It is NOT a transcription of yash-semantics.                            *)
(*                                                                         *)
(* The definition is a big-step interpreter Ev(node, state, context) in    *)
(* the style of Semantics.tla (C02) and NestedExec.tla (G07) over the      *)
(* command language                                                        *)
(*    mk m n     records <<m, $?>>, returns status n                       *)
(*    probe m    records <<m, $?>>, leaves $? unchanged                    *)
(*    pv m       probe that also records the value of the variable v       *)
(*    pb m       probe that also records $!                                *)
(*    say n      writes the token n to standard output                     *)
(*    rd m       reads standard input to its end, records what it read     *)
(*    v=w, readonly v, set -- a.., set +-o pipefail, set +-e               *)
(*    wait | wait $! | wait $! $! | wait <unknown pid>                     *)
(*    kill SIG   the executing process sends SIG to itself                 *)
(*    exit [n], break n, continue n, tick                                  *)
(*    ; && || !  A | B  A | B | C  A &  ( )  redirection of a compound     *)
(*    command  if  while  for v [in words]  case w in (patterns) .. esac   *)
(*    with the terminators ;; ;& ;| (;;&)                                  *)
(*                                                                         *)
(* Execution environments.  Every subshell (2.13: `( )`, each command of   *)
(* a multi-command pipeline, an asynchronous list, a command substitution) *)
(* is a copy of the state.  The observations carry the *path* of the       *)
(* environment that made them: <<>> is the shell, <<2>> its second child   *)
(* environment that records anything (children that record nothing have no *)
(* number: how many processes the shell forks is not prescribed), <<2, 1>> *)
(* the first such child of that one.  The trace of a run is the sequence   *)
(* of observations in *canonical* order (every child runs to its end where *)
(* it is started).  Children run concurrently with what follows: `win`     *)
(* lists for every numbered child environment between which two of its     *)
(* parent's own observations it runs (lo: after the parent's lo-th, hi:    *)
(* before the parent's (hi+1)-th; hi = -1: the parent never waits for it). *)
(* `Conforms` decides whether an observed run (observations with paths in  *)
(* the order they happened) is a linearisation of that partial order.      *)
(*                                                                         *)
(* Classes: "unspec" (POSIX leaves the behaviour open, as in Semantics),   *)
(* "open" (the outcome depends on a race between concurrent processes:     *)
(* unordered accesses to the file f, to the shell's standard input or to   *)
(* a pipe, data left unread in a pipe), "div" (fuel exhausted).  Such      *)
(* programs are skipped and counted.                                       *)
(*                                                                         *)
(* Statuses: the k-th shell error of a run has the symbolic status -(10+k) *)
(* (non-zero, bound consistently to one value in 1..255); death by signal  *)
(* number s gives -(1000+s): XCU 2.8.2 only says "greater than 128".       *)
(*                                                                         *)
(* Variant names a deliberately wrong reading of one rule ("" = the        *)
(* specification); the negative configurations show that the laws and the  *)
(* calibration refute each of them.                                        *)
(***************************************************************************)
EXTENDS Integers, Sequences, FiniteSets, TLC

CONSTANTS Fuel,        \* bound on loop iterations of one run
          TickLimit,   \* `tick` succeeds this many times (per environment)
          Variant      \* "" or the name of a wrong variant (negative configurations)

(***************************************************************************)
(* Syntax: tokens in prefix form, Token = [k, n, s]; tree node = token +   *)
(* m (marker: index of the token) + c (children).                          *)
(***************************************************************************)
Tok(k, n, s) == [k |-> k, n |-> n, s |-> s]

LeafKinds == {"mk", "P", "pv", "pb", "say", "rd", "asg", "ro", "setpf", "sete", "setpp", "wait", "kill",
              "exit", "brk", "cnt", "tick", "empty", "esac"}

\* Slot types: "C" any command, "N" any command but a sequential list,
\* "B" a possibly empty case body, "I" a chain of case items.
SlotsOf(k) ==
  CASE k \in LeafKinds -> <<>>
    [] k \in {"not", "sub", "bg", "rdr", "for"} -> <<"C">>
    [] k = "seq" -> <<"N", "C">>
    [] k \in {"and", "or", "pipe", "if", "while"} -> <<"C", "C">>
    [] k \in {"ife", "pipe3"} -> <<"C", "C", "C">>
    [] k = "case" -> <<"I">>
    [] k = "item" -> <<"B", "I">>

Arity(k) == Len(SlotsOf(k))

RECURSIVE ParseAt(_, _), ParseKids(_, _, _)
ParseAt(toks, i) ==
  LET tk == toks[i]
      ks == ParseKids(toks, i + 1, Arity(tk.k))
  IN [t |-> [k |-> tk.k, n |-> tk.n, s |-> tk.s, m |-> i, c |-> ks.c], nx |-> ks.nx]
ParseKids(toks, i, a) ==
  IF a = 0 THEN [c |-> <<>>, nx |-> i]
  ELSE LET first == ParseAt(toks, i)
           rest == ParseKids(toks, first.nx, a - 1)
       IN [c |-> <<first.t>> \o rest.c, nx |-> rest.nx]

Parse(toks) == ParseAt(toks, 1).t

RECURSIVE Open(_, _, _)
Open(toks, i, need) ==
  IF i > Len(toks) THEN need
  ELSE IF need = 0 THEN -1
  ELSE Open(toks, i + 1, need - 1 + Arity(toks[i].k))
WellFormed(toks) == Len(toks) > 0 /\ Open(toks, 1, 1) = 0

V(name) == Variant = name

(***************************************************************************)
(* Run-time state.  Fields of one execution environment:                   *)
(*   st    $?                                                              *)
(*   dv    why execution is being abandoned: "none", "brk"/"cnt" (dn loops *)
(*         still to leave), "exit" (this environment terminates with st),  *)
(*         "killed" (its process was terminated by a signal; st is the     *)
(*         symbolic status), "unspec", "open", "div"                       *)
(*   v     value of the shell variable v ("" = unset), ro: v is read-only  *)
(*   pos   positional parameters, pf pipefail, e errexit, c tick counter   *)
(*   bg    number of the asynchronous list $! refers to (0: none)          *)
(*   jobs  asynchronous lists started by this environment and not yet      *)
(*         waited for: [a number, id environment id, st its exit status,   *)
(*         w index of its window in win (0: it records nothing)]           *)
(*   ign   SIGINT and SIGQUIT are ignored (2.9.3.1; 2.12: signals ignored  *)
(*         on entry to a subshell stay ignored)                            *)
(*   fd0   standard input: [k |-> "ofd", id] an open file description of   *)
(*         the table ofd, [k |-> "pipe", id], [k |-> "null"]               *)
(*   fd1   standard output: "out" (what the shell was started with), "f"   *)
(*         (the file f), "pipe" id, "cap" (a command substitution)         *)
(*   wf    number of enclosing redirections of standard output to f        *)
(*   me    path of this environment, nk number of numbered children so far *)
(*   ne    number of observations this environment made, anc its chain of  *)
(*         environment ids                                                 *)
(* Fields shared by all environments (threaded through; GlobalOf):         *)
(*   tr    observations [p path, m marker, st $?, x extra] in canonical    *)
(*         order; win windows [p, lo, hi, a]                               *)
(*   fuel, en error-symbol counter, na asynchronous lists so far, ni ids   *)
(*   out   tokens written to the shell's standard output, ff content of f  *)
(*   ofd   open file descriptions [res "in0"/"f"/"g", off]: the offset is  *)
(*         shared by every environment that inherited the description      *)
(*   pbuf  tokens in transit in each pipe                                  *)
(*   live  ids of environments that may still be running although their    *)
(*         parent has gone on (asynchronous lists not waited for, earlier  *)
(*         commands of a pipeline in progress)                             *)
(*   acc   accesses [r resource, p chain of ids] to shared resources       *)
(*   orace two writes to the shell's standard output were unordered        *)
(*   tg    ghost: tags of the rules applied (coverage accounting)          *)
(* Context (handed down): ig (-e ignored), ld loops lexically enclosing    *)
(* in this environment, od (always 0 here: no functions).                  *)
(***************************************************************************)
State0(o) ==
  [st |-> 0, dv |-> "none", dn |-> 0, v |-> "", ro |-> FALSE, pos |-> <<>>, pf |-> o.pf, e |-> o.e, c |-> 0,
   bg |-> 0, jobs |-> <<>>, ign |-> FALSE,
   fd0 |-> [k |-> "ofd", id |-> 1], fd1 |-> [k |-> "out", id |-> 0], wf |-> 0,
   me |-> <<>>, nk |-> 0, ne |-> 0, anc |-> <<0>>,
   tr |-> <<>>, win |-> <<>>, fuel |-> Fuel, en |-> 0, na |-> 0, ni |-> 0,
   out |-> <<>>, ff |-> <<>>, ofd |-> <<[res |-> "in0", off |-> 0]>>, pbuf |-> <<>>,
   live |-> {}, acc |-> {}, orace |-> FALSE, tg |-> {}]

Ctx0 == [ig |-> FALSE, ld |-> 0]

\* S with the shared fields of G
GlobalOf(S, G) ==
  [S EXCEPT !.tr = G.tr, !.win = G.win, !.fuel = G.fuel, !.en = G.en, !.na = G.na, !.ni = G.ni,
            !.out = G.out, !.ff = G.ff, !.ofd = G.ofd, !.pbuf = G.pbuf, !.live = G.live, !.acc = G.acc,
            !.orace = G.orace, !.tg = G.tg]

Abandon(S, why) == [S EXCEPT !.dv = why]
Tag(S, t) == [S EXCEPT !.tg = @ \cup {t}]
Bad(S) == S.dv \in {"unspec", "open", "div"}

\* XCU 2.15 set -e, applied after simple commands, multi-command pipelines
\* and subshells (as in Semantics.tla).
Errexit(S, C) ==
  IF S.dv = "none" /\ S.e = 1 /\ ~C.ig /\ S.st # 0
  THEN Tag([S EXCEPT !.dv = "exit"], "errexit")
  ELSE S

NewErr(S) == [S EXCEPT !.st = -(10 + S.en), !.en = @ + 1]
\* 2.8.1 "shall exit": variable assignment error (non-interactive shell; in
\* a subshell the subshell exits)
ShellError(S) == [NewErr(S) EXCEPT !.dv = "exit"]

Record(S, m, x) == [S EXCEPT !.tr = Append(@, [p |-> S.me, m |-> m, st |-> S.st, x |-> x]), !.ne = @ + 1]

VCode(w) == CASE w = "" -> 0 [] w = "a" -> 1 [] w = "b" -> 2 [] w = "c" -> 3 [] w = "d" -> 4 [] OTHER -> 9

(***************************************************************************)
(* Shared resources and races.  An access is recorded with the chain of    *)
(* environment ids of the accessing environment.  A new access races with  *)
(* an earlier one iff the earlier one was made inside an environment that  *)
(* may still be running (live) and that the accessing environment is not   *)
(* itself inside of.                                                       *)
(***************************************************************************)
Ids(p) == {p[i] : i \in 1..Len(p)}
Racy(S, r) == \E a \in S.acc : a.r = r /\ (Ids(a.p) \cap S.live) \ Ids(S.anc) # {}
Touch(S, r) == [S EXCEPT !.acc = @ \cup {[r |-> r, p |-> S.anc]}]

RECURSIVE Code(_)
Code(d) == IF d = <<>> THEN 0 ELSE 10 * Code(SubSeq(d, 1, Len(d) - 1)) + d[Len(d)]

Content(S, res) == CASE res = "in0" -> <<7>> [] res = "g" -> <<5>> [] OTHER -> S.ff

\* say n: `echo n` (2.9.1: the command's standard output is whatever the
\* enclosing redirections, pipeline and environment made it)
Say(S, n) ==
  CASE S.fd1.k = "out" ->
         [Touch(S, "out") EXCEPT !.out = Append(@, n), !.orace = @ \/ Racy(S, "out"), !.st = 0]
    [] S.fd1.k = "f" ->
         IF Racy(S, "f") THEN Abandon(S, "open")
         ELSE [Touch(S, "f") EXCEPT !.ff = Append(@, n), !.st = 0]
    [] S.fd1.k = "pipe" ->
         LET r == "w" \o ToString(S.fd1.id)
         IN IF Racy(S, r) THEN Abandon(S, "open")
            ELSE [Touch(S, r) EXCEPT !.pbuf[S.fd1.id] = Append(@, n), !.st = 0]
    [] OTHER -> [S EXCEPT !.st = 0]

\* rd m: reads standard input to end-of-file and records the tokens read
Rd(S, m) ==
  CASE S.fd0.k = "null" -> [Record(S, m, 0) EXCEPT !.st = 0]
    [] S.fd0.k = "pipe" ->
         LET r == "r" \o ToString(S.fd0.id)
             d == S.pbuf[S.fd0.id]
         IN IF Racy(S, r) \/ Len(d) > 9 THEN Abandon(S, "open")
            ELSE [Record(Touch(S, r), m, Code(d)) EXCEPT !.pbuf[S.fd0.id] = <<>>, !.st = 0]
    [] OTHER ->
         LET o == S.ofd[S.fd0.id]
             ct == Content(S, o.res)
             d == IF o.off >= Len(ct) THEN <<>> ELSE SubSeq(ct, o.off + 1, Len(ct))
             S1 == IF o.res = "g" THEN S ELSE Touch(S, o.res)
         IN IF (o.res # "g" /\ Racy(S, o.res)) \/ Len(d) > 9 THEN Abandon(S, "open")
            ELSE [Record(S1, m, Code(d)) EXCEPT !.ofd[S.fd0.id].off = IF o.off >= Len(ct) THEN o.off ELSE Len(ct),
                                                 !.st = 0]

(***************************************************************************)
(* Patterns and words.                                                     *)
(***************************************************************************)
\* a case pattern list: patterns separated by `|`; pr: the pattern word
\* holds a command substitution `$(probe M)` (an observable expansion)
Pt(w, pr) == [w |-> w, pr |-> pr]
PatList(s) ==
  CASE s = "a" -> <<Pt("a", FALSE)>>
    [] s = "b" -> <<Pt("b", FALSE)>>
    [] s = "c" -> <<Pt("c", FALSE)>>
    [] s = "*" -> <<Pt("*", FALSE)>>
    [] s = "?" -> <<Pt("?", FALSE)>>
    [] s = "v" -> <<Pt("v", FALSE)>>
    [] s = "a|b" -> <<Pt("a", FALSE), Pt("b", FALSE)>>
    [] s = "b|a" -> <<Pt("b", FALSE), Pt("a", FALSE)>>
    [] s = "Pa" -> <<Pt("a", TRUE)>>
    [] s = "Pb" -> <<Pt("b", TRUE)>>
    [] s = "Pc" -> <<Pt("c", TRUE)>>
    [] s = "P*" -> <<Pt("*", TRUE)>>
    [] s = "Pa|Pb" -> <<Pt("a", TRUE), Pt("b", TRUE)>>
    [] s = "Pb|Pa" -> <<Pt("b", TRUE), Pt("a", TRUE)>>
    [] s = "Pb|Pa|Pc" -> <<Pt("b", TRUE), Pt("a", TRUE), Pt("c", TRUE)>>
    [] OTHER -> <<>>

\* XCU 2.14 restricted to the values that occur (single letters or empty)
Match(w, subj, S) ==
  CASE w = "*" -> TRUE
    [] w = "?" -> subj # ""
    [] w = "v" -> subj = S.v
    [] OTHER -> w = subj

\* the words of a for loop: [ws |-> fields, pr |-> number of observable
\* expansions among the words]
Letters == <<"a", "b", "c", "d">>
ForWords(s, S) ==
  CASE s = "" -> [ws |-> <<>>, pr |-> 0]
    [] s = "a" -> [ws |-> <<"a">>, pr |-> 0]
    [] s = "ab" -> [ws |-> <<"a", "b">>, pr |-> 0]
    [] s = "abc" -> [ws |-> <<"a", "b", "c">>, pr |-> 0]
    [] s \in {"@", "q@"} -> [ws |-> S.pos, pr |-> 0]       \* no `in`: "$@" (2.9.4.2); `in "$@"`
    [] s = "bv" -> [ws |-> <<"b">> \o (IF S.v = "" THEN <<>> ELSE <<S.v>>), pr |-> 0]   \* in b $v
    [] s = "U" -> [ws |-> <<>>, pr |-> 0]                  \* in $U (unset: no fields)
    [] s = "Pab" -> [ws |-> <<"a", "b">>, pr |-> 2]         \* in $(probe M1)a b$(probe M2)
    [] s = "Pc" -> [ws |-> <<"c">>, pr |-> 1]
    [] OTHER -> [ws |-> <<>>, pr |-> 0]

PNode(marker) == [k |-> "P", n |-> 0, s |-> "", m |-> marker, c |-> <<>>]

Signum(s) == CASE s = "INT" -> 2 [] s = "QUIT" -> 3 [] OTHER -> 15

LeaveLoop(S) == IF S.dn = 1 THEN [S EXCEPT !.dv = "none", !.dn = 0] ELSE [S EXCEPT !.dn = @ - 1]

RECURSIVE Ev(_, _, _), WLoop(_, _, _, _, _), FLoop(_, _, _, _), Items(_, _, _, _, _, _),
          MatchList(_, _, _, _, _, _), PipeFrom(_, _, _, _, _, _, _), Probes(_, _, _, _, _)

(***************************************************************************)
(* A subshell environment (2.13): a duplicate of the shell environment.    *)
(* Sx is the parent's state with the child's standard input / output and   *)
(* signal dispositions already set.  The jobs of the parent are not jobs   *)
(* of the child (XCU wait: only children of the invoking shell are known;  *)
(* wait.md "Subshells cannot wait for jobs in the parent"); loops of the   *)
(* parent do not enclose its commands.  Returns the parent's state with    *)
(* the shared fields updated, the status the child terminated with, its    *)
(* id and the index of its window (0: it recorded nothing).                *)
(***************************************************************************)
Fork(t, S, Sx, C, kind) ==
  LET id == S.ni + 1
      S0 == [Sx EXCEPT !.me = Append(S.me, S.nk + 1), !.nk = 0, !.ne = 0, !.anc = Append(S.anc, id), !.ni = id,
                       !.jobs = <<>>, !.dv = "none", !.dn = 0]
      S1 == Ev(t, S0, [ig |-> C.ig, ld |-> 0])
      silent == Len(S1.tr) = Len(S.tr)
      w == [p |-> S0.me, lo |-> S.ne, hi |-> IF kind = "async" THEN -1 ELSE S.ne,
            a |-> IF kind = "async" THEN S0.na ELSE 0]
      G == IF silent THEN S1 ELSE [S1 EXCEPT !.win = Append(@, w)]
      P1 == GlobalOf(S, G)
  IN [S |-> [P1 EXCEPT !.nk = IF silent THEN @ ELSE @ + 1,
                       !.dv = IF Bad(S1) THEN S1.dv ELSE S.dv],
      st |-> S1.st, id |-> id, w |-> IF silent THEN 0 ELSE Len(G.win)]

\* a command substitution `$(probe marker)` inside a word: a subshell whose
\* output is captured; the word expansion leaves $? alone
CsProbe(S, C, marker) ==
  LET R == Fork(PNode(marker), S, [S EXCEPT !.fd1 = [k |-> "cap", id |-> 0]], C, "cs")
  IN [R.S EXCEPT !.st = S.st]

\* the observable expansions number from..to of the word list of token m
Probes(S, C, m, from, to) ==
  IF from > to \/ Bad(S) THEN S ELSE Probes(CsProbe(S, C, 100 * m + from), C, m, from + 1, to)

(***************************************************************************)
(* Multi-command pipeline (2.9.2; pipelines.md).  Each command runs in a   *)
(* subshell; standard output of each but the last is a pipe read by the    *)
(* next; the first inherits standard input, the last standard output.      *)
(* "The shell waits for all commands in the pipeline to finish"            *)
(* (pipelines.md; POSIX only requires the last): all windows are closed.   *)
(* Exit status: that of the last command; with pipefail (the option value  *)
(* when the pipeline starts: the commands run in subshells, pipeline-p.sh  *)
(* 'pipeline enabling pipefail does not affect itself') "the last command  *)
(* that returned a non-zero status, or zero if all returned zero".         *)
(***************************************************************************)
LastNonzero(sts) ==
  LET nz == {i \in 1..Len(sts) : sts[i] # 0}
  IN IF nz = {} THEN 0
     ELSE IF V("pf-first") THEN sts[CHOOSE i \in nz : \A j \in nz : i <= j]
     ELSE sts[CHOOSE i \in nz : \A j \in nz : i >= j]

PipeFrom(es, i, S, C, sts, ids, np) ==
  \* np: id of the pipe whose read end is standard input of command i (0: none)
  IF i > Len(es) THEN
    LET mine == {ids[j] : j \in 1..Len(ids)}
        S1 == [S EXCEPT !.live = @ \ mine]
        st == IF S.pf /\ ~V("pf-off") THEN LastNonzero(sts) ELSE sts[Len(sts)]
        tag == IF S.pf THEN (IF LastNonzero(sts) = sts[Len(sts)] THEN "pf-same" ELSE "pf-earlier") ELSE "pipe-last"
    IN Errexit(Tag([S1 EXCEPT !.st = st], tag), C)
  ELSE
    LET last == i = Len(es)
        S0 == IF last THEN S ELSE [S EXCEPT !.pbuf = Append(@, <<>>)]
        out == IF last THEN S.fd1 ELSE [k |-> "pipe", id |-> Len(S0.pbuf)]
        in == IF np = 0 THEN S.fd0 ELSE [k |-> "pipe", id |-> np]
        inshell == last /\ V("last-in-shell")
        R == Fork(es[i], S0, [S0 EXCEPT !.fd0 = in, !.fd1 = out], C, "pipe")
        \* wrong variant: the last command runs in the current environment
        E1 == Ev(es[i], [S0 EXCEPT !.fd0 = in], C)
        S1 == IF inshell THEN [E1 EXCEPT !.fd0 = S.fd0] ELSE R.S
        cst == IF inshell THEN E1.st ELSE R.st
        \* data left in the pipe this command was reading from: whether the
        \* writer got SIGPIPE / EPIPE depends on the timing
        left == np # 0 /\ S1.pbuf[np] # <<>>
    IN IF Bad(S1) THEN S1
       ELSE IF left THEN Abandon(S1, "open")
       ELSE PipeFrom(es, i + 1, [S1 EXCEPT !.live = @ \cup {R.id}], C, Append(sts, cst), Append(ids, R.id),
                     IF last THEN 0 ELSE out.id)

(***************************************************************************)
(* wait (XCU wait; wait.md).                                               *)
(***************************************************************************)
Join(S, js) ==   \* the jobs js have terminated and been waited for
  [S EXCEPT !.win = [i \in 1..Len(@) |-> IF \E j \in 1..Len(js) : js[j].w = i THEN [@[i] EXCEPT !.hi = S.ne] ELSE @[i]],
            !.live = @ \ {js[j].id : j \in 1..Len(js)}]

WaitAll(S) == Tag([Join(S, S.jobs) EXCEPT !.jobs = <<>>,
                                         !.st = IF V("wait-all-status") /\ S.jobs # <<>> THEN S.jobs[Len(S.jobs)].st ELSE 0],
                  "wait-all")

\* wait $!: "the exit status of the last operand"; a process ID wait has
\* reported on is no longer known (2.9.3.1) and an unknown one is treated as
\* having exited with 127.  With no asynchronous list so far $! expands to
\* nothing: wait without operands.
WaitLast(S) ==
  IF S.bg = 0 THEN Tag(WaitAll(S), "wait-nobg")
  ELSE LET js == SelectSeq(S.jobs, LAMBDA j : j.a = S.bg)
       IN IF js = <<>> THEN Tag([S EXCEPT !.st = 127], "wait-127")
          ELSE Tag([Join(S, js) EXCEPT !.jobs = IF V("wait-keeps") THEN @ ELSE SelectSeq(@, LAMBDA j : j.a # S.bg),
                                       !.st = js[1].st], "wait-last")

Simple(t, S, C) ==
  CASE t.k = "mk" -> Errexit([Record(S, t.m, 0) EXCEPT !.st = t.n], C)
    [] t.k = "P" -> Errexit(Record(S, t.m, 0), C)
    [] t.k = "pv" -> Errexit(Record(S, t.m, VCode(S.v)), C)
    \* $! (2.5.2): the process ID of the most recent asynchronous list
    [] t.k = "pb" -> Errexit(Record(S, t.m, IF S.bg = 0 THEN 0 ELSE -(100 + S.bg)), C)
    [] t.k = "say" -> Errexit(Say(S, t.n), C)
    [] t.k = "rd" -> Errexit(Rd(S, t.m), C)
    [] t.k = "asg" -> IF S.ro THEN Tag(ShellError(S), "asg-ro") ELSE [S EXCEPT !.v = t.s, !.st = 0]
    [] t.k = "ro" -> [S EXCEPT !.ro = TRUE, !.st = 0]
    [] t.k = "setpf" -> [S EXCEPT !.pf = (t.n = 1), !.st = 0]
    [] t.k = "sete" -> [S EXCEPT !.e = t.n, !.st = 0]
    [] t.k = "setpp" -> [S EXCEPT !.pos = SubSeq(Letters, 1, t.n), !.st = 0]
    [] t.k = "tick" -> Errexit([S EXCEPT !.c = @ + 1, !.st = IF S.c + 1 <= TickLimit THEN 0 ELSE 1], C)
    [] t.k = "wait" ->
         Errexit((CASE t.s = "all" -> WaitAll(S)
                    [] t.s = "last" -> WaitLast(S)
                    [] t.s = "last2" -> (LET S1 == WaitLast(S)
                                         IN IF S.bg = 0 THEN S1 ELSE Tag([S1 EXCEPT !.st = IF V("wait-keeps") THEN @ ELSE 127], "wait-127"))
                    [] OTHER -> Tag([S EXCEPT !.st = 127], "wait-127")), C)
    \* kill SIG sent by the process to itself.  2.9.3.1: "If job control is
    \* disabled ... the asynchronous list shall ... inherit from the shell
    \* a signal action of ignored (SIG_IGN) for the SIGINT and SIGQUIT signals".
    [] t.k = "kill" ->
         IF S.ign /\ t.s \in {"INT", "QUIT"} /\ ~V("async-noign") THEN Errexit(Tag([S EXCEPT !.st = 0], "kill-ignored"), C)
         ELSE Tag([S EXCEPT !.dv = "killed", !.st = -(1000 + Signum(t.s))], "kill-dies")
    [] t.k = "exit" -> [S EXCEPT !.dv = "exit", !.st = IF t.n < 0 THEN S.st ELSE t.n]
    [] t.k \in {"brk", "cnt"} ->
         IF C.ld = 0 THEN Abandon(S, "unspec")
         ELSE [S EXCEPT !.st = 0, !.dv = t.k, !.dn = IF t.n < C.ld THEN t.n ELSE C.ld]
    [] OTHER -> Abandon(S, "unspec")

\* while (2.9.4.3): status of the last compound-list-2 executed, 0 if none
\* (see Semantics.tla for the break-in-condition case).
WLoop(t, S, C, last, lastn) ==
  IF S.fuel = 0 THEN Abandon(S, "div")
  ELSE
  LET C1 == [C EXCEPT !.ld = @ + 1]
      S1 == Ev(t.c[1], [S EXCEPT !.fuel = @ - 1], [C1 EXCEPT !.ig = TRUE])
  IN CASE S1.dv = "brk" ->
            (IF S1.dn = 1
             THEN (IF last # 0 THEN Abandon(S1, "unspec") ELSE [LeaveLoop(S1) EXCEPT !.st = 0])
             ELSE LeaveLoop(S1))
       [] S1.dv = "cnt" -> (IF S1.dn = 1 THEN WLoop(t, LeaveLoop(S1), C, last, lastn) ELSE LeaveLoop(S1))
       [] S1.dv # "none" -> S1
       [] S1.st # 0 -> [S1 EXCEPT !.st = last]
       [] OTHER ->
          (LET S2 == Ev(t.c[2], S1, C1)
           IN CASE S2.dv = "brk" -> LeaveLoop(S2)
                [] S2.dv = "cnt" -> (IF S2.dn = 1 THEN WLoop(t, LeaveLoop(S2), C, S2.st, lastn) ELSE LeaveLoop(S2))
                [] S2.dv # "none" -> S2
                [] OTHER -> WLoop(t, S2, C, S2.st, S2.st))

(***************************************************************************)
(* for (2.9.4.2; loops.md).  The words are expanded once, before the loop; *)
(* each field is assigned to the variable in turn (a read-only variable:   *)
(* variable assignment error, 2.8.1 "shall exit"; error-p.sh 'assignment   *)
(* error in for loop kills non-interactive shell'); the variable keeps its *)
(* last value; status of the last command executed, 0 without items.       *)
(***************************************************************************)
FLoop(t, ws, S, C) ==
  IF ws = <<>> THEN S
  ELSE IF S.fuel = 0 THEN Abandon(S, "div")
  ELSE IF S.ro THEN (IF V("for-ro-skip") THEN [S EXCEPT !.st = 1] ELSE Tag(ShellError(S), "for-ro"))
  ELSE
  LET S0 == IF V("for-reexpand") THEN Probes(S, C, t.m, 1, ForWords(t.s, S).pr) ELSE S
      S1 == Ev(t.c[1], [S0 EXCEPT !.v = Head(ws), !.fuel = @ - 1], [C EXCEPT !.ld = @ + 1])
  IN CASE S1.dv = "brk" -> LeaveLoop(S1)
       [] S1.dv = "cnt" -> (IF S1.dn = 1 THEN FLoop(t, Tail(ws), LeaveLoop(S1), C) ELSE LeaveLoop(S1))
       [] S1.dv # "none" -> S1
       [] OTHER -> FLoop(t, Tail(ws), S1, C)

(***************************************************************************)
(* case (2.9.4.3; case.md).  The subject is expanded first; the patterns   *)
(* of an item are expanded and matched one at a time, in order, only until *)
(* the first match ("Once a pattern matches, remaining patterns are not    *)
(* expanded"; case-p.sh 'patterns are not expanded after first match',     *)
(* case-y.sh 'patterns separated by | are expanded and matched in order'). *)
(* `;;` ends the command, `;&` executes the next clause without matching,  *)
(* `;|` / `;;&` go on matching with the next clause.  Exit status: zero if *)
(* no pattern matches or the last executed clause is empty, else that of   *)
(* the last executed clause.                                               *)
(***************************************************************************)
\* returns [S, hit]
MatchList(pl, j, m, subj, S, C) ==
  IF j > Len(pl) \/ Bad(S) THEN [S |-> S, hit |-> FALSE]
  ELSE LET S1 == IF pl[j].pr THEN CsProbe(S, C, 100 * m + j) ELSE S
           hit == Match(pl[j].w, subj, S)
       IN IF hit /\ ~V("case-expand-all")
          THEN [S |-> IF j < Len(pl) THEN Tag(S1, "case-stop-expansion") ELSE S1, hit |-> TRUE]
          ELSE LET R == MatchList(pl, j + 1, m, subj, S1, C) IN [S |-> R.S, hit |-> hit \/ R.hit]

\* z = "no clause executed yet, or the last executed clause was empty";
\* st0 = $? before the case command (wrong variant case-nomatch-keeps only)
Items(it, subj, fall, z, S, C) ==
  IF Bad(S) THEN S
  ELSE IF it.k = "esac" THEN (IF z THEN Tag([S EXCEPT !.st = 0], "case-zero") ELSE S)
  ELSE
    LET R == IF fall THEN [S |-> S, hit |-> TRUE] ELSE MatchList(PatList(it.s), 1, it.m, subj, S, C)
    IN IF Bad(R.S) THEN R.S
       ELSE IF R.hit THEN
         LET body == it.c[1]
             empty == body.k = "empty"
             S1 == IF empty THEN R.S ELSE Ev(body, R.S, C)
         IN IF S1.dv # "none" THEN S1
            ELSE CASE it.n = 0 -> (IF empty THEN Tag([S1 EXCEPT !.st = 0], "case-zero") ELSE S1)
                   [] it.n = 1 -> Items(it.c[2], subj, ~V("case-fall-match"), empty, Tag(S1, "case-fall"), C)
                   [] OTHER -> Items(it.c[2], subj, V("case-cont-fall"), empty, Tag(S1, "case-cont"), C)
       ELSE Items(it.c[2], subj, FALSE, z, R.S, C)

(***************************************************************************)
(* Redirection of a compound command (2.9.4: "Each redirection shall apply *)
(* to all the commands within the compound command that do not explicitly  *)
(* override that redirection"; grouping-p.sh 'redirection on brace         *)
(* grouping', for-p.sh 'redirection on for loop').  The file is opened     *)
(* once, before the compound command is executed, and the previous         *)
(* descriptor is back afterwards.  f exists (empty) and g holds the token  *)
(* 5 when the program starts.  Opening f for writing inside a redirection  *)
(* of standard output to f is left open (two offsets on one file).         *)
(***************************************************************************)
Rdr(t, S, C) ==
  CASE t.s \in {">f", ">>f"} ->
         IF S.wf > 0 \/ Racy(S, "f") THEN Abandon(S, "open")
         ELSE LET S0 == Tag([Touch(S, "f") EXCEPT !.ff = IF t.s = ">f" THEN <<>> ELSE @,
                                                  !.fd1 = [k |-> "f", id |-> 0], !.wf = @ + 1],
                            IF t.s = ">f" THEN "rdr-trunc" ELSE "rdr-append")
                  S1 == Ev(t.c[1], S0, C)
              IN [S1 EXCEPT !.fd1 = S.fd1, !.wf = S.wf]
    [] OTHER ->
         LET res == IF t.s = "<f" THEN "f" ELSE "g"
         IN IF res = "f" /\ Racy(S, "f") THEN Abandon(S, "open")
            ELSE LET S0 == Tag([(IF res = "f" THEN Touch(S, "f") ELSE S)
                                  EXCEPT !.ofd = Append(@, [res |-> res, off |-> 0]),
                                         !.fd0 = [k |-> "ofd", id |-> Len(S.ofd) + 1]], "rdr-in")
                     S1 == Ev(t.c[1], S0, C)
                 IN [S1 EXCEPT !.fd0 = S.fd0]

\* wrong variant rdr-each: the redirection is applied to each command of a
\* sequential list separately
RECURSIVE RdrEach(_, _, _, _)
RdrEach(t, b, S, C) ==
  IF b.k = "seq"
  THEN LET S1 == RdrEach(t, b.c[1], S, C) IN IF S1.dv # "none" THEN S1 ELSE RdrEach(t, b.c[2], S1, C)
  ELSE Rdr([t EXCEPT !.c = <<b>>], S, C)

Ev(t, S, C) ==
  CASE t.k = "seq" ->
         LET S1 == Ev(t.c[1], S, C) IN IF S1.dv # "none" THEN S1 ELSE Ev(t.c[2], S1, C)
    [] t.k \in {"and", "or"} ->
         LET S1 == Ev(t.c[1], S, [C EXCEPT !.ig = TRUE])
         IN IF S1.dv # "none" THEN S1
            ELSE IF (S1.st = 0) = (t.k = "and") THEN Ev(t.c[2], S1, C) ELSE S1
    [] t.k = "not" ->
         \* 2.9.2: `!` inverts the status of the pipeline (computed with pipefail)
         LET S1 == Ev(t.c[1], S, [C EXCEPT !.ig = TRUE])
         IN IF S1.dv # "none" THEN S1 ELSE [S1 EXCEPT !.st = IF S1.st = 0 THEN 1 ELSE 0]
    [] t.k = "pipe" -> PipeFrom(<<t.c[1], t.c[2]>>, 1, S, C, <<>>, <<>>, 0)
    [] t.k = "pipe3" -> PipeFrom(<<t.c[1], t.c[2], t.c[3]>>, 1, S, C, <<>>, <<>>, 0)
    [] t.k = "sub" ->
         LET R == Fork(t.c[1], S, S, C, "sub")
         IN IF Bad(R.S) THEN R.S
            ELSE Errexit([R.S EXCEPT !.st = R.st, !.bg = IF V("bang-fg") THEN 50 + R.id ELSE @], C)
    \* Asynchronous list (2.9.3.1; lists.md): a subshell the shell does not
    \* wait for; exit status 0; $! is its process ID; without job control
    \* standard input is /dev/null "before any explicit redirections are
    \* performed" and SIGINT / SIGQUIT are ignored.
    [] t.k = "bg" ->
         LET a == S.na + 1
             Sa == [S EXCEPT !.na = a]
             R == Fork(t.c[1], Sa,
                       [Sa EXCEPT !.fd0 = IF V("async-stdin") THEN @ ELSE [k |-> "null", id |-> 0], !.ign = TRUE],
                       C, "async")
         IN IF Bad(R.S) THEN R.S
            ELSE Tag([R.S EXCEPT !.bg = a, !.jobs = Append(@, [a |-> a, id |-> R.id, st |-> R.st, w |-> R.w]),
                                 !.live = @ \cup {R.id},
                                 !.st = IF V("async-status") THEN R.st ELSE 0], "async")
    [] t.k = "rdr" -> IF V("rdr-each") THEN RdrEach(t, t.c[1], S, C) ELSE Rdr(t, S, C)
    [] t.k = "if" ->
         LET S1 == Ev(t.c[1], S, [C EXCEPT !.ig = TRUE])
         IN IF S1.dv # "none" THEN S1
            ELSE IF S1.st = 0 THEN Ev(t.c[2], S1, C) ELSE [S1 EXCEPT !.st = 0]
    [] t.k = "ife" ->
         LET S1 == Ev(t.c[1], S, [C EXCEPT !.ig = TRUE])
         IN IF S1.dv # "none" THEN S1
            ELSE IF S1.st = 0 THEN Ev(t.c[2], S1, C) ELSE Ev(t.c[3], S1, C)
    [] t.k = "while" -> WLoop(t, S, C, 0, 0)
    [] t.k = "for" ->
         LET fw == ForWords(t.s, S)
             S1 == IF V("for-reexpand") THEN S ELSE Probes(S, C, t.m, 1, fw.pr)
         IN IF Bad(S1) THEN S1
            ELSE IF fw.ws = <<>> THEN Tag([S1 EXCEPT !.st = 0], "for-none")
            ELSE LET S2 == FLoop(t, fw.ws, Tag(S1, IF t.s \in {"@", "q@"} THEN "for-pos" ELSE "for-words"), C)
                 IN IF V("for-restores") /\ S2.dv = "none" THEN [S2 EXCEPT !.v = S.v] ELSE S2
    [] t.k = "case" ->
         LET pr == t.s \in {"Pa", "Pb"}
             S1 == IF pr THEN CsProbe(S, C, 100 * t.m) ELSE S
             subj == CASE t.s = "v" -> S.v [] t.s = "Pa" -> "a" [] t.s = "Pb" -> "b" [] OTHER -> t.s
         IN IF Bad(S1) THEN S1
            ELSE LET S2 == Items(t.c[1], subj, FALSE, TRUE, S1, C)
                 IN IF V("case-nomatch-keeps") /\ S2.dv = "none" /\ S2.tr = S1.tr THEN [S2 EXCEPT !.st = S.st] ELSE S2
    [] OTHER -> Simple(t, S, C)

(***************************************************************************)
(* A whole program.  Options of a run: e errexit, pf pipefail on at start. *)
(*   x = "none" the shell reached the end of its input, "exit" it exited   *)
(*   earlier, "killed" it was terminated by a signal.                      *)
(* The shell does not wait for asynchronous lists when it terminates.      *)
(***************************************************************************)
Run(t, o) ==
  LET S == Ev(t, State0(o), Ctx0)
  IN [oc |-> IF Bad(S) THEN S.dv ELSE "ok",
      tr |-> S.tr, win |-> S.win, st |-> S.st, x |-> S.dv, out |-> S.out, ff |-> S.ff, orace |-> S.orace,
      v |-> S.v, tg |-> S.tg]

(***************************************************************************)
(* Conformance: is the observed run O a run the specification allows?      *)
(*   O.tr  observations [p path, n process number, m, st, x] in the order  *)
(*         in which they happened; O.st final status of the shell; O.out,  *)
(*         O.ff final content of the shell's standard output and of f.     *)
(* (1) Every environment made exactly its prescribed observations, in      *)
(*     order (symbolic statuses bound consistently; $! symbols bound to    *)
(*     distinct process IDs, and to the process ID of the asynchronous     *)
(*     list's own observations where it made any).                         *)
(* (2) Every observation of a child environment lies inside its window.    *)
(* (3) Final status and the sinks agree (standard output as a multiset     *)
(*     when two writes to it were unordered).                              *)
(***************************************************************************)
Own(tr, q) == SelectSeq(tr, LAMBDA e : e.p = q)
PathsOf(tr) == {tr[i].p : i \in 1..Len(tr)}
IsPrefix(a, b) == Len(a) <= Len(b) /\ SubSeq(b, 1, Len(a)) = a
PosOf(tr, q) == SelectSeq([i \in 1..Len(tr) |-> i], LAMBDA i : tr[i].p = q)

StOk(es, os) == IF es <= -1000 THEN os > 128 ELSE IF es <= -10 THEN os \in 1..255 ELSE es = os

Count(s, v) == Cardinality({i \in 1..Len(s) : s[i] = v})

Conforms(R, O) ==
  LET ps == PathsOf(R.tr)
      \* pairs <<expected, observed>> of corresponding observations
      pairs == UNION {{<<Own(R.tr, q)[i], Own(O.tr, q)[i]>> : i \in 1..Len(Own(R.tr, q))} : q \in ps}
      stp == pairs \cup {<<[p |-> <<>>, m |-> -1, st |-> R.st, x |-> 0], [p |-> <<>>, n |-> 0, m |-> -1, st |-> O.st, x |-> 0]>>}
      bangs == {pr \in pairs : pr[1].x <= -100}
  IN /\ O.oc = "completed"
     /\ PathsOf(O.tr) = ps
     /\ \A q \in ps : Len(Own(R.tr, q)) = Len(Own(O.tr, q))
     /\ \A pr \in pairs : /\ pr[1].m = pr[2].m
                          /\ StOk(pr[1].st, pr[2].st)
                          /\ IF pr[1].x <= -100 THEN pr[2].x > 0 ELSE pr[1].x = pr[2].x
     /\ StOk(R.st, O.st)
     /\ \A a, b \in stp : (a[1].st <= -10 /\ a[1].st > -1000 /\ a[1].st = b[1].st) => a[2].st = b[2].st
     /\ \A a, b \in bangs : (a[1].x = b[1].x) <=> (a[2].x = b[2].x)
     /\ \A w \in {R.win[i] : i \in 1..Len(R.win)} :
          /\ \* $! names the process that runs the asynchronous list
             \A b \in bangs : (w.a > 0 /\ b[1].x = -(100 + w.a)) =>
                                 \A e \in {O.tr[i] : i \in 1..Len(O.tr)} : e.p = w.p => e.n = b[2].x
          /\ LET q == SubSeq(w.p, 1, Len(w.p) - 1)
                 pi == PosOf(O.tr, q)
                 det(i) == \E k \in 1..Len(R.win) :
                              /\ R.win[k].hi = -1 /\ Len(R.win[k].p) > Len(w.p)
                              /\ IsPrefix(w.p, R.win[k].p) /\ IsPrefix(R.win[k].p, O.tr[i].p)
             IN \A i \in 1..Len(O.tr) : IsPrefix(w.p, O.tr[i].p) =>
                  /\ (w.lo > 0) => pi[w.lo] < i
                  /\ (w.hi >= 0 /\ Len(pi) > w.hi /\ ~det(i)) => i < pi[w.hi + 1]
     /\ IF R.orace THEN Len(R.out) = Len(O.out) /\ \A v \in 1..9 : Count(R.out, v) = Count(O.out, v)
        ELSE R.out = O.out
     /\ R.ff = O.ff

\* the canonical order as an observed run (process number = position of the
\* path among the paths; asynchronous lists get the number $! stands for)
Canonical(R) ==
  LET NumOf(q) == IF q = <<>> THEN 1
                  ELSE LET ws == {i \in 1..Len(R.win) : R.win[i].p = q}
                           w == R.win[CHOOSE i \in ws : TRUE]
                       IN IF w.a > 0 THEN 1000 + w.a ELSE 2000 + (CHOOSE i \in ws : TRUE)
  IN [oc |-> "completed",
      tr |-> [i \in 1..Len(R.tr) |->
                [p |-> R.tr[i].p, n |-> NumOf(R.tr[i].p), m |-> R.tr[i].m,
                 st |-> IF R.tr[i].st <= -1000 THEN 384 - 1000 - R.tr[i].st ELSE IF R.tr[i].st <= -10 THEN -R.tr[i].st ELSE R.tr[i].st,
                 x |-> IF R.tr[i].x <= -100 THEN 1000 - 100 - R.tr[i].x ELSE R.tr[i].x]],
      st |-> IF R.st <= -1000 THEN 384 - 1000 - R.st ELSE IF R.st <= -10 THEN -R.st ELSE R.st,
      out |-> R.out, ff |-> R.ff]
=============================================================================
