SPECIFICATION Spec
CONSTANT Family = "w"
CONSTANT Slice = 3
CONSTANT Level = 2
CONSTANT Depth = 0
CONSTANT RLen = 0
VIEW View
INVARIANT Emit
