SPECIFICATION Spec
CONSTANTS
  Cfg = "neg"
  Bug = "noclobberall"
  Sim = TRUE
INVARIANT TypeOK
INVARIANT Conforms
