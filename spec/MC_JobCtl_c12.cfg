SPECIFICATION Spec
CONSTANTS
  MaxLen = 5
  Modes = {TRUE, FALSE}
  JobIdOps = {"%1", "%2", "%+", "%-", "%%"}
  PidOps = {"$p1"}
  Sigs = {"STOP"}
  JobsOpts = {""}
  KillLNums = {}
  MonCmds = {0, 1}
  FgSlots = {3}
  StartWith = "none"
VIEW view
INVARIANT TableConsistent
INVARIANT TableMirrorsProcesses
INVARIANT ListingShape
INVARIANT ReportedOnce
INVARIANT EmitState
PROPERTY ReportedThenGone
PROPERTY WaitTrue
PROPERTY NumbersStable
