------------------------------- MODULE Prompt -------------------------------
(***************************************************************************)
(* Specification-growth module G11: what an interactive shell writes        *)
(* around the lines it reads - command prompts (PS1 / PS2), the echo of     *)
(* `set -v`, the reaction to end-of-file (`set -o ignoreeof`), and the job  *)
(* status reports written before a prompt.                                  *)
(*                                                                         *)
(* Written from POSIX.1-2024 XCU (sh: ENVIRONMENT VARIABLES PS1 / PS2,      *)
(* OPTIONS -i, STDIN; set: -b, -o ignoreeof, -v; 2.9.3.1 Asynchronous       *)
(* lists; 2.11 Job control; 2.8.1 Consequences of shell errors) and the     *)
(* manual under docs/src (interactive/README.md, interactive/prompt.md,     *)
(* interactive/job_control.md "Job status change notifications",            *)
(* termination.md "Ignoring EOF", environment/options.md, builtins/jobs.md  *)
(* "Format", builtins/read.md "Prompting", debugging.md, language/          *)
(* commands/lists.md), NOT from the code.                                   *)
(*                                                                         *)
(* A SESSION is a start-up configuration cfg and a sequence of EVENTS (what *)
(* the user types: one-line commands, multi-line constructs, lines with a   *)
(* syntax error, end-of-file conditions).  Step(cfg, S, e) folds an event   *)
(* into the session state S; S carries what the shell was given (the input  *)
(* chunks, separated by end-of-file conditions) and what it must have       *)
(* written: a PATTERN for standard error, the text of standard output and   *)
(* the probe events.  Finish adds the end of input.                         *)
(*                                                                         *)
(* A pattern is a sequence of items                                         *)
(*   <<"L", s>>   the text s                                                *)
(*   <<"H">>      a history number (decimal digits); the manual calls the   *)
(*                feature non-functional: a lone "!" may also stay          *)
(*   <<"N">>      decimal digits left open (a process ID, an unknown $?)    *)
(*   <<"D">>      a diagnostic: one or more complete lines, text open       *)
(*                (never containing the character "@", which prompts of     *)
(*                generated sessions use as their mark)                     *)
(*   <<"X">>      text left open (no newline in it)                         *)
(*   <<"A", as>>  one of the patterns in the sequence as                    *)
(*   <<"R", lo, hi, p>>  the pattern p, lo to hi times in a row             *)
(* and Matches(pat, s) says whether the text s is an instance.  Everything  *)
(* the documents leave open is an "A", "D", "X", "H" or "N".                *)
(***************************************************************************)
EXTENDS Integers, Sequences, FiniteSets, TLC

Unset == "<unset>"
\* termination.md, "Ignoring EOF": the line shown in the example
IgnMsg == "# Type `exit` to leave the shell when the ignore-eof option is on.\n"
\* termination.md: "entering 50 eof sequences in a row will still cause the shell to exit":
\* the shell gives up at the 50th or after the 50th warning (the sentence allows both readings)
EofWarnings == {49, 50}

L(s) == <<"L", s>>
H == <<"H">>
N == <<"N">>
D == <<"D">>
X == <<"X">>
A(alts) == <<"A", alts>>
Rp(lo, hi, p) == <<"R", lo, hi, p>>

At(s, i) == SubSeq(s, i, i)
IsDigit(c) == c \in {"0", "1", "2", "3", "4", "5", "6", "7", "8", "9"}
DigitVal(c) == CASE c = "0" -> 0 [] c = "1" -> 1 [] c = "2" -> 2 [] c = "3" -> 3 [] c = "4" -> 4
                 [] c = "5" -> 5 [] c = "6" -> 6 [] c = "7" -> 7 [] c = "8" -> 8 [] c = "9" -> 9
RECURSIVE NumFrom(_, _, _)
NumFrom(s, i, acc) == IF i > Len(s) THEN acc ELSE NumFrom(s, i + 1, acc * 10 + DigitVal(At(s, i)))
\* the value of a variable in arithmetic: unset or empty is 0 (XCU 2.6.4), otherwise a decimal constant
NumOf(v) == IF v = Unset \/ v = "" THEN 0 ELSE NumFrom(v, 1, 0)

RECURSIVE CatAll(_)
CatAll(ss) == IF ss = <<>> THEN "" ELSE Head(ss) \o CatAll(Tail(ss))
RECURSIVE Flat(_)
Flat(sss) == IF sss = <<>> THEN <<>> ELSE Head(sss) \o Flat(Tail(sss))

-----------------------------------------------------------------------------
(***************************************************************************)
(* Prompt strings.  A value of PS1 / PS2 is a sequence of tokens            *)
(* [k, n, w]; Raw gives its text.                                           *)
(*   lit  w        literal text (no $ ` \ in it; may contain !)             *)
(*   dlr           the characters "$ " (the default value of PS1)           *)
(*   var  n        $n            brc  n      ${n}                           *)
(*   dfl  n w      ${n:-w}       asg  n w    ${n:=w}    alt n w  ${n:+w}    *)
(*   len  n        ${#n}                                                    *)
(*   inc  n        $((n=n+1))    ari  n w    $((n+w))                       *)
(*   sta           $?                                                       *)
(*   sub  w        $(echo w)                                                *)
(*   err  n w      ${n?w}        (an expansion error when n is unset)       *)
(*   bsl  w        a backslash followed by w in {"\\", "$x"}                *)
(***************************************************************************)
Tok(k, n, w) == [k |-> k, n |-> n, w |-> w]
Raw(t) ==
  CASE t.k = "lit" -> t.w
    [] t.k = "dlr" -> "$ "
    [] t.k = "var" -> "$" \o t.n
    [] t.k = "brc" -> "${" \o t.n \o "}"
    [] t.k = "dfl" -> "${" \o t.n \o ":-" \o t.w \o "}"
    [] t.k = "asg" -> "${" \o t.n \o ":=" \o t.w \o "}"
    [] t.k = "alt" -> "${" \o t.n \o ":+" \o t.w \o "}"
    [] t.k = "len" -> "${#" \o t.n \o "}"
    [] t.k = "inc" -> "$((" \o t.n \o "=" \o t.n \o "+1))"
    [] t.k = "ari" -> "$((" \o t.n \o "+" \o t.w \o "))"
    [] t.k = "sta" -> "$?"
    [] t.k = "sub" -> "$(echo " \o t.w \o ")"
    [] t.k = "err" -> "${" \o t.n \o "?" \o t.w \o "}"
    [] t.k = "bsl" -> "\\" \o t.w
RawPS(toks) == CatAll([i \in DOMAIN toks |-> Raw(toks[i])])

(***************************************************************************)
(* Exclamation-mark expansion of a text (sh, PS1): "!!" gives "!", any      *)
(* other "!" gives the history number.  The result is a pattern.            *)
(***************************************************************************)
RECURSIVE ExclFrom(_, _, _)
ExclFrom(s, i, acc) ==
  IF i > Len(s) THEN (IF acc = "" THEN <<>> ELSE <<L(acc)>>)
  ELSE IF At(s, i) # "!" THEN ExclFrom(s, i + 1, acc \o At(s, i))
  ELSE IF i < Len(s) /\ At(s, i + 1) = "!" THEN ExclFrom(s, i + 2, acc \o "!")
  ELSE (IF acc = "" THEN <<>> ELSE <<L(acc)>>) \o <<H>> \o ExclFrom(s, i + 1, "")
Excl(s) == ExclFrom(s, 1, "")

\* adjacent literal items joined (so that "!" "!" coming from two sources are a pair)
RECURSIVE MergeL(_)
MergeL(p) ==
  IF Len(p) < 2 THEN p
  ELSE IF p[1][1] = "L" /\ p[2][1] = "L" THEN MergeL(<<L(p[1][2] \o p[2][2])>> \o SubSeq(p, 3, Len(p)))
  ELSE <<p[1]>> \o MergeL(Tail(p))
\* exclamation-mark expansion as a pass over the result of the other expansions
RECURSIVE ExclPat(_)
RECURSIVE ExclAlts(_)
ExclPat(p) ==
  IF p = <<>> THEN <<>>
  ELSE IF p[1][1] = "L" THEN Excl(p[1][2]) \o ExclPat(Tail(p))
  ELSE IF p[1][1] = "A" THEN <<A(ExclAlts(p[1][2]))>> \o ExclPat(Tail(p))
  ELSE <<p[1]>> \o ExclPat(Tail(p))
ExclAlts(as) == IF as = <<>> THEN <<>> ELSE <<ExclPat(MergeL(Head(as)))>> \o ExclAlts(Tail(as))

\* a pattern as one string (to compare patterns)
RECURSIVE PatKey(_)
RECURSIVE AltsKey(_)
PatKey(p) ==
  IF p = <<>> THEN ""
  ELSE LET it == Head(p)
           k == CASE it[1] = "L" -> "L<" \o it[2] \o ">"
                  [] it[1] = "A" -> "A(" \o AltsKey(it[2]) \o ")"
                  [] it[1] = "R" -> "R" \o ToString(it[2]) \o "-" \o ToString(it[3]) \o "(" \o PatKey(it[4]) \o ")"
                  [] OTHER -> it[1]
       IN k \o PatKey(Tail(p))
AltsKey(as) == IF as = <<>> THEN "" ELSE PatKey(Head(as)) \o "|" \o AltsKey(Tail(as))
\* either of two patterns
Either(a, b) == IF PatKey(a) = PatKey(b) THEN a ELSE <<A(<<a, b>>)>>

(***************************************************************************)
(* Parameter expansion, command substitution and arithmetic expansion of    *)
(* one token (XCU 2.6.2 - 2.6.4) in the variable state V (name -> value or  *)
(* Unset), with the exit status st of the last command (-1: not known) and  *)
(* the nounset option.  ex says how the words of dfl / sub / lit tokens are  *)
(* turned into a pattern: literally (FALSE), or by exclamation-mark         *)
(* expansion when that pass comes first (TRUE).  Result: [p, V, ok].        *)
(***************************************************************************)
IsNull(V, n) == V[n] = Unset \/ V[n] = ""
LitWord(s) == IF s = "" THEN <<>> ELSE <<L(s)>>
ExpTok(t, V, st, nou, ex) ==
  LET lit(s) == IF s = "" THEN <<>> ELSE <<L(s)>>
      wx(s) == IF ex THEN Excl(s) ELSE LitWord(s)
      val(n) == IF V[n] = Unset THEN "" ELSE V[n]
      R(p, V2, ok) == [p |-> p, V |-> V2, ok |-> ok]
  IN CASE t.k = "lit" -> R(wx(t.w), V, TRUE)
       [] t.k = "dlr" -> R(<<L("$ ")>>, V, TRUE)
       [] t.k \in {"var", "brc"} -> IF V[t.n] = Unset /\ nou THEN R(<<>>, V, FALSE) ELSE R(lit(val(t.n)), V, TRUE)
       [] t.k = "dfl" -> IF IsNull(V, t.n) THEN R(wx(t.w), V, TRUE) ELSE R(lit(V[t.n]), V, TRUE)
       [] t.k = "asg" -> IF IsNull(V, t.n) THEN R(lit(t.w), [V EXCEPT ![t.n] = t.w], TRUE) ELSE R(lit(V[t.n]), V, TRUE)
       [] t.k = "alt" -> IF IsNull(V, t.n) THEN R(<<>>, V, TRUE) ELSE R(wx(t.w), V, TRUE)
       [] t.k = "len" -> IF V[t.n] = Unset /\ nou THEN R(<<>>, V, FALSE) ELSE R(<<L(ToString(Len(val(t.n))))>>, V, TRUE)
       \* (set -u: an unset variable is an error in arithmetic expansion too)
       [] t.k = "inc" -> IF V[t.n] = Unset /\ nou THEN R(<<>>, V, FALSE)
                         ELSE LET v == ToString(NumOf(V[t.n]) + 1) IN R(<<L(v)>>, [V EXCEPT ![t.n] = v], TRUE)
       [] t.k = "ari" -> IF V[t.n] = Unset /\ nou THEN R(<<>>, V, FALSE)
                         ELSE R(<<L(ToString(NumOf(V[t.n]) + NumOf(t.w)))>>, V, TRUE)
       [] t.k = "sta" -> R(IF st < 0 THEN <<N>> ELSE <<L(ToString(st))>>, V, TRUE)
       [] t.k = "sub" -> R(wx(t.w), V, TRUE)
       [] t.k = "err" -> IF V[t.n] = Unset THEN R(<<>>, V, FALSE) ELSE R(lit(V[t.n]), V, TRUE)
       \* Neither POSIX nor the manual says what a backslash does in a prompt string
       \* ("special notation that starts with a backslash ... is not yet implemented"):
       \* it is either literal or quotes the next character.
       [] t.k = "bsl" -> IF t.w = "\\" THEN R(<<A(<<<<L("\\\\")>>, <<L("\\")>>>>)>>, V, TRUE)
                         ELSE IF V["x"] = Unset /\ nou THEN R(<<>>, V, FALSE)
                         ELSE R(<<A(<<<<L("\\")>> \o lit(val("x")), <<L("$x")>>>>)>>, V, TRUE)

RECURSIVE ExpToks(_, _, _, _, _, _)
ExpToks(toks, i, V, st, nou, ex) ==
  IF i > Len(toks) THEN [p |-> <<>>, V |-> V, ok |-> TRUE]
  ELSE LET a == ExpTok(toks[i], V, st, nou, ex)
           b == ExpToks(toks, i + 1, a.V, st, nou, ex)
       IN [p |-> a.p \o b.p, V |-> b.V, ok |-> a.ok /\ b.ok]

(***************************************************************************)
(* What one display of a prompt writes.                                     *)
(*  PS1 (sh, PS1): "subjected to parameter expansion and exclamation-mark   *)
(*  expansion ... performed in two passes, where the result of the first    *)
(*  pass is input to the second pass.  One of the passes shall perform only *)
(*  the exclamation-mark expansion ...  Which of the two passes is          *)
(*  performed first is unspecified."  (prompt.md describes one order and,   *)
(*  under Compatibility, the other.)  Both orders are allowed; the side     *)
(*  effects are the same (words of ${n:=w} hold no "!").                    *)
(*  PS2: parameter expansion only, "!" is an ordinary character.            *)
(*  An expansion error: neither document says what is written instead of    *)
(*  the prompt - left open (X); tokens with side effects are not combined   *)
(*  with failing ones.                                                      *)
(*  mode: "spec" or one of the named wrong variants refuted by the          *)
(*  negative configurations ("noexcl": no exclamation-mark expansion).      *)
(***************************************************************************)
\* adjacent literal tokens are one piece of text
RECURSIVE MergeLits(_)
MergeLits(toks) ==
  IF Len(toks) < 2 THEN toks
  ELSE IF toks[1].k = "lit" /\ toks[2].k = "lit"
       THEN MergeLits(<<[k |-> "lit", n |-> "", w |-> toks[1].w \o toks[2].w]>> \o SubSeq(toks, 3, Len(toks)))
       ELSE <<toks[1]>> \o MergeLits(Tail(toks))
NoPS == <<[k |-> "unset", n |-> "", w |-> ""]>>      \* "the variable is not set" as a value of ps1 / ps2
IsNoPS(toks) == Len(toks) = 1 /\ toks[1].k = "unset"
ShowPS(toks, first, V, st, nou, mode) ==
  IF IsNoPS(toks) THEN [p |-> <<X>>, V |-> V]      \* PS1 / PS2 unset: not specified
  ELSE LET tk == MergeLits(toks)
           plain == ExpToks(tk, 1, V, st, nou, FALSE)
       IN IF ~plain.ok THEN [p |-> <<X>>, V |-> V]
          ELSE IF ~first \/ mode = "noexcl" THEN [p |-> MergeL(plain.p), V |-> plain.V]
          ELSE LET exfirst == ExpToks(tk, 1, V, st, nou, TRUE)
               IN [p |-> Either(ExclPat(MergeL(plain.p)), MergeL(exfirst.p)), V |-> plain.V]

-----------------------------------------------------------------------------
(***************************************************************************)
(* Start-up configuration                                                   *)
(*   src     "stdin" (no operand; -s implied), "cmd" (-c), "file" (script   *)
(*           operand)                                                       *)
(*   tin / terr  standard input / standard error is a terminal              *)
(*   iflag   "", "-i" or "+i"                                               *)
(*   ign     -o ignoreeof given;  vb  -v given                              *)
(*   mflag   "", "-m" or "+m"                                               *)
(*   ps1 / ps2   value the variable has when the shell starts reading: set   *)
(*           by the rcfile (startup.md; via = "rc": --rcfile FILE with the   *)
(*           assignments; only an interactive shell runs it) or inherited   *)
(*           from the environment (sh, ENVIRONMENT VARIABLES; via = "env"),  *)
(*           or NoPS (then the documented defaults "$ " and "> " apply)     *)
(* interactive/README.md "Enabling interactive mode"; sh -i; options.md.    *)
(***************************************************************************)
Interactive(c) == c.iflag = "-i" \/ (c.iflag = "" /\ c.src = "stdin" /\ c.tin /\ c.terr)
\* prompt.md: "When an interactive shell reads input, it displays a command prompt";
\* a command string is not read line by line from anywhere.
Prompting(c) == Interactive(c) /\ c.src \in {"stdin", "file"}
\* options.md, monitor: "Enabled by default in interactive shells"
Monitor(c) == c.mflag = "-m" \/ (c.mflag = "" /\ Interactive(c))
\* options.md, ignoreeof: "Only takes effect if the shell is interactive and input is a terminal"
CanIgnore(c) == Interactive(c) /\ c.src = "stdin" /\ c.tin

HasPS(c) == ~(IsNoPS(c.ps1) /\ IsNoPS(c.ps2))
\* the rcfile that sets PS1 / PS2
RcText(c) == (IF IsNoPS(c.ps1) THEN "" ELSE "PS1='" \o RawPS(c.ps1) \o "'\n")
             \o (IF IsNoPS(c.ps2) THEN "" ELSE "PS2='" \o RawPS(c.ps2) \o "'\n")
RunsRc(c) == c.via = "rc" /\ HasPS(c) /\ Interactive(c)

\* Not modelled: -v with a command string (whether and how the operand of -c is "input ...
\* as it is read" is not said by the manual, which only describes lines being echoed).
Modelled(c, S) == ~(c.src = "cmd" /\ S.vb)

DefaultPS1 == <<Tok("dlr", "", "")>>
DefaultPS2 == <<Tok("lit", "", "> ")>>

VarNames == {"x", "u", "n"}

Init0(c) ==
  [ps1 |-> IF IsNoPS(c.ps1) \/ (c.via = "rc" /\ ~Interactive(c)) THEN DefaultPS1 ELSE c.ps1,
   ps2 |-> IF IsNoPS(c.ps2) \/ (c.via = "rc" /\ ~Interactive(c)) THEN DefaultPS2 ELSE c.ps2,
   V |-> [v \in VarNames |-> Unset],
   st |-> 0,                 \* $? (-1: not known)
   ign |-> c.ign, nou |-> FALSE, vb |-> c.vb,
   jobs |-> <<>>,            \* [num, name, due, code, st in {"R", "D"}, chg]
   alive |-> TRUE,           \* the shell is still reading
   eofrun |-> 0,             \* end-of-file conditions in a row just before now
   chunks |-> <<>>, cur |-> "",   \* the input: finished chunks, chunk being typed
   \* -v: the lines of the rcfile are input too (set -v: "write its input to standard error as it is read")
   pat |-> IF c.vb /\ RunsRc(c) THEN <<L(RcText(c))>> ELSE <<>>,
   out |-> "", ev |-> <<>>,
   n1 |-> 0, n2 |-> 0,       \* number of PS1 / PS2 displays (for the laws)
   cache |-> <<>>]           \* (wrong variant "once" only: the first expansion of PS1)

(***************************************************************************)
(* Job status reports (job_control.md "Job status change notifications",    *)
(* XCU 2.11): written before the prompt for a new command when the shell    *)
(* is interactive and job control is enabled, one line per job whose        *)
(* status changed, in the format of `jobs` (jobs.md "Format": number,       *)
(* current/previous mark, state padded to 20 columns, command).  Each       *)
(* change is reported once.  Which of several non-suspended jobs is the     *)
(* current one is open, and so is the order of two lines.                   *)
(***************************************************************************)
RECURSIVE Spaces(_)
Spaces(n) == IF n <= 0 THEN "" ELSE " " \o Spaces(n - 1)
StateText(j) == IF j.st = "R" THEN "Running" ELSE IF j.code = 0 THEN "Done" ELSE "Done(" \o ToString(j.code) \o ")"
JobLine(j, njobs) ==
  LET rest == " " \o StateText(j) \o Spaces(20 - Len(StateText(j))) \o " " \o j.name \o "\n"
      hd == "[" \o ToString(j.num) \o "] "
  IN IF njobs = 1 THEN <<L(hd \o "+" \o rest)>>
     ELSE IF njobs = 2 THEN <<A(<<<<L(hd \o "+" \o rest)>>, <<L(hd \o "-" \o rest)>>>>)>>
     ELSE <<A(<<<<L(hd \o "+" \o rest)>>, <<L(hd \o "-" \o rest)>>, <<L(hd \o " " \o rest)>>>>)>>
Changed(S) == SelectSeq(S.jobs, LAMBDA j : j.chg)
Reports(c, S, mode) ==
  IF ~(Interactive(c) /\ Monitor(c)) \/ Changed(S) = <<>> THEN <<>>
  ELSE LET ch == Changed(S)
           one(k) == JobLine(ch[k], Len(S.jobs))
       IN IF Len(ch) = 1 THEN one(1)
          ELSE IF Len(ch) = 2 THEN <<A(<<one(1) \o one(2), one(2) \o one(1)>>)>>
          ELSE Flat([k \in DOMAIN ch |-> one(k)])     \* (not generated)
Reported(S, mode) == IF mode = "rereport" THEN S
                     ELSE [S EXCEPT !.jobs = [k \in DOMAIN S.jobs |-> [S.jobs[k] EXCEPT !.chg = FALSE]]]

(***************************************************************************)
(* The shell reads one line.  ctx = 1: it is ready for a new command        *)
(* (reports, PS1); ctx = 2: the command is continued (PS2).  With -v the    *)
(* line is written to standard error as it is read (set -v).                *)
(***************************************************************************)
Show(c, S, ctx, mode) ==
  IF ~Prompting(c) THEN S
  ELSE LET S1 == IF ctx = 1 /\ mode # "lateReport" THEN [Reported(S, mode) EXCEPT !.pat = S.pat \o Reports(c, S, mode)] ELSE S
           toks == IF ctx = 1 \/ mode = "ps1only" THEN S1.ps1 ELSE S1.ps2
           d == IF mode = "once" /\ ctx = 1 /\ S1.n1 > 0
                THEN [p |-> S1.cache, V |-> S1.V]
                ELSE ShowPS(toks, ctx = 1, S1.V, S1.st, S1.nou, mode)
           S2 == [S1 EXCEPT !.pat = S1.pat \o d.p, !.V = d.V,
                            !.cache = IF ctx = 1 /\ S1.n1 = 0 THEN d.p ELSE @,
                            !.n1 = IF ctx = 1 THEN @ + 1 ELSE @, !.n2 = IF ctx = 2 THEN @ + 1 ELSE @]
       IN IF ctx = 1 /\ mode = "lateReport" THEN [Reported(S2, mode) EXCEPT !.pat = S2.pat \o Reports(c, S2, mode)] ELSE S2

ReadLine(c, S, ctx, line, mode) ==
  LET S1 == Show(c, S, ctx, mode)
  IN [S1 EXCEPT !.cur = @ \o line \o "\n", !.eofrun = IF mode = "noreset" THEN @ ELSE 0,
                !.pat = IF S1.vb THEN @ \o <<L(line \o "\n")>> ELSE @]

Ignoring(c, S) == CanIgnore(c) /\ S.ign

\* An end-of-file condition when the shell wants a line.  termination.md: with ignoreeof (in
\* an interactive shell reading a terminal) the shell "prevent[s] the shell from exiting on
\* end-of-file and let[s] it wait for more input", with the warning; otherwise the input ends.
ReadEof(c, S, ctx, mode) ==
  LET S1 == Show(c, S, ctx, mode)
      S2 == [S1 EXCEPT !.chunks = Append(@, S1.cur), !.cur = ""]
  IN IF Ignoring(c, S2) /\ ~(mode = "ps2eof" /\ ctx = 2)
     THEN [S2 EXCEPT !.pat = @ \o <<L(IgnMsg)>>, !.eofrun = @ + 1]
     ELSE [S2 EXCEPT !.alive = FALSE]

-----------------------------------------------------------------------------
(***************************************************************************)
(* Multi-line constructs: the lines, the probe events they cause (argument  *)
(* lists), their standard output and $? afterwards (-1: not modelled).      *)
(* Every line but the last leaves the command incomplete (XCU 2.10 grammar: *)
(* open quotes, backslash-newline, an unfinished compound command or        *)
(* expansion, a pending here-document body, a newline after | && ||).       *)
(***************************************************************************)
Form(f, k) ==
  LET F(ls, evs, o, st) == [lines |-> ls, ev |-> evs, out |-> o, st |-> st]
  IN CASE f = "if"      -> F(<<"if true; then", "probe " \o k, "fi">>, <<<<k>>>>, "", 0)
       [] f = "ifelse"  -> F(<<"if false", "then probe no", "else", "probe " \o k, "fi">>, <<<<k>>>>, "", -1)
       [] f = "while"   -> F(<<"while false; do", "probe no", "done">>, <<>>, "", 0)
       [] f = "until"   -> F(<<"until probe " \o k, "true", "do probe no; done">>, <<<<k>>>>, "", 0)
       [] f = "for"     -> F(<<"for i in " \o k, "do probe $i", "done">>, <<<<k>>>>, "", -1)
       [] f = "case"    -> F(<<"case a in", "a) probe " \o k \o ";;", "esac">>, <<<<k>>>>, "", -1)
       [] f = "brace"   -> F(<<"{", "probe " \o k, "}">>, <<<<k>>>>, "", -1)
       [] f = "paren"   -> F(<<"(", "probe " \o k, ")">>, <<<<k>>>>, "", -1)
       [] f = "func"    -> F(<<"f() {", "probe no", "}">>, <<>>, "", 0)
       [] f = "sq"      -> F(<<"probe '" \o k, "z'">>, <<<<k \o "\nz">>>>, "", -1)
       [] f = "dq"      -> F(<<"probe \"" \o k, "z\"">>, <<<<k \o "\nz">>>>, "", -1)
       [] f = "bsnl"    -> F(<<"probe " \o k \o "\\", "z">>, <<<<k \o "z">>>>, "", -1)
       [] f = "pipe"    -> F(<<"echo " \o k \o " |", "cat">>, <<>>, k \o "\n", 0)
       [] f = "pipenl"  -> F(<<"echo " \o k \o " |", "", "cat">>, <<>>, k \o "\n", 0)
       [] f = "and"     -> F(<<"true &&", "probe " \o k>>, <<<<k>>>>, "", 0)
       [] f = "or"      -> F(<<"false ||", "probe " \o k>>, <<<<k>>>>, "", -1)
       [] f = "heredoc" -> F(<<"cat <<E", k, "E">>, <<>>, k \o "\n", 0)
       [] f = "heredoc2" -> F(<<"cat <<E; probe " \o k, "a", "b", "E">>, <<<<k>>>>, "a\nb\n", -1)
       [] f = "heredash" -> F(<<"cat <<-E", "\t" \o k, "\tE">>, <<>>, k \o "\n", 0)
       [] f = "cmdsub"  -> F(<<"probe $(", "echo " \o k, ")">>, <<<<k>>>>, "", -1)
       [] f = "arith"   -> F(<<"probe $((1 +", "2))">>, <<<<"3">>>>, "", -1)
       [] f = "param"   -> F(<<"probe \"${nil:-" \o k, "z}\"">>, <<<<k \o "\nz">>>>, "", -1)
       [] f = "blank"   -> F(<<"if true; then", "", "# c", "probe " \o k, "fi">>, <<<<k>>>>, "", 0)
AllForms == {"if", "ifelse", "while", "until", "for", "case", "brace", "paren", "func", "sq", "dq", "bsnl", "pipe",
             "pipenl", "and", "or", "heredoc", "heredoc2", "heredash", "cmdsub", "arith", "param", "blank"}
\* forms for which end-of-file inside the construct is certainly a syntax error
EofForms == {"if", "while", "for", "case", "brace", "paren", "sq", "dq", "pipe", "and", "cmdsub", "blank"}

(***************************************************************************)
(* Lines with a syntax error: some incomplete lines, then a line whose      *)
(* first token cannot continue the command.  XCU 2.8.1: a syntax error      *)
(* makes a non-interactive shell exit; an interactive shell shall not exit  *)
(* - it writes a diagnostic and is ready for a new command (PS1); nothing   *)
(* of the unfinished command is executed.                                   *)
(***************************************************************************)
ErrForm(f) ==
  CASE f = "fi"     -> <<"fi">>
    [] f = "rparen" -> <<")">>
    [] f = "done"   -> <<"done">>
    [] f = "rbrace" -> <<"}">>
    [] f = "dsemi"  -> <<";;">>
    [] f = "pipe0"  -> <<"| cat">>
    [] f = "and0"   -> <<"&& probe no">>
    [] f = "ifdone" -> <<"if true; then", "probe no", "done">>
    [] f = "iffi"   -> <<"if true", "fi">>
    [] f = "whilefi" -> <<"while true; do", "probe no", "fi">>
    [] f = "bracep" -> <<"{", "probe no", ")">>
    [] f = "pipe2"  -> <<"echo no |", "| cat">>
    [] f = "and2"   -> <<"true &&", "&& probe no">>
    [] f = "parenb" -> <<"(", "probe no", "}">>
AllErrForms == {"fi", "rparen", "done", "rbrace", "dsemi", "pipe0", "and0", "ifdone", "iffi", "whilefi", "bracep",
                "pipe2", "and2", "parenb"}

-----------------------------------------------------------------------------
(***************************************************************************)
(* Events [t, f, k, i, toks] and their effect.                              *)
(***************************************************************************)
Ev(t, f, k, i, toks) == [t |-> t, f |-> f, k |-> k, i |-> i, toks |-> toks]

\* the lines of a multi-line unit are read one after the other; an end-of-file condition
\* may come after line `eofat` (0: none)
RECURSIVE ReadUnit(_, _, _, _, _, _)
ReadUnit(c, S, lines, j, eofat, mode) ==
  IF j > Len(lines) \/ ~S.alive THEN S
  ELSE LET ctx == IF j = 1 THEN 1 ELSE 2
           S1 == ReadLine(c, S, ctx, lines[j], mode)
           S2 == IF eofat = j /\ j < Len(lines) THEN ReadEof(c, S1, 2, mode) ELSE S1
       IN ReadUnit(c, S2, lines, j + 1, eofat, mode)

\* a syntax error: diagnostic; then the shell goes on (interactive) or exits
SynErr(c, S) == [S EXCEPT !.pat = @ \o <<D>>, !.st = -1, !.alive = Interactive(c)]

Tick(S) == [S EXCEPT !.jobs = [k \in DOMAIN S.jobs |->
               IF S.jobs[k].st = "R" /\ S.jobs[k].due = 1 THEN [S.jobs[k] EXCEPT !.st = "D", !.due = 0, !.chg = TRUE]
               ELSE IF S.jobs[k].st = "R" THEN [S.jobs[k] EXCEPT !.due = @ - 1] ELSE S.jobs[k]]]

Step(c, S, e, mode) ==
  LET one(line) == ReadLine(c, S, 1, line, mode)
      done(T, st) == [T EXCEPT !.st = st]
  IN CASE e.t = "probe" -> LET S1 == one("probe " \o e.k) IN [S1 EXCEPT !.ev = Append(@, <<e.k>>)]
       [] e.t = "echo" -> LET S1 == one("echo " \o e.k) IN [S1 EXCEPT !.out = @ \o e.k \o "\n", !.st = 0]
       [] e.t = "status" -> done(one("status " \o ToString(e.i)), e.i)
       [] e.t = "empty" -> one("")
       [] e.t = "comment" -> one("# " \o e.k)
       \* assignments: PS1 / PS2 take effect at the next display (prompt.md: "Each time the
       \* shell displays a prompt, it performs ... expansion ... on the prompt strings")
       [] e.t = "ps" -> LET S1 == one(e.f \o "='" \o RawPS(e.toks) \o "'")
                        IN IF e.f = "PS1" THEN [S1 EXCEPT !.ps1 = e.toks, !.st = 0] ELSE [S1 EXCEPT !.ps2 = e.toks, !.st = 0]
       [] e.t = "var" -> LET S1 == one(e.f \o "='" \o e.k \o "'") IN [S1 EXCEPT !.V[e.f] = e.k, !.st = 0]
       [] e.t = "unset" -> LET S1 == one("unset " \o e.f) IN [S1 EXCEPT !.V[e.f] = Unset, !.st = 0]
       [] e.t = "opt" -> LET S1 == one("set " \o (IF e.i = 1 THEN "-" ELSE "+") \o "o " \o e.f)
                         IN (CASE e.f = "ignoreeof" -> [S1 EXCEPT !.ign = (e.i = 1), !.st = 0]
                               [] e.f = "nounset" -> [S1 EXCEPT !.nou = (e.i = 1), !.st = 0]
                               [] e.f = "verbose" -> [S1 EXCEPT !.vb = (e.i = 1), !.st = 0])
       \* lists.md: "In an interactive shell, starting an asynchronous command prints its job
       \* number and process ID"; job_control.md: "Job numbers are assigned sequentially,
       \* starting from 1"; notifications "do not remove the reported job from the job list"
       [] e.t = "bg" -> LET name == "nap " \o ToString(e.i) \o " " \o e.k
                            S1 == one(name \o "&")
                            num == Len(S1.jobs) + 1
                        IN [S1 EXCEPT !.jobs = Append(@, [num |-> num, name |-> name, due |-> e.i,
                                                          code |-> NumOf(e.k), st |-> "R", chg |-> FALSE]),
                                      !.pat = IF Interactive(c) THEN @ \o <<L("[" \o ToString(num) \o "] "), N, L("\n")>> ELSE @,
                                      !.st = 0]
       [] e.t = "tick" -> done(Tick(one("tick")), 0)
       [] e.t = "multi" ->
            LET fm == Form(e.f, e.k)
                S1 == ReadUnit(c, S, fm.lines, 1, e.i,
                               IF mode = "hdps1" /\ e.f \in {"heredoc", "heredoc2", "heredash"} THEN "ps1only" ELSE mode)
            IN IF S1.alive THEN [S1 EXCEPT !.ev = @ \o fm.ev, !.out = @ \o fm.out, !.st = fm.st]
               \* input ended inside the construct: a syntax error (XCU 2.8.1); whether an
               \* interactive shell then asks for a new command once more before it meets the
               \* end of input again is open; the session is over either way
               ELSE LET S2 == [S1 EXCEPT !.pat = @ \o <<D>>, !.st = -1]
                        again == Show(c, S2, 1, mode)
                    IN IF Prompting(c)
                       THEN [S2 EXCEPT !.pat = @ \o <<A(<<<<>>, SubSeq(again.pat, Len(S2.pat) + 1, Len(again.pat))>>)>>]
                       ELSE S2
       [] e.t = "synerr" ->
            LET S1 == ReadUnit(c, S, ErrForm(e.f), 1, 0, mode) IN SynErr(c, S1)
       [] e.t = "eof" -> ReadEof(c, S, 1, mode)
       \* read.md "Prompting": "When reading lines after the first line, the built-in displays
       \* the value of the PS2 variable as a prompt if the shell is interactive and the input
       \* is from a terminal"; a line ending in a backslash is continued.  The lines are data,
       \* not commands: -v does not echo them.
       [] e.t = "read" ->
            LET S1 == one("read v")
                data == [j \in 1..(e.i + 1) |-> IF j <= e.i THEN e.k \o ToString(j) \o "\\" ELSE e.k \o "z"]
                val == CatAll([j \in 1..(e.i + 1) |-> IF j <= e.i THEN e.k \o ToString(j) ELSE e.k \o "z"])
                rd[j \in 0..(e.i + 1)] ==
                  IF j = 0 THEN S1
                  ELSE LET P == rd[j - 1]
                           P1 == IF j > 1 /\ Interactive(c) /\ c.src = "stdin" /\ c.tin
                                 THEN LET d == ShowPS(P.ps2, FALSE, P.V, P.st, P.nou, mode)
                                      IN [P EXCEPT !.pat = @ \o d.p, !.V = d.V, !.n2 = @ + 1]
                                 ELSE P
                       IN [P1 EXCEPT !.cur = @ \o data[j] \o "\n"]
                S2 == [rd[e.i + 1] EXCEPT !.st = 0]
                S3 == ReadLine(c, S2, 1, "probe \"$v\"", mode)
            IN [S3 EXCEPT !.ev = Append(@, <<val>>)]
       [] e.t = "exit" -> [one("exit") EXCEPT !.alive = FALSE]

(***************************************************************************)
(* The end of the input: end-of-file for ever.  An interactive shell shows  *)
(* PS1 and meets it; with ignoreeof it warns and asks again, 49 or 50       *)
(* times in a row all in all.                                               *)
(***************************************************************************)
RECURSIVE Warn(_, _, _, _)
Warn(c, S, k, mode) == IF k <= 0 \/ ~S.alive THEN S ELSE Warn(c, ReadEof(c, S, 1, mode), k - 1, mode)

\* the input as chunks; the end-of-file conditions after the last chunk need no chunk of their own
FinalChunks(S) == IF S.cur = "" /\ S.chunks # <<>> THEN S.chunks ELSE Append(S.chunks, S.cur)
Finish(c, S, mode) ==
  IF ~S.alive THEN [S EXCEPT !.chunks = FinalChunks(S), !.cur = ""]
  ELSE IF ~Ignoring(c, S)
       THEN [ReadEof(c, S, 1, mode) EXCEPT !.chunks = FinalChunks(S)]
       ELSE LET first == Show(c, S, 1, mode)          \* (reports,) PS1: the first end-of-file is met here
                again == Show(c, first, 1, mode)
                unit == <<L(IgnMsg)>> \o SubSeq(again.pat, Len(first.pat) + 1, Len(again.pat))
                stable == again.V = first.V /\ mode \notin {"once", "rereport", "lateReport"}
            IN IF stable
               \* every further display is the same: warning and prompt, 49 or 50 times all in all
               THEN [first EXCEPT !.pat = @ \o <<Rp(49 - S.eofrun, 50 - S.eofrun, unit)>>, !.alive = FALSE,
                                  !.n1 = @ + 50 - S.eofrun, !.chunks = FinalChunks(S), !.cur = ""]
               ELSE LET lo == Warn(c, S, 49 - S.eofrun, mode)
                        hi == ReadEof(c, lo, 1, mode)      \* the 50th warning
                        last(T) == Show(c, T, 1, mode)     \* the prompt at which the shell gives up
                        tail(T) == SubSeq(last(T).pat, Len(lo.pat) + 1, Len(last(T).pat))
                    IN [lo EXCEPT !.pat = @ \o Either(tail(lo), tail(hi)), !.alive = FALSE, !.n1 = last(hi).n1,
                                  !.chunks = FinalChunks(S), !.cur = ""]

RECURSIVE Fold(_, _, _, _, _)
Fold(c, S, es, i, mode) == IF i > Len(es) \/ ~S.alive THEN S ELSE Fold(c, Step(c, S, es[i], mode), es, i + 1, mode)
Session(c, es, mode) == Finish(c, Fold(c, Init0(c), es, 1, mode), mode)

(***************************************************************************)
(* Call level: the input decorator yash_env::input::EofGuard (its public    *)
(* documentation and termination.md): the inner input delivers k            *)
(* end-of-file conditions and then a line.  "On EOF ... the decorator       *)
(* retries reading if ... the shell is interactive, the input is a          *)
(* terminal, and the retry limit has not been reached ...: the ignore-eof   *)
(* option is enabled and IgnoreEofConfig is present - prints                *)
(* IgnoreEofConfig::message.  The retry limit is 50 consecutive EOFs per    *)
(* next_line call.  Once the limit is reached the empty string is           *)
(* returned".  Result: the warnings written and the line returned.          *)
(***************************************************************************)
GuardExpect(inter, tty, ign, k) ==
  LET active == inter /\ tty /\ ign
      warns == IF active THEN (IF k < 50 THEN k ELSE 50) ELSE 0
  IN [pat |-> <<Rp(warns, warns, <<L(IgnMsg)>>)>>,
      ret |-> IF k = 0 \/ (active /\ k <= 50) THEN "line\n" ELSE ""]

(***************************************************************************)
(* Sessions the specification speaks about (everything else is left open    *)
(* and must not be used to judge an implementation).                        *)
(***************************************************************************)
NameStart(s) == s # "" /\ At(s, 1) \in {"a", "b", "c", "d", "e", "p", "q", "v", "w", "y", "z", "m", "_",
                                        "0", "1", "2", "3", "4", "5", "6", "7", "8", "9"}
\* the text of the tokens reads back as these tokens; a backslash token stands apart
GoodPS(toks) == /\ \A i \in 1..(Len(toks) - 1) :
                     /\ ~(toks[i].k = "var" /\ toks[i + 1].k = "lit" /\ NameStart(toks[i + 1].w))
                     /\ ~(toks[i].k = "bsl" /\ toks[i].w = "$x" /\ toks[i + 1].k = "lit" /\ NameStart(toks[i + 1].w))
                     /\ ~(toks[i].k = "bsl" /\ toks[i + 1].k = "lit" /\ At(toks[i + 1].w, 1) = "!")
                     /\ ~(toks[i].k = "bsl" /\ toks[i + 1].k = "bsl")
                     /\ ~(toks[i].k = "lit" /\ toks[i + 1].k = "bsl")
                \* what a failing expansion does to the variables before it fails is open
                /\ ~((\E i \in DOMAIN toks : toks[i].k = "err") /\ (\E i \in DOMAIN toks : toks[i].k \in {"inc", "asg"}))
                /\ toks # <<>> /\ toks[Len(toks)].k # "bsl"
Defined(c, es) ==
  /\ IsNoPS(c.ps1) \/ GoodPS(c.ps1)
  /\ IsNoPS(c.ps2) \/ GoodPS(c.ps2)
  /\ ~(c.src = "cmd" /\ c.vb)
  /\ Cardinality({i \in DOMAIN es : es[i].t = "bg"}) <= 2
  /\ \A i \in DOMAIN es :
       LET e == es[i] IN
       /\ e.t = "ps" => GoodPS(e.toks)
       /\ ~(c.src = "cmd" /\ e.t = "opt" /\ e.f = "verbose")
       \* an end-of-file condition followed by more input needs a terminal
       /\ (e.t = "eof" \/ (e.t = "multi" /\ e.i > 0)) => (c.src = "stdin" /\ c.tin)
       /\ (e.t = "multi" /\ e.i > 0) => (e.f \in EofForms /\ e.i < Len(Form(e.f, e.k).lines))
       \* `read` takes its lines from descriptor 0: only when the shell reads its commands there
       /\ e.t = "read" => c.src = "stdin"
       \* whether a shell given a command string (which never prompts) reports jobs is not said
       /\ e.t \in {"bg", "tick"} => c.src # "cmd"

-----------------------------------------------------------------------------
(***************************************************************************)
(* Matching a text against a pattern: the set of positions reachable.       *)
(***************************************************************************)
RECURSIVE After(_, _, _)
RECURSIVE DigitRun(_, _)
DigitRun(s, q) ==    \* positions after one or more digits starting at q
  IF q <= Len(s) /\ IsDigit(At(s, q)) THEN {q + 1} \cup DigitRun(s, q + 1) ELSE {}
RECURSIVE DiagRun(_, _)
DiagRun(s, q) ==     \* positions after complete lines starting at q, up to the first "@"
  IF q > Len(s) \/ At(s, q) = "@" THEN {}
  ELSE (IF At(s, q) = "\n" THEN {q + 1} ELSE {}) \cup DiagRun(s, q + 1)
RECURSIVE OpenRun(_, _)
OpenRun(s, q) ==     \* positions reachable from q without passing a newline
  {q} \cup (IF q <= Len(s) /\ At(s, q) # "\n" THEN OpenRun(s, q + 1) ELSE {})
AfterItem(s, it, P) ==
  CASE it[1] = "L" -> {p + Len(it[2]) : p \in {p \in P : p + Len(it[2]) <= Len(s) + 1 /\ SubSeq(s, p, p + Len(it[2]) - 1) = it[2]}}
    [] it[1] = "N" -> UNION {DigitRun(s, p) : p \in P}
    [] it[1] = "H" -> UNION {DigitRun(s, p) \cup (IF p <= Len(s) /\ At(s, p) = "!" THEN {p + 1} ELSE {}) : p \in P}
    [] it[1] = "D" -> UNION {DiagRun(s, p) : p \in P}
    [] it[1] = "X" -> UNION {OpenRun(s, p) : p \in P}
    [] it[1] = "A" -> UNION {After(s, it[2][k], P) : k \in DOMAIN it[2]}
    [] it[1] = "R" -> LET rep[k \in 0..it[3]] == IF k = 0 THEN P ELSE After(s, it[4], rep[k - 1])
                      IN UNION {rep[k] : k \in it[2]..it[3]}
After(s, pat, P) == IF pat = <<>> \/ P = {} THEN P ELSE After(s, Tail(pat), AfterItem(s, Head(pat), P))
Matches(pat, s) == (Len(s) + 1) \in After(s, pat, {1})

RECURSIVE RepStr(_, _)
RepStr(x, k) == IF k <= 0 THEN "" ELSE x \o RepStr(x, k - 1)
\* a shortest rendering of a pattern (for samples and calibration): first alternative, "0" for numbers
RECURSIVE Render(_)
Render(pat) ==
  IF pat = <<>> THEN ""
  ELSE LET it == Head(pat)
           s == CASE it[1] = "L" -> it[2] [] it[1] \in {"N", "H"} -> "0" [] it[1] = "D" -> "error\n"
                  [] it[1] = "X" -> "" [] it[1] = "A" -> Render(it[2][1])
                  [] it[1] = "R" -> RepStr(Render(it[4]), it[2])
       IN s \o Render(Tail(pat))
\* the other extreme: the last alternative everywhere
RECURSIVE RenderLast(_)
RenderLast(pat) ==
  IF pat = <<>> THEN ""
  ELSE LET it == Head(pat)
           s == CASE it[1] = "L" -> it[2] [] it[1] \in {"N", "H"} -> "0" [] it[1] = "D" -> "error\n"
                  [] it[1] = "X" -> "" [] it[1] = "A" -> RenderLast(it[2][Len(it[2])])
                  [] it[1] = "R" -> RepStr(RenderLast(it[4]), it[3])
       IN s \o RenderLast(Tail(pat))
=============================================================================
