\* negative configuration: the wrong variant "redef_live" must be refuted by BodyStable
SPECIFICATION Spec
CONSTANTS
  MaxDepth = 4
  Variant = "redef_live"
  Fams = {"tabfn"}
  LB = 1
  LM = 1
  Wide = {}
  Stepwise = TRUE
INVARIANT BodyStable
