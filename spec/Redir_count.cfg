SPECIFICATION Spec
CONSTANTS
  Cfg = "dbg"
  Bug = "none"
  Sim = TRUE
INVARIANT TypeOK
