CONSTANTS
  Variant = "ok"
