------------------------------ MODULE JobList ------------------------------
(***************************************************************************)
(* Implementation-shaped model of yash-env/src/job.rs (JobList).           *)
(* One action per public mutator.  The slab's key allocation (LIFO reuse   *)
(* of vacated keys, `clear()` when the list becomes empty) and the raw,    *)
(* possibly stale `current_job_index` / `previous_job_index` fields are    *)
(* modelled as the code has them; the accessors interpret them exactly as  *)
(* `current_job()` / `previous_job()` do.                                  *)
(*                                                                         *)
(* This module is the DRIVER of property C12 (DESIGN.md 4.2): TLC checks   *)
(* the five consistency invariants and number stability on every reachable *)
(* state of the bounded model, and its state graph enumerates the          *)
(* histories that are replayed on the real JobList.  Conformance verdicts  *)
(* come from JobListAbs (the documented contract), not from this module.   *)
(***************************************************************************)
EXTENDS Integers, Sequences, SequencesExt, FiniteSets, TLC, Json

CONSTANTS N,        \* number of slab slots modelled: indices 0..N-1
          Pids,     \* set of process ids (positive integers)
          MaxH,     \* bound on history length (generator configs only)
          Flags     \* BOOLEAN: include the bookkeeping actions (report/expect/disown/$!)

Nil    == [pid |-> 0]
None   == -1
States == {"R", "S", "E", "K"}     \* Running, Stopped, Exited, Signaled
Slots  == 0 .. (N - 1)

VARIABLES slot,      \* [Slots -> Job \cup {Nil}]
          free,      \* slab free list (LIFO), sequence of vacated keys
          len,       \* slab entries.len(): next never-used key
          pidx,      \* [Pids -> Slots \cup {None}]  (pids_to_indices)
          cur, prev, \* raw index fields
          lastAsync, \* pid or 0
          h          \* history of operations (hidden by VIEW)

vars == <<slot, free, len, pidx, cur, prev, lastAsync, h>>
view == <<slot, free, len, pidx, cur, prev, lastAsync>>

Job(p, st) == [pid |-> p, st |-> st, ch |-> TRUE, ex |-> "N", own |-> TRUE]

Occupied   == {i \in Slots : slot[i] # Nil}
Susp(j)    == j.st = "S"
Finished(j) == j.st \in {"E", "K"}

\* accessors, as job.rs:869 and job.rs:892
Current  == IF cur \in Occupied THEN cur ELSE None
Previous == IF prev # cur /\ prev \in Occupied THEN prev ELSE None

MinOf(S) == CHOOSE x \in S : \A y \in S : x <= y

\* any_suspended_job_but_current / any_job_but_current evaluated on (sl, c)
AnySuspBut(sl, c) == LET S == {i \in Slots : sl[i] # Nil /\ i # c /\ sl[i].st = "S"}
                     IN IF S = {} THEN None ELSE MinOf(S)
AnyBut(sl, c)     == LET S == {i \in Slots : sl[i] # Nil /\ i # c}
                     IN IF S = {} THEN None ELSE MinOf(S)

Init == /\ slot = [i \in Slots |-> Nil]
        /\ free = <<>>
        /\ len = 0
        /\ pidx = [p \in Pids |-> None]
        /\ cur = 0 /\ prev = 0
        /\ lastAsync = 0
        /\ h = <<>>

Op(name, p, s, i, set) == [op |-> name, p |-> p, s |-> s, i |-> i, set |-> set]
Log(o) == h' = Append(h, o)

\* set_current_job's effect on (cur, prev), given it succeeds
SetCurEffect(i) == IF i # cur THEN cur' = i /\ prev' = cur
                              ELSE UNCHANGED <<cur, prev>>

-----------------------------------------------------------------------------
\* insert: property quantifier = fresh pid, or pid of a finished job
InsertOK(p) == IF pidx[p] = None THEN TRUE ELSE Finished(slot[pidx[p]])

Insert(p, st) ==
  /\ InsertOK(p)
  /\ st \in {"R", "S"}
  /\ LET newS   == st = "S"
         exCur  == IF Current = None THEN "none" ELSE IF Susp(slot[Current]) THEN "s" ELSE "n"
         exPrev == IF Previous = None THEN "none" ELSE IF Susp(slot[Previous]) THEN "s" ELSE "n"
         reuse  == pidx[p] # None
         i      == IF reuse THEN pidx[p] ELSE IF free # <<>> THEN Head(free) ELSE len
     IN /\ i \in Slots                       \* bound of the model
        /\ slot' = [slot EXCEPT ![i] = Job(p, st)]
        /\ pidx' = [pidx EXCEPT ![p] = i]
        /\ free' = IF reuse THEN free ELSE IF free # <<>> THEN Tail(free) ELSE free
        /\ len'  = IF reuse \/ free # <<>> THEN len ELSE len + 1
        /\ IF exCur = "none" THEN cur' = i /\ prev' = prev
           ELSE IF exCur = "n" /\ newS THEN SetCurEffect(i)
           ELSE /\ cur' = cur
                /\ prev' = IF exPrev = "none" \/ (exPrev = "n" /\ newS) THEN i ELSE prev
  /\ UNCHANGED lastAsync
  /\ Log(Op("insert", p, st, 0, <<>>))

\* remove(index): job.rs:675
RemoveEffect(i, sl0, fr0, ln0, px0, c0, p0) ==
  \* returns the record of the successor fields
  IF sl0[i] = Nil THEN [slot |-> sl0, free |-> fr0, len |-> ln0, pidx |-> px0, cur |-> c0, prev |-> p0]
  ELSE LET sl1 == [sl0 EXCEPT ![i] = Nil]
           px1 == [px0 EXCEPT ![sl0[i].pid] = None]
           empty == \A k \in Slots : sl1[k] = Nil
           fr1 == IF empty THEN <<>> ELSE <<i>> \o fr0
           ln1 == IF empty THEN 0 ELSE ln0
           becomes == i = c0
           c1 == IF becomes THEN p0 ELSE c0
           p1 == IF becomes \/ i = p0
                 THEN LET a == AnySuspBut(sl1, c1) b == AnyBut(sl1, c1)
                      IN IF a # None THEN a ELSE IF b # None THEN b ELSE 0
                 ELSE p0
       IN [slot |-> sl1, free |-> fr1, len |-> ln1, pidx |-> px1, cur |-> c1, prev |-> p1]

Apply(r) == /\ slot' = r.slot /\ free' = r.free /\ len' = r.len
            /\ pidx' = r.pidx /\ cur' = r.cur /\ prev' = r.prev

RemoveJob(i) ==
  /\ Apply(RemoveEffect(i, slot, free, len, pidx, cur, prev))
  /\ UNCHANGED lastAsync
  /\ Log(Op("remove", 0, "", i, <<>>))

\* remove_if / extract_if: ascending index, one remove() each (job.rs:585)
RECURSIVE RemoveSeq(_, _)
RemoveSeq(r, todo) ==
  IF todo = {} THEN r
  ELSE LET i == MinOf(todo)
       IN RemoveSeq(RemoveEffect(i, r.slot, r.free, r.len, r.pidx, r.cur, r.prev), todo \ {i})

RemoveIf(S) ==
  /\ S # {}
  /\ Apply(RemoveSeq([slot |-> slot, free |-> free, len |-> len, pidx |-> pidx, cur |-> cur, prev |-> prev],
                     S \cap Occupied))
  /\ UNCHANGED lastAsync
  /\ Log(Op("remove_if", 0, "", 0, SetToSortSeq(S, <)))

\* the predicate the `jobs` and `wait` built-ins use: finished jobs
RemoveFinished ==
  /\ Apply(RemoveSeq([slot |-> slot, free |-> free, len |-> len, pidx |-> pidx, cur |-> cur, prev |-> prev],
                     {i \in Occupied : Finished(slot[i])}))
  /\ UNCHANGED lastAsync
  /\ Log(Op("remove_finished", 0, "", 0, <<>>))

\* update_status(pid, state): job.rs:778
UpdateStatus(p, st) ==
  /\ IF pidx[p] = None
     THEN UNCHANGED <<slot, cur, prev>>
     ELSE LET i   == pidx[p]
              j   == slot[i]
              was == Susp(j)
              now == st = "S"
              j2  == [j EXCEPT !.st = st, !.ch = (j.ch \/ j.ex # st), !.ex = "N"]
              sl1 == [slot EXCEPT ![i] = j2]
          IN /\ slot' = sl1
             /\ IF ~was /\ now
                THEN IF i # cur THEN cur' = i /\ prev' = cur ELSE UNCHANGED <<cur, prev>>
                ELSE IF was /\ ~now /\ Previous # None
                THEN LET pv == Previous
                         becomes == i = cur /\ Susp(sl1[pv])
                         c1 == IF becomes THEN pv ELSE cur
                     IN /\ cur' = c1
                        /\ prev' = IF becomes \/ i = pv
                                   THEN LET a == AnySuspBut(sl1, c1) IN IF a # None THEN a ELSE i
                                   ELSE prev
                ELSE UNCHANGED <<cur, prev>>
  /\ UNCHANGED <<free, len, pidx, lastAsync>>
  /\ Log(Op("update", p, st, 0, <<>>))

\* set_current_job(index): job.rs:845
SetCurrent(i) ==
  /\ IF slot[i] = Nil THEN UNCHANGED <<cur, prev>>                                      \* NoSuchJob
     ELSE IF ~Susp(slot[i]) /\ \E k \in Occupied : Susp(slot[k]) THEN UNCHANGED <<cur, prev>>   \* NotSuspended
     ELSE SetCurEffect(i)
  /\ UNCHANGED <<slot, free, len, pidx, lastAsync>>
  /\ Log(Op("set_current", 0, "", i, <<>>))

Report(i) ==       \* get_mut(i).state_reported()
  /\ slot[i] # Nil /\ slot[i].ch
  /\ slot' = [slot EXCEPT ![i].ch = FALSE]
  /\ UNCHANGED <<free, len, pidx, cur, prev, lastAsync>>
  /\ Log(Op("report", 0, "", i, <<>>))

Expect(i, st) ==   \* get_mut(i).expect(st)
  /\ slot[i] # Nil /\ slot[i].ex # st
  /\ slot' = [slot EXCEPT ![i].ex = st]
  /\ UNCHANGED <<free, len, pidx, cur, prev, lastAsync>>
  /\ Log(Op("expect", 0, st, i, <<>>))

DisownAll ==
  /\ \E i \in Occupied : slot[i].own
  /\ slot' = [i \in Slots |-> IF slot[i] = Nil THEN Nil ELSE [slot[i] EXCEPT !.own = FALSE]]
  /\ UNCHANGED <<free, len, pidx, cur, prev, lastAsync>>
  /\ Log(Op("disown_all", 0, "", 0, <<>>))

SetLastAsync(p) ==
  /\ lastAsync # p
  /\ lastAsync' = p
  /\ UNCHANGED <<slot, free, len, pidx, cur, prev>>
  /\ Log(Op("set_last_async", p, "", 0, <<>>))

Next ==
  \/ \E p \in Pids, st \in {"R", "S"} : Insert(p, st)
  \/ \E p \in Pids, st \in States : UpdateStatus(p, st)
  \/ \E i \in Slots : SetCurrent(i) \/ RemoveJob(i)
  \/ Flags /\ \E i \in Slots : Report(i)
  \/ Flags /\ \E i \in Slots, st \in {"S", "R", "N"} : Expect(i, st)
  \/ \E S \in SUBSET Slots : RemoveIf(S)
  \/ RemoveFinished
  \/ Flags /\ DisownAll
  \/ Flags /\ \E p \in Pids : SetLastAsync(p)

Spec == Init /\ [][Next]_vars

-----------------------------------------------------------------------------
\* The property (C12)

TypeOK ==
  /\ \A i \in Slots : slot[i] = Nil \/ (slot[i].pid \in Pids /\ slot[i].st \in States)
  /\ cur \in Slots /\ prev \in Slots

NonEmptyHasCurrent   == Occupied # {} => Current # None
TwoHavePrevious      == Cardinality(Occupied) >= 2 => Previous # None /\ Previous # Current
CurrentIsSuspended   == (\E i \in Occupied : Susp(slot[i])) => Current # None /\ Susp(slot[Current])
PreviousIsSuspended  == Cardinality({i \in Occupied : Susp(slot[i])}) >= 2
                           => Previous # None /\ Susp(slot[Previous])
PidIndexExact        == /\ \A i \in Occupied : pidx[slot[i].pid] = i
                        /\ \A p \in Pids : pidx[p] # None => (pidx[p] \in Occupied /\ slot[pidx[p]].pid = p)
OnePrevAtMost        == Cardinality(Occupied) <= 1 => Previous = None

Consistent == /\ NonEmptyHasCurrent /\ TwoHavePrevious /\ CurrentIsSuspended
              /\ PreviousIsSuspended /\ PidIndexExact /\ OnePrevAtMost

\* a job's number never changes while the job exists: a surviving pid keeps its index
StableNumbers ==
  [][\A p \in Pids : (pidx[p] # None /\ pidx'[p] # None) => pidx'[p] = pidx[p]]_vars

\* Resolution of job ids as docs/src/interactive/job_control.md defines them
Resolve(id) == CASE id = "%%" -> Current [] id = "%+" -> Current [] id = "%" -> Current
                 [] id = "%-" -> Previous

-----------------------------------------------------------------------------
\* P2 generator: one line per distinct state (h is hidden by the VIEW), the
\* harness applies every operation of the alphabet in that state.
EmitState == PrintT(ToJson([h |-> h]))
HistoryBound == Len(h) < MaxH
=============================================================================
