\* P1 liveness (quick): every behaviour terminates under weak fairness of every process
SPECIFICATION FairSpec
CONSTANTS
  Variant = "ok"
  MaxP = 7
  Scripts <- CatQuickMC
PROPERTY Termination
