\* script catalogue, thorough tier: every distinct state reachable by <= 2 steps and
\* every step of the alphabet in it (scripts of <= 3 steps)
SPECIFICATION SSpec
CONSTANTS
  Theme = "script"
  MaxFd = 5
  MaxLen = 12
  MaxPipe = 1
  MaxH = 2
VIEW sview
CONSTRAINT SBounded
INVARIANT STypeOK
INVARIANT SEmitBounded
