SPECIFICATION FairSpec
CONSTANTS
  MaxTasks = 3
  NChan = 1
  Budget = 1
  MaxOver = 3
  YieldFree = TRUE
  MaxRoots = 3
  MaxExt = 1
  Lifo = TRUE
  Hist = FALSE
  Pinned = FALSE
PROPERTY NoStarvation
