\* negative configuration: the wrong variant "redir_at_def" must be refuted by P_CallRedirects
SPECIFICATION Spec
CONSTANTS
  MaxDepth = 4
  Variant = "redir_at_def"
  Fams = {"redir"}
  LB = 1
  LM = 1
  Wide = {}
  Stepwise = TRUE
PROPERTY P_CallRedirects
