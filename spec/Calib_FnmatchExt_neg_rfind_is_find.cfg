INIT Init
NEXT Next
CONSTANTS
  Variant = "rfind_is_find"
INVARIANT C_RFind
