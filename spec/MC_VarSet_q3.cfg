SPECIFICATION Spec
CONSTANTS
  Names = {"x"}
  Vals = {"a"}
  MaxDepth = 3
  PosVals <- PosSome
  Thens = {"none", "assign"}
  MaxH = 100
VIEW view
INVARIANT TypeOK
INVARIANT Normalized
INVARIANT ObservationsAgree
INVARIANT EmitState
PROPERTY RefinesVarRef
PROPERTY ReadOnlyNeverChanges
PROPERTY ReadOnlyVisible
