SPECIFICATION Spec
CONSTANTS
  Variant = "ok"
  Fams = {"fg", "async", "stop1", "tty", "nomon"}
  Cfgs = {"m", "mi", "-", "ml", "mib"}
  Enf = {TRUE}
ALIAS Brief
INVARIANT OwnGroup
INVARIANT ParentSees
INVARIANT FgBeforeRun
INVARIANT TakeBack
INVARIANT BgNeverFg
INVARIANT FgResumed
INVARIANT ShellRuns
INVARIANT NoGroups
INVARIANT AsyncLaw
INVARIANT JobDefaults
INVARIANT ProbesLaw
INVARIANT BgResumes
