SPECIFICATION Spec
CONSTANTS
  NameSeq <- NameSeq3
  GlobalNames = {}
  LineFam = "n"
  Prune = TRUE
INVARIANT NoSelfNesting
INVARIANT ChainsSound
INVARIANT Deterministic
INVARIANT VariantNat
INVARIANT Emit
PROPERTY VariantDecreases
PROPERTY OnlyEligibleReplaced
