SPECIFICATION Spec
CONSTANTS
  Cfg = "t1b"
  Bug = "none"
  Sim = TRUE
INVARIANT TypeOK
INVARIANT InternalInv
INVARIANT Conforms
INVARIANT Emit
