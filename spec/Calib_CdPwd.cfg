INIT Init
NEXT Next
