---------------------------- MODULE Check_Int64 ----------------------------
(***************************************************************************)
(* Oracle sanity for Int64.tla (DESIGN.md section 6, C03; 4.4).            *)
(*  1. On all pairs of small integers every operator agrees with TLC's     *)
(*     native arithmetic (and with the Java-implemented Bitwise module).   *)
(*  2. On all pairs of boundary values (limb-carry boundaries, 2^31,       *)
(*     2^62 .. 2^64) the operators satisfy the defining algebraic          *)
(*     identities: (a+b)-b = a, (a*b)/b = a, (a/b)*b + a%b = a with        *)
(*     |a%b| < |b| and sign(a%b) = sign(a), a<<k = a*2^k,                  *)
(*     (a>>k)*2^k <= a < ((a>>k)+1)*2^k, a&b + a|b = a+b, a^b = a|b - a&b, *)
(*     ~a = -a-1, digits round trip in radix 8, 10, 16.                    *)
(* A failure here is a tool error (exit 2), never a violation.             *)
(***************************************************************************)
EXTENDS Int64, TLC
LOCAL INSTANCE Bitwise

CONSTANT R

VARIABLES a, b
vars == <<a, b>>

Small == (0 - R)..R

Init == a \in Small /\ b = R + 1
Next == b = R + 1 /\ b' \in Small /\ a' = a

\* truncating division on native integers, from floor division of naturals
Abs(i) == IF i < 0 THEN 0 - i ELSE i
NDiv(i, j) == LET q == Abs(i) \div Abs(j) IN IF (i < 0) # (j < 0) THEN 0 - q ELSE q
NRem(i, j) == i - NDiv(i, j) * j
Sgn(i) == IF i < 0 THEN -1 ELSE IF i > 0 THEN 1 ELSE 0

\* two's complement bitwise ops on small native ints through the (trusted,
\* independent) Bitwise module, which works on naturals: shift into 2^20.
Off == 1048576
NPat(i) == IF i < 0 THEN Off + i ELSE i
NUnpat(p) == IF p >= Off \div 2 THEN p - Off ELSE p

NativeOK ==
  b = R + 1 \/
  LET x == FromInt(a)
      y == FromInt(b)
  IN /\ IsNum(x) /\ IsNum(y)
     /\ ToInt(x) = a
     /\ Add(x, y) = FromInt(a + b)
     /\ Sub(x, y) = FromInt(a - b)
     /\ Mul(x, y) = FromInt(a * b)
     /\ Cmp(x, y) = Sgn(a - b)
     /\ Neg(x) = FromInt(0 - a)
     /\ (b # 0 => /\ DivTrunc(x, y) = FromInt(NDiv(a, b))
                  /\ RemTrunc(x, y) = FromInt(NRem(a, b)))
     /\ BitAnd(x, y) = FromInt(NUnpat(NPat(a) & NPat(b)))
     /\ BitOr(x, y)  = FromInt(NUnpat(NPat(a) | NPat(b)))
     /\ BitXor(x, y) = FromInt(NUnpat(NPat(a) ^^ NPat(b)))
     /\ BitNot(x) = FromInt(0 - a - 1)
     /\ (b >= 0 /\ b <= 20 =>
            /\ ShlExact(x, b) = FromInt(a * 2^b)
            /\ ShrFloor(x, b) = FromInt(a \div 2^b))       \* TLC's \div is floor division
     /\ InRange64(x)

-----------------------------------------------------------------------------
\* boundary identities (evaluated once, as an assumption)

P(k) == Pow2(k)
M2p64Num == Mk(FALSE, M2p64)
Bnd == {Zero, One, MinusOne, FromInt(2), FromInt(-2), FromInt(3), FromInt(7), FromInt(-7), FromInt(10),
        FromInt(32767), FromInt(32768), FromInt(-32768), FromInt(32769),
        P(30), Sub(P(30), One), P(31), Neg(P(31)), Sub(P(31), One), P(32), Add(P(32), One),
        P(45), Sub(P(45), One), P(60), Sub(P(60), One),
        P(62), Sub(P(62), One), Max64, Min64, Add(Min64, One), Neg(P(62)),
        FromInt(62), FromInt(63), FromInt(64), FromInt(65),
        Mk(FALSE, <<4464, 13452, 22333, 1, 5>>), Mk(TRUE, <<32767, 0, 32767, 7>>)}

MAbs(x) == Mk(FALSE, x.m)

Identities(x, y) ==
  /\ IsNum(Add(x, y)) /\ IsNum(Sub(x, y)) /\ IsNum(Mul(x, y))
  /\ Sub(Add(x, y), y) = x
  /\ Add(Sub(x, y), y) = x
  /\ Add(x, y) = Add(y, x)
  /\ Mul(x, y) = Mul(y, x)
  /\ Cmp(x, y) = 0 - Cmp(y, x)
  /\ (Cmp(x, y) = 0) = (x = y)
  /\ Cmp(Add(x, One), x) = 1
  /\ Mul(x, Add(y, One)) = Add(Mul(x, y), x)                 \* distributivity
  /\ (~IsZero(y) =>
        LET q == DivTrunc(x, y)
            r == RemTrunc(x, y)
        IN /\ IsNum(q) /\ IsNum(r)
           /\ Add(Mul(q, y), r) = x
           /\ MDivMod(x.m, y.m) = MDivModRef(x.m, y.m)
           /\ Lt(MAbs(r), MAbs(y))
           /\ (IsZero(r) \/ r.n = x.n)
           /\ DivTrunc(Mul(x, y), y) = x
           /\ IsZero(RemTrunc(Mul(x, y), y)))
  /\ BitAnd(x, y) = BitAnd(y, x)
  /\ Add(BitAnd(x, y), BitOr(x, y)) = Add(x, y)
  /\ BitXor(x, y) = Sub(BitOr(x, y), BitAnd(x, y))
  /\ BitXor(BitXor(x, y), y) = x
  /\ BitAnd(x, x) = x /\ BitOr(x, x) = x /\ BitXor(x, x) = Zero
  /\ BitAnd(x, MinusOne) = x /\ BitOr(x, Zero) = x /\ BitAnd(x, Zero) = Zero
  /\ BitNot(x) = Sub(Neg(x), One)
  /\ InRange64(BitAnd(x, y)) /\ InRange64(BitOr(x, y)) /\ InRange64(BitXor(x, y))

Shifts(x) ==
  \A k \in {0, 1, 2, 14, 15, 16, 29, 30, 31, 32, 44, 45, 46, 61, 62, 63} :
     LET s == ShrFloor(x, k)
     IN /\ ShlExact(x, k) = Mul(x, P(k))
        /\ IsNum(s)
        /\ Le(Mul(s, P(k)), x)
        /\ Lt(x, Mul(Add(s, One), P(k)))
        /\ ShrFloor(ShlExact(x, k), k) = x

Radix(x) ==
  \A r \in {8, 10, 16} : MFromDigits(MDigits(x.m, r), r) = x.m

ASSUME \A x \in Bnd : IsNum(x) /\ InRange64(x) /\ Shifts(x) /\ Radix(x)
ASSUME \A x, y \in Bnd : Identities(x, y)

\* hand-derivable facts at the range ends
ASSUME ~InRange64(Add(Max64, One)) /\ ~InRange64(Sub(Min64, One)) /\ ~InRange64(Neg(Min64))
ASSUME ~InRange64(Mul(P(32), P(31))) /\ InRange64(Mul(P(31), P(31)))
ASSUME Mul(P(32), P(32)) = M2p64Num
ASSUME MDigits(Max64.m, 10) = <<9,2,2,3,3,7,2,0,3,6,8,5,4,7,7,5,8,0,7>>
ASSUME MDigits(Max64.m, 16) = <<7,15,15,15,15,15,15,15,15,15,15,15,15,15,15,15>>
ASSUME MDigits(Max64.m, 8)  = <<7,7,7,7,7,7,7,7,7,7,7,7,7,7,7,7,7,7,7,7,7>>
ASSUME MFromDigits(<<9,2,2,3,3,7,2,0,3,6,8,5,4,7,7,5,8,0,8>>, 10) = M2p63
ASSUME DivTrunc(Min64, MinusOne) = Mk(FALSE, M2p63) /\ IsZero(RemTrunc(Min64, MinusOne))
ASSUME DivTrunc(FromInt(-7), FromInt(2)) = FromInt(-3) /\ RemTrunc(FromInt(-7), FromInt(2)) = FromInt(-1)
ASSUME DivTrunc(FromInt(7), FromInt(-2)) = FromInt(-3) /\ RemTrunc(FromInt(7), FromInt(-2)) = FromInt(1)
ASSUME ShrFloor(FromInt(-1), 63) = MinusOne /\ ShrFloor(Min64, 63) = MinusOne /\ ShrFloor(Max64, 62) = One
ASSUME BitNot(Max64) = Min64 /\ BitAnd(Min64, Max64) = Zero /\ BitOr(Min64, Max64) = MinusOne
ASSUME BitXor(Min64, MinusOne) = Max64
=============================================================================
