---------------------------- MODULE Calib_CdPwd ----------------------------
(***************************************************************************)
(* Calibration of CdPwd.tla (DESIGN.md 4.4): worked examples transcribed   *)
(* by hand from the manual (docs/src/builtins/cd.md, pwd.md) and from the  *)
(* project's conformance scripts (yash-cli/tests/scripted_test/cd-p.sh,    *)
(* cd-y.sh), each citing its source.  TLC evaluates the ASSUMEs at the     *)
(* start of the check; a failing one is a defect of the specification      *)
(* (tool error, exit 2), never a violation.                                *)
(***************************************************************************)
EXTENDS CdPwd

VARIABLE x
Init == x = 0
Next == UNCHANGED x

Range(q) == {q[i] : i \in 1..Len(q)}
TreeOf(q) == [p \in {n[1] : n \in Range(q)} |->
                LET n == CHOOSE n \in Range(q) : n[1] = p IN [k |-> n[2], to |-> n[3]]]
D(p) == <<p, "d", "">>
F(p) == <<p, "f", "">>
L(p, to) == <<p, "l", to>>

Cmd(k, pre, opts, args) == [pre |-> pre, k |-> k, opts |-> opts, args |-> args]
Cd0(opts, args) == Cmd("cd", <<>>, opts, args)
CdV(pre, opts, args) == Cmd("cd", pre, opts, args)
PwdC(opts) == Cmd("pwd", <<>>, opts, <<>>)

\* the result of the last of `steps`, run one after the other from S
RECURSIVE Run(_, _, _)
Run(T, S, steps) ==
  LET R == Step(T, S, Head(steps)) IN IF Len(steps) = 1 THEN R ELSE Run(T, R.S, Tail(steps))

Ok(R, pwd, out) == R.st = <<0, 0>> /\ ~R.unspec /\ R.S.pwd = pwd /\ R.out = out
Prints(R, line) == R.st = <<0, 0>> /\ R.out = <<line>>

(***************************************************************************)
(* docs/src/builtins/cd.md, "Examples"                                     *)
(***************************************************************************)
M == TreeOf(<<D(<<>>), D(<<"home">>), D(<<"home", "user">>), D(<<"usr">>), D(<<"usr", "bin">>), D(<<"usr", "local">>),
              L(<<"home", "user", "symlink">>, "/usr/bin")>>)
MS == MkState(<<"home", "user">>, "/home/user", "", "", "")
ASSUME WellFormedTree(M)
\* $ cd -L symlink; pwd -> /home/user/symlink; $ cd -L ..; pwd -> /home/user
ASSUME Prints(Run(M, MS, <<Cd0(<<"-L">>, <<"symlink">>), PwdC(<<>>)>>), "/home/user/symlink")
ASSUME Prints(Run(M, MS, <<Cd0(<<"-L">>, <<"symlink">>), Cd0(<<"-L">>, <<"..">>), PwdC(<<>>)>>), "/home/user")
\* $ cd -L symlink; $ cd -P ..; pwd -> /usr
ASSUME Prints(Run(M, MS, <<Cd0(<<"-L">>, <<"symlink">>), Cd0(<<"-P">>, <<"..">>), PwdC(<<>>)>>), "/usr")
\* $ cd -P symlink; pwd -> /usr/bin; $ cd ..; pwd -> /usr
ASSUME Prints(Run(M, MS, <<Cd0(<<"-P">>, <<"symlink">>), PwdC(<<>>)>>), "/usr/bin")
ASSUME Prints(Run(M, MS, <<Cd0(<<"-P">>, <<"symlink">>), Cd0(<<>>, <<"..">>), PwdC(<<>>)>>), "/usr")
\* $ CDPATH=:/usr:/usr/local; mkdir bin; cd bin (enters the new directory);
\* $ cd bin -> prints /usr/bin
M2 == TreeOf(<<D(<<>>), D(<<"w">>), D(<<"w", "bin">>), D(<<"usr">>), D(<<"usr", "bin">>), D(<<"usr", "local">>)>>)
MS2 == MkState(<<"w">>, "/w", "", "", ":/usr:/usr/local")
ASSUME Ok(Run(M2, MS2, <<Cd0(<<>>, <<"bin">>)>>), "/w/bin", <<>>)
ASSUME Ok(Run(M2, MS2, <<Cd0(<<>>, <<"bin">>), Cd0(<<>>, <<"bin">>)>>), "/usr/bin", <<"/usr/bin">>)
\* "Synopsis": cd without operand goes to $HOME; cd - returns and prints
ASSUME Ok(Run(M, [MS EXCEPT !.home = "/usr"], <<Cd0(<<>>, <<>>)>>), "/usr", <<>>)
ASSUME Ok(Run(M, MS, <<Cd0(<<>>, <<"/usr/bin">>), Cd0(<<>>, <<"-">>)>>), "/home/user", <<"/home/user">>)
\* "Exit status"
ASSUME Run(M, MS, <<Cd0(<<>>, <<"nosuch">>)>>).st = <<2, 2>>
ASSUME Run(M, MS, <<Cd0(<<"-L">>, <<"nosuch/..">>)>>).st = <<3, 3>>
ASSUME Run(M, MS, <<Cd0(<<>>, <<>>)>>).st = <<4, 4>>
ASSUME Run(M, MS, <<Cd0(<<>>, <<"-">>)>>).st = <<4, 4>>
ASSUME Run(M, MS, <<Cd0(<<>>, <<"a", "b">>)>>).st = <<5, 5>>

(***************************************************************************)
(* docs/src/builtins/pwd.md: -L prints $PWD if it is correct, -P the       *)
(* actual path without symbolic links                                      *)
(***************************************************************************)
ASSUME Prints(Run(M, MS, <<Cd0(<<>>, <<"symlink">>), PwdC(<<"-L">>)>>), "/home/user/symlink")
ASSUME Prints(Run(M, MS, <<Cd0(<<>>, <<"symlink">>), PwdC(<<"-P">>)>>), "/usr/bin")
ASSUME Prints(Run(M, MS, <<Cd0(<<>>, <<"symlink">>), PwdC(<<"-L", "-P">>)>>), "/usr/bin")
ASSUME Prints(Run(M, MS, <<Cd0(<<>>, <<"symlink">>), PwdC(<<"-P", "-L">>)>>), "/home/user/symlink")
\* a $PWD that is not correct: pwd -L recomputes
ASSUME Prints(Step(M, MkState(<<"usr">>, "/home/user", "", "", ""), PwdC(<<"-L">>)), "/usr")
ASSUME Prints(Step(M, MkState(<<"usr", "bin">>, "/usr/./bin", "", "", ""), PwdC(<<"-L">>)), "/usr/bin")

(***************************************************************************)
(* yash-cli/tests/scripted_test/cd-p.sh (set-up lines 8-14): below         *)
(* ORIGPWD = /w: mkdir -p cdpath1/foo cdpath2/foo/bar cdpath2/dev dev;     *)
(* ln -s cdpath2/foo link; >file; /dev exists                              *)
(***************************************************************************)
W(p) == <<"w">> \o p
P == TreeOf(<<D(<<>>), D(<<"dev">>), D(<<"w">>), D(W(<<"cdpath1">>)), D(W(<<"cdpath1", "foo">>)), D(W(<<"cdpath2">>)),
              D(W(<<"cdpath2", "foo">>)), D(W(<<"cdpath2", "foo", "bar">>)), D(W(<<"cdpath2", "dev">>)), D(W(<<"dev">>)),
              L(W(<<"link">>), "cdpath2/foo"), F(W(<<"file">>))>>)
PS == MkState(<<"w">>, "/w", "", "", "")
ASSUME WellFormedTree(P)
Both(steps, pwd, out) ==
  \A o \in {<<"-L">>, <<"-P">>} : Ok(Run(P, PS, [i \in 1..Len(steps) |-> IF steps[i].opts = <<"?">> THEN [steps[i] EXCEPT !.opts = o] ELSE steps[i]]), pwd, out)
Q == <<"?">>
\* 'default operand is HOME'
ASSUME Both(<<CdV(<<<<"HOME", "/dev">>>>, Q, <<>>)>>, "/dev", <<>>)
CP1 == <<<<"CDPATH", "/w/cdpath1::/w/cdpath2">>>>
\* 'found in first cd path', 'found in last cd path', 'found in empty cd path'
ASSUME Both(<<CdV(CP1, Q, <<"foo">>)>>, "/w/cdpath1/foo", <<"/w/cdpath1/foo">>)
ASSUME Both(<<CdV(CP1, Q, <<"foo/bar">>)>>, "/w/cdpath2/foo/bar", <<"/w/cdpath2/foo/bar">>)
ASSUME Both(<<CdV(CP1, Q, <<"dev">>)>>, "/w/dev", <<>>)
\* 'found in dot cd path'
ASSUME Both(<<CdV(<<<<"CDPATH", "/w/cdpath1:.:/w/cdpath2">>>>, Q, <<"dev">>)>>, "/w/dev", <<"/w/dev">>)
\* 'cd path ending with slash'
ASSUME Both(<<CdV(<<<<"CDPATH", "/">>>>, Q, <<"dev">>)>>, "/dev", <<"/dev">>)
\* 'found not in any cd path, but in PWD'
ASSUME Both(<<CdV(<<<<"CDPATH", "/w/cdpath1:/w/cdpath2">>>>, Q, <<"cdpath1">>)>>, "/w/cdpath1", <<>>)
\* 'cd paths are ignored for absolute path operand / operand starting with dot / dot-dot'
ASSUME Both(<<CdV(CP1, Q, <<"/dev">>)>>, "/dev", <<>>)
ASSUME Both(<<CdV(<<<<"CDPATH", "/w/cdpath2">>>>, Q, <<"./dev">>)>>, "/w/dev", <<>>)
ASSUME Both(<<Cd0(Q, <<"cdpath1">>), CdV(<<<<"CDPATH", "/w/cdpath2">>>>, <<>>, <<"../dev">>)>>, "/w/dev", <<>>)
\* 'not found in any cd path nor in PWD', 'directory not found': fails, nothing changes
ASSUME \A o \in {<<"-L">>, <<"-P">>} :
         LET R == Step(P, PS, CdV(CP1, o, <<"_no_such_path_">>)) IN R.st[1] > 0 /\ R.S.cwd = <<"w">> /\ R.S.pwd = "/w"
\* 'non-directory file / non-existing file in operand component': fails in both modes;
\* cd-y.sh: 'exit status of non-existing file in operand component' 3 (-L), 2 (-P)
ASSUME \A o \in {<<"-L">>, <<"-P">>} : Step(P, PS, Cd0(o, <<"./file/../dev">>)).st[1] > 0
ASSUME Step(P, PS, Cd0(<<"-L">>, <<"./_no_such_file_/../dev">>)).st = <<3, 3>>
ASSUME Step(P, PS, Cd0(<<"-P">>, <<"./_no_such_file_/../dev">>)).st = <<2, 2>>
\* 'target pathname is canonicalized (-L)', 'symbolic links are resolved (in operand, -P)'
ASSUME Ok(Step(P, PS, Cd0(<<"-L">>, <<"link/./../dev/.">>)), "/w/dev", <<>>)
ASSUME Ok(Step(P, PS, Cd0(<<"-P">>, <<"link/./../dev/.">>)), "/w/cdpath2/dev", <<>>)
\* 'symbolic links are resolved (in old PWD, -P)'
ASSUME Ok(Run(P, PS, <<Cd0(<<"-L">>, <<"link">>), Cd0(<<"-P">>, <<"./../dev/.">>)>>), "/w/cdpath2/dev", <<>>)
\* 'default option is -L', 'the last option wins'
ASSUME Ok(Step(P, PS, Cd0(<<>>, <<"link/./../dev/.">>)), "/w/dev", <<>>)
ASSUME Ok(Step(P, PS, Cd0(<<"-P", "-L", "-PL">>, <<"link/./../dev/.">>)), "/w/dev", <<>>)
ASSUME Ok(Step(P, PS, Cd0(<<"-L", "-P", "-LP">>, <<"link/./../dev/.">>)), "/w/cdpath2/dev", <<>>)
\* 'exit status of success with -e', 'exit status of change error with -e' (> 1)
ASSUME Ok(Step(P, PS, Cd0(<<"-P", "-e">>, <<".">>)), "/w", <<>>)
ASSUME Step(P, PS, Cd0(<<"-P", "-e">>, <<"_no_such_path_">>)).st[1] > 1
\* 'hyphen operand means OLDPWD'
ASSUME Both(<<CdV(<<<<"OLDPWD", "/dev">>>>, Q, <<"-">>)>>, "/dev", <<"/dev">>)
\* 'OLDPWD is set to old PWD (-L)'
ASSUME Step(P, PS, Cd0(<<"-L">>, <<"/">>)).S.oldpwd = "/w"
\* 'empty operand': non-zero
ASSUME \A o \in {<<"-L">>, <<"-P">>} : Step(P, PS, Cd0(o, <<"">>)).st[1] > 0

(***************************************************************************)
(* yash-cli/tests/scripted_test/cd-y.sh                                    *)
(***************************************************************************)
\* 'directory not changeable' 2; 'unset HOME' / 'empty HOME' 4; 'unset OLDPWD' 4
ASSUME Step(P, PS, Cd0(<<>>, <<"_no_such_directory_">>)).st = <<2, 2>>
ASSUME Step(P, PS, CdV(<<<<"HOME", "">>>>, <<>>, <<>>)).st = <<4, 4>>
ASSUME Step(P, PS, CdV(<<<<"OLDPWD", "">>>>, <<>>, <<"-">>)).st = <<4, 4>>
\* 'read-only PWD': readonly PWD; cd dir -> status 1, PWD=$ORIGPWD, pwd prints $ORIGPWD/dir
ASSUME LET R == Step(P, PS, CdV(<<<<"readonly", "PWD">>>>, <<>>, <<"dev">>)) IN
       /\ R.st = <<1, 1>> /\ R.S.pwd = "/w" /\ R.S.cwd = W(<<"dev">>)
       /\ Prints(Step(P, R.S, PwdC(<<>>)), "/w/dev")
\* 'unset OLDPWD' (sic): readonly OLDPWD=/; cd dir -> status 1, OLDPWD=/
ASSUME LET R == Step(P, PS, CdV(<<<<"OLDPWD", "/">>, <<"readonly", "OLDPWD">>>>, <<>>, <<"dev">>)) IN
       R.st = <<1, 1>> /\ R.S.oldpwd = "/" /\ R.S.pwd = "/w/dev"
\* '/.. is kept intact (-o POSIX)': cd /../../dev; $PWD -> /../../dev
ASSUME Ok(Step(P, PS, Cd0(<<>>, <<"/../../dev">>)), "/../../dev", <<>>)
\* 'redundant slashes are removed': cd .//dev///; pwd -> $ORIGPWD/dev
ASSUME Prints(Run(P, PS, <<Cd0(<<>>, <<".//dev///">>), PwdC(<<>>)>>), "/w/dev")

(***************************************************************************)
(* POSIX XCU sh, ENVIRONMENT VARIABLES, PWD: initialisation at start-up    *)
(***************************************************************************)
E(pwd) == [pwd |-> pwd, oldpwd |-> "", home |-> "", cdpath |-> ""]
ASSUME Start(P, W(<<"cdpath2", "foo">>), E("/w/link")).pwd = "/w/link"
ASSUME Start(P, W(<<"cdpath2", "foo">>), E("/w/./link")).pwd = "/w/cdpath2/foo"
ASSUME Start(P, W(<<"cdpath2", "foo">>), E("/w/dev")).pwd = "/w/cdpath2/foo"
ASSUME Start(P, W(<<"cdpath2", "foo">>), E("")).pwd = "/w/cdpath2/foo"
ASSUME Start(P, W(<<"cdpath2", "foo">>), E("link")).pwd = "/w/cdpath2/foo"
=============================================================================
