SPECIFICATION Spec
CONSTANT MaxPath = 3
CONSTANT Slice = 12
INVARIANT Emit
INVARIANT Laws
