SPECIFICATION Spec
CONSTANT MaxPath = 3
CONSTANT Slice = 12
CONSTANT Real = FALSE
INVARIANT Emit
INVARIANT Laws
