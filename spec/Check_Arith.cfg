INIT Init
NEXT Next
