---------------------------- MODULE Gen_ListsExt ----------------------------
(***************************************************************************)
(* Bounded enumeration of programs for ListsExt.tla (G18).  The model      *)
(* grows a program in prefix form, one token per step; every complete      *)
(* program is interpreted by the specification under each run option of    *)
(* the configuration, the laws below (theorems about the specification     *)
(* itself) are checked on it, and one JSON line                            *)
(*     {p: tokens, o: [run options + prescribed outcome]}                  *)
(* is printed for the conformance harness.                                 *)
(***************************************************************************)
EXTENDS ListsExt, Json, IOUtils

CONSTANTS K,            \* size bound (tokens; `esac` and empty case bodies are free)
          Alphabet,     \* set of command tokens
          ItemAlphabet, \* set of case-item tokens
          Opts          \* sequence of run options [e, pf]

VARIABLES toks, slots, sz
vars == <<toks, slots, sz>>

T0(k) == Tok(k, 0, "")
Tn(k, n) == Tok(k, n, "")
Ts(k, s) == Tok(k, 0, s)

Cost(a) == IF a.k \in {"esac", "empty"} THEN 0 ELSE 1
\* An open slot: its type and whether a loop lexically encloses it in the
\* same execution environment (programs in which break / continue cannot
\* but be unspecified are not generated).
Slot(ty, lp) == [ty |-> ty, lp |-> lp]
Need(slot) == IF slot.ty \in {"C", "N"} THEN 1 ELSE 0
RECURSIVE NeedAll(_)
NeedAll(ss) == IF ss = <<>> THEN 0 ELSE Need(Head(ss)) + NeedAll(Tail(ss))

Allowed(a, slot) == (a.k \in {"brk", "cnt"}) => slot.lp

Alpha(slot) ==
  LET base == CASE slot.ty = "C" -> Alphabet
                [] slot.ty = "N" -> {a \in Alphabet : a.k # "seq"}
                [] slot.ty = "B" -> Alphabet \cup {T0("empty")}
                [] slot.ty = "I" -> ItemAlphabet \cup {T0("esac")}
  IN {a \in base : Allowed(a, slot)}

ChildSlots(a, slot) ==
  LET tys == SlotsOf(a.k)
      lp == CASE a.k \in {"for", "while"} -> TRUE
              [] a.k \in {"sub", "pipe", "pipe3", "bg"} -> FALSE
              [] OTHER -> slot.lp
  IN [i \in 1..Len(tys) |-> Slot(tys[i], lp)]

Init == toks = <<>> /\ slots = <<Slot("C", FALSE)>> /\ sz = 0

Next ==
  /\ slots # <<>>
  /\ \E a \in Alpha(Head(slots)) :
       LET ns == ChildSlots(a, Head(slots)) \o Tail(slots)
       IN /\ sz + Cost(a) + NeedAll(ns) <= K
          /\ toks' = Append(toks, a)
          /\ slots' = ns
          /\ sz' = sz + Cost(a)

Spec == Init /\ [][Next]_vars

Complete == slots = <<>>

Opt(e, pf) == [e |-> e, pf |-> pf]

RECURSIVE SetToSeq(_)
SetToSeq(S) == IF S = {} THEN <<>> ELSE LET x == CHOOSE y \in S : TRUE IN <<x>> \o SetToSeq(S \ {x})

Result(t, o) ==
  LET R == Run(t, o)
  IN [e |-> o.e, pf |-> IF o.pf THEN 1 ELSE 0, oc |-> R.oc, tr |-> R.tr, win |-> R.win, st |-> R.st, x |-> R.x,
      out |-> R.out, ff |-> R.ff, orace |-> R.orace, tg |-> SetToSeq(R.tg)]

Out ==
  LET t == Parse(toks)
  IN [p |-> toks, o |-> [i \in 1..Len(Opts) |-> Result(t, Opts[i])]]

Emit == Complete => PrintT(ToJson(Out))

(***************************************************************************)
(* Laws: theorems about the specification.                                 *)
(***************************************************************************)
HasKind(ks) == \E i \in 1..Len(toks) : toks[i].k \in ks

Ok(R) == R.oc = "ok"
Nd(k, n, s, m, c) == [k |-> k, n |-> n, s |-> s, m |-> m, c |-> c]
SeqOf(a, b) == Nd("seq", 0, "", 990, <<a, b>>)
MkL(m) == Nd("mk", 0, "", m, <<>>)
PvL(m) == Nd("pv", 0, "", m, <<>>)
Core(R) == [oc |-> R.oc, tr |-> R.tr, win |-> R.win, st |-> R.st, x |-> R.x, out |-> R.out, ff |-> R.ff]

WinOk(R) ==
  LET ws == {R.win[i] : i \in 1..Len(R.win)}
      ps == PathsOf(R.tr)
  IN /\ \A w \in ws : w.lo >= 0 /\ (w.hi = -1 \/ w.hi >= w.lo) /\ w.p # <<>> /\ \E q \in ps : IsPrefix(w.p, q)
     /\ \A i, j \in 1..Len(R.win) : R.win[i].p = R.win[j].p => i = j
     \* every environment that recorded something, and every environment
     \* above it, has a window
     /\ \A q \in ps : \A n \in 1..Len(q) : \E w \in ws : w.p = SubSeq(q, 1, n)
     \* the children of an environment are numbered 1, 2, ... without gaps
     /\ \A w \in ws : w.p[Len(w.p)] = 1 \/ \E u \in ws : u.p = [w.p EXCEPT ![Len(w.p)] = @ - 1]

Laws ==
  Complete =>
  LET t == Parse(toks)
      A == Run(t, Opt(0, FALSE))
      B == Run(t, Opt(0, TRUE))
      E == Run(t, Opt(1, FALSE))
  IN \* the interpreter is total and classifies every program
     /\ A.oc \in {"ok", "unspec", "open", "div"} /\ B.oc \in {"ok", "unspec", "open", "div"}
     /\ E.oc \in {"ok", "unspec", "open", "div"}
     \* the windows are well-formed and the canonical order is itself allowed
     /\ Ok(A) => WinOk(A) /\ Conforms(A, Canonical(A))
     /\ Ok(B) => WinOk(B) /\ Conforms(B, Canonical(B))
     /\ Ok(E) => WinOk(E) /\ Conforms(E, Canonical(E))
     \* pipefail concerns multi-command pipelines only
     /\ (~HasKind({"pipe", "pipe3"})) => Core(A) = Core(B)
     \* `!` only inverts the status (2.9.2)
     /\ LET N == Run(Nd("not", 0, "", 991, <<t>>), Opt(0, FALSE))
        IN (Ok(A) /\ A.x = "none") => (Ok(N) /\ N.tr = A.tr /\ N.win = A.win /\ N.st = IF A.st = 0 THEN 1 ELSE 0)
     \* an asynchronous list: status 0, everything it does happens in child
     \* environments, the shell goes on
     /\ LET G == Run(SeqOf(Nd("bg", 0, "", 992, <<t>>), MkL(999)), Opt(0, FALSE))
        IN Ok(G) => /\ G.x = "none" /\ G.st = 0
                    /\ G.tr[Len(G.tr)] = [p |-> <<>>, m |-> 999, st |-> 0, x |-> 0]
                    /\ \A i \in 1..(Len(G.tr) - 1) : G.tr[i].p # <<>>
                    /\ \A i \in 1..Len(G.win) : Len(G.win[i].p) = 1 => G.win[i].hi = -1
     \* subshells, pipelines and asynchronous lists are contained: the
     \* variable of the shell is what it was (unset)
     /\ LET S1 == Run(SeqOf(Nd("sub", 0, "", 992, <<t>>), PvL(998)), Opt(0, FALSE))
            S2 == Run(SeqOf(Nd("pipe", 0, "", 992, <<t, t>>), PvL(998)), Opt(0, FALSE))
            Last(R) == R.tr[Len(R.tr)]
        IN /\ (Ok(S1) /\ S1.x = "none") => Last(S1).m = 998 /\ Last(S1).x = 0 /\ Last(S1).p = <<>>
           /\ (Ok(S2) /\ S2.x = "none") => Last(S2).m = 998 /\ Last(S2).x = 0 /\ Last(S2).p = <<>>
     \* the variable of a for loop keeps its last value
     /\ LET F == Run(SeqOf(Nd("for", 0, "ab", 993, <<t>>), PvL(998)), Opt(0, FALSE))
        IN (Ok(F) /\ F.x = "none" /\ ~HasKind({"asg", "ro", "for"})) => F.tr[Len(F.tr)].x = 2
     \* errexit only cuts: the observations of the shell itself are a prefix
     /\ (Ok(A) /\ Ok(E) /\ ~HasKind({"sete"})) =>
          LET a == Own(A.tr, <<>>)
              b == Own(E.tr, <<>>)
          IN Len(b) <= Len(a) /\ \A i \in 1..Len(b) : b[i].m = a[i].m

(***************************************************************************)
(* Token alphabets and option lists (selected per configuration file).     *)
(***************************************************************************)
MK0 == Tn("mk", 0)
MK1 == Tn("mk", 1)
MK3 == Tn("mk", 3)
PR == T0("P")
PV == T0("pv")
PB == T0("pb")
SAY(n) == Tn("say", n)
RD == T0("rd")
ASG(s) == Ts("asg", s)
RO == T0("ro")
SETPF(n) == Tn("setpf", n)
SETE(n) == Tn("sete", n)
SETPP(n) == Tn("setpp", n)
WAIT(s) == Ts("wait", s)
KILL(s) == Ts("kill", s)
EXIT(n) == Tn("exit", n)
BRK(n) == Tn("brk", n)
CNT(n) == Tn("cnt", n)
TICK == T0("tick")
FOR(s) == Ts("for", s)
RDR(s) == Ts("rdr", s)
CASE_(s) == Ts("case", s)
ITEM(s, n) == Tok("item", n, s)

\* pipelines: exit status, pipefail (also switched inside the program), `!`, errexit
AlphaPipes ==
  {MK0, MK1, MK3, PR, EXIT(2), SETPF(1), SETPF(0), T0("pipe"), T0("pipe3"), T0("not"), T0("seq"), T0("and"), T0("or"),
   T0("sub")}

\* asynchronous lists: $!, wait, exit status, signals
AlphaAsync ==
  {MK0, MK1, PR, PB, T0("bg"), WAIT("all"), WAIT("last"), WAIT("last2"), WAIT("unk"), T0("sub"), T0("seq"), EXIT(3),
   T0("and"), KILL("INT"), KILL("TERM")}

\* asynchronous lists nested in pipelines, subshells and loops (fewer tokens, larger bound)
AlphaAsyncNest ==
  {MK1, PR, PB, T0("bg"), WAIT("all"), WAIT("last"), T0("sub"), T0("seq"), T0("pipe"), FOR("ab"), KILL("QUIT"), T0("not")}

\* case: order of expansion, terminators, exit status
AlphaCase ==
  {MK0, MK1, PR, ASG("b"), CASE_("a"), CASE_("b"), CASE_("v"), CASE_("Pa"), T0("seq")}
ItemsCase ==
  {ITEM(s, n) : s \in {"a", "b", "*", "Pa", "Pb|Pa", "a|b", "v"}, n \in {0, 1, 2}}
AlphaCase2 ==
  {MK1, PR, CASE_("a"), CASE_("Pb"), T0("seq"), T0("sub"), T0("not"), FOR("ab"), BRK(1), CASE_("v")}
ItemsCase2 ==
  {ITEM(s, n) : s \in {"a", "Pb", "?", "Pa|Pb", "Pb|Pa|Pc", "v"}, n \in {0, 1, 2}}

\* for: word lists, "$@", the variable, read-only variable, break / continue
AlphaFor ==
  {MK0, MK1, PR, PV, ASG("c"), RO, SETPP(2), SETPP(0), FOR(""), FOR("a"), FOR("ab"), FOR("@"), FOR("q@"), FOR("bv"),
   FOR("Pab"), FOR("U"), BRK(1), CNT(1), T0("seq"), T0("sub"), T0("and")}

\* redirections of compound commands
AlphaRedir ==
  {SAY(1), SAY(2), RD, PR, RDR(">f"), RDR(">>f"), RDR("<f"), RDR("<g"), T0("sub"), T0("seq"), FOR("ab"), T0("if"),
   EXIT(1), BRK(1), MK1}

\* data through the pipes of a pipeline, standard input of asynchronous lists
AlphaPipeIO ==
  {SAY(1), SAY(2), RD, MK0, MK1, T0("pipe"), T0("pipe3"), T0("bg"), WAIT("all"), RDR("<g"), RDR(">f"), RDR("<f"),
   T0("sub"), T0("seq"), SETPF(1)}

\* while loops, subshell isolation of options and variables, errexit interplay
AlphaMix ==
  {MK1, PR, PV, ASG("a"), SETPF(1), SETE(1), TICK, T0("while"), T0("pipe"), T0("bg"), WAIT("last"), T0("not"),
   T0("seq"), T0("sub"), T0("or"), T0("if"), BRK(1), T0("ife")}

NoItems == {}

AlphaAll == AlphaPipes \cup AlphaAsync \cup AlphaAsyncNest \cup AlphaCase \cup AlphaCase2 \cup AlphaFor \cup AlphaRedir
            \cup AlphaPipeIO \cup AlphaMix
ItemsAll == ItemsCase \cup ItemsCase2

OptsPlain == <<Opt(0, FALSE)>>
OptsPf == <<Opt(0, FALSE), Opt(0, TRUE), Opt(1, TRUE)>>
OptsE == <<Opt(0, FALSE), Opt(1, FALSE)>>
OptsAll == <<Opt(0, FALSE), Opt(0, TRUE), Opt(1, FALSE), Opt(1, TRUE)>>
=============================================================================
