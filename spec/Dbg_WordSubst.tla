---- MODULE Dbg_WordSubst ----
EXTENDS Gen_WordSubst
InvT == \A i \in 1..NCore, j \in 1..NCore, k \in 1..10 : (U[i] = U[j]) \/ TRUE
====
