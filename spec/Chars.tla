------------------------------- MODULE Chars -------------------------------
(***************************************************************************)
(* Characters, strings-as-sequences and attributed characters used by the  *)
(* word-expansion specification (C01).                                     *)
(*                                                                         *)
(* A character is a TLA+ string of length one.  Text is a sequence of      *)
(* characters (TLC cannot index strings, but Len/SubSeq/\o work on them,   *)
(* which is all that Chars/Str below need).                                *)
(*                                                                         *)
(* An attributed character [c, k] carries how it came to be in the word    *)
(* (POSIX XCU 2.6: field splitting looks only at the unquoted results of   *)
(* expansions, quote removal removes only the quoting characters that were *)
(* present in the original word):                                          *)
(*   k = "lit"  unquoted character written literally in the word           *)
(*   k = "exp"  unquoted character resulting from an expansion             *)
(*   k = "qtd"  character protected by \, '...' or "..." (from anywhere)   *)
(*   k = "qm"   a quoting character itself (\ ' "), removed at the end     *)
(***************************************************************************)
EXTENDS Naturals, Sequences, TLC

Chars(s) == [i \in 1..Len(s) |-> SubSeq(s, i, i)]   \* "ab" -> <<"a","b">>

RECURSIVE Str(_)
Str(q) == IF q = <<>> THEN "" ELSE Head(q) \o Str(Tail(q))   \* inverse of Chars

DigitChars(n) == Chars(ToString(n))                 \* 12 -> <<"1","2">>

InSeq(c, q) == \E i \in DOMAIN q : q[i] = c

RECURSIVE Flatten(_)
Flatten(qq) == IF qq = <<>> THEN <<>> ELSE Head(qq) \o Flatten(Tail(qq))

(* XBD 4.x / XCU 2.6.5: the IFS white-space characters *)
IsIfsWhiteSpaceChar(c) == c \in {" ", "\t", "\n"}

AC(c, k) == [c |-> c, k |-> k]
ACs(q, k) == [i \in DOMAIN q |-> AC(q[i], k)]        \* attribute a whole text
Plain(f) == [i \in DOMAIN f |-> f[i].c]              \* forget the attributes

(* Quote removal (XCU 2.6.7): the quoting characters of the original word  *)
(* disappear, everything else stays.                                       *)
RemoveQuotes(f) == SelectSeq(f, LAMBDA a : a.k # "qm")
=============================================================================
