--------------------------- MODULE Gen_NestedExec ---------------------------
(***************************************************************************)
(* Bounded enumeration of programs for NestedExec.tla (G07).  The model    *)
(* grows a program in prefix form, one token per step; every complete      *)
(* program is interpreted by the specification under each run option of    *)
(* the configuration, the laws below (theorems about the specification     *)
(* itself) are checked on it, and one JSON line                            *)
(*     {p: tokens, o: [run options + prescribed outcome]}                  *)
(* is printed for the conformance harness.                                 *)
(***************************************************************************)
EXTENDS NestedExec, Json, IOUtils

CONSTANTS K,          \* size bound (tokens)
          Alphabet,   \* set of command tokens
          Opts        \* sequence of run options [e, t]

VARIABLES toks, slots, sz
vars == <<toks, slots, sz>>

T0(k) == Tok(k, 0, "")
Tn(k, n) == Tok(k, n, "")
Ts(k, s) == Tok(k, 0, s)

\* An open slot: its type, whether a loop lexically encloses it in the same
\* frame and environment (eval is transparent), and whether a function or
\* dot script is being executed there.  Programs in which break, continue or
\* return cannot but be unspecified are not generated.
Slot(ty, lp, fn) == [ty |-> ty, lp |-> lp, fn |-> fn]

Allowed(a, slot) ==
  /\ (a.k \in {"brk", "cnt"}) => slot.lp
  /\ (a.k = "ret") => slot.fn

Alpha(slot) ==
  LET base == IF slot.ty = "N" THEN {a \in Alphabet : a.k # "seq"} ELSE Alphabet
  IN {a \in base : Allowed(a, slot)}

ChildSlots(a, slot) ==
  LET tys == SlotsOf(a.k)
      lp == CASE a.k \in {"for", "while"} -> TRUE
              [] a.k \in {"def", "sub", "dot"} -> FALSE
              [] OTHER -> slot.lp
      fn == CASE a.k \in {"def", "dot"} -> TRUE
              [] a.k = "sub" -> FALSE
              [] OTHER -> slot.fn
  IN [i \in 1..Len(tys) |-> Slot(tys[i], lp, fn)]

Init == toks = <<>> /\ slots = <<Slot("C", FALSE, FALSE)>> /\ sz = 0

Next ==
  /\ slots # <<>>
  /\ \E a \in Alpha(Head(slots)) :
       LET ns == ChildSlots(a, Head(slots)) \o Tail(slots)
       IN /\ sz + 1 + Len(ns) <= K
          /\ toks' = Append(toks, a)
          /\ slots' = ns
          /\ sz' = sz + 1

Spec == Init /\ [][Next]_vars

Complete == slots = <<>>

Opt(e, t) == [e |-> e, t |-> t]

RECURSIVE SetToSeq(_)
SetToSeq(S) == IF S = {} THEN <<>> ELSE LET x == CHOOSE y \in S : TRUE IN <<x>> \o SetToSeq(S \ {x})

Result(t, o) ==
  LET R == Run(t, o)
  IN [e |-> o.e, t |-> o.t, oc |-> R.oc, tr |-> R.tr, st |-> R.st, nt |-> R.nt, x |-> R.x,
      tg |-> SetToSeq(R.tg)]

Out ==
  LET t == Parse(toks)
  IN [p |-> toks, o |-> [i \in 1..Len(Opts) |-> Result(t, Opts[i])]]

Emit == Complete => PrintT(ToJson(Out))

(***************************************************************************)
(* Laws: theorems about the specification.                                 *)
(***************************************************************************)
IsPrefix(a, b) == Len(a) <= Len(b) /\ SubSeq(b, 1, Len(a)) = a

HasKind(ks) == \E i \in 1..Len(toks) : toks[i].k \in ks

\* every `eval P` replaced by P itself (the markers of the tree are kept)
RECURSIVE Unwrap(_)
Unwrap(t) ==
  IF t.k = "eval" THEN Unwrap(t.c[1])
  ELSE [t EXCEPT !.c = [i \in 1..Len(t.c) |-> Unwrap(t.c[i])]]

Ok(R) == R.oc = "ok"
Symbolic(s) == s <= -10

Laws ==
  Complete =>
  LET t == Parse(toks)
      R(e, tr) == Run(t, Opt(e, tr))
      A == R(0, 0)
      B == R(1, 0)
  IN \* the interpreter is total and classifies every program
     /\ A.oc \in {"ok", "unspec", "div"} /\ B.oc \in {"ok", "unspec", "div"}
     \* no EXIT trap set: none runs
     /\ (~HasKind({"trap"})) => A.nt = 0 /\ B.nt = 0
     \* eval is transparent (errexit off): `eval 'P'` behaves as P does
     /\ LET U == Run(Unwrap(t), Opt(0, 0))
        IN (~HasKind({"sete"})) => (U.oc = A.oc /\ (Ok(A) => (U.tr = A.tr /\ U.st = A.st /\ U.x = A.x)))
     \* errexit: cuts the run at a failure, never adds observations
     /\ (Ok(A) /\ Ok(B) /\ ~HasKind({"trap", "sub", "sete"})) =>
          /\ IsPrefix(B.tr, A.tr)
          /\ B.fired => (B.st # 0 /\ B.x = "exit")
          /\ (~B.fired) => (B.tr = A.tr /\ B.st = A.st /\ B.x = A.x)
     /\ (Ok(A) /\ ~Ok(B) /\ ~HasKind({"sete"})) => FALSE
     \* the EXIT trap runs exactly once, last, sees the final $?, unless the
     \* process image was replaced; `exit 7` in the action decides the status,
     \* a bare `exit` keeps it
     /\ \A e \in {0, 1} :
          LET N == R(e, 0)
              W1 == R(e, 1)
              W2 == R(e, 2)
              W3 == R(e, 3)
          IN (Ok(N) /\ ~HasKind({"trap", "sete"})) =>
               IF N.x = "exec"
               THEN W1.tr = N.tr /\ W1.st = N.st /\ W1.nt = 0 /\ W2.st = N.st /\ W2.nt = 0
               ELSE /\ Ok(W1) /\ W1.nt = 1 /\ W1.st = N.st /\ W1.tr = Append(N.tr, <<0, N.st>>)
                    /\ Ok(W2) /\ W2.nt = 1 /\ W2.tr = W1.tr
                    /\ W2.st = IF e = 1 /\ N.st # 0 THEN N.st ELSE 7
                    /\ Ok(W3) => (W3.nt = 1 /\ W3.st = N.st /\ W3.tr = W1.tr)
                    /\ (~HasKind({"exit"})) => Ok(W3)
     \* a function call leaves the positional parameters as they were; eval and
     \* dot leave them as their commands left them: observing $# after the
     \* program tells whether a `set --` outside every function body and
     \* subshell was executed last
     /\ (Ok(A) /\ A.x = "none" /\ ~HasKind({"setpp", "trap"})) =>
          LET Q == [k |-> "Q", n |-> 0, s |-> "", m |-> 997, c |-> <<>>]
              T3 == [k |-> "seq", n |-> 0, s |-> "", m |-> 998, c |-> <<t, Q>>]
              A3 == Run(T3, Opt(0, 0))
          IN Ok(A3) /\ A3.tr = Append(A.tr, <<1997, A.st>>)
     \* a replaced process image / an exit is final: the run's last
     \* observation made by the main environment precedes nothing else --
     \* stated as: a program followed by one more observation point records
     \* it iff the program ended with x = "none"
     /\ LET Mk == [k |-> "mk", n |-> 0, s |-> "", m |-> 999, c |-> <<>>]
            T2 == [k |-> "seq", n |-> 0, s |-> "", m |-> 998, c |-> <<t, Mk>>]
            A2 == Run(T2, Opt(0, 0))
        IN (Ok(A) /\ ~HasKind({"trap"})) =>
                    /\ Ok(A2)
                    /\ IF A.x = "none" THEN A2.tr = Append(A.tr, <<999, A.st>>) /\ A2.st = 0
                       ELSE A2.tr = A.tr /\ A2.st = A.st /\ A2.x = A.x

(***************************************************************************)
(* Token alphabets and option lists (selected per configuration file).     *)
(***************************************************************************)
MK0 == Tn("mk", 0)
MK1 == Tn("mk", 1)
MK3 == Tn("mk", 3)
PR == T0("P")
QQ == T0("Q")
SETPP(n) == Tn("setpp", n)
SETE(n) == Tn("sete", n)
CMDN(s, n) == Tok("cmd", n, s)
TICK == T0("tick")
BRK(n) == Tn("brk", n)
CNT(n) == Tn("cnt", n)
RET(n) == Tn("ret", n)
EXIT(n) == Tn("exit", n)
CMD(s) == Ts("cmd", s)
DEFN(s) == Ts("def", s)
FOR(n) == Tn("for", n)
TRAP(a) == Tn("trap", a)
EVAL == T0("eval")
EVALNIL == T0("evalnil")
EVALSYN == T0("evalsyn")
DOT(n) == Tn("dot", n)
DOTNIL == T0("dotnil")
DOTMISS(n) == Tn("dotmiss", n)
DOTSYN == T0("dotsyn")
EXEC(s, n) == Tok("exec", n, s)

\* eval and loops: break / continue through eval, eval status, empty eval
AlphaEvalLoop ==
  {MK0, MK1, PR, TICK, EVAL, EVALNIL, BRK(1), BRK(2), CNT(1), FOR(2), T0("while"),
   T0("seq"), T0("and"), T0("not"), T0("if")}

\* dot scripts, functions, return
AlphaDotRet ==
  {MK0, MK1, PR, EVAL, DOT(0), DOT(1), DOTNIL, RET(-1), RET(5), DEFN("f"), CMD("f"),
   FOR(2), BRK(1), T0("seq"), T0("and"), T0("not")}

\* exit in every context, EXIT trap set inside the program
AlphaExit ==
  {MK0, MK3, PR, EXIT(-1), EXIT(4), EVAL, DOT(0), T0("sub"), DEFN("f"), CMD("f"),
   TRAP(-2), TRAP(-1), TRAP(7), FOR(2), T0("seq"), T0("if"), T0("and")}

\* errors of the special built-ins
AlphaErrors ==
  {MK0, MK1, PR, EVALSYN, DOTMISS(0), DOTMISS(1), DOTSYN, EXEC("missing", 0), EXEC("noexec", 0),
   EXEC("none", 0), EVAL, DOT(0), T0("sub"), DEFN("f"), CMD("f"), CMD("g"),
   T0("seq"), T0("and"), T0("or"), T0("not"), T0("if"), FOR(2)}

\* errexit inside eval / dot / functions and the exempt contexts around them
AlphaErrexit ==
  {MK0, MK1, PR, EVAL, EVALNIL, DOT(0), DOTNIL, DEFN("f"), CMD("f"), RET(5), T0("sub"),
   T0("seq"), T0("and"), T0("or"), T0("not"), T0("if"), T0("ife")}

\* exec with a utility (replayed through the true entry point on the real OS)
AlphaExec ==
  {MK0, MK3, PR, EXEC("found", 0), EXEC("found", 3), EXEC("missing", 0), EXEC("noexec", 0),
   EXEC("none", 0), EVAL, DOT(0), T0("sub"), DEFN("f"), CMD("f"), TRAP(-2), EXIT(4),
   FOR(2), T0("seq"), T0("and"), T0("or"), T0("not"), T0("if")}

\* exec with a utility from inside every frame kind (few tokens, larger bound; real OS)
AlphaExecNest ==
  {MK0, PR, EXEC("found", 0), EXEC("found", 3), EXEC("missing", 0), DEFN("f"), CMD("f"), EVAL, DOT(0),
   T0("sub"), T0("seq"), T0("if")}

\* few tokens, larger bound: deep nesting of the frame kinds
AlphaNest ==
  {MK0, PR, EVAL, DOT(0), DEFN("f"), CMD("f"), RET(5), BRK(1), BRK(2), FOR(2), T0("seq"), T0("sub")}

\* positional parameters through eval / dot / functions / subshells
AlphaPos ==
  {MK0, QQ, SETPP(0), SETPP(2), CMD("f"), CMDN("f", 1), DEFN("f"), EVAL, DOT(0), RET(5), T0("sub"), T0("seq"), FOR(2)}

\* set -e / set +e executed inside eval / dot / functions / subshells
AlphaSetE ==
  {MK0, MK1, PR, SETE(1), SETE(0), EVAL, DOT(0), DEFN("f"), CMD("f"), T0("sub"), T0("seq"), T0("and"),
   T0("if"), T0("not")}

\* everything at once (laws on tiny programs)
AlphaAll == AlphaEvalLoop \cup AlphaDotRet \cup AlphaExit \cup AlphaErrors \cup AlphaErrexit \cup AlphaExec
            \cup AlphaNest \cup AlphaPos \cup AlphaSetE \cup AlphaExecNest

OptsPlain == <<Opt(0, 0)>>
OptsFlow == <<Opt(0, 0), Opt(0, 1)>>
OptsErr == <<Opt(0, 1), Opt(1, 1), Opt(1, 0)>>
OptsE == <<Opt(1, 0), Opt(1, 1)>>
OptsTrap == <<Opt(0, 1), Opt(0, 2), Opt(0, 3), Opt(1, 2)>>
OptsExec == <<Opt(0, 0), Opt(0, 1), Opt(1, 1)>>

(***************************************************************************)
(* Nested-errors stage of property C10: the failing commands of XCU 2.8.1  *)
(* (leaf `fail c`) executed by other built-ins.  Every enumerated command  *)
(* P is emitted as `P; probe` (the final observation point tells whether   *)
(* the shell went on and what $? it saw) when it holds a failing command.  *)
(***************************************************************************)
FAIL(c) == Ts("fail", c)

WrapP(ts) == <<T0("seq")>> \o ts \o <<PR>>

OutC10 ==
  LET ws == WrapP(toks)
      t == Parse(ws)
  IN [p |-> ws, o |-> [i \in 1..Len(Opts) |-> Result(t, Opts[i])]]

EmitC10 == (Complete /\ HasKind({"fail", "exec"})) => PrintT(ToJson(OutC10))

Same(A, B) == A.oc = B.oc /\ (Ok(A) => (A.tr = B.tr /\ A.st = B.st /\ A.nt = B.nt /\ A.x = B.x /\ A.fired = B.fired))

Node1(k, m, c) == [k |-> k, n |-> 0, s |-> "", m |-> m, c |-> <<c>>]

\* replacements of a leaf f = `fail c` (md: which law)
Repl(f, md) ==
  CASE md.k = "class" -> [f EXCEPT !.s = IF f.s \in ExitCats THEN md.ce ELSE md.cs]
    [] md.k = "syn" -> IF f.s \in ExitCats THEN [f EXCEPT !.k = "evalsyn", !.s = ""] ELSE f
    [] md.k = "sub" -> IF f.s \in SoftCats THEN Node1("sub", f.m, [f EXCEPT !.s = "sp"]) ELSE f
    [] md.k = "eval" -> Node1("eval", f.m, f)
    [] md.k = "dot" -> Node1("dot", f.m, f)

\* the tree with every leaf `fail c` replaced (markers kept)
RECURSIVE MapFail(_, _)
MapFail(t, md) ==
  IF t.k = "fail" THEN Repl(t, md)
  ELSE [t EXCEPT !.c = [i \in 1..Len(t.c) |-> MapFail(t.c[i], md)]]

LawsC10 ==
  Complete =>
  LET t == Parse(WrapP(toks))
      body == Parse(WrapP(toks)).c[1]
  IN \A i \in 1..Len(Opts) :
       LET o == Opts[i]
           R == Run(t, o)
       IN \* (1) the outcome depends only on the class of the error: every
          \*     "shall exit" category behaves as every other one, every
          \*     "shall not exit" category as every other one
          /\ \A ce \in ExitCats, cs \in SoftCats :
               Same(R, Run(MapFail(t, [k |-> "class", ce |-> ce, cs |-> cs]), o))
          \* (2) a "shall exit" error has the consequence of a syntax error
          \*     found by eval (2.8.1 first row)
          /\ Same(R, Run(MapFail(t, [k |-> "syn"]), o))
          \* (3) a "shall exit" error inside a subshell is, for the invoking
          \*     environment, an ordinary failing command: `( fail exit )`
          \*     behaves as a "shall not exit" failure
          /\ Same(R, Run(MapFail(t, [k |-> "sub"]), o))
          \* (4) eval and dot do not change the consequence of an error
          \*     inside them: `eval 'fail'` and `. file-holding-fail` behave
          \*     as the failing command itself, with and without -e
          /\ Same(R, Run(MapFail(t, [k |-> "eval"]), o))
          /\ Same(R, Run(MapFail(t, [k |-> "dot"]), o))
          \* (5) "shall not exit": without -e a program whose only failing
          \*     commands are of the "shall not exit" class runs to its end
          /\ (o.e = 0 /\ Ok(R) /\ ~HasKind({"exec", "exit", "evalsyn", "dotmiss", "dotsyn", "sete"})
              /\ \A j \in 1..Len(toks) : toks[j].k = "fail" => toks[j].s \in SoftCats)
               => (R.x = "none" /\ R.tr # <<>> /\ R.tr[Len(R.tr) - (IF o.t = 0 THEN 0 ELSE 1)][1] = Len(toks) + 2)
          \* (6) "shall exit": a failing command of that class executed in
          \*     the main environment is the last thing the shell does before
          \*     the EXIT trap; the status is non-zero; the trap runs once
          /\ (Ok(R) /\ HasKind({"fail"}) /\ ~HasKind({"sub", "exec", "exit", "evalsyn", "dotmiss", "dotsyn", "sete", "trap"})
              /\ \A j \in 1..Len(toks) : toks[j].k = "fail" => toks[j].s \in ExitCats)
               => LET Rb == Run(body, o)
                  IN Ok(Rb) /\ (Rb.x = "exit" => (R.tr = Rb.tr /\ R.st = Rb.st /\ R.st # 0))
                     /\ R.nt = o.t

\* every category executed directly, by eval, by a dot script, by a function,
\* in a subshell and in the contexts where -e is ignored
AlphaC10Err ==
  {FAIL(c) : c \in ErrCats} \cup
  {MK0, PR, EXEC("missing", 0), EVAL, DOT(0), T0("sub"), DEFN("f"), CMD("f"),
   T0("seq"), T0("and"), T0("or"), T0("not"), T0("if"), T0("while")}

\* one category per class, larger bound: the built-ins nested in one another
\* (eval in a dot script in a function called by eval ...)
AlphaC10Nest ==
  {FAIL("sp"), FAIL("reg"), PR, EVAL, DOT(0), T0("sub"), DEFN("f"), CMD("f"), T0("seq"), T0("if")}

\* the remaining categories of the two classes at the larger bound (thorough)
AlphaC10Nest2 ==
  {FAIL("asg"), FAIL("exp"), FAIL("cmdsp"), FAIL("cmpr"), PR, EVAL, DOT(1), DEFN("f"), CMD("f"), T0("seq"), T0("or")}

AlphaC10Laws == AlphaC10Err \cup {MK1, DOT(1)}

OptsC10 == <<Opt(0, 0), Opt(0, 1), Opt(1, 0), Opt(1, 1)>>
=============================================================================
