---------------------------- MODULE Calib_SetOpts ----------------------------
(***************************************************************************)
(* Calibration of SetOpts.tla (DESIGN.md 4.4): worked examples transcribed *)
(* by hand from the manual (docs/src/environment/options.md,               *)
(* builtins/set.md, shift.md, language/parameters/positional.md,           *)
(* special.md, startup.md) and from the project's conformance scripts      *)
(* (yash-cli/tests/scripted_test/set-p.sh, shift-p.sh, option-p.sh,        *)
(* startup-p.sh and the documented-extension cases of set-y.sh,            *)
(* option-y.sh, startup-y.sh), each citing its source.  A failing ASSUME   *)
(* is a defect of the specification (tool error), never a violation.       *)
(***************************************************************************)
EXTENDS SetOpts

VARIABLE x
Init == x = 0
Next == UNCHANGED x

St(on, pos, a0) == [on |-> on, pos |-> pos, arg0 |-> a0]
\* the manual's examples run in a shell reading standard input
Man == St(DefaultOn \cup {"stdin"}, <<>>, "yash")
Cmd0 == St(DefaultOn \cup {"cmdline"}, <<>>, "yash")

RECURSIVE RunSets(_, _)
RunSets(S, cmds) == IF Len(cmds) = 0 THEN S ELSE RunSets(SetCmd(S, cmds[1]).S, Tail(cmds))
DashSet(S) == SRange(Dash(S))
OkSet(S, args) == LET r == SetCmd(S, args) IN r.st = 0 /\ ~r.unspec
ErrSet(S, args) == LET r == SetCmd(S, args) IN r.st = 2 /\ r.fail /\ r.S = S /\ ~r.unspec

(***************************************************************************)
(* options.md                                                              *)
(***************************************************************************)
\* "--all-export, --ALLEXPORT, and ---All*Ex!PorT all enable allexport"
ASSUME \A w \in {"--all-export", "--ALLEXPORT", "---All*Ex!PorT", "--allexport"} :
          OkSet(Man, <<w>>) /\ SetCmd(Man, <<w>>).S.on = Man.on \cup {"allexport"}
\* "$ set --cl" enables clobber; "$ set --c  error: ambiguous option name"
ASSUME OkSet(St(Man.on \ {"clobber"}, <<>>, "yash"), <<"--cl">>)
ASSUME "clobber" \in SetCmd(St(Man.on \ {"clobber"}, <<>>, "yash"), <<"--cl">>).S.on
ASSUME ErrSet(Man, <<"--c">>)
ASSUME ParseOpts(<<"--c">>, 1, FALSE, <<>>, "set").err = "ambiguous"
\* --noallexport, ++allexport, +o allexport disable; +o noallexport is a double negation and enables
ASSUME \A a \in {<<"--noallexport">>, <<"++allexport">>, <<"+o", "allexport">>} :
          SetCmd(St(Man.on \cup {"allexport"}, <<>>, "yash"), a).S.on = Man.on
ASSUME SetCmd(Man, <<"+o", "noallexport">>).S.on = Man.on \cup {"allexport"}
\* -a / +a; "You can combine multiple short options in one argument: -aex"
ASSUME SetCmd(Man, <<"-a">>).S.on = Man.on \cup {"allexport"}
ASSUME SetCmd(St(Man.on \cup {"allexport"}, <<>>, "yash"), <<"+a">>).S.on = Man.on
ASSUME SetCmd(Man, <<"-aex">>).S.on = Man.on \cup {"allexport", "errexit", "xtrace"}
\* "-C is the same as --noclobber ... To enable clobber with its short name, use +C"
ASSUME SetCmd(Man, <<"-C">>).S.on = Man.on \ {"clobber"}
ASSUME SetCmd(Man, <<"-C">>) = SetCmd(Man, <<"--noclobber">>)
ASSUME SetCmd(St(Man.on \ {"clobber"}, <<>>, "yash"), <<"+C">>).S.on = Man.on
\* the `set -o` listing of a shell reading standard input (21 lines)
ASSUME ListO(Man) = <<<<"allexport", "off">>, <<"clobber", "on">>, <<"cmdline", "off">>, <<"errexit", "off">>,
                      <<"exec", "on">>, <<"glob", "on">>, <<"hashondefinition", "off">>, <<"ignoreeof", "off">>,
                      <<"interactive", "off">>, <<"log", "on">>, <<"login", "off">>, <<"monitor", "off">>,
                      <<"notify", "off">>, <<"pipefail", "off">>, <<"portable", "off">>, <<"posixlycorrect", "off">>,
                      <<"stdin", "on">>, <<"unset", "on">>, <<"verbose", "off">>, <<"vi", "off">>, <<"xtrace", "off">>>>
\* the `set +o` listing of the same shell
ASSUME ListP(Man) = <<"set +o portable", "set +o allexport", "set -o clobber", "#set +o cmdline", "set +o errexit",
                      "set -o exec", "set -o glob", "set +o hashondefinition", "set +o ignoreeof",
                      "#set +o interactive", "set -o log", "set +o login", "set +o monitor", "set +o notify",
                      "set +o pipefail", "set +o posixlycorrect", "#set -o stdin", "set -o unset", "set +o verbose",
                      "set +o vi", "set +o xtrace">>
\* "$ set +o allexport; savedoptions=$(set +o); set -o allexport; eval "$savedoptions"; ... allexport off"
ASSUME "allexport" \notin RunLines(SetCmd(Man, <<"-o", "allexport">>).S, ListP(SetCmd(Man, <<"+o", "allexport">>).S)).on
\* "$ set -a -o noclobber; echo "$-"   aCs"
ASSUME DashSet(SetCmd(Man, <<"-a", "-o", "noclobber">>).S) = {"a", "C", "s"}
\* "if -i and -m are set, the value of - is im"
ASSUME DashSet(St({"interactive", "monitor", "clobber", "exec", "glob", "log", "unset"}, <<>>, "yash")) = {"i", "m"}
\* portable (since 3.3.5): only the listed spellings; arguments examined in order; portable itself always accepted
Port == St(Man.on \cup {"portable"}, <<>>, "yash")
ASSUME ErrSet(Port, <<"--errexit">>)                      \* posix.md: "for example, set --errexit"
ASSUME ErrSet(Port, <<"-o", "clobber">>) /\ OkSet(Port, <<"-o", "noclobber">>)
ASSUME ErrSet(Port, <<"-oerrexit">>) /\ OkSet(Port, <<"-o", "errexit">>)
ASSUME ErrSet(Port, <<"-o", "allex">>) /\ ErrSet(Port, <<"-o", "Errexit">>) /\ ErrSet(Port, <<"-o", "posixlycorrect">>)
ASSUME ErrSet(Port, <<"-o", "hashondefinition">>) /\ OkSet(Port, <<"-h">>)
ASSUME OkSet(Port, <<"+o", "portable", "--errexit">>)
ASSUME OkSet(Man, <<"--errexit", "-o", "portable">>) /\ ErrSet(Man, <<"-o", "portable", "--errexit">>)
ASSUME OkSet(Port, <<"-aCefhmuvxb">>) /\ OkSet(Port, <<"-o", "ignoreeof", "-o", "nolog", "-o", "pipefail", "-o", "vi">>)

(***************************************************************************)
(* set.md                                                                  *)
(***************************************************************************)
\* "-e, -o errexit and --errexit"; "+e, +o errexit, and ++errexit"
ASSUME \A a \in {<<"-e">>, <<"-o", "errexit">>, <<"--errexit">>} : SetCmd(Man, a).S.on = Man.on \cup {"errexit"}
ASSUME \A a \in {<<"+e">>, <<"+o", "errexit">>, <<"++errexit">>} :
          SetCmd(St(Man.on \cup {"errexit"}, <<>>, "yash"), a).S.on = Man.on
\* "You cannot modify the following options with the set built-in: cmdline (-c), interactive (-i), stdin (-s)"
ASSUME \A a \in {<<"-c">>, <<"-i">>, <<"-s">>, <<"+c">>, <<"+i">>, <<"+s">>, <<"-o", "cmdline">>, <<"+o", "stdin">>,
                 <<"--interactive">>, <<"++stdin">>, <<"--nocmdline">>} : ErrSet(Man, a)
\* "$ set -o errexit -- foo bar; echo "$1" "$2"   foo bar"
ASSUME SetCmd(Man, <<"-o", "errexit", "--", "foo", "bar">>).S = St(Man.on \cup {"errexit"}, <<"foo", "bar">>, "yash")
\* "yash-rs also accepts - as a separator"
ASSUME SetCmd(Man, <<"-o", "errexit", "-", "foo", "bar">>).S = St(Man.on \cup {"errexit"}, <<"foo", "bar">>, "yash")
\* "$ set --; echo $#   0"
ASSUME SetCmd(St(Man.on, <<"1", "2", "3">>, "yash"), <<"--">>).S.pos = <<>>
\* "Yash does not treat + specially, so it can be used as an operand without another separator"
ASSUME SetCmd(Man, <<"+", "a">>).S = St(Man.on, <<"+", "a">>, "yash")
\* Exit status 2: invalid options
ASSUME ErrSet(Man, <<"-o", "nosuchoption">>) /\ ErrSet(Man, <<"-Z">>) /\ ErrSet(Man, <<"-e", "-o">>)

(***************************************************************************)
(* positional.md, special.md                                               *)
(***************************************************************************)
\* "$ set foo bar baz; echo "$1" "$2" "$3"   foo bar baz"
ASSUME SetCmd(Man, <<"foo", "bar", "baz">>).S.pos = <<"foo", "bar", "baz">>
\* "$ set old_param1 old_param2; set -- "$@" new_param1 new_param2"
ASSUME Basic(St(Man.on, <<"old_param1", "old_param2">>, "yash"), SetOp(<<"--", "\"$@\"", "new_param1", "new_param2">>)).S.pos
         = <<"old_param1", "old_param2", "new_param1", "new_param2">>
\* "$ set foo bar baz qux; shift 2; echo "$1" "$2"   baz qux"
ASSUME ShiftCmd(St(Man.on, <<"foo", "bar", "baz", "qux">>, "yash"), <<"2">>).S.pos = <<"baz", "qux">>
\* "If set is called with no operands, positional parameters are unchanged.  To clear them, use set -- or shift "$#""
ASSUME SetCmd(St(Man.on, <<"a", "b">>, "yash"), <<"-e">>).S.pos = <<"a", "b">>
ASSUME Basic(St(Man.on, <<"a", "b", "c">>, "yash"), ShiftOp(<<"\"$#\"">>)).S.pos = <<>>
\* "After the function returns, the original positional parameters are restored"
ASSUME LET r == Call(St(Man.on, <<"a", "b b", "c">>, "yash"), 0, CallOp(<<"x", "y  y", "z">>, <<ShiftOp(<<>>)>>))
       IN r.S.pos = <<"a", "b b", "c">> /\ r.evs[1].pos = <<"x", "y  y", "z">> /\ r.evs[2].pos = <<"y  y", "z">>
            /\ r.evs[3].pos = <<"a", "b b", "c">> /\ Len(r.evs) = 3      \* also shift-p.sh "arguments are shifted in function"
\* "$ set foo 'bar bar' baz; echo "$#"   3";  "$*" joins with the first character of IFS
ASSUME EvP(St(Man.on, <<"foo", "bar bar", "baz">>, "yash"), 0).pos = <<"foo", "bar bar", "baz">>

(***************************************************************************)
(* shift.md, shift-p.sh                                                    *)
(***************************************************************************)
P10 == <<"a", "b  b", "c", "d", "e", "f", "g", "", "-", "j">>
ASSUME ShiftCmd(St(Man.on, <<>>, "yash"), <<"0">>).st = 0
ASSUME ShiftCmd(St(Man.on, <<"a">>, "yash"), <<"0">>).S.pos = <<"a">>
ASSUME ShiftCmd(St(Man.on, <<"a">>, "yash"), <<"1">>).S.pos = <<>>
ASSUME ShiftCmd(St(Man.on, <<"a", "b  b">>, "yash"), <<"1">>).S.pos = <<"b  b">>
ASSUME ShiftCmd(St(Man.on, <<"a", "b  b">>, "yash"), <<"2">>).S.pos = <<>>
ASSUME ShiftCmd(St(Man.on, P10, "yash"), <<"7">>).S.pos = <<"", "-", "j">>
\* too large operand: non-zero, and (errexit tests run with -e) the shell exits
ASSUME \A c \in {<<<<>>, "1">>, <<<<"a">>, "2">>, <<<<"a", "b  b">>, "3">>, <<P10, "100">>} :
          LET r == ShiftCmd(St(Man.on, c[1], "yash"), <<c[2]>>) IN r.st # 0 /\ r.fail /\ r.S.pos = c[1]
ASSUME ShiftCmd(St(Man.on, <<"a", "b  b", "c">>, "yash"), <<>>).S.pos = <<"b  b", "c">>
ASSUME ShiftCmd(St(Man.on, <<>>, "yash"), <<>>).st # 0
ASSUME ShiftCmd(St(Man.on, <<"a", "b", "c", "d", "e">>, "yash"), <<"--", "2">>).S.pos = <<"c", "d", "e">>
\* shift.md: "It must be a non-negative decimal integer"
ASSUME \A a \in {"x", "-1", "", "1x", " 1"} : ShiftCmd(St(Man.on, <<"a", "b">>, "yash"), <<a>>).st # 0
\* XCU 2.8.1 / termination.md: an error of a special built-in makes the non-interactive shell exit, unless run via command
ASSUME Basic(Man, SetOp(<<"-o", "bogus">>)).cut /\ ~Basic(Man, CSetOp(<<"-o", "bogus">>)).cut
ASSUME Basic(Man, CSetOp(<<"-o", "bogus">>)).evs[1].st = 2

(***************************************************************************)
(* set-p.sh                                                                *)
(***************************************************************************)
ASSUME SetCmd(Man, <<"foo", "B  A  R", "baz">>).S.pos = <<"foo", "B  A  R", "baz">>
ASSUME SetCmd(Man, <<"", "">>).S.pos = <<"", "">>
ASSUME SetCmd(St(Man.on, <<"1", "2", "3">>, "yash"), <<"--">>).S.pos = <<>>
ASSUME SetCmd(Man, <<"--", "-", "--", "baz">>).S.pos = <<"-", "--", "baz">>
\* test_short_option_on / off, test_long_option_on / off
ASSUME \A c \in {<<"a", "allexport">>, <<"b", "notify">>, <<"C", "noclobber">>, <<"e", "errexit">>, <<"f", "noglob">>,
                 <<"u", "nounset">>, <<"v", "verbose">>, <<"x", "xtrace">>} :
          /\ c[1] \in DashSet(SetCmd(Man, <<"-" \o c[1]>>).S)
          /\ c[1] \in DashSet(SetCmd(Man, <<"-o", c[2]>>).S)
          /\ c[1] \notin DashSet(SetCmd(SetCmd(Man, <<"-" \o c[1]>>).S, <<"+" \o c[1]>>).S)
          /\ c[1] \notin DashSet(SetCmd(SetCmd(Man, <<"-" \o c[1]>>).S, <<"+o", c[2]>>).S)
ASSUME "h" \in DashSet(SetCmd(Man, <<"-h">>).S) /\ "n" \in DashSet(SetCmd(Man, <<"-n">>).S)
\* 'setting many shell options at once' (started with -a): set -ex +a -o noclobber -u
ASSUME DashSet(SetCmd(St(Man.on \cup {"allexport"}, <<>>, "yash"), <<"-ex", "+a", "-o", "noclobber", "-u">>).S)
         = {"C", "e", "u", "x", "s"}
\* 'setting only options does not change positional parameters'
ASSUME SetCmd(St(Man.on, <<"1", "foo">>, "yash"), <<"-e">>).S.pos = <<"1", "foo">>
\* 'setting positional parameters and shell options at once': set -a -e foo 2
ASSUME SetCmd(Man, <<"-a", "-e", "foo", "2">>).S = St(Man.on \cup {"allexport", "errexit"}, <<"foo", "2">>, "yash")
\* 'set -o/+o': set -aeu; saveset=$(set +o); set +aeu -f; eval "$saveset" restores
ASSUME LET A == SetCmd(Man, <<"-aeu">>).S IN RunLines(SetCmd(A, <<"+aeu", "-f">>).S, ListP(A)).on = A.on
\* option-y.sh: abbreviation / concatenation of -o and its argument
ASSUME \A a \in {<<"-o", "allex">>, <<"-oallexport">>} : SetCmd(Man, a).S.on = Man.on \cup {"allexport"}
ASSUME \A a \in {<<"-ao", "errexit">>, <<"-aoerrexit">>} : SetCmd(Man, a).S.on = Man.on \cup {"allexport", "errexit"}
\* noexec (option-p.sh 'simple command is not executed', option-y.sh 'noexec takes effect immediately')
ASSUME LET r == RunOps(Man, 0, <<SetOp(<<"-n">>), SetOp(<<"-e">>)>>) IN r.cut /\ Len(r.evs) = 1 /\ r.evs[1].t = "x" /\ r.evs[1].st = 0

(***************************************************************************)
(* startup.md, positional.md "Initializing", special.md "0",               *)
(* startup-p.sh, startup-y.sh                                              *)
(***************************************************************************)
StS(argv) == Start(argv).S
\* yash3 script.sh arg1 arg2 arg3
ASSUME LET s == Start(<<"yash3", "script.sh", "arg1", "arg2", "arg3">>) IN
         s.k = "run" /\ s.mode = "f" /\ s.S.pos = <<"arg1", "arg2", "arg3">> /\ s.S.arg0 = "script.sh"
           /\ "stdin" \notin s.S.on /\ "cmdline" \notin s.S.on
\* yash3 -c 'echo "$1" "$2"' arg0 arg1 arg2
ASSUME LET s == Start(<<"yash3", "-c", "echo", "arg0", "arg1", "arg2">>) IN
         s.k = "run" /\ s.mode = "c" /\ s.script = 3 /\ s.S.pos = <<"arg1", "arg2">> /\ s.S.arg0 = "arg0" /\ "cmdline" \in s.S.on
\* yash3 -s arg1 arg2 arg3
ASSUME LET s == Start(<<"yash3", "-s", "arg1", "arg2", "arg3">>) IN
         s.k = "run" /\ s.mode = "s" /\ s.S.pos = <<"arg1", "arg2", "arg3">> /\ s.S.arg0 = "yash3" /\ "stdin" \in s.S.on
\* "If no operands are given and -c is not specified, the shell assumes -s"
ASSUME LET s == Start(<<"yash3">>) IN s.k = "run" /\ s.mode = "s" /\ s.S.on = DefaultOn \cup {"stdin"}
\* special.md 0: with -c and no second operand, the shell's name
ASSUME StS(<<"yash3", "-c", "echo">>).arg0 = "yash3" /\ StS(<<"yash3", "-c", "echo">>).pos = <<>>
\* startup-p.sh: many positional parameters with -c / -s; first operand - or -- is ignored
ASSUME StS(<<"sh", "-c", "x", "0", "1", "2  2", "3", "4", "-", "6">>).pos = <<"1", "2  2", "3", "4", "-", "6">>
ASSUME StS(<<"sh", "-s", "1  1", "2", "3", "4", "-", "6">>).pos = <<"1  1", "2", "3", "4", "-", "6">>
ASSUME Start(<<"sh", "-c", "-", "echo OK">>).script = 4 /\ Start(<<"sh", "-c", "--", "echo OK">>).script = 4
ASSUME Start(<<"sh", "-">>).mode = "s" /\ Start(<<"sh", "--">>).mode = "s" /\ StS(<<"sh", "-">>).pos = <<>>
\* startup-y.sh: -s - -- 2  ->  $1 = --, $2 = 2
ASSUME StS(<<"yash", "-s", "-", "--", "2">>).pos = <<"--", "2">>
\* startup-p.sh 'all short options' -abCefsuvx +mn
ASSUME {"a", "b", "C", "e", "f", "u", "v", "x", "s"} = DashSet(StS(<<"sh", "-abCefsuvx", "+mn">>))
\* startup-y.sh 'startup: -abCcefhluvx' / '-abCefhlsuvx'
ASSUME DashSet(StS(<<"yash", "-abCcefhluvx", "echo $-">>)) = SRange(Chars("aCcefhlbuvx"))
ASSUME DashSet(StS(<<"yash", "-abCefhlsuvx">>)) = SRange(Chars("aCefhlbsuvx"))
\* startup.md: "--login-style" long options, -o name, +o name, grouped letters
ASSUME "login" \in StS(<<"yash", "--cmdline", "--log-in", "echo">>).on /\ Start(<<"yash", "--cmdline", "--log-in", "echo">>).mode = "c"
ASSUME "login" \in StS(<<"-yash">>).on /\ "login" \notin StS(<<"yash">>).on
\* options.md posixlycorrect: "Enabled on startup if the shell is started as sh"
ASSUME "posixlycorrect" \in StS(<<"sh">>).on /\ "posixlycorrect" \in StS(<<"/bin/sh">>).on
         /\ "posixlycorrect" \notin StS(<<"yash">>).on /\ "posixlycorrect" \notin StS(<<"/bin/yash">>).on
\* cmdline and stdin are mutually exclusive; -c needs a command string
ASSUME Start(<<"yash", "-c", "-s", "x">>).k = "error" /\ Start(<<"yash", "-cs", "x">>).k = "error"
         /\ Start(<<"yash", "-c">>).k = "error"
\* startup-y.sh 'ambiguous option' --p; portable cases
ASSUME Start(<<"yash", "--p">>).k = "error"
ASSUME \A t \in {<<"--allexport">>, <<"++allexport">>, <<"-o", "clobber">>, <<"-o", "allex">>, <<"-oerrexit">>, <<"-l">>,
                 <<"+c">>, <<"+s">>, <<"--help">>, <<"--norcfile">>} :
          Start(<<"yash", "-o", "portable">> \o t).k = "error"
ASSUME Start(<<"yash", "-o", "portable", "+i">>).k = "run"
ASSUME "allexport" \in StS(<<"yash", "-o", "portable", "-a", "-o", "noclobber">>).on
ASSUME "allexport" \in StS(<<"yash", "--allexport", "-o", "portable">>).on
ASSUME "allexport" \in StS(<<"yash", "-o", "portable", "+o", "portable", "--allexport">>).on
ASSUME Start(<<"yash", "--rcfile", "myrc", "-o", "portable", "myscript">>).k = "run"
         /\ Start(<<"yash", "-o", "portable", "--rcfile", "myrc", "myscript">>).k = "error"
ASSUME Start(<<"yash", "--help">>).k = "info" /\ Start(<<"yash", "--version">>).k = "info"
ASSUME Start(<<"yash", "--noprofile", "--norcfile", "-c", "x">>).mode = "c"
ASSUME Start(<<"yash", "--profile=p", "--rcfile", "r", "f", "a">>).mode = "f" /\ StS(<<"yash", "--profile=p", "--rcfile", "r", "f", "a">>).pos = <<"a">>
\* -n at start-up: nothing is executed
ASSUME Prog(<<"sh", "-n", "-c", "x">>, <<SetOp(<<"-e">>)>>).evs = <<EvE(0)>>
\* the rendering of operations
ASSUME Script(<<SetOp(<<"-e", "--", "a b", "\"$@\"">>)>>) = "obs \"$-\" \"$#\" \"$0\" \"$*\" \"$@\"\nset '-e' '--' 'a b' \"$@\"\nobs \"$-\" \"$#\" \"$0\" \"$*\" \"$@\"\n"
ASSUME OpLines(CallOp(<<"p">>, <<CShiftOp(<<"2">>)>>)) = <<"f() {", ObsLine, "command shift '2'", ObsLine, "}", "f 'p'", ObsLine>>
ASSUME OpLines(ListPOp) = <<"x=$(set +o)", "lst lp \"$x\"", ObsLine>>
=============================================================================
