-------------------------------- MODULE Trap --------------------------------
(***************************************************************************)
(* Implementation-shaped model of yash-env/src/trap.rs (TrapSet) and       *)
(* trap/state.rs (GrandState) over the simulated process                   *)
(* (system/virtual/process.rs) driven through Concurrent::set_disposition  *)
(* (system/concurrency/signal.rs).                                         *)
(*                                                                         *)
(* One action per public call of TrapSet plus the delivery pipeline        *)
(* (Deliver = kill(2) to the shell, Poll = Env::poll_signals, Take =       *)
(* take_caught_signal).  The functions GS_* mirror the functions of        *)
(* GrandState one to one, including the conditional system calls           *)
(* ("only when the effective maximum changes") and the probe-then-set      *)
(* path of set_action for vacant entries.                                  *)
(*                                                                         *)
(* This module is the DRIVER of property C11 (DESIGN.md 4.2): TLC checks   *)
(* the invariants of the property on every reachable state of the bounded  *)
(* model and its state graph enumerates the histories replayed on the real *)
(* TrapSet.  Conformance verdicts come from TrapAbs (the documented        *)
(* contract), not from this module.                                        *)
(***************************************************************************)
EXTENDS Integers, Sequences, FiniteSets, TLC, Json

CONSTANTS Sigs,     \* signal classes modelled in this configuration
          WithExit, \* BOOLEAN: also model the EXIT condition
          MaxH,     \* bound on the history length
          InitVals, \* inherited dispositions considered: subset of {"D", "I", "C"} ("C": a handler
                    \* installed before the shell started, e.g. the language runtime's for SEGV/BUS)
          UniformInit \* BOOLEAN: only the two start-ups "everything default" / "everything ignored"
                      \* (wide configurations); FALSE: every combination of inherited dispositions

AllSig   == {"USR1", "CHLD", "INT", "QUIT", "TERM", "TSTP", "KILL", "STOP"}
Conds    == Sigs \cup (IF WithExit THEN {"EXIT"} ELSE {})
Stoppers == {"TSTP", "TTIN", "TTOU"}

\* order of the conditions in the BTreeMap (Exit first, then signal numbers
\* of the simulated system)
Ord(c) == CASE c = "EXIT" -> 0   [] c = "INT"  -> 2   [] c = "QUIT" -> 3
            [] c = "KILL" -> 9   [] c = "TERM" -> 15  [] c = "CHLD" -> 102
            [] c = "STOP" -> 116 [] c = "TSTP" -> 120 [] c = "USR1" -> 124

\* effect of the default action on the process: killed, stopped, or none
Effect(s) == CASE s \in {"USR1", "INT", "QUIT", "TERM", "KILL"} -> "K"
               [] s \in {"TSTP", "STOP"} -> "S"
               [] s = "CHLD" -> "R"

\* Disposition order Default < Ignore < Catch  (system.rs: enum Disposition)
RankD(d)   == CASE d = "D" -> 0 [] d = "I" -> 1 [] d = "C" -> 2
MaxD(a, b) == IF RankD(a) >= RankD(b) THEN a ELSE b
\* Action -> Disposition  (state.rs: impl From<&Action> for Disposition)
Disp(act)  == act

VARIABLES init,   \* [Sigs -> {"D","I"}]  disposition inherited at start-up
          ent,    \* [Conds -> entry]  (TrapSet.traps; act = "V" means no entry)
          sys,    \* [Sigs -> {"D","I","C"}]  disposition in the process
          blk,    \* [Sigs -> BOOLEAN]  signal mask of the process
          kp,     \* [Sigs -> BOOLEAN]  pending (blocked, undelivered) in the kernel
          proc,   \* "R" running, "K" killed by a signal, "S" stopped by a signal
          h       \* history of operations (hidden by VIEW)

vars == <<init, ent, sys, blk, kp, proc, h>>
view == <<init, ent, sys, blk, kp, proc>>

Vacant      == [act |-> "V", orig |-> "-", pend |-> FALSE, par |-> "N", int |-> "D"]
\* TrapState::from_initial_disposition
FromInit(d) == [act |-> IF d = "I" THEN "I" ELSE "D", orig |-> "I", pend |-> FALSE, par |-> "N", int |-> "D"]
NewState(a) == [act |-> a, orig |-> "U", pend |-> FALSE, par |-> "N", int |-> "D"]
IsVac(e)    == e.act = "V"

Init == /\ init \in [Sigs -> InitVals]
        /\ \A s \in Sigs \cap {"KILL", "STOP"} : init[s] = "D"    \* cannot be ignored
        /\ UniformInit => \A s, t \in Sigs \ {"KILL", "STOP"} : init[s] = init[t]
        /\ ent = [c \in Conds |-> Vacant]
        /\ sys = init
        /\ blk = [s \in Sigs |-> FALSE]
        /\ kp = [s \in Sigs |-> FALSE]
        /\ proc = "R"
        /\ h = <<>>

-----------------------------------------------------------------------------
\* The kernel side: k = [sys, blk, kp, proc]

K0 == [sys |-> sys, blk |-> blk, kp |-> kp, proc |-> proc]

\* Concurrent::set_disposition: Catch blocks first; Default/Ignore unblock
\* afterwards, which delivers a pending instance under the new disposition.
\* Once the process is killed or stopped the rest of the call does not run.
SetDisp(k, s, d) ==
  IF k.proc # "R" \/ s \notin Sigs THEN k
  ELSE IF d = "C" THEN [k EXCEPT !.sys[s] = "C", !.blk[s] = TRUE]
  ELSE LET k1 == [k EXCEPT !.sys[s] = d, !.blk[s] = FALSE, !.kp[s] = FALSE]
       IN IF k.kp[s] /\ d = "D" THEN [k1 EXCEPT !.proc = Effect(s)] ELSE k1

\* GrandState::set_action; returns [e, k, r]
GS_SetAction(e, k, c, a, ov) ==
  IF IsVac(e)
  THEN IF c # "EXIT"
       THEN LET k1 == IF ~ov THEN SetDisp(k, c, "I") ELSE k      \* the probe
                initial == k.sys[c]
            IN IF ~ov /\ initial = "I"
               THEN [e |-> FromInit(initial), k |-> k1, r |-> "ignored"]
               ELSE [e |-> NewState(a),
                     k |-> IF ov \/ Disp(a) # "I" THEN SetDisp(k1, c, Disp(a)) ELSE k1,
                     r |-> "ok"]
       ELSE [e |-> NewState(a), k |-> k, r |-> "ok"]
  ELSE IF ~ov /\ e.act = "I" /\ e.orig = "I"
       THEN [e |-> e, k |-> k, r |-> "ignored"]
       ELSE LET old == MaxD(e.int, Disp(e.act))
                new == MaxD(e.int, Disp(a))
            IN [e |-> [NewState(a) EXCEPT !.int = e.int, !.par = e.par],
                k |-> IF c # "EXIT" /\ old # new THEN SetDisp(k, c, new) ELSE k,
                r |-> "ok"]

\* GrandState::set_internal_disposition; returns [e, k]
GS_SetInternal(e, k, s, d) ==
  IF IsVac(e)
  THEN IF d = "D" THEN [e |-> e, k |-> k]
       ELSE [e |-> [FromInit(k.sys[s]) EXCEPT !.int = d], k |-> SetDisp(k, s, d)]
  ELSE LET setting == Disp(e.act)
           old == MaxD(e.int, setting)
           new == MaxD(d, setting)
       IN [e |-> [e EXCEPT !.int = d], k |-> IF old # new THEN SetDisp(k, s, new) ELSE k]

\* GrandState::enter_subshell with option "Keep" | "Clear" | "Ignore"
GS_EnterSubshell(e, k, c, opt) ==
  LET oldD == MaxD(e.int, Disp(e.act))
      e1 == IF e.act = "C"
            THEN [e EXCEPT !.act = "D", !.orig = "S", !.pend = FALSE, !.par = "C"] ELSE e
      \* an ignore imposed by the shell is not an inherited one (origin Subshell)
      e2 == IF opt = "Ignore"
            THEN [e1 EXCEPT !.act = "I", !.orig = IF e1.act # "I" THEN "S" ELSE e1.orig] ELSE e1
      newS == Disp(e2.act)
      newD == CASE opt = "Keep" -> MaxD(e.int, newS) [] opt = "Clear" -> newS [] opt = "Ignore" -> "I"
  IN [e |-> [e2 EXCEPT !.int = IF opt = "Keep" THEN e.int ELSE "D"],
      k |-> IF oldD # newD /\ c # "EXIT" THEN SetDisp(k, c, newD) ELSE k]

\* GrandState::ignore (vacant entry)
GS_Ignore(k, s) ==
  [e |-> [act |-> "I", orig |-> IF k.sys[s] = "I" THEN "I" ELSE "S", pend |-> FALSE, par |-> "N", int |-> "D"],
   k |-> SetDisp(k, s, "I")]

-----------------------------------------------------------------------------
Op(name, c, a, ov, ii, ks, r) ==
  [op |-> name, c |-> c, a |-> a, ov |-> ov, ii |-> ii, ks |-> ks, r |-> r]

\* Install the outcome of an operation.  If the process was killed or stopped
\* in the middle, the rest of the state is meaningless: a canonical dead state
\* (no successors) is used.
Finish(e2, k2, o) ==
  /\ proc = "R"            \* a killed or stopped shell does nothing more
  /\ Len(h) < MaxH
  /\ h' = Append(h, o)
  /\ IF k2.proc = "R"
     THEN /\ ent' = e2 /\ sys' = k2.sys /\ blk' = k2.blk /\ kp' = k2.kp /\ proc' = "R"
     ELSE /\ proc' = k2.proc /\ UNCHANGED <<ent, sys, blk, kp>>

ClearParents(en) == [c \in Conds |-> [en[c] EXCEPT !.par = "N"]]

\* TrapSet::set_action
SetAction(c, a, ov) ==
  /\ IF c \in {"KILL", "STOP"}
     THEN Finish(ent, K0, Op("set_action", c, a, ov, FALSE, FALSE, "SIG" \o c))
     ELSE LET en == ClearParents(ent)
              x  == GS_SetAction(en[c], K0, c, a, ov)
          IN Finish([en EXCEPT ![c] = x.e], x.k, Op("set_action", c, a, ov, FALSE, FALSE, x.r))
  /\ UNCHANGED init

\* TrapSet::peek_state
Peek(c) ==
  /\ Finish(IF IsVac(ent[c]) THEN [ent EXCEPT ![c] = FromInit(IF c = "EXIT" THEN "D" ELSE sys[c])] ELSE ent,
            K0, Op("peek", c, "", FALSE, FALSE, FALSE, "ok"))
  /\ UNCHANGED init

\* a sequence of set_internal_disposition calls, as <<signal, disposition>> pairs
RECURSIVE SetInternals(_, _, _)
SetInternals(en, k, todo) ==
  IF todo = <<>> THEN [e |-> en, k |-> k]
  ELSE LET s == Head(todo)[1]
       IN IF s \notin Sigs THEN SetInternals(en, k, Tail(todo))
          ELSE LET x == GS_SetInternal(en[s], k, s, Head(todo)[2])
               IN SetInternals([en EXCEPT ![s] = x.e], x.k, Tail(todo))

Internal(name, todo) ==
  /\ LET x == SetInternals(ent, K0, todo)
     IN Finish(x.e, x.k, Op(name, "", "", FALSE, FALSE, FALSE, "ok"))
  /\ UNCHANGED init

TermOn   == << <<"INT", "C">>, <<"TERM", "I">>, <<"QUIT", "I">> >>
TermOff  == << <<"INT", "D">>, <<"TERM", "D">>, <<"QUIT", "D">> >>
StopOn   == << <<"TSTP", "I">> >>
StopOff  == << <<"TSTP", "D">> >>

EnableChld  == "CHLD" \in Sigs /\ Internal("enable_chld", << <<"CHLD", "C">> >>)
EnableTerm  == Sigs \cap {"INT", "TERM", "QUIT"} # {} /\ Internal("enable_term", TermOn)
DisableTerm == Sigs \cap {"INT", "TERM", "QUIT"} # {} /\ Internal("disable_term", TermOff)
EnableStop  == "TSTP" \in Sigs /\ Internal("enable_stop", StopOn)
DisableStop == "TSTP" \in Sigs /\ Internal("disable_stop", StopOff)
DisableAll  == Sigs \cap {"CHLD", "INT", "TERM", "QUIT", "TSTP"} # {}
               /\ Internal("disable_all", << <<"CHLD", "D">> >> \o TermOff \o StopOff)

\* TrapSet::enter_subshell
MinCond(S) == CHOOSE c \in S : \A d \in S : Ord(c) <= Ord(d)

RECURSIVE SubshellLoop(_, _, _, _, _)
SubshellLoop(en, k, todo, ii, ks) ==
  IF todo = {} THEN [e |-> en, k |-> k]
  ELSE LET c == MinCond(todo)
           opt == IF c = "EXIT" THEN "Clear"
                  ELSE IF c = "CHLD" THEN "Keep"
                  ELSE IF ii /\ c \in {"INT", "QUIT"} THEN "Ignore"
                  ELSE IF ks /\ c \in Stoppers /\ en[c].int # "D" THEN "Ignore"
                  ELSE "Clear"
           x == GS_EnterSubshell(en[c], k, c, opt)
       IN SubshellLoop([en EXCEPT ![c] = x.e], x.k, todo \ {c}, ii, ks)

RECURSIVE IgnoreLoop(_, _, _)
IgnoreLoop(en, k, todo) ==
  IF todo = <<>> THEN [e |-> en, k |-> k]
  ELSE LET s == Head(todo)
       IN IF s \in Sigs /\ IsVac(en[s])
          THEN LET x == GS_Ignore(k, s) IN IgnoreLoop([en EXCEPT ![s] = x.e], x.k, Tail(todo))
          ELSE IgnoreLoop(en, k, Tail(todo))

EnterSubshell(ii, ks) ==
  /\ LET en == ClearParents(ent)
         x == SubshellLoop(en, K0, {c \in Conds : ~IsVac(en[c])}, ii, ks)
         y == IF ii THEN IgnoreLoop(x.e, x.k, <<"INT", "QUIT">>) ELSE x
     IN Finish(y.e, y.k, Op("enter_subshell", "", "", FALSE, ii, ks, "ok"))
  /\ UNCHANGED init

\* kill(2) to the shell process (Process::raise_signal)
Deliver(s) ==
  /\ IF s \notin {"KILL", "STOP"} /\ blk[s]
     THEN Finish(ent, [K0 EXCEPT !.kp[s] = TRUE], Op("deliver", s, "", FALSE, FALSE, FALSE, "ok"))
     ELSE LET d == IF s \in {"KILL", "STOP"} THEN "D" ELSE sys[s]
          IN /\ d # "C"       \* Catch => blocked (outside select), see CatchIffBlocked
             /\ Finish(ent, IF d = "D" THEN [K0 EXCEPT !.proc = Effect(s)] ELSE K0,
                       Op("deliver", s, "", FALSE, FALSE, FALSE, "ok"))
  /\ UNCHANGED init

\* Env::poll_signals: select() with the caught signals unblocked, then
\* TrapSet::catch_signal for each signal collected
Poll ==
  /\ LET got == {s \in Sigs : kp[s]}
     IN Finish([c \in Conds |-> IF c \in got /\ ~IsVac(ent[c]) THEN [ent[c] EXCEPT !.pend = TRUE] ELSE ent[c]],
               [K0 EXCEPT !.kp = [s \in Sigs |-> FALSE]],
               Op("poll", "", "", FALSE, FALSE, FALSE, IF got = {} THEN "none" ELSE "some"))
  /\ UNCHANGED init

\* TrapSet::catch_signal
CatchSignal(s) ==
  /\ Finish(IF IsVac(ent[s]) THEN ent ELSE [ent EXCEPT ![s].pend = TRUE], K0,
            Op("catch", s, "", FALSE, FALSE, FALSE, "ok"))
  /\ UNCHANGED init

\* TrapSet::take_caught_signal: first pending signal in map order
Take ==
  /\ LET P == {s \in Sigs : ~IsVac(ent[s]) /\ ent[s].pend}
     IN IF P = {} THEN Finish(ent, K0, Op("take", "", "", FALSE, FALSE, FALSE, "none"))
        ELSE LET s == MinCond(P)
             IN Finish([ent EXCEPT ![s].pend = FALSE], K0, Op("take", "", "", FALSE, FALSE, FALSE, s))
  /\ UNCHANGED init

\* TrapSet::take_signal_if_caught
TakeIf(s) ==
  /\ IF ~IsVac(ent[s]) /\ ent[s].pend
     THEN Finish([ent EXCEPT ![s].pend = FALSE], K0, Op("take_if", s, "", FALSE, FALSE, FALSE, s))
     ELSE Finish(ent, K0, Op("take_if", s, "", FALSE, FALSE, FALSE, "none"))
  /\ UNCHANGED init

Next ==
  \/ \E c \in Conds, a \in {"D", "I", "C"}, ov \in BOOLEAN : SetAction(c, a, ov)
  \/ \E c \in Conds : Peek(c)
  \/ EnableChld \/ EnableTerm \/ DisableTerm \/ EnableStop \/ DisableStop \/ DisableAll
  \/ \E ii \in (IF Sigs \cap {"INT", "QUIT"} # {} THEN BOOLEAN ELSE {FALSE}),
        ks \in (IF "TSTP" \in Sigs THEN BOOLEAN ELSE {FALSE}) : EnterSubshell(ii, ks)
  \/ \E s \in Sigs : Deliver(s)
  \/ \E s \in Sigs : CatchSignal(s)
  \/ \E s \in Sigs : TakeIf(s)
  \/ Poll
  \/ Take

Spec == Init /\ [][Next]_vars

-----------------------------------------------------------------------------
\* The property (C11), on the model

TypeOK ==
  /\ \A c \in Conds : /\ ent[c].act \in {"V", "D", "I", "C"}
                      /\ ent[c].orig \in {"-", "I", "S", "U"}
                      /\ ent[c].par \in {"N", "C"}
                      /\ ent[c].int \in {"D", "I", "C"}
  /\ \A s \in Sigs : sys[s] \in {"D", "I", "C"}
  /\ proc \in {"R", "K", "S"}

\* the disposition installed is the one implied by the user's action combined
\* with the shell's own needs
\* A handler inherited from before the shell started (init = "C") that is still
\* installed - recognisable because the shell never blocks it - counts as the
\* default disposition (trap/state.rs: from_initial_disposition).
EffSys(s) == IF init[s] = "C" /\ sys[s] = "C" /\ ~blk[s] THEN "D" ELSE sys[s]
IniEff(s) == IF init[s] = "I" THEN "I" ELSE "D"
DispositionConsistent ==
  proc = "R" => \A s \in Sigs :
    IF IsVac(ent[s]) THEN EffSys(s) = IniEff(s)
    ELSE EffSys(s) = MaxD(ent[s].int, Disp(ent[s].act))

\* no-lost-signal protocol of concurrency/signal.rs: a caught signal is blocked
\* outside select; defaulted and ignored signals are not blocked
CatchIffBlocked == proc = "R" => \A s \in Sigs : (EffSys(s) = "C") = blk[s]
PendingOnlyIfBlocked == \A s \in Sigs : kp[s] => blk[s]

\* in a non-interactive shell a signal ignored on entry can be neither trapped
\* nor reset.  "Still ignored since entry" = inherited Ignore and no entry, or
\* an entry of inherited origin; only a set_action with override (interactive
\* shell) takes a signal out of that condition.
StillIgnoredSinceEntry(s) == init[s] = "I" /\ (IsVac(ent[s]) \/ ent[s].orig = "I")
InitiallyIgnoredSticks ==
  proc = "R" => \A s \in Sigs : StillIgnoredSinceEntry(s) =>
      /\ IsVac(ent[s]) \/ ent[s].act = "I"
      /\ sys[s] # "D"
      /\ sys[s] = "C" => ent[s].int = "C"
InitiallyIgnoredRefused ==
  [][proc' = "R" => \A s \in Sigs : StillIgnoredSinceEntry(s) =>
       LET o == h'[Len(h')] IN
       IF o.op = "set_action" /\ o.c = s /\ o.ov
       THEN o.r = "ok"
       ELSE /\ (IsVac(ent'[s]) \/ ent'[s].orig = "I")          \* still in that condition
            /\ (o.op = "set_action" /\ o.c = s) => (o.r = "ignored" /\ sys'[s] = sys[s])
    ]_vars
\* an entry says "inherited" only for what was inherited (finding C11-F1, repaired
\* in /repo by "fix: a signal the shell itself ignores on subshell entry can still
\* be trapped there": GS_EnterSubshell sets origin Subshell when it imposes Ignore)
InheritedIsTrue ==
  \A s \in Sigs : ent[s].orig = "I" => ent[s].act = (IF init[s] = "I" THEN "I" ELSE "D")

\* KILL and STOP can never be trapped
KillStopNeverTrapped ==
  \A s \in Sigs \cap {"KILL", "STOP"} :
      /\ sys[s] = "D" /\ ~blk[s]
      /\ ent[s].act \in {"V", "D"} /\ ent[s].orig \in {"-", "I"}

\* the parent state exists only for an action reset on entering a subshell
ParentShape == \A c \in Conds : ent[c].par = "C" => (ent[c].act \in {"D", "I"} /\ ent[c].orig = "S")
CommandIsUsers == \A c \in Conds : ent[c].act = "C" => ent[c].orig = "U"

\* Delivery: a delivered instance of a signal is owed to the trap set until it
\* is taken (coalescing of instances that arrive before the same boundary is
\* allowed: the kernel's pending set and the pending flag are both sets).
Owed(s)  == kp[s] \/ (~IsVac(ent[s]) /\ ent[s].pend)
LastOp   == h'[Len(h')]
ExactlyOnce ==
  [][proc' = "R" => \A s \in Sigs :
       \* a delivery of a caught signal becomes owed
       /\ (LastOp.op = "deliver" /\ LastOp.c = s /\ sys[s] = "C") => Owed(s)'
       \* what is owed is dropped only by running it, by changing the trap for
       \* that signal, or by resetting traps on entering a subshell
       /\ (Owed(s) /\ ~Owed(s)') =>
             \/ (LastOp.op \in {"take", "take_if"} /\ LastOp.r = s)
             \/ (LastOp.op = "set_action" /\ LastOp.c = s /\ LastOp.r = "ok")
             \/ LastOp.op = "enter_subshell"
             \/ (sys[s] = "C" /\ sys'[s] # "C")        \* handler uninstalled: delivered under the new disposition
       \* only what is owed is run, and it is run once
       /\ (LastOp.op \in {"take", "take_if"} /\ LastOp.r = s) => (ent[s].pend /\ ~ent'[s].pend)
       \* nothing becomes owed without a delivery
       /\ (~Owed(s) /\ Owed(s)') => (LastOp.op \in {"deliver", "catch"} /\ LastOp.c = s)
       \* a command trap that stays in place never loses a pending instance
       /\ (ent[s].act = "C" /\ ent'[s].act = "C" /\ ent[s].pend /\ ~ent'[s].pend) =>
             \/ (LastOp.op \in {"take", "take_if"} /\ LastOp.r = s)
             \/ (LastOp.op = "set_action" /\ LastOp.c = s)
    ]_vars

Consistent ==
  /\ TypeOK /\ DispositionConsistent /\ CatchIffBlocked /\ PendingOnlyIfBlocked
  /\ InitiallyIgnoredSticks /\ InheritedIsTrue /\ KillStopNeverTrapped /\ ParentShape /\ CommandIsUsers

-----------------------------------------------------------------------------
\* P2 generator: one line per distinct live state (h is hidden by the VIEW);
\* the harness replays h and then applies every operation of the alphabet.
\* `exp` is the driver's prediction of the observable state (drift detection
\* only, never a verdict).
Proj(c) == [act |-> ent[c].act, orig |-> ent[c].orig, pend |-> ent[c].pend, par |-> ent[c].par,
            sys |-> IF c = "EXIT" THEN "D" ELSE sys[c],
            blk |-> IF c = "EXIT" THEN FALSE ELSE blk[c],
            kp  |-> IF c = "EXIT" THEN FALSE ELSE kp[c]]
EmitState ==
  proc = "R" => PrintT(ToJson([init |-> init, h |-> h, exp |-> [c \in Conds |-> Proj(c)]]))
=============================================================================
