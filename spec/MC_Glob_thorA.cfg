\* P4 enumeration, thorough, part A: rich + random trees x words of <= 3 units (whole alphabet)
INIT Init
NEXT Next
VIEW View
CONSTANTS
  MaxLen = 3
  FullLen = 3
  Core = {}
  Families = {"rich", "rand"}
  NRand = 16
  RandSize = 10
INVARIANT TreesOK0
INVARIANT Emit
