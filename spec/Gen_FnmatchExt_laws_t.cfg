INIT Init
NEXT Next
VIEW view
CONSTANTS
  Variant = ""
  PNorm <- TokLaw
  PLit <- LitLaw
  PMacro <- MacLaw
  PLen = 2
  SAlpha <- StrLaw
  SLen = 2
  CfgSel = "all"
  Kind = "laws"
INVARIANT Laws
