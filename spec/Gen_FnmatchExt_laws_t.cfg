INIT Init
NEXT Next
VIEW view
CONSTANTS
  Variant = ""
  PNorm <- TokLaw
  PLit <- LitLaw
  PMacro <- MacLaw
  PLen = 3
  SAlpha <- StrLaw
  SLen = 3
  CfgSel = "all"
  Kind = "laws"
INVARIANT Laws
