----------------------------- MODULE Gen_Pipe -----------------------------
(***************************************************************************)
(* Scenario catalogue of C14 (spec -> impl).  Every initial state is one   *)
(* scenario: a term of the script language of module Pipe, crossed with    *)
(* payload sizes around every boundary of the REAL pipe constants, seeded  *)
(* random sizes, and payload tails with embedded / trailing newlines and   *)
(* other white space.  For each scenario TLC prints one JSON line          *)
(*   {id, sc, script, exp, lossy}                                          *)
(* where script is the rendered text (a token list) and exp the expected   *)
(* observations Expect(sc).  harness/c14 runs the script under explored    *)
(* schedules; Trace_Pipe recomputes Expect(sc) and judges every run.       *)
(***************************************************************************)
EXTENDS PipeData, Json, Randomization

CONSTANTS Tier,        \* "quick" | "thorough"
          NRandom      \* number of seeded random payload sizes

\* ---- rendering: tokens {k, s, c, n}; k = "s": text s; "q": the bytes c as a
\* single-quoted literal; "r": the bytes c raw; "b": n bytes of the counter
\* stream raw (here-document bodies)
TS(s) == <<[k |-> "s", s |-> s, c |-> <<>>, n |-> 0]>>
TQ(c) == <<[k |-> "q", s |-> "", c |-> c, n |-> 0]>>
TR(c) == <<[k |-> "r", s |-> "", c |-> c, n |-> 0]>>
TB(n) == <<[k |-> "b", s |-> "", c |-> <<>>, n |-> n]>>
TX(c) == <<[k |-> "x", s |-> "", c |-> c, n |-> 0]>>      \* the bytes c in hexadecimal
TNL   == TR(<<NL>>)

RECURSIVE RenderFs(_)
RenderFs(fs) == IF fs = <<>> THEN <<>> ELSE TS(" | " \o Head(fs)) \o RenderFs(Tail(fs))

RECURSIVE RenderC(_), RenderW(_)
RenderC(cmd) ==
  CASE cmd.k = "emit" -> TS("emit " \o ToString(cmd.n) \o " ") \o RenderW(cmd.ch[1])
    [] cmd.k = "pipe" -> RenderC(cmd.ch[1]) \o RenderFs(cmd.fs)
    [] cmd.k = "seq"  -> TS("{ ") \o RenderC(cmd.ch[1]) \o TS("; ") \o RenderC(cmd.ch[2]) \o TS("; }")
    \* the body follows the line that holds the operator: only used where
    \* that line ends right after the filters (forms sink, varhere)
    [] cmd.k = "here" -> TS("cat <<'EOF'") \o RenderFs(cmd.fs)
    [] cmd.k = "emitb" -> TS("emitb ") \o TX(cmd.c)
    [] cmd.k = "emito" -> TS("emito " \o ToString(cmd.c[1]) \o " " \o ToString(cmd.n))
RenderW(word) ==
  IF word.k = "lit" THEN TQ(word.c)
  ELSE TS("\"$(") \o RenderC(word.ch[1]) \o TS(")\"")

HereBody(cmd) == TNL \o TB(cmd.n) \o TR(cmd.c) \o TS("EOF") \o TNL

Closures(n) == (IF n % 2 = 1 THEN TS(" <&-") ELSE <<>>)
               \o (IF (n \div 2) % 2 = 1 THEN TS(" >&-") ELSE <<>>)
               \o (IF (n \div 4) % 2 = 1 THEN TS(" 2>&-") ELSE <<>>)

RECURSIVE Render(_)
Render(sc) ==
  LET a == sc.ch[1] IN
  CASE sc.k = "env" ->
         IF sc.flag THEN TS("exec") \o Closures(sc.n) \o TNL \o Render(a)
         ELSE TS("{ ") \o Render(a) \o TNL \o TS("}") \o Closures(sc.n)
    [] sc.k = "sink" ->
         IF a.k = "here"
         THEN (IF sc.flag THEN TS("csink t 0 <<'EOF'") ELSE RenderC(a) \o TS(" | csink t 0"))
              \o HereBody(a)
         ELSE RenderC(a) \o TS(" | csink t 0")
    [] sc.k = "file" -> RenderC(a) \o TS(" > /tmp/f; csink t 0 < /tmp/f")
    [] sc.k = "var"  -> TS("v=") \o RenderW(a) \o TS("; val t \"$v\" 0")
    [] sc.k = "arg"  -> TS("val t ") \o RenderW(a) \o TS(" 0")
    [] sc.k = "varu" -> TS("v=") \o RenderW(a) \o TS("; valu t \"$v\" 0")
    [] sc.k = "closed" ->
         TS("{ ") \o RenderC(a) \o TS(" >&3; } 3>/tmp/f") \o Closures(sc.n)
         \o TS("; csink t 0 < /tmp/f")
    [] sc.k = "varhere" -> TS("v=$(") \o RenderC(a) \o HereBody(a) \o TS("); val t \"$v\" 0")
    [] sc.k = "hword" -> TS("csink t 0 <<EOF") \o TNL \o TS("$(") \o RenderC(a.ch[1]) \o TS(")")
                            \o TNL \o TS("EOF") \o TNL
    [] sc.k = "read" ->
         RenderC(a) \o TS(" | { read -r x; val x \"$x\" 0; ")
         \o (IF sc.flag THEN TS("csink t " \o ToString(ReadRest(Out(a)).off) \o "; ") ELSE <<>>)
         \o TS("}")
    [] sc.k = "par"  -> RenderC(a) \o TS(" | csink a 0 & ") \o RenderC(sc.ch[2])
                           \o TS(" | csink b 0; wait; status 0")

\* ---- the catalogue -------------------------------------------------------
Q == Tier = "quick"

BSizes == {0, 1, 511, 512, 513, 1023, 1024, 1025, 2047, 2048, 2049, 4096}   \* every boundary of 512 / 1024
NSizes == {17, 510, 1020, 1037, 2040, 4080}        \* the stream itself ends with a newline (17 | n)
MSizes == {16, 18, 300, 700, 1500, 3000}
RSizes == RandomSubset(NRandom, 2 .. 4200)         \* seeded (TLC -seed)
Sizes  == BSizes \cup NSizes \cup RSizes \cup (IF Q THEN {} ELSE MSizes)
FewSizes == {0, 1, 17, 512, 513, 1024, 1025, 2049, 4096} \cup RSizes

SP == 32  TAB == 9  CR == 13  LX == 120
T0   == <<>>
Tails == { T0, <<NL>>, <<NL, NL>>, <<NL, NL, NL>>, <<LX>>, <<LX, NL>>, <<NL, LX>>,
           <<SP, NL>>, <<NL, SP>>, <<NL, TAB>>, <<CR, NL>>, <<NL, CR>>, <<NL, NL, LX, NL, NL>>,
           <<SP>>, <<NL, SP, NL>> }
FewTails == { T0, <<NL, NL>>, <<LX, NL>>, <<NL, SP>>, <<NL, NL, LX, NL, NL>> }
HereTails == { <<NL>>, <<NL, NL>>, <<LX, NL>>, <<SP, NL>>, <<NL, TAB, NL>> }   \* a body ends with a newline

FilterSeqs == { <<>>, <<"cat">>, <<"scat 1">>, <<"scat 513">>, <<"cat", "cat">>, <<"scat 7", "cat">>,
                <<"cat", "scat 600">>, <<"scat 512", "scat 3">> }
               \cup (IF Q THEN {} ELSE { <<"scat 1", "scat 1">>, <<"cat", "cat", "cat">>, <<"scat 1024">>,
                                         <<"scat 2", "cat">>, <<"scat 511">> })
FewFilterSeqs == { <<>>, <<"cat">>, <<"scat 1">>, <<"scat 7", "cat">> }

E(n, t) == CEmit(n, WLit(t))

Sinks   == { FSink(CPipe(E(n, t), fs), FALSE) :
               n \in Sizes, t \in {T0, <<LX, NL>>}, fs \in FilterSeqs }
           \cup { FSink(CPipe(CSeq(E(n, T0), E(0, t)), fs), FALSE) :
               n \in FewSizes, t \in {<<LX>>, <<NL, NL>>}, fs \in FewFilterSeqs }
Files   == { FFile(E(n, t)) : n \in Sizes, t \in {T0, <<NL>>} }
Vars    == { FVar(WSub(E(n, t))) : n \in Sizes, t \in Tails }
           \cup { FVar(WSub(CPipe(E(n, t), fs))) :
                    n \in FewSizes, t \in FewTails, fs \in FewFilterSeqs \ {<<>>} }
           \cup { FArg(WSub(E(n, t))) : n \in FewSizes, t \in FewTails }
Nested  == { FVar(WSub(CEmit(0, WSub(E(n, t))))) : n \in FewSizes, t \in FewTails }
           \cup { FVar(WSub(CEmit(n, WSub(E(0, t))))) : n \in FewSizes, t \in Tails }
           \cup { FVar(WSub(CSeq(CEmit(0, WSub(E(n, t1))), E(0, t2)))) :
                    n \in FewSizes, t1 \in {T0, <<NL, NL>>}, t2 \in {<<NL>>, <<LX, NL, NL>>, <<SP>>} }
           \cup { FVar(WSub(CEmit(0, WSub(CPipe(CEmit(0, WSub(E(n, t))), <<"cat">>))))) :
                    n \in FewSizes, t \in {<<NL, NL>>, <<NL, LX>>} }
Heres   == { FSink(CHere(n, t, <<>>), TRUE) : n \in Sizes, t \in HereTails }
           \cup { FSink(CHere(n, t, fs), FALSE) :
                    n \in FewSizes, t \in {<<NL>>, <<LX, NL>>}, fs \in FewFilterSeqs }
           \cup { FVarHere(CHere(n, t, <<>>)) : n \in FewSizes, t \in HereTails }
           \cup { FHWord(WSub(E(n, t))) : n \in FewSizes, t \in FewTails }
Reads   == { FRead(CPipe(E(n, t), fs), r) :
               n \in {x \in Sizes : x >= 17}, t \in {T0, <<LX, NL>>}, fs \in {<<>>, <<"scat 1">>}, r \in BOOLEAN }
Pars    == { FPar(CPipe(E(n, T0), f1), CPipe(E(m, <<LX>>), f2)) :
               n \in {513, 2049}, m \in {1025, 4096}, f1 \in {<<>>, <<"cat">>}, f2 \in {<<>>, <<"scat 7">>} }

\* descriptors 0 / 1 / 2 closed when a pipeline of 2-4 stages starts
ClosedSizes == {0, 1, 513, 1025, 4096} \cup RSizes
Closeds == { FClosed(CPipe(E(n, t), fs), code) :
               n \in ClosedSizes, t \in {<<LX, NL>>},
               fs \in {<<"cat">>, <<"cat", "cat">>, <<"scat 7", "cat">>, <<"cat", "cat", "cat">>},
               code \in {1, 2, 3, 4, 7} }
           \cup { FClosed(CPipe(E(n, T0), fs), code) :
               n \in {17, 2049}, fs \in {<<>>, <<"cat", "scat 513">>}, code \in {1, 2, 3} }

\* output of a command substitution that is not valid UTF-8: markers (bytes
\* that form no character) in the middle, at the start, before the trailing
\* newlines, in a nested substitution, near the start / in the middle / at the
\* end of a payload larger than the pipe; and the same bytes through plain
\* pipes (which are transparent)
Marks == { <<255>>, <<192>>, <<128>>, <<227, 129>> }
LA == <<97, 98>>   LC == <<99, 100>>
Invalids ==
  { FVarU(WSub(CEmitB(a \o m \o b))) :
      a \in {<<>>, LA, <<NL>>}, m \in Marks, b \in {<<>>, LC, <<NL, NL>>, LC \o <<NL>>, <<NL>> \o LC \o <<NL, NL>>} }
  \cup { FVarU(WSub(CEmitB(LA \o m \o LC \o m \o <<LX, NL>>))) : m \in Marks }
  \cup { FVarU(WSub(CEmit(0, WSub(CEmitB(LA \o m \o LC \o <<NL>>))))) : m \in Marks }
  \cup { FVarU(WSub(CPipe(CSeq(CEmitB(m), E(n, t)), fs))) :
            m \in {<<255>>, <<227, 129>>}, n \in {17, 513, 1025, 3000} \cup RSizes, t \in {T0, <<NL, NL>>},
            fs \in {<<>>, <<"cat">>} }
  \cup { FVarU(WSub(CSeq(E(n, T0), CSeq(CEmitB(m), CEmitO(n, k))))) :
            m \in {<<255>>, <<192>>}, n \in {5, 600, 1024}, k \in {1, 1500} }
  \cup { FVarU(WSub(CSeq(E(n, T0), CEmitB(m \o t)))) :
            m \in {<<255>>, <<128>>}, n \in {512, 2049}, t \in {<<>>, <<NL>>, <<LX, NL, NL>>} }
  \cup { FSink(CPipe(CSeq(E(n, T0), CEmitB(<<LX>> \o m \o <<NL>>)), fs), FALSE) :
            m \in Marks, n \in {0, 1025}, fs \in FewFilterSeqs }

\* every kind of scenario (command substitutions, nested ones, pipelines,
\* here-documents, read) with every non-empty subset of {0, 1, 2} closed
EnvSizes == {1, 513, 2049}
EnvInner ==
  { FVar(WSub(E(n, t))) : n \in {0, 17, 1025, 4096} \cup EnvSizes, t \in {T0, <<NL, NL>>, <<LX, NL>>} }
  \cup { FVar(WSub(CPipe(E(n, <<NL, NL>>), fs))) : n \in EnvSizes, fs \in {<<"cat">>, <<"scat 7", "cat">>} }
  \cup { FVar(WSub(CEmit(0, WSub(E(n, t))))) : n \in EnvSizes, t \in {<<NL, NL>>, <<NL, LX>>} }
  \cup { FVar(WSub(CEmit(n, WSub(E(0, <<LX, NL>>))))) : n \in EnvSizes }
  \cup { FArg(WSub(E(n, <<LX, NL>>))) : n \in EnvSizes }
  \cup { FSink(CPipe(E(n, <<LX, NL>>), fs), FALSE) : n \in EnvSizes, fs \in {<<>>, <<"cat">>, <<"scat 7", "cat">>} }
  \cup { FSink(CHere(n, <<LX, NL>>, <<>>), TRUE) : n \in EnvSizes }
  \cup { FSink(CHere(n, <<NL>>, <<"cat">>), FALSE) : n \in EnvSizes }
  \cup { FVarHere(CHere(n, <<NL, NL>>, <<>>)) : n \in EnvSizes }
  \cup { FHWord(WSub(E(n, <<NL, NL>>))) : n \in EnvSizes }
  \cup { FRead(CPipe(E(n, T0), <<>>), r) : n \in {513, 2049}, r \in BOOLEAN }
  \cup { FFile(E(n, <<NL>>)) : n \in {513} }
Envs == { FEnv(sc, code, ex) : sc \in EnvInner, code \in 1 .. 7, ex \in (IF Q THEN {FALSE} ELSE BOOLEAN) }
        \cup { FEnv(sc, code, TRUE) : sc \in {x \in EnvInner : x.k \in {"var", "varhere"}}, code \in {2, 3, 6} }

Scenarios == Envs \cup Closeds \cup Invalids \cup Sinks \cup Files \cup Vars \cup Nested \cup Heres \cup Reads \cup Pars

\* only terms whose meaning is defined are generated
Defined(sc) == \A o \in Expect(sc) : o.off >= 0

VARIABLES sc, done
Init == sc \in Scenarios /\ done = FALSE
Next == ~done /\ done' = TRUE /\ UNCHANGED sc
Spec == Init /\ [][Next]_<<sc, done>>

Obs2Json(o) == [tag |-> o.tag, off |-> o.off, reps |-> o.reps]

\* printed once per scenario (in its initial state)
Emit ==
  done \/ ~Defined(sc) \/
  PrintT(ToJson([sc |-> sc, script |-> Render(sc),
                 exp |-> {Obs2Json(o) : o \in Expect(sc)}, lossy |-> Lossy(sc)]))
=============================================================================
