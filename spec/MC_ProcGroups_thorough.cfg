SPECIFICATION Spec
CONSTANTS
  Variant = "ok"
  Fams = {"fg", "async", "stop", "tty", "zomb", "nomon", "mix"}
  Cfgs = {"m", "mi", "-", "i", "mo", "mio", "mb", "mib", "ml", "mil"}
  Enf = {TRUE}
ALIAS Brief
INVARIANT OwnGroup
INVARIANT ParentSees
INVARIANT FgBeforeRun
INVARIANT TakeBack
INVARIANT BgNeverFg
INVARIANT FgResumed
INVARIANT ShellRuns
INVARIANT NoGroups
INVARIANT AsyncLaw
INVARIANT JobDefaults
INVARIANT ProbesLaw
INVARIANT BgResumes
