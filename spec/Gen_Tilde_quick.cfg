SPECIFICATION Spec
CONSTANT MaxFull = 3
CONSTANT MaxCore = 4
CONSTANT Slice = 12
CONSTANT FullUpTo = 2
INVARIANT Emit
INVARIANT Laws
