\* P1 + P2 generator, theme "app", thorough tier: every distinct state reachable by
\* <= 5 calls of the theme's alphabet, and the result of every call in each
\* of them (sequences of <= 6 calls).
SPECIFICATION Spec
CONSTANTS
  Theme = "app"
  MaxFd = 5
  MaxLen = 6
  MaxPipe = 2
  MaxH = 5
VIEW view
CONSTRAINT Bounded
INVARIANT TypeOK
INVARIANT NoDanglingOfd
INVARIANT TreeClosed
INVARIANT NoIgnoredPending
INVARIANT EmitBounded
