SPECIFICATION Spec
CONSTANT Variant = "status_first"
CONSTANT MaxLen = 1
CONSTANT PairSlice = 1
CONSTANT TripleSlice = 0
CONSTANT RawMax = 0
CONSTANT DoEmit = FALSE
INVARIANT InvStatus
