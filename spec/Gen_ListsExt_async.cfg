SPECIFICATION Spec
CONSTANTS
  Fuel = 24
  TickLimit = 2
  Variant = ""
  K = 4
  Alphabet <- AlphaAsync
  ItemAlphabet <- NoItems
  Opts <- OptsE
INVARIANT Emit
CHECK_DEADLOCK FALSE
