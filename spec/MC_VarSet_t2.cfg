SPECIFICATION Spec
CONSTANTS
  Names = {"x"}
  Vals = {"a"}
  MaxDepth = 4
  PosVals <- PosNone
  Thens = {"none", "assign", "export", "ro"}
  MaxH = 100
VIEW view
INVARIANT TypeOK
INVARIANT Normalized
INVARIANT ObservationsAgree
INVARIANT EmitState
PROPERTY RefinesVarRef
PROPERTY ReadOnlyNeverChanges
PROPERTY ReadOnlyVisible
