\* NEGATIVE configuration: the named wrong order "leak_writer" replaces the correct
\* protocol; TLC MUST report a deadlock / invariant violation here.
SPECIFICATION Spec
CONSTANTS
  Variant = "leak_writer"
  MaxP = 7
  Scripts <- CatNegLeak
INVARIANTS NoErr InvReapOnce InvStatusTrue InvNoFgLeft InvJobsSound InvDenotation
