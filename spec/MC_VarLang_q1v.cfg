SPECIFICATION LSpec
CONSTANTS
  Names = {"x"}
  Vals = {"a"}
  MaxDepth = 9
  PosVals <- PosNone
  Thens = {"none", "assign", "export", "ro"}
  MaxLen = 3
  MaxCalls = 1
  Cmds = {"assign", "sassign", "pbuiltin", "call", "ext", "typeset", "export", "readonly", "unset", "setpos"}
INVARIANT TypeOK
INVARIANT DepthMatchesFrames
INVARIANT EmitScript
