INIT Init
NEXT Next
CONSTANT R = 200
INVARIANT NativeOK
