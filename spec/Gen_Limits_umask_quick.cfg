\* G08 enumeration: family umask, quick
SPECIFICATION Spec
VIEW View
CONSTANTS
  Family = "umask"
  Depth = 1
  Level = "quick"
INVARIANT Emit
