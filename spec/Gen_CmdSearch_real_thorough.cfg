SPECIFICATION Spec
CONSTANT MaxPath = 3
CONSTANT Slice = 12
CONSTANT Real = TRUE
INVARIANT Emit
INVARIANT Laws
