---------------------------- MODULE Gen_XTrace ----------------------------
(***************************************************************************)
(* spec -> impl enumeration for G10, laws of the model, and the negative   *)
(* configurations.                                                         *)
(*                                                                         *)
(* TLC's breadth-first search is the enumerator: a state is (family,       *)
(* header, statements so far); Next appends one statement of the family's  *)
(* pool.  For every state with at least one statement the invariant Emit   *)
(* prints one JSON line: the script text XTrace!Script renders, how the    *)
(* shell is started, and every outcome XTrace!Alts allows (standard error  *)
(* as chunks, standard output, files, exit status, variables and options   *)
(* at the final `snap`).  harness/g10 runs the script on the real shell    *)
(* and demands that what it observes is one of the outcomes.               *)
(*                                                                         *)
(* Families: fields (quoting of traced fields, assignments, for / case     *)
(* headers), ps4 (PS4 values with side effects x kinds of commands),       *)
(* toggle (set -x / +x / -o xtrace mid-script), redir (redirections in the *)
(* trace, here-documents, commands that redirect descriptor 2), compound   *)
(* (for, case, functions, groups, subshells, pipelines, !, && ||, eval,    *)
(* dot scripts, command substitutions), verbose, noexec, errors, envps4    *)
(* (PS4 inherited from the environment).                                   *)
(*                                                                         *)
(* Laws (invariant Laws, checked on every enumerated scenario):            *)
(*   L1 every traced field list / assignment value re-reads (Quote!Read,   *)
(*      the reader of C07) as exactly the fields executed / the value      *)
(*   L2 turning tracing off changes nothing but the trace chunks on        *)
(*      standard error (when PS4 has no side effect and no trace goes into *)
(*      a file)                                                            *)
(*   L3 the lines echoed by verbose are lines of the script, in order,     *)
(*      each at most once; with sh -v (never turned off) a prefix of the   *)
(*      script, all of it when the shell reads to the end                  *)
(*   L4 sh -n: nothing is executed                                         *)
(*   L5 the text of every outcome matches its own chunks (the matcher      *)
(*      accepts the canonical serialisation)                               *)
(* Negative configurations: NegVariant names a wrong variant of the        *)
(* semantics; the invariant Refuted ("the variant's outcome is allowed")   *)
(* must be VIOLATED, i.e. the enumeration tells the variant from the       *)
(* specification.                                                          *)
(***************************************************************************)
EXTENDS XTrace, Json, IOUtils

CONSTANTS Fams, Deep, NegVariant

VARIABLE st
vars == <<st>>

SetO(args) == CmdL(<<"set">> \o args)
Echo(ss) == CmdL(<<"echo">> \o ss)
AsgOnly(n, w) == Sc(<<Asg(n, w)>>, <<>>, <<>>, 0)
XOpt == Opts(TRUE, FALSE, FALSE, FALSE)

FieldLits == {"a", "b c", "", "it's", "$x", "a=b", "~", "#c", "*", "a\\b", "\"q\"", "{a}", "x;y", "-n",
              "[a]", "a|b", "a:~", "a\tb", "a#b", "=", "{", "a~", "`", "&"}
FieldLits8 == {"a", "b c", "", "it's", "$x", "~", "*", "a\\b"}

PS4s == << <<PLit("+ ")>>, <<PVar("x"), PLit("+ ")>>, <<PInc("i"), PLit("+ ")>>, <<PSub("s"), PLit("> ")>>,
           <<PInc("i"), PVar("x"), PLit("+ ")>>, <<PErr, PLit("+ ")>>, <<PLit("")>>, <<PLit("++ "), PInc("k")>> >>
IncPS4 == <<PInc("i"), PLit("+ ")>>

FDefF == FDef("f", <<Cmd(<<Lit("echo"), CatW(<<Lit("f "), Pos("1")>>)>>)>>)
FDefE == FDef("f", <<Sc(<<>>, <<Lit("echo"), Pos("1")>>, <<RDup(1, 2)>>, 0)>>)
HereE == RHere(0, FALSE, FALSE, "E", <<"h $x">>)
HereF == RHere(0, TRUE, TRUE, "F", <<"\tt $x">>)

PS4Stmt(ps) == AsgOnly("PS4", Ps4(ps))

Hdrs(f) ==
  CASE f = "fields" -> {[m |-> m] : m \in {"opt", "set"}}
    [] f = "ps4" -> {[p |-> p, m |-> m] : p \in 1..Len(PS4s), m \in {"before", "after"}}
    [] f = "toggle" -> {[x |-> x, inc |-> i] : x \in BOOLEAN, i \in BOOLEAN}
    [] f = "redir" -> {[inc |-> FALSE]}
    [] f = "compound" -> {[inc |-> i] : i \in BOOLEAN}
    [] f = "verbose" -> {[v |-> v, x |-> x] : v \in BOOLEAN, x \in BOOLEAN}
    [] f = "noexec" -> {[o |-> o] : o \in {NoOpts, Opts(FALSE, FALSE, TRUE, FALSE), Opts(FALSE, TRUE, FALSE, FALSE),
                                           Opts(TRUE, FALSE, FALSE, FALSE), Opts(FALSE, FALSE, TRUE, TRUE),
                                           Opts(FALSE, FALSE, FALSE, TRUE), Opts(TRUE, TRUE, TRUE, FALSE)}}
    [] f = "errors" -> {[inc |-> i] : i \in BOOLEAN}
    [] f = "envps4" -> {[p |-> p] : p \in {<<PLit("> ")>>, <<PVar("x"), PLit(": ")>>, <<PInc("i"), PLit("+ ")>>}}

Pool(f, h) ==
  CASE f = "fields" ->
         {Cmd(<<Lit("echo"), Lit(a), Lit(b)>>) : a \in FieldLits, b \in (IF Deep = 1 THEN FieldLits ELSE FieldLits8)}
         \cup {For("k", <<Lit(a), Lit(b)>>, <<CmdL(<<":">>)>>) : a \in FieldLits8, b \in FieldLits8}
         \cup {Case(Lit(a), <<Item(<<"x">>, <<Echo(<<"m">>)>>)>>) : a \in FieldLits}
         \cup {AsgOnly("z", Lit(a)) : a \in FieldLits}
         \cup {Sc(<<Asg("z", Lit(a))>>, Lits(<<"echo", "q">>), <<>>, 0) : a \in FieldLits8}
         \cup {Cmd(<<Lit("echo"), Var("x"), Dq("x")>>), Cmd(<<Lit("echo"), Var("y"), Dq("y"), Var("e"), Dq("e")>>),
               Cmd(<<Lit("echo"), CatW(<<Lit("a "), Dq("y"), Lit("$")>>)>>), AsgOnly("z", Var("x")), AsgOnly("z", Dq("y")),
               Eval(<<Echo(<<"b c", "a;b">>)>>)}
    [] f = "ps4" ->
         {Echo(<<"a">>), Cmd(<<Lit("echo"), Inc("i")>>), Sc(<<Asg("x", Lit("B"))>>, Lits(<<"echo", "c">>), <<>>, 0),
          AsgOnly("x", Lit("C")), AsgOnly("i", Lit("7")), Cmd(<<Var("e")>>), Cmd(<<Lit("echo"), Sub(<<Echo(<<"q">>)>>)>>),
          AsgOnly("y", Sub(<<Echo(<<"s">>)>>)), For("k", Lits(<<"1", "2">>), <<Cmd(<<Lit("echo"), Var("k")>>)>>),
          AsgOnly("PS4", Ps4(<<PLit("> ")>>)), CmdL(<<"f", "a">>), SetO(<<"+x">>), SetO(<<"-x">>),
          Sc(<<Asg("i", Lit("3"))>>, Lits(<<"f", "b">>), <<>>, 0), SubSh(<<Echo(<<"s">>)>>),
          Case(Inc("i"), <<Item(<<"*">>, <<Echo(<<"m">>)>>)>>)}
    [] f = "toggle" ->
         {SetO(<<"-x">>), SetO(<<"+x">>), SetO(<<"-o", "xtrace">>), SetO(<<"+o", "xtrace">>), SetO(<<"-xv">>), SetO(<<"+xv">>),
          Echo(<<"a">>), Semi(<<SetO(<<"+x">>), Echo(<<"b">>)>>), Semi(<<SetO(<<"-x">>), Echo(<<"c">>)>>),
          Sc(<<>>, Lits(<<"set", "+x">>), <<ROut(2, Lit("/dev/null"))>>, 1), Brace(<<SetO(<<"-x">>), Echo(<<"d">>)>>),
          SubSh(<<SetO(<<"-x">>), Echo(<<"e">>)>>), CmdL(<<"f", "g">>), Cmd(<<Lit("set"), Var("e"), Lit("+x")>>)}
    [] f = "redir" ->
         {Sc(<<>>, Lits(<<"echo", "a">>), <<ROut(1, Lit("f1"))>>, 0),
          Sc(<<>>, Lits(<<"echo", "a">>), <<RApp(1, Lit("f1"))>>, 0),
          Sc(<<>>, Lits(<<"echo", "b">>), <<ROut(2, Lit("f1"))>>, 1),
          Sc(<<>>, Lits(<<"echo", "c">>), <<RDup(2, 1)>>, 2),
          Sc(<<>>, Lits(<<"echo", "d">>), <<RDup(1, 2)>>, 0),
          Sc(<<>>, Lits(<<"echo", "e">>), <<RDup(3, 1)>>, 0),
          Sc(<<>>, Lits(<<"cat">>), <<RIn(Lit("f1"))>>, 0),
          Sc(<<>>, Lits(<<"cat">>), <<HereE>>, 0),
          Sc(<<>>, Lits(<<"cat">>), <<HereF>>, 0),
          Sc(<<>>, <<>>, <<ROut(1, Lit("f3"))>>, 0),
          Sc(<<Asg("x", Lit("1"))>>, Lits(<<"echo", "q">>), <<ROut(1, Lit("f 2"))>>, 0),
          Sc(<<>>, Lits(<<"f", "a">>), <<ROut(2, Lit("f1"))>>, 1),
          Sc(<<>>, Lits(<<":">>), <<ROut(1, Lit("f1")), RApp(1, Lit("f 2"))>>, 0),
          Sc(<<>>, Lits(<<"echo", "g">>), <<ROut(1, Dq("y"))>>, 0),
          Sc(<<>>, Lits(<<"cat">>), <<HereE, RHere(4, FALSE, FALSE, "END", <<"$y", "E">>)>>, 0),
          Sc(<<>>, Lits(<<"echo", "x">>), <<RApp(2, Lit("f1"))>>, 2),
          Sc(<<>>, <<>>, <<HereE>>, 0),
          Sc(<<Asg("x", Lit("1"))>>, <<>>, <<ROut(1, Lit("f3"))>>, 0),
          Sc(<<>>, Lits(<<"echo", "o">>), <<ROut(1, Lit("f3")), RDup(2, 1)>>, 2),
          Pipe(<<Sc(<<>>, Lits(<<"echo", "p">>), <<RDup(2, 1)>>, 1), CmdL(<<"cat">>)>>),
          Sc(<<>>, Lits(<<"cat">>), <<RIn(Lit("f 2")), ROut(1, Lit("f3"))>>, 0)}
    [] f = "compound" ->
         {For("k", Lits(<<"a", "b c">>), <<Cmd(<<Lit("echo"), Var("k")>>)>>),
          For("k", <<Var("e")>>, <<Echo(<<"no">>)>>),
          Case(Dq("x"), <<Item(<<"vx">>, <<Echo(<<"m">>)>>), Item(<<"*">>, <<Echo(<<"n">>)>>)>>),
          Case(Lit("q"), <<Item(<<"a", "b">>, <<Echo(<<"no">>)>>)>>),
          CmdL(<<"f", "a b">>), Sc(<<Asg("x", Lit("7"))>>, Lits(<<"f", "q">>), <<>>, 0),
          Brace(<<Echo(<<"g">>), Echo(<<"h">>)>>), SubSh(<<Echo(<<"s">>), AsgOnly("x", Lit("1"))>>),
          Pipe(<<Echo(<<"a">>), CmdL(<<"cat">>)>>), Pipe(<<Echo(<<"a">>), CmdL(<<"cat">>), CmdL(<<"cat">>)>>),
          Not(CmdL(<<"false">>)), And(CmdL(<<"false">>), Echo(<<"no">>)), Or(CmdL(<<"false">>), Echo(<<"yes">>)),
          Or(And(CmdL(<<"true">>), Echo(<<"t">>)), Echo(<<"no">>)),
          Eval(<<Echo(<<"ev">>), Cmd(<<Lit("echo"), Var("x")>>)>>), Dot("d1"),
          Cmd(<<Lit("echo"), Sub(<<Echo(<<"a">>), Echo(<<"b">>)>>), Dqs(<<Echo(<<"c">>), Echo(<<"d">>)>>)>>),
          Semi(<<Echo(<<"1">>), Echo(<<"2">>)>>), If(<<CmdL(<<"true">>)>>, <<Echo(<<"t">>)>>),
          FDef("g", <<Echo(<<"g">>), Cmd(<<Lit("echo"), Inc("k")>>)>>), CmdL(<<"g">>),
          For("k", Lits(<<"1">>), <<Case(Var("k"), <<Item(<<"1">>, <<Cmd(<<Lit("echo"), Sub(<<CmdL(<<"f", "z">>)>>)>>)>>)>>)>>),
          AsgOnly("y", Dqs(<<Pipe(<<Echo(<<"a">>), CmdL(<<"cat">>)>>)>>))}
    [] f = "verbose" ->
         {SetO(<<"-v">>), SetO(<<"+v">>), Echo(<<"a">>),
          For("k", Lits(<<"1", "2">>), <<Cmd(<<Lit("echo"), Var("k")>>)>>),
          Sc(<<>>, Lits(<<"cat">>), <<HereE>>, 0), Comment(" a comment  "),
          Semi(<<Echo(<<"1">>), Echo(<<"2">>)>>), FDefF, CmdL(<<"f", "a">>),
          Brace(<<SetO(<<"-v">>), Echo(<<"b">>)>>), Semi(<<SetO(<<"-v">>), Echo(<<"c">>)>>), SetO(<<"-x">>),
          If(<<CmdL(<<"true">>)>>, <<Echo(<<"t">>)>>), Cmd(<<Lit("echo"), Lit("b c"), Dq("x")>>), SetO(<<"-o", "verbose">>)}
    [] f = "noexec" ->
         {Echo(<<"a">>), SetO(<<"-n">>), Semi(<<SetO(<<"-n">>), Echo(<<"b">>)>>), And(SetO(<<"-n">>), Echo(<<"c">>)),
          For("k", Lits(<<"1", "2">>), <<SetO(<<"-n">>), Cmd(<<Lit("echo"), Var("k")>>)>>),
          FDef("f", <<SetO(<<"-n">>), Echo(<<"f">>)>>), CmdL(<<"f">>), SubSh(<<SetO(<<"-n">>), Echo(<<"s">>)>>),
          Cmd(<<Lit("echo"), Sub(<<SetO(<<"-n">>), Echo(<<"t">>)>>)>>), SynErr, SetO(<<"-o", "noexec">>), SetO(<<"+o", "exec">>),
          Brace(<<SetO(<<"-n">>), Echo(<<"g">>)>>), Echo(<<"z">>), SetO(<<"-nv">>),
          Semi(<<Echo(<<"p">>), CmdL(<<"exit", "3">>), Echo(<<"q">>)>>)}
    [] f = "errors" ->
         {Cmd(<<Lit("echo"), ErrW>>), Cmd(<<Lit("echo"), Sub(<<Echo(<<"a">>)>>), ErrW, Lit("z")>>), AsgOnly("x", ErrW),
          For("k", <<ErrW>>, <<Echo(<<"no">>)>>), Case(ErrW, <<Item(<<"*">>, <<Echo(<<"no">>)>>)>>),
          SubSh(<<Cmd(<<Lit("echo"), ErrW>>), Echo(<<"after">>)>>), Cmd(<<Lit("echo"), Sub(<<Cmd(<<Lit("echo"), ErrW>>)>>)>>),
          CmdL(<<"nosuch", "a", "b c">>), Echo(<<"ok">>), Sc(<<Asg("x", Lit("1"))>>, Lits(<<"nosuch">>), <<>>, 0),
          Cmd(<<Lit("echo"), Dqs(<<CmdL(<<"nosuch">>)>>)>>), Sc(<<Asg("y", Inc("i"))>>, <<Lit("echo"), ErrW>>, <<>>, 0),
          Cmd(<<Lit("echo"), Inc("i"), ErrW>>)}
    [] f = "envps4" ->
         {Echo(<<"a">>), AsgOnly("x", Lit("B")), PS4Stmt(<<PLit("+ ")>>), Cmd(<<Lit("echo"), Dq("x")>>), SetO(<<"-x">>)}

MaxLen(f) ==
  CASE f = "fields" -> 1
    [] f = "ps4" -> 2 + Deep
    [] f = "toggle" -> 2 + Deep
    [] f = "redir" -> 2
    [] f = "compound" -> 2
    [] f = "verbose" -> 2 + Deep
    [] f = "noexec" -> 2 + Deep
    [] f = "errors" -> 2
    [] f = "envps4" -> 2

Prelude(f, h) ==
  CASE f = "fields" -> <<Sc(<<Asg("x", Lit("a b")), Asg("y", Lit("it's  x")), Asg("e", Lit(""))>>, <<>>, <<>>, 0)>>
                       \o (IF h.m = "set" THEN <<SetO(<<"-x">>)>> ELSE <<>>)
    [] f = "ps4" -> <<FDefF, AsgOnly("x", Lit("A"))>>
                    \o (IF h.m = "before" THEN <<PS4Stmt(PS4s[h.p]), SetO(<<"-x">>)>> ELSE <<SetO(<<"-x">>), PS4Stmt(PS4s[h.p])>>)
    [] f = "toggle" -> <<FDef("f", <<SetO(<<"+x">>), Cmd(<<Lit("echo"), Pos("1")>>)>>)>>
                       \o (IF h.inc THEN <<PS4Stmt(IncPS4)>> ELSE <<>>)
    [] f = "redir" -> <<FDefE, Sc(<<Asg("x", Lit("vx")), Asg("y", Lit("f 2"))>>, <<>>, <<>>, 0), SetO(<<"-x">>)>>
    [] f = "compound" -> <<FDefF, AsgOnly("x", Lit("vx"))>> \o (IF h.inc THEN <<PS4Stmt(IncPS4)>> ELSE <<>>) \o <<SetO(<<"-x">>)>>
    [] f = "verbose" -> <<AsgOnly("x", Lit("vx"))>>
    [] f = "noexec" -> <<>>
    [] f = "errors" -> (IF h.inc THEN <<PS4Stmt(IncPS4)>> ELSE <<>>) \o <<SetO(<<"-x">>)>>
    [] f = "envps4" -> <<>>
StartOpts(f, h) ==
  CASE f = "fields" -> IF h.m = "opt" THEN XOpt ELSE NoOpts
    [] f = "toggle" -> Opts(h.x, FALSE, FALSE, FALSE)
    [] f = "verbose" -> Opts(h.x, h.v, FALSE, FALSE)
    [] f = "noexec" -> h.o
    [] f = "envps4" -> XOpt
    [] OTHER -> NoOpts
DotFiles(f) == IF f = "compound" THEN <<DotFile("d1", <<Echo(<<"dot">>), AsgOnly("x", Lit("dd"))>>)>> ELSE <<>>

Scenario(s) == ScenEnv(StartOpts(s.fam, s.h), Prelude(s.fam, s.h) \o s.items \o <<SnapFin>>, DotFiles(s.fam),
                       IF s.fam = "envps4" THEN s.h.p ELSE <<>>)

Init == \E f \in Fams : \E h \in Hdrs(f) : st = [fam |-> f, h |-> h, items |-> <<>>]
Next == /\ Len(st.items) < MaxLen(st.fam)
        /\ \E c \in Pool(st.fam, st.h) : st' = [st EXCEPT !.items = Append(@, c)]
Spec == Init /\ [][Next]_vars

RECURSIVE SetSeq(_)
SetSeq(T) == IF T = {} THEN <<>> ELSE LET x == CHOOSE x \in T : TRUE IN <<x>> \o SetSeq(T \ {x})

Out(s) ==
  LET sc == Scenario(s)
  IN [fam |-> s.fam, n |-> Len(s.items), script |-> Script(sc), o |-> sc.o,
      dots |-> MapSeq(LAMBDA d : [f |-> d.f, lines |-> BodyLines(d.c)], sc.dots),
      env |-> IF sc.env4 = <<>> THEN "" ELSE "PS4=" \o Ps4Text(sc.env4),
      alts |-> SetSeq(Alts(sc)), sc |-> sc]

Emit == st.items = <<>> \/ PrintT(ToJson(Out(st)))

---------------------------------------------------------------------------
(* laws *)
RECURSIVE NoX(_), TextOf(_, _)
NoX(cs) ==
  IF cs = <<>> THEN <<>>
  ELSE LET c == Head(cs) IN
    IF c.k = "x" THEN NoX(Tail(cs))
    ELSE IF c.k = "p" THEN
      LET a == NoX(c.a)
          b == NoX(c.b)
      IN (IF a = <<>> THEN b ELSE IF b = <<>> THEN a ELSE <<[k |-> "p", a |-> a, b |-> b]>>) \o NoX(Tail(cs))
    ELSE <<c>> \o NoX(Tail(cs))
(* a canonical serialisation: kinds in K only; a diagnostic is one line; a before b *)
TextOf(cs, K) ==
  IF cs = <<>> THEN ""
  ELSE LET c == Head(cs)
           t == IF c.k = "p" THEN TextOf(c.a, K) \o TextOf(c.b, K)
                ELSE IF c.k \notin K THEN ""
                ELSE IF c.k = "d" THEN "error: diagnostic\n" ELSE c.s
       IN t \o TextOf(Tail(cs), K)
IsPrefix(a, b) == Len(a) <= Len(b) /\ SubSeq(b, 1, Len(a)) = a

Law1(R) == \A i \in 1..Len(R.tl) :
  LET t == R.tl[i] IN
  IF t.k = "f" THEN LET r == Q!Read("arg", Codes(t.t)) IN r.ok /\ r.f = MapSeq(Codes, t.f)
  ELSE LET r == Q!Read("value", Codes(t.t)) IN r.ok /\ r.f = <<Codes(t.v)>>
Law2(sc, R) ==
  (R.cls = "ok" /\ ~R.fx /\ R.pu = {}) =>
     LET M == Run(sc, P0, "mute")
     IN M.outs = R.outs /\ M.st = R.st /\ M.files = R.files /\ M.snap = R.snap /\ M.err = NoX(R.err) /\ M.cls = "ok"
RECURSIVE SplitNL(_, _, _), IsSubseq(_, _)
SplitNL(s, i, cur) == IF i > Len(s) THEN (IF cur = "" THEN <<>> ELSE <<cur>>)
                      ELSE IF At(s, i) = NLC THEN <<cur>> \o SplitNL(s, i + 1, "") ELSE SplitNL(s, i + 1, cur \o At(s, i))
IsSubseq(a, b) == IF a = <<>> THEN TRUE ELSE IF b = <<>> THEN FALSE
                  ELSE IF Head(a) = Head(b) THEN IsSubseq(Tail(a), Tail(b)) ELSE IsSubseq(a, Tail(b))
HasSub(s, p) == \E i \in 1..Len(s) : StartsAt(s, i, p)
Law3(sc, R) ==
  (R.cls = "ok") =>
     LET t == TextOf(R.err, {"v"})
         ls == Script(sc)
         all == LinesText(ls)
         neverOff == \A i \in 1..Len(ls) : ~HasSub(ls[i], "+v") /\ ~HasSub(ls[i], "+xv")
     IN /\ IsSubseq(SplitNL(t, 1, ""), ls)              \* every line at most once, in order
        /\ (sc.o.v /\ neverOff) => IsPrefix(t, all)
        /\ (sc.o.v /\ neverOff /\ ~R.halt) => t = all
Law4(sc, R) ==
  (sc.o.n /\ ~sc.o.i /\ R.cls = "ok") => R.outs[1] = "" /\ DOMAIN R.files = {} /\ TextOf(R.err, {"x", "e"}) = "" /\ R.snap = <<>>
Law5(sc) == \A a \in Alts(sc) : MatchErr(a.err, TextOf(a.err, {"x", "v", "e", "d"}))

Laws ==
  st.items = <<>> \/
  LET sc == Scenario(st)
      R == Run(sc, P0, "spec")
  IN /\ ScenarioOK(sc)
     /\ R.cls # "skip"
     /\ Law1(R) /\ Law2(sc, R) /\ Law3(sc, R) /\ Law4(sc, R) /\ Law5(sc)

(* negative configurations: must be violated *)
Refuted ==
  st.items = <<>> \/ NegVariant = "spec" \/
  LET sc == Scenario(st) IN Outcome(Run(sc, P0, NegVariant)) \in Alts(sc)
=============================================================================
