SPECIFICATION Spec
CONSTANT MaxFull = 3
CONSTANT MaxCore = 5
CONSTANT Slice = 1
CONSTANT FullUpTo = 3
INVARIANT Emit
INVARIANT Laws
