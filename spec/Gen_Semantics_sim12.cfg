SPECIFICATION Spec
CONSTANTS
  Fuel = 60
  TickLimit = 2
  K = 12
  Alphabet <- AlphaFlow
  ItemAlphabet <- ItemsFlow
  Mode = "c02"
INVARIANT Emit
CHECK_DEADLOCK FALSE
