\* G14 negative configuration: the wrong variant "portable-s-number" of SigNames.tla must be refuted by a law
SPECIFICATION Spec
CONSTANTS
  Level = "laws"
  Variant = "portable-s-number"
INVARIANT LawsHold
