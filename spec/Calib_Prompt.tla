---------------------------- MODULE Calib_Prompt ----------------------------
(***************************************************************************)
(* Calibration of Prompt.tla: worked examples of the manual (docs/src) and  *)
(* of the repository's scripted tests (yash-cli/tests/scripted_test),       *)
(* transcribed by hand, as ASSUMEs.  A failing ASSUME is a tool error.      *)
(* (The scripted tests cannot run in this sandbox; what they expect is      *)
(* transcribed from the files.)                                             *)
(***************************************************************************)
EXTENDS Prompt

Lit(s) == Tok("lit", "", s)
C0 == [src |-> "stdin", tin |-> TRUE, terr |-> TRUE, iflag |-> "", ign |-> FALSE, vb |-> FALSE, mflag |-> "",
       ps1 |-> NoPS, ps2 |-> NoPS, via |-> "rc"]
E(t, f, k, i) == Ev(t, f, k, i, <<>>)
Out(c, es) == Render(Session(c, es, "spec").pat)
Show1(toks, V) == Render(ShowPS(toks, TRUE, V, 0, FALSE, "spec").p)
Show2(toks, V) == Render(ShowPS(toks, FALSE, V, 0, FALSE, "spec").p)
V0 == [v \in VarNames |-> Unset]

\* prompt.md: "The default values for these variables are: PS1='$ ' PS2='> '"
ASSUME Out(C0, <<>>) = "$ "
ASSUME Out(C0, <<E("multi", "if", "k", 0)>>) = "$ > > $ "
\* prompt.md: PS1='${LOGNAME}@${HOSTNAME}:${PWD} $ ' (three variables; here x, u, n)
ASSUME Show1(<<Tok("brc", "x", ""), Lit("@"), Tok("brc", "u", ""), Lit(":"), Tok("brc", "n", ""), Lit(" "), Tok("dlr", "", "")>>,
             [x |-> "me", u |-> "host", n |-> "/d"]) = "me@host:/d $ "
ASSUME RawPS(<<Tok("brc", "x", ""), Lit("@"), Tok("brc", "u", ""), Lit(":"), Tok("brc", "n", ""), Lit(" "), Tok("dlr", "", "")>>)
         = "${x}@${u}:${n} $ "
\* prompt.md, "Exclamation mark expansion": "To include a literal exclamation mark in the prompt, use a
\* double exclamation mark (!!)"; PS2 "is not subject to exclamation mark expansion"
ASSUME Show1(<<Lit("my_custom_prompt !! >")>>, V0) = "my_custom_prompt ! >"
ASSUME Show2(<<Lit("continuation ! >")>>, V0) = "continuation ! >"
\* sh, PS1: "!!" -> "!", any other "!" -> history number (rendered 0 here)
ASSUME Show1(<<Lit("my prompt > !!!")>>, V0) = "my prompt > !0"
ASSUME Show1(<<Lit("a!b!!")>>, V0) = "a0b!"
\* both pass orders agree on a "!" inside the text of an expansion (sh, PS1: two passes)
ASSUME Show1(<<Tok("dfl", "u", "a!!b")>>, V0) = "a!b"
ASSUME RenderLast(ShowPS(<<Tok("dfl", "u", "a!!b")>>, TRUE, V0, 0, FALSE, "spec").p) = "a!b"
\* ... but differ on a "!" coming out of a variable (prompt.md, Compatibility)
ASSUME Show1(<<Tok("var", "x", "")>>, [V0 EXCEPT !["x"] = "p!!q"]) = "p!q"
ASSUME RenderLast(ShowPS(<<Tok("var", "x", "")>>, TRUE, [V0 EXCEPT !["x"] = "p!!q"], 0, FALSE, "spec").p) = "p!!q"
\* prompt.md: "Each time the shell displays a prompt, it performs parameter expansion, command
\* substitution, and arithmetic expansion on the prompt strings"
ASSUME Out(C0, <<Ev("ps", "PS1", "", 0, <<Tok("inc", "n", ""), Lit(" "), Tok("sub", "", "c"), Lit("> ")>>), E("probe", "", "a", 0)>>)
         = "$ 1 c> 2 c> "

\* debugging.md, "Reviewing command input" (first example: set -o verbose, then one command)
ASSUME Out(C0, <<E("opt", "verbose", "", 1), E("echo", "", "o", 0)>>) = "$ $ echo o\n$ "
\* (second example: a function definition typed on three lines is echoed line by line after PS1 / PS2)
ASSUME Out(C0, <<E("opt", "verbose", "", 1), E("multi", "func", "k", 0)>>) = "$ $ f() {\n> probe no\n> }\n$ "

\* termination.md, "Ignoring EOF": $ set -o ignoreeof / $ <EOF> / the warning / $ exit
ASSUME Out(C0, <<E("opt", "ignoreeof", "", 1), E("eof", "", "", 0), E("exit", "", "", 0)>>)
         = "$ $ # Type `exit` to leave the shell when the ignore-eof option is on.\n$ "
\* "entering 50 eof sequences in a row will still cause the shell to exit": 49 warnings at least, 50 at most
ASSUME LET p == Session([C0 EXCEPT !.ign = TRUE], <<>>, "spec").pat
       IN /\ Matches(p, "$ " \o RepStr(IgnMsg \o "$ ", 49))
          /\ Matches(p, "$ " \o RepStr(IgnMsg \o "$ ", 50))
          /\ ~Matches(p, "$ " \o RepStr(IgnMsg \o "$ ", 48))
          /\ ~Matches(p, "$ " \o RepStr(IgnMsg \o "$ ", 51))
\* option-p.sh 'ignoreeof is ignored if not interactive' (+i -o ignoreeof): nothing is written, the shell exits
ASSUME Session([C0 EXCEPT !.ign = TRUE, !.iflag = "+i"], <<>>, "spec").pat = <<>>
\* options.md: "Only takes effect if the shell is interactive and input is a terminal"
ASSUME Out([C0 EXCEPT !.ign = TRUE, !.iflag = "-i", !.tin = FALSE], <<>>) = "$ "

\* lists.md: "$ echo "Async command" &" / "[1] 12345"
ASSUME Matches(Session(C0, <<E("bg", "", "0", 1)>>, "spec").pat, "$ [1] 12345\n$ ")
\* jobs.md "Format": [1] - Running              cargo build / [3]   Done                 rm -rf /tmp/foo
ASSUME LET j == [num |-> 3, name |-> "rm -rf /tmp/foo", due |-> 0, code |-> 0, st |-> "D", chg |-> TRUE]
       IN RenderLast(JobLine(j, 3)) = "[3]   Done                 rm -rf /tmp/foo\n"
ASSUME LET j == [num |-> 1, name |-> "cargo build", due |-> 1, code |-> 0, st |-> "R", chg |-> TRUE]
       IN RenderLast(JobLine(j, 2)) = "[1] - Running              cargo build\n"
\* job-y.sh 'interactive shell reports job status before prompt' (-im, input not a terminal): expected
\* standard error "$ " <newline of echo> "[1] + Done                 sleep 0" / "$ done"
ASSUME LET j == [num |-> 1, name |-> "sleep 0", due |-> 0, code |-> 0, st |-> "D", chg |-> TRUE]
       IN Render(JobLine(j, 1)) = "[1] + Done                 sleep 0\n"
\* job_control.md "Job status change notifications": the job started in the background finishes while
\* the next command runs in the foreground; the report precedes the next prompt, once.  (The example
\* shows the mark "-" for the only job, against the rules of "Current and previous jobs"; the
\* scripted test above shows "+".)
ASSUME Matches(Session([C0 EXCEPT !.iflag = "-i", !.mflag = "-m", !.tin = FALSE, !.terr = FALSE],
                       <<E("bg", "", "0", 1), E("tick", "", "", 0), E("probe", "", "a", 0)>>, "spec").pat,
               "$ [1] 10059\n$ [1] + Done                 nap 1 0\n$ $ ")
\* job_control.md "Job control in non-interactive shells": "does not automatically notify you"
ASSUME Session([C0 EXCEPT !.mflag = "-m", !.tin = FALSE], <<E("bg", "", "0", 1), E("tick", "", "", 0)>>, "spec").pat = <<>>
\* read.md "Prompting": PS2 before the second and later lines if interactive and reading a terminal
ASSUME Out(C0, <<E("read", "", "r", 1)>>) = "$ > $ $ "
ASSUME Out([C0 EXCEPT !.iflag = "-i", !.tin = FALSE], <<E("read", "", "r", 1)>>) = "$ $ $ "
\* XCU 2.8.1 / interactive README: a syntax error does not end an interactive shell; PS1 follows the diagnostic
ASSUME Out(C0, <<E("synerr", "ifdone", "", 0), E("probe", "", "a", 0)>>) = "$ > > error\n$ $ "
ASSUME Session([C0 EXCEPT !.iflag = "+i"], <<E("synerr", "fi", "", 0), E("probe", "", "a", 0)>>, "spec").ev = <<>>
=============================================================================
