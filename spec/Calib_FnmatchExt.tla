-------------------------- MODULE Calib_FnmatchExt --------------------------
(***************************************************************************)
(* Calibration of FnmatchExt.tla: worked examples of the documents hold    *)
(* for the definitions (every ASSUME is evaluated by TLC at start-up), and *)
(* each named WRONG variant of the definitions is refuted by one of the    *)
(* named facts (negative configurations Calib_FnmatchExt_neg_*.cfg check   *)
(* the fact as an invariant with Variant set).                             *)
(* Sources (file:line of /repo):                                           *)
(*   L  yash-fnmatch/src/lib.rs (doc comments; unit tests where said)      *)
(*   C  yash-fnmatch/src/char_iter.rs, A yash-fnmatch/src/ast.rs (doc      *)
(*      examples)                                                          *)
(*   F  yash-cli/tests/scripted_test/fnmatch-p.sh                          *)
(*   P  yash-cli/tests/scripted_test/param-p.sh                            *)
(*   G  docs/src/language/words/globbing.md, M docs/src/patterns.md        *)
(***************************************************************************)
EXTENDS FnmatchExt

VARIABLE v
Init == v = 0
Next == UNCHANGED v

PW(str) == Parse(WithoutEscape(Explode(str))).atoms
PE(str) == Parse(WithEscape(Explode(str))).atoms
K(ab, ae, sh, lp, ci) == [ab |-> ab, ae |-> ae, sh |-> sh, lp |-> lp, ci |-> ci]
T == TRUE
N == FALSE
Dflt  == K(N, N, N, N, N)
Whole == K(T, T, N, N, N)
LP    == K(N, N, N, T, N)
LPW   == K(T, T, N, T, N)
CI    == K(N, N, N, N, T)
CIW   == K(T, T, N, N, T)

\* the only allowed outcome / one of the allowed outcomes
Only(A, text, cfg, o) == Allowed(A, text, cfg) = {o}
May(A, text, cfg, o)  == o \in Allowed(A, text, cfg)
IsM(A, text, cfg) == \A o \in Allowed(A, text, cfg) : o[1] # -1
NoM(A, text, cfg) == Allowed(A, text, cfg) = {<<-1, -1, -1, -1>>}
X(str) == Explode(str)

aUml == WChar(228)
AUml == WChar(196)
IDot == WChar(304)
Kelvin == WChar(8490)
LongS == WChar(383)
SharpU == WChar(7838)
Sharp == WChar(223)

---------------------------------------------------------------------------
(* L:33-35 (crate example), README.md:23 *)
C_Example == Only(PW("r*g"), X("string"), Dflt, <<2, 6, 2, 6>>)
(* L:54-56 anchor_begin: "the pattern `in` matches the text `begin` iff anchor_begin is false" *)
C_AnchorB == IsM(PW("in"), X("begin"), Dflt) /\ NoM(PW("in"), X("begin"), K(T, N, N, N, N))
(* L:60-62 anchor_end: "the pattern `mat` matches the text `match` iff anchor_end is false" *)
C_AnchorE == IsM(PW("mat"), X("match"), Dflt) /\ NoM(PW("mat"), X("match"), K(N, T, N, N, N))
(* L:78-80 shortest_match: `a*a` against `banana`: shortest `ana`, longest `anana` *)
C_Shortest == /\ Allowed(PW("a*a"), X("banana"), K(N, N, T, N, N)) = {<<1, 4, 3, 6>>}
              /\ Allowed(PW("a*a"), X("banana"), Dflt) = {<<1, 6, 3, 6>>}
(* L:1274-1294 (unit test): `1*9` on 11999: find 0..5, rfind 1..5; shortest: 0..3, 1..3 *)
C_Shortest2 == /\ Only(PW("1*9"), X("11999"), Dflt, <<0, 5, 1, 5>>)
               /\ Only(PW("1*9"), X("11999"), K(N, N, T, N, N), <<0, 3, 1, 3>>)
(* L:66-72 literal_period: "the pattern `*.txt` does not match the filename `.foo.txt`";
   G:48-52 "the pattern must start with a literal dot": .*.txt matches .hidden.txt *)
C_LpDoc == /\ NoM(PW("*.txt"), X(".foo.txt"), LPW)
           /\ IsM(PW("*.txt"), X(".foo.txt"), Whole)
           /\ IsM(PW(".*.txt"), X(".hidden.txt"), LPW)
           /\ IsM(PW("*.txt"), X("notes.txt"), LPW)
(* XCU 2.14.3 rule 2 / G:48: the period is matched explicitly only as the FIRST character of the pattern *)
C_LpStarDot == NoM(PW("*.txt"), X(".txt"), LPW) /\ NoM(PW("?txt"), X(".txt"), LPW)
(* L:68-70 "a wildcard pattern or bracket expression does not match a leading period";
   L:1206-1208 (unit test): `[.a]` does not match "." *)
C_LpBracket == /\ NoM(PW("[.a]"), X("."), LPW) /\ NoM(PW("[.]x"), X(".x"), LPW)
               /\ NoM(PW("[!a]x"), X(".x"), LPW) /\ IsM(PW("[.a]"), X("a"), LPW)
(* a quoted period is a literal period *)
C_LpQuoted == IsM(PE("\\.*"), X(".x"), LPW)
(* "a LEADING period in the text": a period elsewhere is an ordinary character (the crate knows no slash) *)
C_LpMid == /\ Only(PW("a?b"), X("a.b"), LPW, <<0, 3, 0, 3>>)
           /\ Only(PW("?b"), X("a.b"), LP, <<1, 3, 1, 3>>)
           /\ Only(PW("*"), X("a."), LP, <<0, 2, 2, 2>>)
(* L:1185-1194 (unit test), default anchors: `?` is_match(".") = false, find("..") = 1..2 *)
C_LpUnanch == /\ NoM(PW("?"), X("."), LP)
              /\ \A o \in Allowed(PW("?"), X(".."), LP) : o \in {<<1, 2, 1, 2>>, <<-1, -1, -1, -1>>}
              /\ May(PW("?"), X(".."), LP, <<1, 2, 1, 2>>)
(* L:1196-1204 (unit test): `*` find(".") = 1..1, find("..") = 1..2, rfind("..") = 2..2: one of the readings *)
C_LpStar == /\ May(PW("*"), X("."), LP, <<1, 1, 1, 1>>) /\ May(PW("*"), X(".."), LP, <<1, 2, 2, 2>>)
            /\ Only(PW("*"), X("a"), LP, <<0, 1, 1, 1>>)
(* L:1217-1225 (unit test): `.*` find("..") = 0..2, rfind("..") = 1..2 *)
C_LpDotStar == Only(PW(".*"), X(".."), LP, <<0, 2, 1, 2>>) /\ Only(PW(".*"), X("."), LP, <<0, 1, 0, 1>>)
(* with both anchors and the pattern `*`: "." and ".." are not matched (G:57-61) *)
C_LpWhole == NoM(PW("*"), X("."), LPW) /\ NoM(PW("*"), X(".."), LPW) /\ IsM(PW(".*"), X(".."), LPW)

(* L:83-88 case_insensitive: "For patterns that are literal ... this flag is ignored" *)
C_LitCI == /\ NoM(PW("a"), X("A"), CI) /\ IsM(PW("a"), X("a"), CI)
           /\ NoM(PW("abc"), X("xABCx"), CI) /\ Only(PW("b"), X("aBb"), CI, <<2, 3, 2, 3>>)
(* L:1297-1319 (unit test): `a?z` matches a-z and A-Z *)
C_CIDoc == /\ Only(PW("a?z"), X("A-Z"), CI, <<0, 3, 0, 3>>) /\ Only(PW("a?z"), X("a-z"), CI, <<0, 3, 0, 3>>)
           /\ NoM(PW("a?z"), X("b&b"), CI) /\ NoM(PW("a?z"), X("A-Z"), Dflt)
(* ranges and classes: XBD 9.2 "not only the character, but also its case counterpart (if any), shall be matched" *)
C_RangeCI == IsM(PW("[a-z]"), X("M"), CIW) /\ NoM(PW("[a-z]"), X("M"), Whole) /\ NoM(PW("[a-z]"), X("1"), CIW)
C_ClassCI == /\ IsM(PW("[[:upper:]]"), X("a"), CIW) /\ IsM(PW("[[:lower:]]*"), X("Ab"), CIW)
             /\ NoM(PW("[[:upper:]]"), X("a"), Whole) /\ NoM(PW("[[:upper:]]"), X("1"), CIW)
(* a non-matching list: the two readings differ exactly on case counterparts of members *)
C_NegCI == /\ IsM(PW("[!a]"), X("b"), CIW) /\ IsM(PW("[!a]"), X("B"), CIW)
           /\ Allowed(PW("[!a]"), X("A"), CIW) = {<<0, 1, 0, 1>>, <<-1, -1, -1, -1>>}
           /\ Allowed(PW("[!a]"), X("a"), CIW) = {<<0, 1, 0, 1>>, <<-1, -1, -1, -1>>}
           /\ NoM(PW("[!aA]"), X("a"), CIW)
(* Unicode CaseFolding.txt: 00C4; C; 00E4 - 212A; C; 006B - 017F; C; 0073 - 1E9E; S; 00DF *)
C_FoldWide == /\ IsM(<<[t |-> "c", c |-> aUml], [t |-> "s"]>>, <<AUml>>, CIW)
              /\ IsM(PW("k*"), <<Kelvin>>, CIW) /\ IsM(PW("[r-t]"), <<LongS>>, CIW)
              /\ IsM(<<[t |-> "c", c |-> Sharp], [t |-> "q"]>>, <<SharpU, "x">>, CIW)
              /\ NoM(PW("k*"), <<Kelvin>>, Whole)
(* 0130 and 0131 have no simple (C or S) folding: the Turkic mappings are not applied *)
C_Turkic == NoM(PW("i?"), <<IDot, "x">>, CIW) /\ NoM(PW("I?"), <<WChar(305), "x">>, CIW) /\ IsM(PW("i?"), X("Ix"), CIW)
(* characters without case *)
C_NoCase == IsM(PW("1?"), X("1x"), CIW) /\ NoM(PW("1?"), X("2x"), CIW) /\ IsM(PW(".?"), X(".x"), CIW)

(* find: "the index range of the first match"; rfind: "of the last match" (L:247-249, 272-274);
   L:329-353 (unit test): pattern a: find("aa") = 0..1, rfind("aa") = 1..2;
   L:308-326: the empty pattern: find("a") = 0..0, rfind("a") = 1..1 *)
C_RFind == /\ Only(PW("a"), X("aa"), Dflt, <<0, 1, 1, 2>>) /\ Only(PW(""), X("a"), Dflt, <<0, 0, 1, 1>>)
           /\ Only(PW("in"), X("bin"), Dflt, <<1, 3, 1, 3>>) /\ NoM(PW("in"), X("nit"), Dflt)
(* L:383-394 (unit test): every regex-special character as a literal *)
C_Special == LET A == PW(".\\+()][{}^$-?") IN
             /\ ~IsLiteralA(A)
             /\ Only(A, X(".\\+()][{}^$-X"), Dflt, <<0, 13, 0, 13>>) /\ NoM(A, X(".\\+()][{}^$-"), Dflt)
(* as_literal (L:196-202), A:107-111, A:122-126 *)
C_Literal == /\ IsLiteralA(PW("abc")) /\ LiteralOf(PW("abc")) = X("abc") /\ ~IsLiteralA(PW("a*c"))
             /\ IsLiteralA(PW("")) /\ IsLiteralA(PW("[a")) /\ LiteralOf(PW("[a")) = X("[a")
             /\ ~IsLiteralA(PW("[a]")) /\ ~IsLiteralA(PW("?")) /\ IsLiteralA(PE("\\*\\?\\[a]"))
(* C:65-71 with_escape(r"\*") parses to [Char('*')]; C:103-108 without_escape(r"\*") to [Char('\\'), AnyString];
   C tests: with_escape(r"a\bc") = [Normal a, Literal b, Normal c] *)
C_Escape == /\ PE("\\*") = <<[t |-> "c", c |-> "*"]>> /\ AtomKinds(PW("\\*")) = <<"c", "s">> /\ AtomChars(PW("\\*")) = <<"\\", "">>
            /\ PcAllowed("esc", X("a\\bc")) = {<<Nc("a"), Lc("b"), Nc("c")>>}
            /\ PcAllowed("raw", X("a\\bc")) = {<<Nc("a"), Nc("\\"), Nc("b"), Nc("c")>>}
            /\ <<Nc("a")>> \in PcAllowed("esc", X("a\\")) /\ Cardinality(PcAllowed("esc", X("a\\"))) = 3
(* Error (L:93-124): [[:nothing:]] -> UndefinedCharClass("nothing"); [[:digit:]-0] -> CharClassInRange("digit") *)
C_Errors == /\ ErrAllowed(WithoutEscape(X("[[:nothing:]]"))) = {"UndefinedCharClass"}
            /\ ErrNameOK(WithoutEscape(X("[[:nothing:]]")), "UndefinedCharClass", X("nothing"))
            /\ ~ErrNameOK(WithoutEscape(X("[[:nothing:]]")), "UndefinedCharClass", X("nothin"))
            /\ ErrAllowed(WithoutEscape(X("[[:digit:]-0]"))) = {"CharClassInRange"}
            /\ ErrNameOK(WithoutEscape(X("[[:digit:]-0]")), "CharClassInRange", X("digit"))
            /\ ErrAllowed(WithoutEscape(X("[[..]]"))) = {"EmptyCollatingSymbol"}
            /\ ErrAllowed(WithoutEscape(X("[[==]a]"))) = {"EmptyCollatingSymbol"}
            /\ ErrAllowed(WithoutEscape(X("[[:alpha:]]"))) = {""} /\ ErrAllowed(WithoutEscape(X("[[:nothing:]"))) = {""}
            /\ ErrAllowed(WithoutEscape(X("[b-a]"))) = {"*"}
            /\ ErrAllowed(WithoutEscape(X("[[:x:][..]]"))) = {"UndefinedCharClass", "EmptyCollatingSymbol"}

(* the shell: F:6-8 `case a in A` does not match; F:256 `case a in [[:upper:]]` does not; F:285 `case \. in ["."]`
   and F:300-301 do match a period by a bracket expression / not by a quoted one *)
ShellCase(A, text) == Outcome(A, text, ShellCfg("case"), "all", "skip")[1] = 0
C_ShellCase == /\ ShellCase(PW("a"), X("a")) /\ ~ShellCase(PW("A"), X("a")) /\ ~ShellCase(PW("[[:upper:]]"), X("a"))
               /\ ShellCase(PW("[.]"), X(".")) /\ ShellCase(PW("*"), X(".a")) /\ ShellCase(PW("?a"), X(".a"))
(* P:281-318 a=1-2-3-4 s='***' *)
TX(pat, text, op) == TrimX(pat, X(text), op)
C_ShellTrim ==
  /\ TX(PW("1"), "1-2-3-4", "#") = X("-2-3-4") /\ TX(PW("*1"), "1-2-3-4", "#") = X("-2-3-4")
  /\ TX(PW("1*"), "1-2-3-4", "#") = X("-2-3-4") /\ TX(PW("1*-"), "1-2-3-4", "#") = X("2-3-4")
  /\ TX(PW("*-"), "1-2-3-4", "#") = X("2-3-4") /\ TX(PW("*"), "1-2-3-4", "#") = X("1-2-3-4")
  /\ TX(PW("-*"), "1-2-3-4", "#") = X("1-2-3-4") /\ TX(PW("2"), "1-2-3-4", "#") = X("1-2-3-4")
  /\ TX(PE("\\*"), "***", "#") = X("**")
  /\ TX(PW("1*"), "1-2-3-4", "##") = <<>> /\ TX(PW("1*-"), "1-2-3-4", "##") = X("4")
  /\ TX(PW("*-"), "1-2-3-4", "##") = X("4") /\ TX(PW("*"), "1-2-3-4", "##") = <<>>
  /\ TX(PE("\\*"), "***", "##") = X("**")
  /\ TX(PW("4"), "1-2-3-4", "%") = X("1-2-3-") /\ TX(PW("-*4"), "1-2-3-4", "%") = X("1-2-3")
  /\ TX(PW("*"), "1-2-3-4", "%") = X("1-2-3-4") /\ TX(PW("-*"), "1-2-3-4", "%") = X("1-2-3")
  /\ TX(PW("*-*"), "1-2-3-4", "%") = X("1-2-3") /\ TX(PW("3"), "1-2-3-4", "%") = X("1-2-3-4")
  /\ TX(PW("*4"), "1-2-3-4", "%%") = <<>> /\ TX(PW("-*4"), "1-2-3-4", "%%") = X("1")
  /\ TX(PW("-*"), "1-2-3-4", "%%") = X("1") /\ TX(PW("*-*"), "1-2-3-4", "%%") = <<>>
  /\ TX(PE("\\*"), "***", "%%") = X("**")
(* no leading-period rule and no case folding in the trims *)
C_ShellFlags == /\ TX(PW("?"), ".a", "#") = X("a") /\ TX(PW("*"), ".a", "##") = <<>> /\ TX(PW("A"), "a", "#") = X("a")

Facts == << C_Example, C_AnchorB, C_AnchorE, C_Shortest, C_Shortest2, C_LpDoc, C_LpStarDot, C_LpBracket, C_LpQuoted,
            C_LpMid, C_LpUnanch, C_LpStar, C_LpDotStar, C_LpWhole, C_LitCI, C_CIDoc, C_RangeCI, C_ClassCI, C_NegCI,
            C_FoldWide, C_Turkic, C_NoCase, C_RFind, C_Special, C_Literal, C_Escape, C_Errors, C_ShellCase,
            C_ShellTrim, C_ShellFlags >>

ASSUME Variant = "" => C_Example
ASSUME Variant = "" => C_AnchorB
ASSUME Variant = "" => C_AnchorE
ASSUME Variant = "" => C_Shortest
ASSUME Variant = "" => C_Shortest2
ASSUME Variant = "" => C_LpDoc
ASSUME Variant = "" => C_LpStarDot
ASSUME Variant = "" => C_LpBracket
ASSUME Variant = "" => C_LpQuoted
ASSUME Variant = "" => C_LpMid
ASSUME Variant = "" => C_LpUnanch
ASSUME Variant = "" => C_LpStar
ASSUME Variant = "" => C_LpDotStar
ASSUME Variant = "" => C_LpWhole
ASSUME Variant = "" => C_LitCI
ASSUME Variant = "" => C_CIDoc
ASSUME Variant = "" => C_RangeCI
ASSUME Variant = "" => C_ClassCI
ASSUME Variant = "" => C_NegCI
ASSUME Variant = "" => C_FoldWide
ASSUME Variant = "" => C_Turkic
ASSUME Variant = "" => C_NoCase
ASSUME Variant = "" => C_RFind
ASSUME Variant = "" => C_Special
ASSUME Variant = "" => C_Literal
ASSUME Variant = "" => C_Escape
ASSUME Variant = "" => C_Errors
ASSUME Variant = "" => C_ShellCase
ASSUME Variant = "" => C_ShellTrim
ASSUME Variant = "" => C_ShellFlags
=============================================================================
