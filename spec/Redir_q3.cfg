SPECIFICATION Spec
CONSTANTS
  Cfg = "q3"
  Bug = "none"
  Sim = TRUE
INVARIANT TypeOK
INVARIANT InternalInv
INVARIANT Conforms
INVARIANT Emit
