INIT Init
NEXT Next
CONSTANTS
  Families = {1, 2, 3, 4, 5, 6, 7, 8, 9}
  NL = 5
  NB2 = 6
INVARIANT Emit
