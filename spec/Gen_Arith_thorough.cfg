INIT Init
NEXT Next
CONSTANTS
  Families = {1, 2, 3, 4, 5, 6, 7, 8, 9, 10}
  NL = 4
  NB2 = 6
  NT = 3
INVARIANT Emit
