SPECIFICATION LiveSpec
CONSTANTS
  NameSeq <- NameSeq3
  GlobalNames = {}
  LineFam = "l"
  Prune = TRUE
INVARIANT NoSelfNesting
INVARIANT Deterministic
INVARIANT FinalsAgree
PROPERTY Terminates
PROPERTY VariantDecreases
