----------------------------- MODULE ProcGroups -----------------------------
(***************************************************************************)
(* Specification-growth module G16: process groups and the controlling     *)
(* terminal under job control - the layer below the job table (C12) and    *)
(* the job-control built-ins (G02, JobCtl.tla).                            *)
(*                                                                         *)
(* Written from POSIX.1-2024 XCU 2.9.3.1 (asynchronous lists), 2.11 (job   *)
(* control), 2.12/2.13 (signals, shell execution environment), sh -m, fg,  *)
(* bg, wait, kill; XSH fork, setpgid, tcsetpgrp, tcgetpgrp, waitpid        *)
(* (WUNTRACED), kill to a process group; XBD 11.1.4 (terminal access       *)
(* control); the manual docs/src/interactive/job_control.md, builtins/fg.md*)
(* bg.md, language/commands/{lists,pipelines,grouping,exit_status}.md and  *)
(* public doc comments (yash_env::subshell::Config, Env::ensure_foreground,*)
(* job::tcsetpgrp_with_block / tcsetpgrp_without_block) - NOT from the     *)
(* code.                                                                   *)
(*                                                                         *)
(* A scenario c = [m, i, fg0, spg, sl, enf, prog, env]:                    *)
(*   m, i   the monitor and interactive options of the shell               *)
(*   fg0    the terminal's foreground group at start: "shell" | "other"    *)
(*   spg    the shell's process group at start: "own" (leader) | "outer"   *)
(*   sl     the shell's group is the session leader's (ensure_foreground   *)
(*          then takes the terminal instead of waiting for it)             *)
(*   enf    the kernel enforces XBD 11.1.4 for tcsetpgrp: a background     *)
(*          caller that neither blocks nor ignores SIGTTOU gets SIGTTOU    *)
(*          (the simulated kernel of yash-env does not)                    *)
(*   prog   the command list of the shell, env the signals the terminal    *)
(*          driver sends to the foreground group (a user typing ^Z, ^C)    *)
(*                                                                         *)
(* Commands [op, tag, n, j, sig, body]:                                    *)
(*   probe tag      observation from inside the command                    *)
(*   ret n          a command with exit status n                           *)
(*   sub <<b>>      ( b )                    pipe <<b1,b2>>  {b1} | {b2}   *)
(*   async <<b>>    { b } &                  csub <<b>>      : $( b )      *)
(*   fg j / bg j / wait j / kill j sig       on the job started by the     *)
(*                  j-th command of the same list                          *)
(*   stopme sig     the process sends sig to itself                        *)
(*   pause          blocks until the process is killed                     *)
(*                                                                         *)
(* State S = [proc, fg, ei, out, dist, calls]: processes by NAME ("s" the shell,        *)
(* "<parent>.<k>" its k-th child, so that names do not depend on the       *)
(* interleaving), the terminal's foreground group (name of its leader),    *)
(* the index of the next terminal signal, the probes recorded so far.      *)
(* Per process: state R(unning)/S(topped)/Z(terminated), stop signal, exit *)
(* descriptor, unreported status change, parent, process group, the        *)
(* dispositions of SIGTSTP SIGTTIN SIGTTOU SIGINT SIGQUIT, blocked and     *)
(* pending signals, standard input (o / n = /dev/null), and the position   *)
(* in its part of the protocol - every system call of the protocol is a    *)
(* separate atomic step, so TLC explores every interleaving of parent,     *)
(* children and terminal driver.                                           *)
(*                                                                         *)
(* Steps(c, S, p) is the set of successors by one step of process p; it is *)
(* used by the bounded model (MC_ProcGroups), by the scenario catalogue    *)
(* (Gen_ProcGroups) and by the judgement of recorded runs                  *)
(* (Trace_ProcGroups).  Variant names a deliberately wrong protocol        *)
(* (negative configurations); "ok" is the specification.                   *)
(***************************************************************************)
EXTENDS Naturals, Sequences, FiniteSets, TLC

CONSTANT Variant

-----------------------------------------------------------------------------
\* signals

Stoppers == {"TSTP", "TTIN", "TTOU"}
StopSigs == Stoppers \cup {"STOP"}
KillSigs == {"INT", "QUIT", "TERM", "KILL", "HUP"}
DpIx(sig) == CASE sig = "TSTP" -> 1 [] sig = "TTIN" -> 2 [] sig = "TTOU" -> 3
               [] sig = "INT" -> 4 [] sig = "QUIT" -> 5 [] OTHER -> 0
AllDfl == <<"D", "D", "D", "D", "D">>

-----------------------------------------------------------------------------
\* commands

Cmd(op, tag, n, j, sig, body) == [op |-> op, tag |-> tag, n |-> n, j |-> j, sig |-> sig, body |-> body]
Pb(tag)      == Cmd("probe", tag, 0, 0, "", <<>>)
Ret(n)       == Cmd("ret", "", n, 0, "", <<>>)
Sub(b)       == Cmd("sub", "", 0, 0, "", <<b>>)
Pipe(b1, b2) == Cmd("pipe", "", 0, 0, "", <<b1, b2>>)
Async(b)     == Cmd("async", "", 0, 0, "", <<b>>)
CSub(b)      == Cmd("csub", "", 0, 0, "", <<b>>)
Fg(j)        == Cmd("fg", "", 0, j, "", <<>>)
Bg(j)        == Cmd("bg", "", 0, j, "", <<>>)
Wait(j)      == Cmd("wait", "", 0, j, "", <<>>)
Kill(j, sig) == Cmd("kill", "", 0, j, sig, <<>>)
StopMe(sig)  == Cmd("stopme", "", 0, 0, sig, <<>>)
Pause        == Cmd("pause", "", 0, 0, "", <<>>)

-----------------------------------------------------------------------------
\* processes

NoRes == [k |-> "", v |-> ""]
EmptyFn == [x \in {} |-> 0]

ShellProc(c) ==
  [st |-> "R", ss |-> "", ex |-> "", un |-> FALSE, par |-> "-", top |-> "s",
   pg |-> IF c.spg = "own" THEN "s" ELSE "outer",
   dp |-> AllDfl, sv |-> "", bl |-> {}, pn |-> {}, in |-> "o", md |-> "shell", why |-> "",
   todo |-> IF c.m THEN {"idsp", "efg"} ELSE {"idsp"},
   prog |-> c.prog, pc |-> 1, mpc |-> 0, nk |-> 0, kid |-> EmptyFn, res |-> NoRes, status |-> "0",
   jobs |-> <<>>, bang |-> "", cj |-> c.m, es |-> FALSE, fgd |-> FALSE, sent |-> FALSE]

InitState(c) ==
  LET sh == ShellProc(c)
  IN [proc |-> [x \in {"s"} |-> sh], fg |-> IF c.fg0 = "shell" THEN sh.pg ELSE "other", ei |-> 1, out |-> EmptyFn,
      dist |-> FALSE, calls |-> <<>>]

Members(S, g) == {q \in DOMAIN S.proc : S.proc[q].pg = g}
MainPg(S) == S.proc["s"].pg
Dp(P, sig) == IF DpIx(sig) = 0 THEN "D" ELSE P.dp[DpIx(sig)]

\* the log of the system calls of the protocol (only when the scenario asks for
\* it: runs of the instrumented kernel are judged call by call; the bounded
\* model leaves it out)
Call(cc, by, t, g, sig, k, blk, ign) ==
  [c |-> cc, by |-> by, t |-> t, g |-> g, sig |-> sig, k |-> k, blk |-> blk, ign |-> ign]
Logged(c, S, call) == IF c.log THEN [S EXCEPT !.calls = Append(@, call)] ELSE S

TodoOf(md) ==
  CASE md = "fg"    -> IF Variant = "parent_only" THEN {"tc", "dsp"} ELSE {"spg", "tc", "dsp"}
    [] md = "bg"    -> IF Variant = "parent_only" THEN {"dsp"} ELSE {"spg", "dsp"}
    [] md = "plain" -> {"dsp"}
    [] md = "async" -> IF Variant = "async_keeps_stdin" THEN {"dsp"} ELSE {"dsp", "nul"}

-----------------------------------------------------------------------------
\* the kernel (XSH kill, sigprocmask, fork, setpgid, tcsetpgrp; XBD 11.1.4)

\* the action of an unblocked signal
Act(P, sig) ==
  LET d == IF sig \in {"KILL", "STOP"} THEN "D" ELSE Dp(P, sig)
  IN IF d # "D" THEN P
     ELSE IF sig \in StopSigs
          THEN (IF P.st = "R" THEN [P EXCEPT !.st = "S", !.ss = sig, !.un = TRUE] ELSE P)
     ELSE IF sig \in KillSigs
          THEN [P EXCEPT !.st = "Z", !.ss = "", !.ex = "sig:" \o sig, !.un = TRUE, !.in = "-"]
     ELSE P

\* A signal is generated for one process; a terminated process is not
\* affected.  A new process that has not yet set up its dispositions (XCU 2.12:
\* commands inherit the actions the shell inherited from ITS parent, not what
\* the interactive shell set up for itself) gets the signal once it has: to an
\* observer the signal acts on the job with the job's own dispositions.
Sig1(P, sig) ==
  IF P.st = "Z" THEN P
  ELSE LET \* XSH 2.4.3: SIGCONT discards the pending stop signals and resumes a stopped process
           P0 == IF sig = "CONT" THEN [P EXCEPT !.pn = @ \ StopSigs] ELSE P
           P1 == IF sig = "CONT" /\ P.st = "S" THEN [P0 EXCEPT !.st = "R", !.ss = "", !.un = TRUE] ELSE P0
       IN IF (sig \in P1.bl \/ "dsp" \in P1.todo) /\ sig \notin {"KILL", "STOP", "CONT"}
          THEN [P1 EXCEPT !.pn = @ \cup {sig}]
          ELSE Act(P1, sig)

SendTo(S, Q, sig) ==
  [S EXCEPT !.proc = [q \in DOMAIN S.proc |-> IF q \in Q THEN Sig1(S.proc[q], sig) ELSE S.proc[q]]]

\* unblocking delivers what is pending
RECURSIVE ActAll(_, _)
ActAll(P, sigs) == IF sigs = {} THEN P
                   ELSE LET s == CHOOSE x \in sigs : TRUE IN ActAll(Act(P, s), sigs \ {s})
Unblock(P, sigs) == ActAll([P EXCEPT !.bl = @ \ sigs, !.pn = @ \ sigs], P.pn \cap sigs)

\* tcsetpgrp(tty, g) called by p.  mode "blk": SIGTTOU blocked around the call
\* (tcsetpgrp_with_block); "raw": as the caller's mask and dispositions are;
\* "dfl": SIGTTOU unblocked and default around the call (tcsetpgrp_without_block)
TcSet(c, S, p, g, mode) ==
  LET P == S.proc[p]
      frombg == c.enf /\ P.pg # S.fg
                /\ (mode = "dfl" \/ (mode = "raw" /\ "TTOU" \notin P.bl /\ Dp(P, "TTOU") # "I"))
      \* tcsetpgrp_without_block: the default action is in force from before the
      \* call until after it (a process stopped inside the call shows it)
      hit(q) == IF q = p /\ mode = "dfl"
                THEN Act([S.proc[q] EXCEPT !.dp[3] = "D", !.sv = IF P.sv = "" THEN P.dp[3] ELSE P.sv], "TTOU")
                ELSE Sig1(S.proc[q], "TTOU")
      fix(q, Q) == Q
      restore(T) == IF mode = "dfl" /\ P.sv # "" THEN [T EXCEPT !.proc[p].dp[3] = P.sv, !.proc[p].sv = ""] ELSE T
      L == Logged(c, S, Call("tcset", p, "", g, "", "", mode = "blk" \/ "TTOU" \in P.bl,
                             mode # "dfl" /\ Dp(P, "TTOU") = "I"))
  IN IF Members(S, g) = {} THEN [ok |-> FALSE, stop |-> FALSE, S |-> restore(L)]          \* EPERM
     ELSE IF frombg
     THEN [ok |-> FALSE, stop |-> TRUE,
           S |-> [L EXCEPT !.proc = [q \in DOMAIN S.proc |->
                                       IF q \in Members(S, P.pg) THEN fix(q, hit(q)) ELSE S.proc[q]]]]
     ELSE [ok |-> TRUE, stop |-> FALSE, S |-> restore([L EXCEPT !.fg = g])]

ChildName(p, k) == p \o "." \o ToString(k)

\* fork: the child inherits process group, dispositions, mask, descriptors
\* and the shell execution environment (XCU 2.13); it owns no jobs
Fork(c, S, p, md, prog, idx) ==
  LET P == S.proc[p]
      \* the second command of a pipeline connects its standard input to the pipe
      piped == idx > 100
      n == ChildName(p, P.nk + 1)
      child == [st |-> "R", ss |-> "", ex |-> "", un |-> FALSE, par |-> p,
                top |-> IF p = "s" THEN n ELSE P.top,
                pg |-> P.pg, dp |-> P.dp, sv |-> "", bl |-> P.bl, pn |-> {}, in |-> P.in, md |-> md,
                why |-> P.prog[P.pc].op,
                todo |-> TodoOf(md) \cup (IF piped THEN {"pin"} ELSE {}), prog |-> prog, pc |-> 1, mpc |-> 0, nk |-> 0, kid |-> EmptyFn,
                res |-> NoRes, status |-> P.status, jobs |-> <<>>, bang |-> P.bang,
                cj |-> (Variant = "subshell_jc" /\ c.m), es |-> FALSE, fgd |-> FALSE, sent |-> FALSE]
  IN [S EXCEPT !.proc = (n :> child) @@ [S.proc EXCEPT ![p].nk = @ + 1, ![p].kid = (idx :> n) @@ @]]

-----------------------------------------------------------------------------
\* what a new process does before its commands run

\* Dispositions in the child (XCU 2.11: a job-control shell ignores SIGTSTP,
\* SIGTTIN, SIGTTOU, "restored to default in the children" it controls as
\* jobs; subshell::Config: they stay ignored in a subshell that is not
\* job-controlled; XCU 2.9.3.1: an asynchronous list without job control
\* ignores SIGINT and SIGQUIT; 2.12: what the interactive shell itself
\* catches or ignores is not inherited)
NewDp(P) ==
  [k \in 1..5 |->
     IF k <= 3
     THEN (IF P.md \in {"fg", "bg"} /\ Variant # "keep_ignoring" THEN "D" ELSE P.dp[k])
     ELSE IF P.md = "async" /\ Variant # "async_no_ignore" THEN "I"
     ELSE IF P.par = "s" THEN "D"
     ELSE P.dp[k]]

\* the steps of the preamble may come in any order, except that
\*  - the terminal is taken for the process's OWN group, which must exist,
\*  - the job-control signals get their default action (and what was sent
\*    meanwhile is delivered) only once the process has left the shell's group
\*    and, for a foreground job, has the terminal: a SIGTSTP acting before that
\*    would stop it half-way, and resumed in the background it would go on to
\*    take the terminal (TLC finds both: reset_before_setpgid,
\*    reset_before_tcsetpgrp)
PreEnabled(P, x) ==
  CASE x = "tc"  -> "spg" \notin P.todo
    [] x = "dsp" -> IF Variant = "reset_before_setpgid" THEN TRUE
                    ELSE IF Variant = "reset_before_tcsetpgrp" THEN "spg" \notin P.todo
                    ELSE P.todo \cap {"spg", "tc"} = {}
    [] OTHER -> TRUE

PreStep(c, S, p, x) ==
  LET P == S.proc[p]
      done(T) == [T EXCEPT !.proc[p].todo = @ \ {x}]
  IN CASE x = "spg" -> {done(Logged(c, [S EXCEPT !.proc[p].pg = p], Call("setpgid", p, p, p, "", "", FALSE, FALSE)))}
       [] x = "tc"  -> LET r == TcSet(c, S, p, p, "blk") IN IF r.stop THEN {r.S} ELSE {done(r.S)}
       \* (for a subshell of the interactive job-control shell that is not a job
       \* the documents disagree - subshell::Config: SIGTSTP, SIGTTIN, SIGTTOU stay
       \* ignored; traps.md: the automatic ignoring does not apply in subshells -
       \* so both are allowed)
       [] x = "dsp" -> LET nd == NewDp(P)
                           alt == [k \in 1..5 |-> IF k <= 3 THEN "D" ELSE nd[k]]
                           opts == IF P.par = "s" /\ P.md \in {"plain", "async"} THEN {nd, alt} ELSE {nd}
                       IN {done([S EXCEPT !.proc[p] = Unblock([P EXCEPT !.dp = d],
                                                              P.pn \cup (IF P.md = "async" THEN {"INT", "QUIT"} ELSE {}))])
                           : d \in opts}
       [] x = "nul" -> {done([S EXCEPT !.proc[p].in = "n"])}
       [] x = "pin" -> {done([S EXCEPT !.proc[p].in = "o"])}
       \* the shell's own initialisation (sh -i, -m; job_control.md)
       \* (SIGINT: "caught" in XCU sh, "ignored" in traps.md - either)
       [] x = "idsp" -> {done([S EXCEPT !.proc[p].dp =
                                 [k \in 1..5 |-> IF k <= 3 THEN (IF c.i /\ c.m THEN "I" ELSE "D")
                                                 ELSE IF ~c.i THEN "D" ELSE IF k = 4 THEN int ELSE "I"]])
                         : int \in IF c.i THEN {"C", "I"} ELSE {"D"}}
       [] x = "efg" -> LET r == TcSet(c, S, p, P.pg, IF c.sl THEN "blk" ELSE "dfl")
                       IN IF r.stop THEN {r.S} ELSE {done(r.S)}

-----------------------------------------------------------------------------
\* commands

Adv(S, p) == [S EXCEPT !.proc[p].pc = @ + 1, !.proc[p].mpc = 0]
At(S, p, k) == [S EXCEPT !.proc[p].mpc = k]
SetStatus(S, p, v) == [S EXCEPT !.proc[p].status = v]

\* waitpid(kid, WUNTRACED) / waitpid(kid, 0)
HaltReady(Q) == Q.st = "Z" \/ (Q.st = "S" /\ Q.un)
HaltRes(Q) == IF Q.st = "Z" THEN [k |-> "exit", v |-> Q.ex] ELSE [k |-> "stop", v |-> Q.ss]
SigStatus(sig) == "sig:" \o sig

JobIx(P, ld) == {k \in DOMAIN P.jobs : P.jobs[k].ld = ld}
DelJob(jobs, ld) == SelectSeq(jobs, LAMBDA x : x.ld # ld)
SetJobSt(jobs, ld, st) == [k \in DOMAIN jobs |-> IF jobs[k].ld = ld THEN [jobs[k] EXCEPT !.st = st] ELSE jobs[k]]

ProbeRec(S, p, tag) ==
  LET P == S.proc[p]
  IN [tag |-> tag, who |-> p, pg |-> P.pg, tc |-> S.fg, dp |-> P.dp, in |-> P.in, st |-> P.status,
      \* fr: the state the job's process is in right now (the shell may or may
      \* not have learnt of it: XCU 2.11 leaves the moment open)
      jobs |-> {[ld |-> P.jobs[k].ld, st |-> P.jobs[k].st, jc |-> P.jobs[k].jc,
                 fr |-> IF S.proc[P.jobs[k].ld].st = "Z" THEN "D" ELSE S.proc[P.jobs[k].ld].st] : k \in DOMAIN P.jobs},
      bang |-> P.bang, cj |-> P.cj]

\* start of a foreground job under job control and its end: fork, setpgid by
\* the parent too, wait for the leader to terminate or stop, take the
\* terminal back with SIGTTOU blocked, record a stopped job
FgJobSteps(c, S, p, prog) ==
  LET P == S.proc[p]
      i == P.pc
      early == Variant = "takeback_early"
      takeback(T, next) ==
        LET r == TcSet(c, T, p, MainPg(T), IF Variant = "no_ttou_block" THEN "raw" ELSE "blk")
        IN IF r.stop THEN r.S ELSE At(r.S, p, next)
  IN CASE P.mpc = 0 -> {At(Fork(c, S, p, IF Variant = "fgjob_no_tty" THEN "bg" ELSE "fg", prog, i), p,
                           IF Variant = "child_only" THEN (IF early THEN 3 ELSE 2) ELSE 1)}
       [] P.mpc = 1 -> {At(Logged(c, [S EXCEPT !.proc[P.kid[i]].pg = P.kid[i]],
                                  Call("setpgid", p, P.kid[i], P.kid[i], "", "", FALSE, FALSE)), p, IF early THEN 3 ELSE 2)}
       [] P.mpc = 2 -> LET Q == S.proc[P.kid[i]]
                       IN IF HaltReady(Q)
                          THEN LET T == [S EXCEPT !.proc[P.kid[i]].un = FALSE, !.proc[p].res = HaltRes(Q)]
                                   skip == early \/ (Variant = "no_takeback_on_stop" /\ Q.st = "S")
                               IN {At(T, p, IF skip THEN 4 ELSE 3)}
                          ELSE {}
       [] P.mpc = 3 -> {takeback(S, IF early THEN 2 ELSE 4)}
       [] P.mpc = 4 -> LET ld == P.kid[i]
                       IN IF P.res.k = "stop"
                          THEN {Adv([S EXCEPT !.proc[p].jobs = Append(@, [ld |-> ld, st |-> "S", jc |-> TRUE]),
                                              !.proc[p].status = SigStatus(P.res.v),
                                              !.proc[ld].es = TRUE], p)}
                          ELSE {Adv(SetStatus(S, p, P.res.v), p)}

\* the same command without job control: the child stays in the group and
\* nobody touches the terminal; a stopped child is simply waited for
PlainJobSteps(c, S, p, prog, st0) ==
  LET P == S.proc[p]
      i == P.pc
  IN CASE P.mpc = 0 -> {At(Fork(c, S, p, "plain", prog, i), p, 2)}
       [] OTHER -> LET Q == S.proc[P.kid[i]]
                   IN IF Q.st = "Z" THEN {Adv(SetStatus(S, p, IF st0 THEN "0" ELSE Q.ex), p)} ELSE {}

PipeSteps(c, S, p, cmd) ==
  LET P == S.proc[p]
      i == P.pc
  IN CASE P.mpc = 0 -> {At(Fork(c, S, p, "plain", cmd.body[1], i), p, 1)}
       [] P.mpc = 1 -> {At(Fork(c, S, p, "plain", cmd.body[2], i + 100), p, 2)}
       [] OTHER -> LET Q1 == S.proc[P.kid[i]]
                       Q2 == S.proc[P.kid[i + 100]]
                   IN IF Q1.st = "Z" /\ Q2.st = "Z" THEN {Adv(SetStatus(S, p, Q2.ex), p)} ELSE {}

AsyncSteps(c, S, p, cmd) ==
  LET P == S.proc[p]
      i == P.pc
      addjob(T, jc) == Adv([T EXCEPT !.proc[p].jobs = Append(@, [ld |-> P.kid[i], st |-> "R", jc |-> jc]),
                                     !.proc[p].bang = P.kid[i], !.proc[p].status = "0"], p)
  IN IF P.cj
     THEN CASE P.mpc = 0 -> {At(Fork(c, S, p, IF Variant = "async_gets_tty" THEN "fg" ELSE "bg", cmd.body[1], i), p,
                                IF Variant = "child_only" THEN 2 ELSE 1)}
            [] P.mpc = 1 -> {At(Logged(c, [S EXCEPT !.proc[P.kid[i]].pg = P.kid[i]],
                                       Call("setpgid", p, P.kid[i], P.kid[i], "", "", FALSE, FALSE)), p, 2)}
            [] OTHER -> {addjob(S, TRUE)}
     \* SIGINT and SIGQUIT are blocked around the fork, so that the child is
     \* never killed by them before it ignores them
     ELSE CASE P.mpc = 0 -> {At(IF Variant = "async_no_block" THEN S
                                ELSE [S EXCEPT !.proc[p].bl = @ \cup {"INT", "QUIT"}], p, 1)}
            [] P.mpc = 1 -> {At(Fork(c, S, p, "async", cmd.body[1], i), p, 2)}
            [] P.mpc = 2 -> {At([S EXCEPT !.proc[p] = Unblock(P, {"INT", "QUIT"})], p, 3)}
            [] OTHER -> {addjob(S, FALSE)}

\* fg: the job's group becomes the foreground group BEFORE SIGCONT goes to
\* the whole group (fg.md; XBD 11.1.4: else a job reading the terminal is
\* stopped again at once), then as for a foreground job
FgSteps(c, S, p, cmd) ==
  LET P == S.proc[p]
      ok == c.m /\ cmd.j \in DOMAIN P.kid /\ JobIx(P, P.kid[cmd.j]) # {}
      ld == P.kid[cmd.j]
      contfirst == Variant = "fg_cont_first"
      cont(T) == [Logged(c, SendTo(T, Members(T, ld), "CONT"), Call("kill", p, ld, "", "CONT", "grp", FALSE, FALSE))
                    EXCEPT !.proc[p].sent = TRUE]
  IN IF ~ok THEN {Adv(SetStatus(S, p, "err"), p)}
     ELSE CASE P.mpc = 0 -> {At([S EXCEPT !.proc[ld].fgd = TRUE], p, IF contfirst THEN 2 ELSE 1)}
            [] P.mpc = 1 -> IF Variant = "fg_no_tc" THEN {At(S, p, 2)}
                            ELSE {LET r == TcSet(c, S, p, ld, mode)
                                  IN IF r.stop THEN r.S ELSE At(r.S, p, IF contfirst THEN 3 ELSE 2)
                                  : mode \in {"raw", "blk"}}
            [] P.mpc = 2 -> {At(cont(S), p, IF contfirst THEN 1 ELSE 3)}
            [] P.mpc = 3 -> LET Q == S.proc[ld]
                            IN IF HaltReady(Q)
                               THEN {At([S EXCEPT !.proc[ld].un = FALSE, !.proc[p].res = HaltRes(Q), !.proc[p].sent = FALSE], p, 4)}
                               ELSE {}
            [] P.mpc = 4 -> LET r == TcSet(c, S, p, MainPg(S), "blk")
                            IN IF r.stop THEN {r.S} ELSE {At(r.S, p, 5)}
            [] OTHER -> IF P.res.k = "stop"
                        THEN {Adv([S EXCEPT !.proc[p].jobs = SetJobSt(@, ld, "S"), !.proc[p].sent = FALSE,
                                            !.proc[p].status = SigStatus(P.res.v), !.proc[ld].es = TRUE], p)}
                        ELSE {Adv([S EXCEPT !.proc[p].jobs = DelJob(@, ld), !.proc[p].sent = FALSE,
                                            !.proc[p].status = P.res.v], p)}

\* bg: SIGCONT to the whole group, the terminal stays with the shell
BgSteps(c, S, p, cmd) ==
  LET P == S.proc[p]
      ok == c.m /\ cmd.j \in DOMAIN P.kid /\ JobIx(P, P.kid[cmd.j]) # {}
      ld == P.kid[cmd.j]
      T0 == IF Variant = "bg_gives_tty" THEN TcSet(c, S, p, ld, "blk").S ELSE S
      T1 == Logged(c, SendTo(T0, IF Variant = "bg_leader_only" THEN {ld} ELSE Members(T0, ld), "CONT"),
                   Call("kill", p, ld, "", "CONT", IF Variant = "bg_leader_only" THEN "pid" ELSE "grp", FALSE, FALSE))
  IN IF ~ok THEN {Adv(SetStatus(S, p, "err"), p)}
     ELSE {Adv([T1 EXCEPT !.proc[p].jobs = SetJobSt(@, ld, "R"), !.proc[p].bang = ld,
                          !.proc[p].status = "0", !.proc[ld].es = TRUE], p)}

WaitSteps(c, S, p, cmd) ==
  LET P == S.proc[p]
      ok == cmd.j \in DOMAIN P.kid /\ JobIx(P, P.kid[cmd.j]) # {}
      ld == P.kid[cmd.j]
  IN IF ~ok THEN {Adv(SetStatus(S, p, "127"), p)}
     ELSE IF S.proc[ld].st = "Z"
          THEN {Adv([S EXCEPT !.proc[p].jobs = DelJob(@, ld), !.proc[p].status = S.proc[ld].ex,
                              !.proc[ld].un = FALSE], p)}
          ELSE {}

KillSteps(c, S, p, cmd) ==
  LET P == S.proc[p]
      ok == cmd.j \in DOMAIN P.kid /\ JobIx(P, P.kid[cmd.j]) # {}
      ld == P.kid[cmd.j]
      jb == P.jobs[CHOOSE k \in JobIx(P, ld) : TRUE]
  IN IF ~ok THEN {Adv(SetStatus(S, p, "err"), p)}
     ELSE {Adv(SetStatus(Logged(c, SendTo(S, IF jb.jc THEN Members(S, ld) ELSE {ld}, cmd.sig),
                                Call("kill", p, ld, "", cmd.sig, IF jb.jc THEN "grp" ELSE "pid", FALSE, FALSE)), p, "0"), p)}
          \* the shell may know that the job has terminated and then sends nothing
          \cup (IF S.proc[ld].st = "Z" THEN {Adv(SetStatus(S, p, st), p) : st \in {"0", "err"}} ELSE {})

CmdSteps(c, S, p, cmd) ==
  LET P == S.proc[p]
  IN CASE cmd.op = "probe" ->
            {Adv([S EXCEPT !.out = (cmd.tag :> ProbeRec(S, p, cmd.tag)) @@ @, !.proc[p].status = "0"], p)}
       [] cmd.op = "ret"   -> {Adv(SetStatus(S, p, ToString(cmd.n)), p)}
       [] cmd.op = "sub"   -> IF P.cj THEN FgJobSteps(c, S, p, cmd.body[1])
                              ELSE PlainJobSteps(c, S, p, cmd.body[1], FALSE)
       \* a multi-command pipeline is one job: a subshell that runs the
       \* pipeline without job control (job_control.md)
       [] cmd.op = "pipe"  -> IF P.cj /\ Variant # "pipe_no_job" THEN FgJobSteps(c, S, p, <<cmd>>)
                              ELSE PipeSteps(c, S, p, cmd)
       [] cmd.op = "async" -> AsyncSteps(c, S, p, cmd)
       [] cmd.op = "csub"  -> PlainJobSteps(c, S, p, cmd.body[1], TRUE)
       [] cmd.op = "fg"    -> FgSteps(c, S, p, cmd)
       [] cmd.op = "bg"    -> BgSteps(c, S, p, cmd)
       [] cmd.op = "wait"  -> WaitSteps(c, S, p, cmd)
       [] cmd.op = "kill"  -> KillSteps(c, S, p, cmd)
       [] cmd.op = "stopme" -> {SendTo(Adv(SetStatus(S, p, "0"), p), {p}, cmd.sig)}
       [] cmd.op = "pause" -> {}

ExitProc(S, p) ==
  [S EXCEPT !.proc[p].st = "Z", !.proc[p].ex = S.proc[p].status, !.proc[p].un = TRUE, !.proc[p].in = "-"]

\* all successors of S by one step of process p
Steps(c, S, p) ==
  LET P == S.proc[p]
  IN IF P.st # "R" THEN {}
     ELSE IF P.todo # {}
          THEN UNION {PreStep(c, S, p, x) : x \in {y \in P.todo : PreEnabled(P, y)}}
     ELSE IF P.pc > Len(P.prog) THEN {ExitProc(S, p)}
     ELSE CmdSteps(c, S, p, P.prog[P.pc])

\* the terminal driver: the next signal of the scenario goes to the
\* foreground process group (XBD 11.1.9 INTR, SUSP)
TtyEnabled(c, S) == S.ei <= Len(c.env)
TtyStep(c, S) == [SendTo(S, Members(S, S.fg), c.env[S.ei]) EXCEPT !.ei = @ + 1]

\* whoever started the shell (a job-control shell above it) brings a stopped
\* shell back to the foreground
OuterEnabled(S) == S.proc["s"].st = "S"
\* (dist: the terminal has been taken away from whatever job had it)
OuterStep(S) == SendTo([S EXCEPT !.fg = MainPg(S), !.dist = @ \/ S.proc["s"].todo = {}], Members(S, MainPg(S)), "CONT")

Stuck(c, S) == \A p \in DOMAIN S.proc : Steps(c, S, p) = {}
ShellDone(S) == S.proc["s"].st = "Z"

-----------------------------------------------------------------------------
\* the laws (state predicates; checked by TLC on every reachable state of the
\* bounded model under every interleaving)

\* the group every process belongs in once its preamble is done: with job
\* control the job's own group, named after the job's first process; without
\* (also: in subshells) the group of the shell
GroupOf(c, S, q) ==
  LET t == S.proc[q].top
  IN IF c.m /\ S.proc[t].why \in {"sub", "pipe", "async"} THEN t ELSE MainPg(S)

LawOwnGroup(c, S) ==
  \A q \in DOMAIN S.proc \ {"s"} : S.proc[q].todo = {} => S.proc[q].pg = GroupOf(c, S, q)

\* the parent has left the start of the job only when the child is in its
\* group: whatever it does next (wait, tcsetpgrp, kill %job) finds the group
LawParentSees(c, S) ==
  LET P == S.proc["s"]
      cmd == P.prog[P.pc]
      starting == P.todo = {} /\ P.pc <= Len(P.prog) /\ cmd.op \in {"sub", "pipe", "async"} /\ P.cj
  IN /\ \A k \in DOMAIN P.jobs : P.jobs[k].jc => S.proc[P.jobs[k].ld].pg = P.jobs[k].ld
     /\ (starting /\ P.mpc >= 2) => S.proc[P.kid[P.pc]].pg = P.kid[P.pc]

\* a foreground job runs its commands as the terminal's foreground group
LawFgBeforeRun(c, S) ==
  LET P == S.proc["s"]
      cmd == P.prog[P.pc]
  IN (~S.dist /\ P.todo = {} /\ P.pc <= Len(P.prog) /\ cmd.op \in {"sub", "pipe"} /\ P.cj /\ P.mpc = 2)
     => LET ld == P.kid[P.pc]
        IN \A q \in DOMAIN S.proc :
             (S.proc[q].top = ld /\ S.proc[q].todo = {} /\ S.proc[q].st = "R" /\ ~S.proc[ld].es)
             => S.fg = ld

\* between commands the job-control shell has the terminal
LawTakeBack(c, S) ==
  LET P == S.proc["s"]
  IN (c.m /\ P.todo = {} /\ P.mpc = 0 /\ P.st = "R") => S.fg = P.pg

\* background jobs never get the terminal (unless brought to the foreground)
LawBgNeverFg(c, S) ==
  \A q \in DOMAIN S.proc : (S.proc[q].md = "bg" /\ ~S.proc[q].fgd) => S.fg # q

\* while fg has resumed a job the job is the foreground group
LawFgResumed(c, S) ==
  LET P == S.proc["s"]
  IN (P.sent /\ ~S.dist) => S.fg = P.kid[P.prog[P.pc].j]

\* the shell is never stopped by its own tcsetpgrp; an interactive
\* job-control shell is not stopped at all
LawShellRuns(c, S) ==
  LET P == S.proc["s"]
  IN P.todo = {} => /\ ~(P.st = "S" /\ P.ss = "TTOU")
                    /\ (c.i /\ c.m) => P.st # "S"

\* without job control: no groups, the terminal is left alone
LawNoGroups(c, S) ==
  ~c.m => /\ \A q \in DOMAIN S.proc : S.proc[q].pg = MainPg(S)
          /\ S.fg = InitState(c).fg

\* asynchronous lists without job control
LawAsync(c, S) ==
  \A q \in DOMAIN S.proc :
    S.proc[q].md = "async" => /\ S.proc[q].ex \notin {"sig:INT", "sig:QUIT"}
                              /\ S.proc[q].todo = {} => /\ S.proc[q].dp[4] = "I" /\ S.proc[q].dp[5] = "I"
                                                        /\ S.proc[q].in \in {"n", "-"}

\* jobs have the default actions for the job-control signals
LawJobDefaults(c, S) ==
  \A q \in DOMAIN S.proc :
    (S.proc[q].md \in {"fg", "bg"} /\ S.proc[q].todo = {}) => \A k \in 1..3 : S.proc[q].dp[k] = "D"

\* bg resumes the whole job: right after the command no member of the job's
\* group is stopped (unless the job is one that stops itself)
RECURSIVE HasOp(_, _)
HasOp(list, op) ==
  \E k \in DOMAIN list : list[k].op = op \/ \E b \in DOMAIN list[k].body : HasOp(list[k].body[b], op)
LawBgResumes(c, S) ==
  LET P == S.proc["s"]
  IN (P.todo = {} /\ P.mpc = 0 /\ P.pc > 1 /\ P.pc <= Len(P.prog) + 1 /\ P.prog[P.pc - 1].op = "bg" /\ P.status = "0")
     => LET ld == P.kid[P.prog[P.pc - 1].j]
        IN HasOp(S.proc[ld].prog, "stopme") \/ \A q \in Members(S, ld) : S.proc[q].st # "S"

\* only the shell itself does job control
LawProbes(c, S) ==
  \A t \in DOMAIN S.out : S.out[t].cj = (S.out[t].who = "s" /\ c.m)

Laws(c, S) ==
  /\ LawOwnGroup(c, S) /\ LawParentSees(c, S) /\ LawFgBeforeRun(c, S) /\ LawTakeBack(c, S)
  /\ LawBgNeverFg(c, S) /\ LawFgResumed(c, S) /\ LawShellRuns(c, S) /\ LawNoGroups(c, S)
  /\ LawAsync(c, S) /\ LawJobDefaults(c, S) /\ LawProbes(c, S) /\ LawBgResumes(c, S)

-----------------------------------------------------------------------------
\* what an observer of the kernel sees of a state

ProjProc(S, q) ==
  LET Q == S.proc[q]
  IN [n |-> q, par |-> Q.par, pg |-> Q.pg, st |-> Q.st, ss |-> Q.ss, ex |-> Q.ex,
      dp |-> IF Q.st = "Z" THEN <<>> ELSE Q.dp,      \* a terminated process has no dispositions
      in |-> Q.in]
Proj(S) == [fg |-> S.fg, ps |-> {ProjProc(S, q) : q \in DOMAIN S.proc}]

=============================================================================
