------------------------------ MODULE Fnmatch ------------------------------
(***************************************************************************)
(* Pattern matching notation of the shell, as a declarative / recursive    *)
(* definition.  Written from                                               *)
(*   - POSIX.1-2024 XCU 2.14 (Pattern Matching Notation), XBD 9.3.5 (RE    *)
(*     Bracket Expression), XBD 7.3.1 (LC_CTYPE of the POSIX locale),      *)
(*   - /repo/docs/src/patterns.md (the project's manual), and              *)
(*   - the public doc comments of the yash-fnmatch crate (Config, find,    *)
(*     rfind: "first match" / "last match", shortest_match),               *)
(* NOT from the code.  This module is the ORACLE of property C04; it is    *)
(* also the `Fnmatch` layer used by Expand (trim), Glob and Semantics      *)
(* (case).                                                                 *)
(*                                                                         *)
(* A character is a one-character string.  A pattern is a sequence of      *)
(* pattern characters [c |-> char, l |-> BOOLEAN]; l = TRUE means the      *)
(* character was quoted / backslash-escaped (PatternChar::Literal),        *)
(* l = FALSE means it is unquoted (PatternChar::Normal).  A string is a    *)
(* sequence of characters.                                                 *)
(*                                                                         *)
(* Where POSIX leaves the meaning of a pattern open the parse result       *)
(* carries a non-empty set `un` of reasons and nothing is required of the  *)
(* implementation (the checks skip and count such patterns):               *)
(*   - "[." "[=" "[:" inside a bracket expression without the matching     *)
(*     terminator (XBD 9.3.5: "shall be followed by a valid expression and *)
(*     the matching terminating sequence"), empty collating symbol,        *)
(*   - a character class name that the POSIX locale does not define,       *)
(*   - a range whose end point is a character class, an equivalence class  *)
(*     ("unspecified results") or a multi-character collating symbol,      *)
(*   - a range that denotes the empty set ("unspecified whether the        *)
(*     expression matches nothing, or is treated as invalid"),             *)
(*   - "[a-m-o]" ("undefined"),                                            *)
(*   - a range with an end point outside ASCII (collation order of such    *)
(*     characters is a locale matter; the manual promises none),           *)
(*   - a multi-character collating symbol / equivalence class in a         *)
(*     non-matching list.                                                  *)
(* `[^...]` is NOT in this list: patterns.md documents it as complement.   *)
(* Collating symbols and equivalence classes "simply match the characters  *)
(* as they are" (patterns.md); "only match the specified character         *)
(* sequence itself" (crate documentation).                                 *)
(***************************************************************************)
EXTENDS Integers, Sequences, FiniteSets, TLC

MinS(S) == CHOOSE x \in S : \A y \in S : x <= y
MaxS(S) == CHOOSE x \in S : \A y \in S : x >= y

(***************************************************************************)
(* Characters and their order.  In the POSIX locale the collating sequence *)
(* of the portable character set is the order of XBD 7.3.2, which is the   *)
(* ASCII order; character classes are those of XBD 7.3.1.                  *)
(***************************************************************************)
Printable ==    \* codes 32 .. 126
  << " ", "!", "\"", "#", "$", "%", "&", "'", "(", ")", "*", "+", ",", "-", ".", "/",
     "0", "1", "2", "3", "4", "5", "6", "7", "8", "9",
     ":", ";", "<", "=", ">", "?", "@",
     "A", "B", "C", "D", "E", "F", "G", "H", "I", "J", "K", "L", "M",
     "N", "O", "P", "Q", "R", "S", "T", "U", "V", "W", "X", "Y", "Z",
     "[", "\\", "]", "^", "_", "`",
     "a", "b", "c", "d", "e", "f", "g", "h", "i", "j", "k", "l", "m",
     "n", "o", "p", "q", "r", "s", "t", "u", "v", "w", "x", "y", "z",
     "{", "|", "}", "~" >>

ASSUME Len(Printable) = 95

NonAscii == 1000000     \* "code" of every character this table does not list

CodeMap ==
  [c \in {Printable[i] : i \in 1..95} \cup {"\t", "\n"} |->
     IF c = "\t" THEN 9 ELSE IF c = "\n" THEN 10
     ELSE 31 + (CHOOSE i \in 1..95 : Printable[i] = c)]

Code(c) == IF c \in DOMAIN CodeMap THEN CodeMap[c] ELSE NonAscii

Explode(str) == [i \in 1..Len(str) |-> SubSeq(str, i, i)]   \* "ab" -> <<"a","b">>

ClassNames == {"alnum", "alpha", "blank", "cntrl", "digit", "graph", "lower",
               "print", "punct", "space", "upper", "xdigit"}
ClassNameSeqs == {Explode(n) : n \in ClassNames}

Upper(n)  == n \in 65..90
Lower(n)  == n \in 97..122
Digit(n)  == n \in 48..57
Punct(n)  == n \in (33..47) \cup (58..64) \cup (91..96) \cup (123..126)

\* XBD 7.3.1, POSIX locale.  Characters outside ASCII are in no class
\* (crate documentation: "character classes only match ASCII characters").
InClass(name, c) ==
  LET n == Code(c) IN
  CASE name = Explode("upper")  -> Upper(n)
    [] name = Explode("lower")  -> Lower(n)
    [] name = Explode("alpha")  -> Upper(n) \/ Lower(n)
    [] name = Explode("digit")  -> Digit(n)
    [] name = Explode("alnum")  -> Upper(n) \/ Lower(n) \/ Digit(n)
    [] name = Explode("xdigit") -> Digit(n) \/ n \in 65..70 \/ n \in 97..102
    [] name = Explode("space")  -> n = 32 \/ n \in 9..13
    [] name = Explode("blank")  -> n = 32 \/ n = 9
    [] name = Explode("cntrl")  -> n \in 0..31 \/ n = 127
    [] name = Explode("punct")  -> Punct(n)
    [] name = Explode("graph")  -> n \in 33..126
    [] name = Explode("print")  -> n \in 32..126

(***************************************************************************)
(* Pattern characters.                                                     *)
(***************************************************************************)
Nc(ch) == [c |-> ch, l |-> FALSE]     \* unquoted
Lc(ch) == [c |-> ch, l |-> TRUE]      \* quoted

\* `without_escape`: every character is unquoted.
WithoutEscape(t) == [i \in 1..Len(t) |-> Nc(t[i])]

\* `with_escape`: a backslash quotes the following character and is dropped.
\* A trailing backslash is unspecified by POSIX (XCU 2.14.1).
RECURSIVE WithEscapeFrom(_, _)
WithEscapeFrom(t, i) ==
  IF i > Len(t) THEN <<>>
  ELSE IF t[i] = "\\"
       THEN IF i = Len(t) THEN <<>> ELSE <<Lc(t[i+1])>> \o WithEscapeFrom(t, i + 2)
       ELSE <<Nc(t[i])>> \o WithEscapeFrom(t, i + 1)
WithEscape(t) == WithEscapeFrom(t, 1)

RECURSIVE TrailingBackslashFrom(_, _)
TrailingBackslashFrom(t, i) ==
  IF i > Len(t) THEN FALSE
  ELSE IF t[i] = "\\" THEN (IF i = Len(t) THEN TRUE ELSE TrailingBackslashFrom(t, i + 2))
       ELSE TrailingBackslashFrom(t, i + 1)
TrailingBackslash(t) == TrailingBackslashFrom(t, 1)

IsN(p, i, ch) == i >= 1 /\ i <= Len(p) /\ ~p[i].l /\ p[i].c = ch

(***************************************************************************)
(* Bracket expressions (XBD 9.3.5 with "!" for "^", XCU 2.14.1).           *)
(* Items of a list:  [k |-> "c",   c |-> char]                             *)
(*                   [k |-> "r",   lo |-> char, hi |-> char]               *)
(*                   [k |-> "cls", s |-> name]      character class        *)
(*                   [k |-> "sym", s |-> chars]     collating symbol       *)
(*                   [k |-> "eqv", s |-> chars]     equivalence class      *)
(* A quoted character is an ordinary member of the list: it never closes   *)
(* the expression, never complements it, is no range operator and opens or *)
(* closes no "[." "[=" "[:" construct.                                     *)
(***************************************************************************)
\* least k >= from with p[k] = unquoted d and p[k+1] = unquoted "]"; 0 if none
Terminator(p, from, d) ==
  LET K == {k \in from..(Len(p) - 1) : IsN(p, k, d) /\ IsN(p, k + 1, "]")}
  IN IF K = {} THEN 0 ELSE MinS(K)

Values(p, a, b) == [i \in 1..(b - a + 1) |-> p[a + i - 1].c]

\* the list element that starts at position j <= Len(p)
Element(p, j) ==
  IF IsN(p, j, "[") /\ (IsN(p, j + 1, ".") \/ IsN(p, j + 1, "=") \/ IsN(p, j + 1, ":"))
  THEN LET d == p[j + 1].c
           k == Terminator(p, j + 2, d)
       IN IF k = 0 THEN [k |-> "bad", next |-> j + 1]
          ELSE [k    |-> (IF d = "." THEN "sym" ELSE IF d = "=" THEN "eqv" ELSE "cls"),
                s    |-> Values(p, j + 2, k - 1),
                next |-> k + 2]
  ELSE [k |-> "c", c |-> p[j].c, next |-> j + 1]

\* reasons for which a single element leaves the meaning open
ElementUn(x) ==
  CASE x.k = "cls" -> IF x.s \in ClassNameSeqs THEN {} ELSE {"undefined character class"}
    [] x.k \in {"sym", "eqv"} -> IF Len(x.s) = 0 THEN {"empty collating symbol"} ELSE {}
    [] OTHER -> {}

Multi(x) == x.k \in {"sym", "eqv"} /\ Len(x.s) > 1

\* a range end point: the character, or "" if the element cannot be one
EndPoint(x) ==
  CASE x.k = "c" -> x.c
    [] x.k = "sym" /\ Len(x.s) = 1 -> x.s[1]
    [] OTHER -> ""

RangeUn(x, y) ==
  LET lo == EndPoint(x)  hi == EndPoint(y) IN
  IF lo = "" \/ hi = "" THEN {"range end point is a class or a multi-character element"}
  ELSE IF Code(lo) = NonAscii \/ Code(hi) = NonAscii THEN {"range end point outside ASCII"}
  ELSE IF Code(lo) > Code(hi) THEN {"empty range"}
  ELSE {}

Unclosed == [closed |-> FALSE]

\* Scan the list from position j.  first: no element seen yet (a "]" here is
\* a member); after: the previous item was a range.
RECURSIVE BrList(_, _, _, _, _, _)
BrList(p, j, first, after, items, un) ==
  IF j > Len(p) THEN Unclosed
  ELSE IF IsN(p, j, "]") /\ ~first
  THEN [closed |-> TRUE, next |-> j + 1, items |-> items, un |-> un]
  ELSE
    LET x   == Element(p, j)
        \* "[a-m-o]": undefined (XBD 9.3.5 item 7)
        un0 == IF after /\ IsN(p, j, "-") /\ j + 1 <= Len(p) /\ ~IsN(p, j + 1, "]")
               THEN un \cup {"range end point is also a range start point"} ELSE un
        \* every reading needs an unquoted "]" further on to close the expression
        Open(m) == IF \E q \in m..Len(p) : IsN(p, q, "]")
                   THEN [closed |-> TRUE, next |-> Len(p) + 1, items |-> items,
                         un |-> un \cup {"unterminated [. [= or [:"}]
                   ELSE Unclosed
    IN
    IF x.k = "bad" THEN Open(j + 1)
    ELSE IF IsN(p, x.next, "-") /\ x.next + 1 <= Len(p) /\ ~IsN(p, x.next + 1, "]")
    THEN \* a range: "-" is neither first nor last in the list
         LET y == Element(p, x.next + 1) IN
         IF y.k = "bad" THEN Open(x.next + 2)
         ELSE BrList(p, y.next, FALSE, TRUE,
                     Append(items, [k |-> "r", lo |-> EndPoint(x), hi |-> EndPoint(y)]),
                     un0 \cup ElementUn(x) \cup ElementUn(y) \cup RangeUn(x, y))
    ELSE BrList(p, x.next, FALSE, FALSE, Append(items, x), un0 \cup ElementUn(x))

(***************************************************************************)
(* Patterns.  Atoms:  [t |-> "c", c |-> char]   that character             *)
(*                    [t |-> "q"]               ?  any one character       *)
(*                    [t |-> "s"]               *  any string              *)
(*                    [t |-> "b", neg, items]   bracket expression         *)
(*                       (+ qh: a quoted "-" occurs in it; descriptive)    *)
(* An unquoted "[" that does not introduce a bracket expression matches    *)
(* itself (XCU 2.14.1).                                                    *)
(***************************************************************************)
RECURSIVE ParseFrom(_, _)
ParseFrom(p, i) ==
  IF i > Len(p) THEN [atoms |-> <<>>, un |-> {}]
  ELSE
    LET Plain == LET r == ParseFrom(p, i + 1)
                 IN [atoms |-> <<[t |-> "c", c |-> p[i].c]>> \o r.atoms, un |-> r.un]
        One(a) == LET r == ParseFrom(p, i + 1)
                  IN [atoms |-> <<a>> \o r.atoms, un |-> r.un]
    IN
    IF p[i].l THEN Plain
    ELSE IF p[i].c = "?" THEN One([t |-> "q"])
    ELSE IF p[i].c = "*" THEN One([t |-> "s"])
    ELSE IF p[i].c = "["
    THEN LET neg == IsN(p, i + 1, "!") \/ IsN(p, i + 1, "^")
             b   == BrList(p, IF neg THEN i + 2 ELSE i + 1, TRUE, FALSE, <<>>, {})
         IN IF ~b.closed THEN Plain
            ELSE LET r  == ParseFrom(p, b.next)
                     mu == IF neg /\ \E n \in 1..Len(b.items) : Multi(b.items[n])
                           THEN {"multi-character element in a non-matching list"} ELSE {}
                 IN [atoms |-> <<[t |-> "b", neg |-> neg, items |-> b.items,
                                  \* (descriptive only, used to name pattern shapes in reports)
                                  qh |-> \E j \in (i + 1)..(b.next - 2) : p[j].l /\ p[j].c = "-"]>>
                               \o r.atoms,
                     un    |-> b.un \cup mu \cup r.un]
    ELSE Plain

HasMulti(atoms) ==
  \E n \in 1..Len(atoms) :
     atoms[n].t = "b" /\ \E m \in 1..Len(atoms[n].items) : Multi(atoms[n].items[m])

\* un = {} : the pattern has a meaning;  mc: some bracket expression holds a
\* multi-character collating symbol / equivalence class.
Parse(p) == LET r == ParseFrom(p, 1)
            IN [atoms |-> r.atoms, un |-> r.un, mc |-> HasMulti(r.atoms)]

Specified(p) == Parse(p).un = {}

(***************************************************************************)
(* Descriptive shape of a pattern: contents of its collating symbols and   *)
(* equivalence classes and two structural notes.  Used by the checks only  *)
(* to NAME the shape of a pattern in reports (keys of known findings);     *)
(* never used to decide a match.                                           *)
(***************************************************************************)
Brackets(A) == {a \in 1..Len(A) : A[a].t = "b"}
SymItems(b) == {m \in 1..Len(b.items) : b.items[m].k \in {"sym", "eqv"}}
Syms(A) == UNION {{A[a].items[m].s : m \in SymItems(A[a])} : a \in Brackets(A)}
ShapeNotes(A) ==
  (IF \E a \in Brackets(A) : A[a].qh THEN {"quoted-hyphen-in-bracket"} ELSE {})
  \cup
  (IF \E a \in Brackets(A) : A[a].neg /\ \E m \in SymItems(A[a]) :
          Len(A[a].items[m].s) = 1 /\ Code(A[a].items[m].s[1]) = NonAscii
   THEN {"non-ascii-symbol-in-non-matching-list"} ELSE {})

(***************************************************************************)
(* Matching.                                                               *)
(***************************************************************************)
\* c is one of the single characters the item stands for
ItemHas(it, c) ==
  CASE it.k = "c"   -> c = it.c
    [] it.k = "r"   -> Code(it.lo) <= Code(c) /\ Code(c) <= Code(it.hi)
    [] it.k = "cls" -> InClass(it.s, c)
    [] it.k \in {"sym", "eqv"} -> Len(it.s) = 1 /\ c = it.s[1]

ListHas(items, c) == \E n \in 1..Len(items) : ItemHas(items[n], c)

\* lengths n >= 1 such that bracket expression a matches s[i .. i+n-1]
BracketLens(a, s, i) ==
  IF i > Len(s) THEN {}
  ELSE IF a.neg THEN (IF ListHas(a.items, s[i]) THEN {} ELSE {1})
  ELSE (IF ListHas(a.items, s[i]) THEN {1} ELSE {})
       \cup {Len(a.items[n].s) : n \in
               {n \in 1..Len(a.items) :
                   /\ Multi(a.items[n])
                   /\ i + Len(a.items[n].s) - 1 <= Len(s)
                   /\ SubSeq(s, i, i + Len(a.items[n].s) - 1) = a.items[n].s}}

\* atoms A[k..] match exactly s[i..]
RECURSIVE MatchAt(_, _, _, _)
MatchAt(A, k, s, i) ==
  IF k > Len(A) THEN i = Len(s) + 1
  ELSE LET a == A[k] IN
       CASE a.t = "c" -> i <= Len(s) /\ s[i] = a.c /\ MatchAt(A, k + 1, s, i + 1)
         [] a.t = "q" -> i <= Len(s) /\ MatchAt(A, k + 1, s, i + 1)
         [] a.t = "s" -> \E n \in i..(Len(s) + 1) : MatchAt(A, k + 1, s, n)
         [] a.t = "b" -> \E n \in BracketLens(a, s, i) : MatchAt(A, k + 1, s, i + n)

\* the whole string s is denoted by the atoms / by the (specified) pattern
MatchesA(A, s) == MatchAt(A, 1, s, 1)
Matches(p, s)  == MatchesA(Parse(p).atoms, s)

\* Config::literal_period (doc comment): "a leading period in the text, if
\* any, must be matched by a literal period in the pattern ... a wildcard
\* pattern or bracket expression does not match a leading period".
StartsWithDot(A) == Len(A) > 0 /\ A[1].t = "c" /\ A[1].c = "."
MatchesPeriodA(A, s) ==
  MatchesA(A, s) /\ (Len(s) > 0 /\ s[1] = "." => StartsWithDot(A))

(***************************************************************************)
(* Searching (Pattern::find / rfind with Config).  A configuration is      *)
(* [ab |-> anchor_begin, ae |-> anchor_end, sh |-> shortest_match].        *)
(* Ranges are pairs <<i, j>>, 0 <= i <= j <= n, denoting characters        *)
(* i+1 .. j.  `find`: the first match; `rfind`: the last match; the        *)
(* shortest or the longest one at that place.                              *)
(* The definitions are generic in the predicate Ok(i, j) "the part i+1..j  *)
(* is denoted by the pattern" so that they can be evaluated from a         *)
(* tabulated match set as well.                                            *)
(***************************************************************************)
None == <<-1, -1>>
Configs == [ab : BOOLEAN, ae : BOOLEAN, sh : BOOLEAN]

RangesG(Ok(_, _), n, cfg) ==
  {r \in (0..n) \X (0..n) :
      /\ r[1] <= r[2]
      /\ (cfg.ab => r[1] = 0)
      /\ (cfg.ae => r[2] = n)
      /\ Ok(r[1], r[2])}

PickEnd(R, i, sh) ==
  LET J == {r[2] : r \in {q \in R : q[1] = i}} IN <<i, IF sh THEN MinS(J) ELSE MaxS(J)>>

FindG(Ok(_, _), n, cfg) ==
  LET R == RangesG(Ok, n, cfg)
  IN IF R = {} THEN None ELSE PickEnd(R, MinS({r[1] : r \in R}), cfg.sh)

RFindG(Ok(_, _), n, cfg) ==
  LET R == RangesG(Ok, n, cfg)
  IN IF R = {} THEN None ELSE PickEnd(R, MaxS({r[1] : r \in R}), cfg.sh)

FindA(A, s, cfg)  == FindG(LAMBDA i, j : MatchesA(A, SubSeq(s, i + 1, j)), Len(s), cfg)
RFindA(A, s, cfg) == RFindG(LAMBDA i, j : MatchesA(A, SubSeq(s, i + 1, j)), Len(s), cfg)
IsMatchA(A, s, cfg) == FindA(A, s, cfg) # None

(***************************************************************************)
(* Prefix / suffix removal (XCU 2.6.2) and case (XCU 2.9.4.3).             *)
(***************************************************************************)
\* ${v#p} (long = FALSE), ${v##p} (long = TRUE)
TrimPrefixA(A, s, long) ==
  LET K == {k \in 0..Len(s) : MatchesA(A, SubSeq(s, 1, k))}
  IN IF K = {} THEN s ELSE SubSeq(s, (IF long THEN MaxS(K) ELSE MinS(K)) + 1, Len(s))

\* ${v%p} (long = FALSE), ${v%%p} (long = TRUE)
TrimSuffixA(A, s, long) ==
  LET K == {k \in 0..Len(s) : MatchesA(A, SubSeq(s, k + 1, Len(s)))}
  IN IF K = {} THEN s ELSE SubSeq(s, 1, IF long THEN MinS(K) ELSE MaxS(K))

\* items: sequence of sequences of parsed patterns; the number of the first
\* item one of whose patterns denotes the subject, 0 if there is none
CaseSelectA(subject, items) ==
  LET I == {n \in 1..Len(items) : \E q \in 1..Len(items[n]) : MatchesA(items[n][q], subject)}
  IN IF I = {} THEN 0 ELSE MinS(I)
=============================================================================
