SPECIFICATION Spec
VIEW View
CONSTANTS
  Family = "umask"
  Depth = 0
  Level = "quick"
INVARIANT ThmU1
INVARIANT ThmU2
INVARIANT ThmU3
INVARIANT ThmU4
INVARIANT ThmU5
INVARIANT ThmU6
