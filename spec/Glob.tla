-------------------------------- MODULE Glob --------------------------------
(***************************************************************************)
(* Pathname expansion of the shell as a declarative definition.            *)
(* ORACLE of property C05.  Written from                                   *)
(*   - POSIX.1-2024 XCU 2.14.3 (Patterns Used for Filename Expansion),     *)
(*     XCU 2.6.6 (Pathname Expansion), XCU 2.2 (Quoting), XCU 2.6.1 (Tilde *)
(*     Expansion: "the pathname resulting from tilde expansion shall be    *)
(*     treated as if quoted"), XBD 4.16 (Pathname Resolution),             *)
(*   - /repo/docs/src/language/words/globbing.md and /repo/docs/src/       *)
(*     patterns.md (the project's manual),                                 *)
(* NOT from the code.  Matching of one component is the Fnmatch layer      *)
(* (spec/Fnmatch.tla, property C04), used read-only.                       *)
(*                                                                         *)
(* A character is a one-character string.  A field is given as a sequence  *)
(* of UNITS of shell text (so that it can be rendered and run), whose      *)
(* meaning is a sequence of ATTRIBUTED characters [c, a]:                  *)
(*     a = "n"  unquoted (special if it is a pattern character; a          *)
(*              backslash with a = "n" can only stem from an expansion and *)
(*              escapes the following character, patterns.md "Quoting"),   *)
(*     a = "q"  quoted (by backslash, single or double quotes): literal,   *)
(*     a = "h"  result of tilde expansion: literal.                        *)
(* Quoting characters themselves are not represented: quote removal        *)
(* (XCU 2.6.7) deletes them, and they take no part in matching.            *)
(*                                                                         *)
(* A file tree is a function  path |-> [k, to]  where a path is the        *)
(* sequence of names from the root, k \in {"d", "f", "l"} (directory,      *)
(* other file, symbolic link) and `to` is the link's target as a sequence  *)
(* of pathname components (a leading "" = absolute).  The root <<>> is a   *)
(* directory.  Everybody may read and search every directory (unreadable   *)
(* directories are outside this model).                                    *)
(*                                                                         *)
(* Where the sources leave the outcome open the result is a SET            *)
(* (`Allowed`), or the input is `Unspecified` and nothing is required:     *)
(*   - a symbolic link whose target does not exist, named by a LITERAL     *)
(*     last component ("sub/dl" in "*/dl"): "existing" may be read as      *)
(*     stat (the implementation's doc comment: "check if the file exists   *)
(*     referred to by the resulting pathname") or as lstat (the directory  *)
(*     entry exists) -- variants dg = FALSE / TRUE,                        *)
(*   - an escaping backslash that stems from an expansion "shall escape the*)
(*     following character.  The escaping <backslash> shall be discarded"  *)
(*     (XCU 2.14.1; patterns.md: it "escapes the following character" but  *)
(*     is "not subject to quote removal").  A word that holds a special    *)
(*     "*", "?" or "[" must be matched that way (bs = "esc").  A word whose*)
(*     only active characters are such backslashes need not be matched at  *)
(*     all (XCU 2.14.3: only a pattern with a special * ? [ "shall be      *)
(*     matched against existing filenames"): it may be matched (and be     *)
(*     replaced by the file name, without the backslash) or be left as it  *)
(*     is -- variants bs = "esc" / "keep",                                 *)
(*   - patterns whose meaning Fnmatch leaves open (Parse(..).un # {}),     *)
(*     and a trailing escaping backslash in a component: such a component  *)
(*     may be taken literally, match nothing, or be given some meaning as  *)
(*     a pattern -- but whatever it means the property still binds: the    *)
(*     result is the word itself, or a sorted duplicate-free list of       *)
(*     EXISTING pathnames that match the word when the open component is   *)
(*     read as "any directory entry" (WeakAllowed below).                  *)
(***************************************************************************)
EXTENDS Integers, Sequences, FiniteSets, TLC

F == INSTANCE Fnmatch

(***************************************************************************)
(* Strings and characters.                                                 *)
(***************************************************************************)
Chars(str) == [i \in 1..Len(str) |-> SubSeq(str, i, i)]      \* "ab" -> <<"a","b">>

RECURSIVE Str(_)
Str(cs) == IF cs = <<>> THEN "" ELSE cs[1] \o Str(Tail(cs))  \* <<"a","b">> -> "ab"

\* byte order (the implementation documents "sorted alphabetically"; POSIX:
\* collating sequence of the current locale, which is the POSIX locale)
RECURSIVE LexLess(_, _)
LexLess(x, y) ==
  IF y = <<>> THEN FALSE
  ELSE IF x = <<>> THEN TRUE
  ELSE IF x[1] = y[1] THEN LexLess(Tail(x), Tail(y))
  ELSE F!Code(x[1]) < F!Code(y[1])

StrLess(s, t) == LexLess(Chars(s), Chars(t))

RECURSIVE SortStrings(_)
SortStrings(S) ==
  IF S = {} THEN <<>>
  ELSE LET m == CHOOSE x \in S : \A y \in S : x = y \/ StrLess(x, y)
       IN <<m>> \o SortStrings(S \ {m})

(***************************************************************************)
(* Units of shell text and the attributed characters they denote           *)
(* (XCU 2.2 Quoting, 2.6.1 Tilde Expansion, 2.6.2 Parameter Expansion).    *)
(*   [k |-> "lit",   s]  unquoted text s           (no quoting characters) *)
(*   [k |-> "bs",    s]  \c for the one character s                        *)
(*   [k |-> "sq",    s]  's'                                               *)
(*   [k |-> "dq",    s]  "s"  ($ ` \ and " in s are written with a backslash) *)
(*   [k |-> "var",   s]  ${v}  unquoted, where the value of v is s         *)
(*   [k |-> "dqvar", s]  "${v}"                                            *)
(*   [k |-> "tilde", s]  ~  where the value of HOME is s                   *)
(* Values of variables hold no IFS characters, so that field splitting     *)
(* leaves the field whole (C01 owns field splitting).                      *)
(***************************************************************************)
UnitKinds == {"lit", "bs", "sq", "dq", "var", "dqvar", "tilde"}

Attr(str, a) == [i \in 1..Len(str) |-> [c |-> SubSeq(str, i, i), a |-> a]]

UnitChars(u) ==
  CASE u.k \in {"lit", "var"}            -> Attr(u.s, "n")
    [] u.k \in {"bs", "sq", "dq", "dqvar"} -> Attr(u.s, "q")
    [] u.k = "tilde"                       -> Attr(u.s, "h")

RECURSIVE FieldChars(_)
FieldChars(us) == IF us = <<>> THEN <<>> ELSE UnitChars(us[1]) \o FieldChars(Tail(us))

\* The unit sequence is one word of shell text with the stated meaning:
\* tilde expansion happens only at the beginning of the word and only when the
\* tilde-prefix ends at an unquoted slash or at the end of the word.
WellFormed(us) ==
  /\ Len(us) > 0
  /\ \A i \in 1..Len(us) :
       /\ us[i].k \in UnitKinds
       /\ Len(us[i].s) > 0
       /\ us[i].k = "bs" => Len(us[i].s) = 1
       /\ us[i].k = "lit" => \A j \in 1..Len(us[i].s) : SubSeq(us[i].s, j, j) \notin {"\\", "'", "\"", "$", "`", "~"}
       /\ us[i].k = "tilde" =>
            /\ i = 1
            /\ Len(us) > 1 => us[2].k = "lit" /\ SubSeq(us[2].s, 1, 1) = "/"

\* quote removal: the field as a string
Removed(cs) == Str([i \in 1..Len(cs) |-> cs[i].c])

(***************************************************************************)
(* Components (XCU 2.14.3 rule 1: "The <slash> character in a pathname     *)
(* shall be explicitly matched by using one or more <slash> characters in  *)
(* the pattern ... <slash> characters in the pattern shall be identified   *)
(* before bracket expressions").  A quoted slash is a slash.               *)
(***************************************************************************)
RECURSIVE SplitSlash(_)
SplitSlash(cs) ==
  LET I == {i \in 1..Len(cs) : cs[i].c = "/"} IN
  IF I = {} THEN <<cs>>
  ELSE LET i == F!MinS(I)
       IN <<SubSeq(cs, 1, i - 1)>> \o SplitSlash(SubSeq(cs, i + 1, Len(cs)))

ActiveBackslash(cs, i) == cs[i].a = "n" /\ cs[i].c = "\\"

\* pattern characters [c, l] of the Fnmatch layer for one component
RECURSIVE ToPat(_, _, _)
ToPat(cs, i, bs) ==
  IF i > Len(cs) THEN <<>>
  ELSE IF cs[i].a # "n" THEN <<F!Lc(cs[i].c)>> \o ToPat(cs, i + 1, bs)
  ELSE IF cs[i].c = "\\"
  THEN IF i = Len(cs) THEN <<F!Lc("\\")>>            \* trailing: Unspecified below
       ELSE (IF bs = "keep" THEN <<F!Lc("\\")>> ELSE <<>>)
            \o <<F!Lc(cs[i + 1].c)>> \o ToPat(cs, i + 2, bs)
  ELSE <<F!Nc(cs[i].c)>> \o ToPat(cs, i + 1, bs)

(***************************************************************************)
(* Matching one component against the entries of one directory:            *)
(* Fnmatch with the leading-period rule (XCU 2.14.3 rule 2, globbing.md    *)
(* "Hidden files": a leading period is matched only by a literal period    *)
(* at the start of the component; not by "*", "?" or a bracket             *)
(* expression), and never the entries "." and ".." (globbing.md: "Glob     *)
(* patterns never match the filenames . and .., even if a pattern begins   *)
(* with a literal dot").                                                   *)
(***************************************************************************)
NameMatches(atoms, nm) == nm \notin {".", ".."} /\ F!MatchesPeriodA(atoms, Chars(nm))

RECURSIVE TrailingEscape(_, _)
TrailingEscape(cs, i) ==
  IF i > Len(cs) THEN FALSE
  ELSE IF ActiveBackslash(cs, i) THEN (IF i = Len(cs) THEN TRUE ELSE TrailingEscape(cs, i + 2))
  ELSE TrailingEscape(cs, i + 1)

\* A component "that contains a pattern character" (some atom is not an
\* ordinary character) is matched against directory entries; any other
\* component is taken as it stands: `name`.  `ms`: the names among NU (any
\* finite set of names that covers the directories consulted) that the
\* component matches -- see NameMatches below.
Prep(cs, bs, NU) ==
  LET P == F!Parse(ToPat(cs, 1, bs))
      A == P.atoms
      L == \A k \in 1..Len(A) : A[k].t = "c"
      X == P.un # {} \/ TrailingEscape(cs, 1)       \* no specified meaning
  IN [lit   |-> L,
      name  |-> IF L THEN Str([k \in 1..Len(A) |-> A[k].c]) ELSE "",
      atoms |-> A,
      ms    |-> IF L \/ X THEN {} ELSE {nm \in NU : NameMatches(A, nm)},
      un    |-> X]

Prepared(cs, bs, NU) == LET C == SplitSlash(cs) IN [i \in 1..Len(C) |-> Prep(C[i], bs, NU)]

(***************************************************************************)
(* The file tree and pathname resolution (XBD 4.16).                       *)
(***************************************************************************)
Front(p) == SubSeq(p, 1, Len(p) - 1)

WellFormedTree(T) ==
  \A p \in DOMAIN T :
    /\ Len(p) > 0
    /\ p[Len(p)] \notin {"", ".", ".."}
    /\ \A j \in 1..Len(p[Len(p)]) : SubSeq(p[Len(p)], j, j) # "/"
    /\ T[p].k \in {"d", "f", "l"}
    /\ Len(p) > 1 => Front(p) \in DOMAIN T /\ T[Front(p)].k = "d"

IsDir(T, p) == p = <<>> \/ (p \in DOMAIN T /\ T[p].k = "d")

Children(T, d) == {p[Len(p)] : p \in {q \in DOMAIN T : Len(q) = Len(d) + 1 /\ Front(q) = d}}

Fail == [ok |-> FALSE, at |-> <<>>]
Fuel == 40         \* SYMLOOP_MAX stands in (Linux follows at most 40 links in one resolution)

\* Resolve the components `comps` from the file at physical path `cur`,
\* following every symbolic link (also the last one).  An empty component or
\* "." stays (and demands a directory: "a/" names a only if it is a directory).
RECURSIVE Walk(_, _, _, _)
Walk(T, cur, comps, fuel) ==
  IF comps = <<>> THEN [ok |-> TRUE, at |-> cur]
  ELSE IF ~IsDir(T, cur) THEN Fail
  ELSE LET c == comps[1]  rest == Tail(comps) IN
       IF c = "" \/ c = "." THEN Walk(T, cur, rest, fuel)
       ELSE IF c = ".." THEN Walk(T, Front(cur), rest, fuel)     \* Front(<<>>) = <<>>
       ELSE LET ch == Append(cur, c) IN
            IF ch \notin DOMAIN T THEN Fail
            ELSE IF T[ch].k = "l"
            THEN LET tg == T[ch].to IN
                 IF fuel = 0 \/ tg = <<>> THEN Fail
                 ELSE Walk(T, IF tg[1] = "" THEN <<>> ELSE cur, tg \o rest, fuel - 1)
            ELSE Walk(T, ch, rest, fuel)

\* where resolution of the pathname with components `comps` starts
Origin(comps, cwd) == IF Len(comps) > 1 /\ comps[1] = "" THEN <<>> ELSE cwd

\* stat(2): the pathname names a file, links followed
Stat(T, cwd, comps) ==
  IF comps = <<>> \/ comps = <<"">> THEN Fail          \* the empty pathname names nothing
  ELSE Walk(T, Origin(comps, cwd), comps, Fuel)

\* lstat(2): the pathname names a directory entry (a last link is not followed)
LStatOk(T, cwd, comps) ==
  IF comps = <<>> \/ comps = <<"">> THEN FALSE
  ELSE LET last == comps[Len(comps)] IN
       IF last \in {"", ".", ".."} THEN Stat(T, cwd, comps).ok
       ELSE LET d == Walk(T, Origin(comps, cwd), Front(comps), Fuel)
            IN d.ok /\ IsDir(T, d.at) /\ Append(d.at, last) \in DOMAIN T

\* the directory in which the component after the components `pre` is looked
\* up: the working directory, or the directory named by "pre/"
DirOf(T, cwd, pre) ==
  IF pre = <<>> THEN [ok |-> TRUE, at |-> cwd]
  ELSE LET r == Walk(T, Origin(Append(pre, ""), cwd), Append(pre, ""), Fuel)
       IN IF r.ok /\ IsDir(T, r.at) THEN r ELSE Fail

\* its entries, as readdir reports them
Entries(T, cwd, pre) ==
  LET d == DirOf(T, cwd, pre) IN IF d.ok THEN {".", ".."} \cup Children(T, d.at) ELSE {}

AllNames(T) == {p[Len(p)] : p \in DOMAIN T} \cup {".", ".."}

\* Search(..).r: all sequences of names, one per component, that match
\* component by component along existing directories (P: prepared components
\* whose `ms` cover the names of T; pre: the names chosen so far);
\* Search(..).d: the physical directories whose entries were consulted.
RECURSIVE Search(_, _, _, _, _)
Search(T, cwd, P, i, pre) ==
  IF i > Len(P) THEN [r |-> {pre}, d |-> {}]
  ELSE IF P[i].lit THEN Search(T, cwd, P, i + 1, Append(pre, P[i].name))
  ELSE LET dir  == DirOf(T, cwd, pre)
           subs == {Search(T, cwd, P, i + 1, Append(pre, nm)) : nm \in Entries(T, cwd, pre) \cap P[i].ms}
       IN [r |-> UNION {s.r : s \in subs},
           d |-> (IF dir.ok THEN {dir.at} ELSE {}) \cup UNION {s.d : s \in subs}]

Cands(T, cwd, P) == Search(T, cwd, P, 1, <<>>).r

\* Does the pathname exist?  A name found in a directory exists.  A literal
\* last component is looked up: stat, or (dg) lstat -- see the header.
ExistsPath(T, cwd, P, names, dg) ==
  IF P[Len(P)].lit THEN Stat(T, cwd, names).ok \/ (dg /\ LStatOk(T, cwd, names))
  ELSE TRUE

RECURSIVE Join(_)
Join(names) == IF Len(names) = 1 THEN names[1] ELSE names[1] \o "/" \o Join(Tail(names))

\* XCU 2.14.3: "If the pattern matches any existing filenames or pathnames,
\* the pattern shall be replaced with those filenames and pathnames, sorted
\* ...  If the pattern does not match any existing filenames or pathnames, the
\* pattern string shall be left unchanged" (then quote removal applies).
Matched(P, T, cwd, dg) == {ns \in Cands(T, cwd, P) : ExistsPath(T, cwd, P, ns, dg)}

GlobP(cs, P, T, cwd, dg) ==
  LET R == Matched(P, T, cwd, dg)
  IN IF R = {} THEN <<Removed(cs)>> ELSE SortStrings({Join(ns) : ns \in R})

HasEscape(cs) == \E i \in 1..Len(cs) : ActiveBackslash(cs, i)
HasLink(T)    == \E p \in DOMAIN T : T[p].k = "l"

DgChoices(T)  == IF HasLink(T) THEN {FALSE, TRUE} ELSE {FALSE}

HasPattern(P) == \E i \in 1..Len(P) : ~P[i].lit

\* the readings of the word: one sequence of prepared components per choice
\* of bs (see the header); NU must cover the names of every tree they are
\* used with
Readings(cs, NU) ==
  LET E == Prepared(cs, "esc", NU) IN
  IF HasEscape(cs) /\ ~HasPattern(E)
  THEN [bs \in {"esc", "keep"} |-> IF bs = "esc" THEN E ELSE Prepared(cs, "keep", NU)]
  ELSE [bs \in {"esc"} |-> E]

\* nothing is required of this word
UnspecifiedR(PP) == \E bs \in DOMAIN PP : \E i \in 1..Len(PP[bs]) : PP[bs][i].un

\* the allowed results, given the readings
AllowedR(cs, PP, T, cwd) == {GlobP(cs, PP[bs], T, cwd, dg) : bs \in DOMAIN PP, dg \in DgChoices(T)}

\* Only the part of the file system below /scope is described by T: a word
\* whose expansion reads a directory elsewhere cannot be judged.
OutsideR(PP, T, cwd, scope) ==
  \E bs \in DOMAIN PP : \E d \in Search(T, cwd, PP[bs], 1, <<>>).d : d = <<>> \/ d[1] # scope

\* The weak reading of a word some of whose components have no specified
\* meaning: such a component may stand for any directory entry (never "." or
\* ".."); the other components keep their meaning.
Weaken(P, NU) ==
  [i \in 1..Len(P) |->
     IF P[i].un THEN [lit |-> FALSE, name |-> "", atoms |-> P[i].atoms, ms |-> NU \ {".", ".."}, un |-> FALSE]
     ELSE P[i]]

\* every pathname a result for such a word may hold (lstat is enough: the
\* lenient reading of "existing")
WeakUniverse(PP, NU, T, cwd) ==
  UNION {{Join(ns) : ns \in Matched(Weaken(PP[bs], NU), T, cwd, TRUE)} : bs \in DOMAIN PP}

RECURSIVE StrictlySorted(_)
StrictlySorted(out) == Len(out) < 2 \/ (StrLess(out[1], out[2]) /\ StrictlySorted(Tail(out)))

WeakOK(out, cs, W) ==
  \/ out = <<Removed(cs)>>
  \/ Len(out) > 0 /\ StrictlySorted(out) /\ \A k \in 1..Len(out) : out[k] \in W

WeakOutsideR(PP, NU, T, cwd, scope) ==
  OutsideR([bs \in DOMAIN PP |-> Weaken(PP[bs], NU)], T, cwd, scope)

(***************************************************************************)
(* The property.  Allowed(us, T, cwd, noglob): the set of field lists that *)
(* pathname expansion may deliver for the word `us` in tree T with working *)
(* directory cwd.  (set -f / noglob: "pathname expansion is skipped".)     *)
(***************************************************************************)
Unspecified(us) == LET cs == FieldChars(us) IN UnspecifiedR(Readings(cs, {}))

Allowed(us, T, cwd, noglob) ==
  LET cs == FieldChars(us) IN
  IF noglob THEN {<<Removed(cs)>>} ELSE AllowedR(cs, Readings(cs, AllNames(T)), T, cwd)

ScansOutside(us, T, cwd, scope) ==
  OutsideR(Readings(FieldChars(us), AllNames(T)), T, cwd, scope)

\* For an Unspecified word: is `out` a result that the property tolerates,
\* and does judging it need directories that are not modelled?
WeakAllowed(out, us, T, cwd) ==
  LET cs == FieldChars(us)  NU == AllNames(T)  PP == Readings(cs, NU)
  IN WeakOK(out, cs, WeakUniverse(PP, NU, T, cwd))

WeakScansOutside(us, T, cwd, scope) ==
  LET NU == AllNames(T) IN WeakOutsideR(Readings(FieldChars(us), NU), NU, T, cwd, scope)
=============================================================================
