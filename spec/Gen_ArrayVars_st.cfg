SPECIFICATION Spec
CONSTANT Family = "s"
CONSTANT Slice = 1
CONSTANT Level = 2
CONSTANT Depth = 4
CONSTANT RLen = 0
VIEW View
INVARIANT Emit
