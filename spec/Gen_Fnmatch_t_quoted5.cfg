INIT Init
NEXT Next
VIEW view
CONSTANTS
  PNorm <- AlphaWild
  PLit <- LitCore
  PMacro <- NoChars
  PLen = 5
  SAlpha <- StrFull
  SLen = 3
  Kind = "match"
INVARIANT Emit
