SPECIFICATION Spec
CONSTANT Family = "s"
CONSTANT Slice = 1
CONSTANT Level = 1
CONSTANT Depth = 3
CONSTANT RLen = 0
VIEW View
INVARIANT Emit
