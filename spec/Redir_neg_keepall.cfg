SPECIFICATION Spec
CONSTANTS
  Cfg = "neg"
  Bug = "keepall"
  Sim = TRUE
INVARIANT TypeOK
INVARIANT Conforms
