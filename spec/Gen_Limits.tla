----------------------------- MODULE Gen_Limits -----------------------------
(***************************************************************************)
(* G08, P1 + P4 (enumeration, spec -> impl).  For one system (the platform *)
(* record and the initial state are read from the file IOEnv.PLATFORM,     *)
(* written by `yv-g08 platform`), TLC explores every state reachable from  *)
(* the initial one by at most Depth successful driver commands             *)
(*   family "ulimit": per focus resource, every pair soft <= hard over the *)
(*                    value alphabet of the resource;                      *)
(*   family "umask":  the masks of MaskSet;                                *)
(*   family "calls":  as "ulimit", by setrlimit calls                      *)
(* and for every such state                                                *)
(*   - checks the theorems below about every entry of the fan (a failure   *)
(*     is a defect of the specification = tool error),                     *)
(*   - prints one JSON line: the witness (commands leading to the state),  *)
(*     the read-back commands and, for every entry of the fan (a short     *)
(*     sequence of commands), the allowed alternatives: exit status class  *)
(*     and canonical standard output of every command and of every read-   *)
(*     back command afterwards.                                            *)
(* harness/g08 drives the shell (simulated or real) into the state by the  *)
(* witness and runs every entry there in a subshell.  An observation equal *)
(* to an alternative is accepted; any other observation - and every entry  *)
(* without a canonical text ("?") - is recorded and judged by              *)
(* Trace_Limits.tla, which holds the definition of what is allowed.        *)
(* Because every entry is run in every reachable state, sequences of any   *)
(* length through the explored states are covered.                         *)
(***************************************************************************)
EXTENDS Limits, Json, IOUtils

CONSTANTS Family,     \* "ulimit" | "umask" | "calls"
          Depth,
          Level       \* "quick" | "full"

VARIABLES foc, S, w
vars == <<foc, S, w>>

Plat == JsonDeserialize(IOEnv.PLATFORM)
Sys == Plat.sys
P == [sup |-> RangeOf(Plat.sup), priv |-> Plat.priv, inf |-> Plat.inf,
      ceil |-> [r \in Resources |-> Plat.ceil[r]], times |-> Plat.times]
InitState == MkState([r \in Resources |-> <<Plat.init[r][1], Plat.init[r][2]>>], Plat.umask)

ASSUME WellFormedState(InitState)
ASSUME P.sup \subseteq Resources /\ Canonical(P.inf)

RECURSIVE AsSeq(_)
AsSeq(f) == IF Len(f) = 0 THEN <<>> ELSE <<f[1]>> \o AsSeq(Tail(f))
RECURSIVE Flatten(_)
Flatten(qq) == IF qq = <<>> THEN <<>> ELSE qq[1] \o Flatten(Tail(qq))
\* f(x, y) for every x of X and y of Y, as a sequence
Cross(X, Y, f(_, _)) == [n \in 1..(Len(X) * Len(Y)) |-> f(X[((n - 1) \div Len(Y)) + 1], Y[((n - 1) % Len(Y)) + 1])]

(***************************************************************************)
(* Value alphabets (in the unit of the resource).                          *)
(***************************************************************************)
RECURSIVE DPred(_)
DPred(d) == IF d[Len(d)] > 0 THEN SubSeq(d, 1, Len(d) - 1) \o <<d[Len(d)] - 1>>
            ELSE DPred(SubSeq(d, 1, Len(d) - 1)) \o <<9>>
\* the largest operand whose scaled value is below RLIM_INFINITY, and the next
Big(r) == DStr(DDiv(DStrip(DPred(DigitsOf(P.inf))), Scale(r)).q)
Over(r) == DStr(DMulAdd(DigitsOf(Big(r)), 1, 1))

\* On the real system some limits take effect on the test process itself
\* (file size, descriptors, CPU seconds, memory): only generous values there.
Floors(r) ==
  CASE r = "f" -> <<"2097152", "4194304">> [] r = "n" -> <<"256", "1024">> [] r = "t" -> <<"100000", "200000">>
    [] r \in {"d", "v"} -> <<"16777216", "33554432">> [] r = "s" -> <<"8192", "16384">>
    [] r = "u" -> <<"100000", "200000">>
    [] OTHER -> <<>>
\* (Linux takes a file size limit of 2^63 bytes or more for a negative offset:
\* every write to a regular file then fails, also those of the test process;
\* a CPU limit of 2^55 seconds overflows the kernel's nanoseconds and kills it)
ValuesOf(r) ==
  (IF Sys = "real" /\ Floors(r) # <<>> THEN Floors(r) ELSE <<"0", "1", "5", "1000">>)
  \o <<IF Sys = "real" /\ Floors(r) # <<>> THEN DStr(DMulAdd(DigitsOf(Floors(r)[2]), 4096, 0)) ELSE Big(r), Over(r)>>
  \o (IF Scale(r) = 1 THEN <<P.inf>> ELSE <<>>)

ValuesTab == [r \in Resources |-> ValuesOf(r)]
Values(r) == ValuesTab[r]

Ring == <<"c", "f", "n", "t", "d", "s", "v", "l", "q", "e", "x", "m", "r", "R", "i", "u", "k", "b", "w">>
SupRing == SelectSeq(Ring, LAMBDA r : r \in P.sup)
OtherOf(r) ==
  LET i == CHOOSE i \in 1..Len(SupRing) : SupRing[i] = r IN SupRing[(i % Len(SupRing)) + 1]
Unsupported == SelectSeq(Ring, LAMBDA r : r \notin P.sup)

\* Every supported resource is a focus (so that the option letter, the unit
\* and the kernel's number of every resource are bound in the initial state);
\* the states below the initial one are explored for DeepFocus only.
DeepFocus ==
  IF Level # "quick" THEN Resources
  ELSE IF Family = "calls" THEN {"n", "c", "f"}
  ELSE IF Sys = "real" THEN {"c", "l", "q", "n", "f"} ELSE {"c", "d", "f", "n", "t", "e", "k"}
FocusSet == IF Family = "umask" THEN {""} ELSE P.sup

(***************************************************************************)
(* The fan of the ulimit family.                                           *)
(***************************************************************************)
Types == << <<>>, <<"-S">>, <<"-H">>, <<"-H", "-S">>, <<"-SH">> >>
Operands(r) == << <<>> >> \o [i \in 1..Len(Values(r)) |-> <<Values(r)[i]>>] \o << <<"unlimited">>, <<"hard">>, <<"soft">> >>
One(cmd) == <<cmd>>
Port(cmd) == << <<"set", "-o", "portable">>, cmd, <<"set", "+o", "portable">> >>

UlimitFan(r) ==
  LET v == Values(r)[2]
      o == OtherOf(r)
      R == "-" \o r
      L == "--" \o ResOf(r).long
  IN
  \* every limit type x every operand
  Cross(Types, Operands(r), LAMBDA t, x : One(<<"ulimit">> \o t \o <<R>> \o x))
  \* the default resource is -f
  \o (IF r = "f" THEN Cross(<< <<>>, <<"-S">>, <<"-H">> >>, Operands(r), LAMBDA t, x : One(<<"ulimit">> \o t \o x)) ELSE <<>>)
  \* spellings
  \o << One(<<"ulimit", "-H" \o r, v>>), One(<<"ulimit", R \o "S", v>>), One(<<"ulimit", "-S" \o r>>),
        One(<<"ulimit", L, v>>), One(<<"ulimit", L>>), One(<<"ulimit", "--hard", L>>), One(<<"ulimit", "--soft", R, v>>),
        One(<<"ulimit", "--hard", "--soft", R>>), One(<<"ulimit", R, "-H">>), One(<<"ulimit", R, R, v>>),
        One(<<"ulimit", R, "-S", "-S">>), One(<<"ulimit", R, "--", v>>), One(<<"ulimit", "-H", "--", v>>),
        One(<<"ulimit", R, "-" \o o>>), One(<<"ulimit", R, "-" \o o, v>>), One(<<"ulimit", "-a", R>>),
        One(<<"ulimit", R, v, v>>), One(<<"ulimit", R, "hard", "soft">>),
        One(<<"ulimit", R, "X">>), One(<<"ulimit", R, "1.0">>), One(<<"ulimit", R, "--", "-1">>), One(<<"ulimit", R, "">>),
        One(<<"ulimit", R, "12a">>), One(<<"ulimit", R, "Unlimited">>), One(<<"ulimit", R, "0" \o v>>),
        One(<<"ulimit", R, "+" \o v>>), One(<<"ulimit", "-z">>), One(<<"ulimit", R, "-z", v>>),
        One(<<"ulimit", "--nosuch">>), One(<<"ulimit", "--no-such=option">>), One(<<"ulimit", "-1">>) >>
  \* all resources
  \o << One(<<"ulimit", "-a">>), One(<<"ulimit", "-H", "-a">>), One(<<"ulimit", "-aS">>),
        One(<<"ulimit", "--all", "--hard">>), One(<<"ulimit", "-a", "-H", "-S">>), One(<<"ulimit", "-a", "0">>) >>
  \* another resource is not affected; unsupported resources
  \o << One(<<"ulimit", "-" \o o>>), One(<<"ulimit", "-H", "-" \o o>>), One(<<"ulimit", "-S", "-" \o o, "hard">>) >>
  \o Flatten([i \in 1..Len(Unsupported) |->
               << One(<<"ulimit", "-" \o Unsupported[i]>>), One(<<"ulimit", "-" \o Unsupported[i], "0">>) >>])
  \* the portable option (manual, Compatibility)
  \o << Port(<<"ulimit", R>>), Port(<<"ulimit", "-H", R>>), Port(<<"ulimit", "-S", R, v>>), Port(<<"ulimit", L>>),
        Port(<<"ulimit", "--hard", R>>), Port(<<"ulimit", "-H" \o r>>), Port(<<"ulimit", R, R>>),
        Port(<<"ulimit", "-H", "-H", R>>), Port(<<"ulimit", "-H", "-S", R, v>>), Port(<<"ulimit", "-H", "-S", R>>),
        Port(<<"ulimit", "-a", "-a">>), Port(<<"ulimit", "--all">>),
        << <<"set", "-o", "portable">>, <<"set", "+o", "portable">>, <<"ulimit", L>> >> >>

UlimitDrivers(r) ==
  Cross(<< <<>>, <<"-S">>, <<"-H">> >>, [i \in 1..Len(Values(r)) |-> Values(r)[i]] \o <<"unlimited">>,
        LAMBDA t, x : <<"ulimit">> \o t \o <<"-" \o r, x>>)
UlimitReadback(r) ==
  << <<"ulimit", "-S", "-" \o r>>, <<"ulimit", "-H", "-" \o r>>,
     <<"ulimit", "-S", "-" \o OtherOf(r)>>, <<"ulimit", "-H", "-" \o OtherOf(r)>>,
     <<"getrlimit", r>>, <<"getrlimit", OtherOf(r)>>, <<"sys_umask", "022">> >>

(***************************************************************************)
(* The fan of the umask family.                                            *)
(***************************************************************************)
Whos == <<"", "u", "g", "o", "a", "ug", "go", "uo", "ugo", "au">>
OpsSeq == <<"+", "-", "=">>
PermTexts == <<"", "r", "w", "x", "X", "rw", "rx", "wx", "rwx", "xr", "rX", "wX", "Xw", "s", "rs", "u", "g", "o">>
Actions == Cross(OpsSeq, PermTexts, LAMBDA o, p : o \o p)
Single == Cross(Whos, Actions, LAMBDA wh, a : wh \o a)

\* a smaller base for combinations
BaseWhos == <<"", "u", "g", "o", "go">>
BasePerms == <<"", "r", "w", "x", "X", "rx", "u", "g", "o">>
BaseActs == Cross(OpsSeq, BasePerms, LAMBDA o, p : o \o p)
BaseClauses == Cross(BaseWhos, BaseActs, LAMBDA wh, a : wh \o a)
TwoActs == Cross(BaseWhos, Cross(BaseActs, BaseActs, LAMBDA a, b : a \o b), LAMBDA wh, ab : wh \o ab)
TwoClauses == Cross(BaseClauses, BaseClauses, LAMBDA a, b : a \o "," \o b)
ThreeParts == <<"u=rwx,g=rx,o=", "u=rwx,go+r-w", "ug=rwx,g-w,o=", "g+u,o+rwx-u", "u=r+w,g=wx,o+xr", "a=,u+r,g=u,o=g",
                "u=rw,g=u,u-w", "a=rw,a+X", "a=,u+x,g+X,o=g", "u-x,go=X", "=r,u+w,go-r+x", "a+rwx,o-u", "u=g,g=o,o=u">>

\* every k-th element of a long sequence, starting at a position that depends
\* on the state: over the states every element is used
Sample(q, k, m) == LET n == (Len(q) + k - 1 - (m % k)) \div k IN [i \in 1..n |-> q[(m % k) + ((i - 1) * k) + 1]]

BadModes == <<"u", "u=r,", ",", ",u=r", "u=r,,g=w", "u=rz", "u=ug", "u=ru", "=ug", "8", "08", "0x1", "rwx", "ur=w", "u r",
              "u=r g=w", "u=r;g=w", "U=r", "u=R", "u*r", "a", "=,", "789", "u=r/g=w">>
OddModes == <<"u==r", "u+-r", "u=r=w", "+", "-", "=", "a=", "0", "7", "00", "0000", "0777", "00022", "1000", "7777",
              "u=t", "a+t", "u=s", "a=rwxs", "+X", "-X", "=X", "=u", "+g", "-o">>

\* (a mode starting with - needs -- in front)
UmCmd(mode) == IF StartsWith(mode, "-") THEN <<"umask", "--", mode>> ELSE <<"umask", mode>>
UmaskFan(m) ==
  [i \in 1..Len(Single) |-> One(UmCmd(Single[i]))]
  \o [i \in 1..Len(Sample(TwoActs, IF Level = "quick" THEN 24 ELSE 12, m)) |->
        One(UmCmd(Sample(TwoActs, IF Level = "quick" THEN 24 ELSE 12, m)[i]))]
  \o [i \in 1..Len(Sample(TwoClauses, IF Level = "quick" THEN 128 ELSE 64, m)) |->
        One(UmCmd(Sample(TwoClauses, IF Level = "quick" THEN 128 ELSE 64, m)[i]))]
  \o [i \in 1..Len(ThreeParts) |-> One(UmCmd(ThreeParts[i]))]
  \o [i \in 1..Len(BadModes) |-> One(<<"umask", BadModes[i]>>)]
  \o [i \in 1..Len(OddModes) |-> One(UmCmd(OddModes[i]))]
  \o << One(<<"umask">>), One(<<"umask", "-S">>), One(<<"umask", "--symbolic">>), One(<<"umask", "-S", "-S">>),
        One(<<"umask", "-SS">>), One(<<"umask", "--">>), One(<<"umask", "-S", "--">>), One(<<"umask", "-S", "027">>),
        One(<<"umask", "--symbolic", "u=rwx,g=rx,o=">>), One(<<"umask", "--", "-w">>), One(<<"umask", "--", "-r,+w">>),
        One(<<"umask", "-w">>), One(<<"umask", "-z">>), One(<<"umask", "--nosuch">>), One(<<"umask", "022", "077">>),
        One(<<"umask", "">>), One(<<"umask", "-S", "u=r", "g=w">>), One(<<"umask", "--symbolic=1">>),
        << <<"umask", "a-r">>, <<"umask", "a+r">> >>, << <<"umask", "u=rw,g=u">>, <<"umask", "-S">> >>,
        One(<<"times">>), One(<<"times", "x">>), << <<"times">>, <<"times">> >> >>

OctalMode(m) == OctalText(m)
MaskSet ==
  IF Level = "quick" THEN
    (IF Sys = "real" THEN {0, 511, 18, 23, 127, 73, 292, 146, 427, 365, 56, 7}
     ELSE {0, 511, 18, 23, 63, 127, 73, 438, 292, 146, 427, 15, 365, 448, 56, 7} \cup {m \in 0..511 : (m * 37) % 512 < 16})
  ELSE (IF Sys = "real" THEN {m \in 0..511 : m % 4 = 3} ELSE 0..511)
UmaskDrivers == {<<"umask", OctalText(m)>> : m \in MaskSet}
UmaskReadback == << <<"umask">>, <<"umask", "-S">>, <<"sys_umask", "000">> >>

(***************************************************************************)
(* The fan of the system-call family.                                      *)
(***************************************************************************)
RawValues(r) ==
  LET vs == Values(r) IN
  SelectSeq([i \in 1..Len(vs) |-> DStr(DMulAdd(DigitsOf(vs[i]), Scale(r), 0))],
            LAMBDA x : DCmp(DigitsOf(x), DigitsOf(P.inf)) < 0)
  \o (IF Sys = "real" /\ Floors(r) # <<>> THEN <<>> ELSE <<"777">>) \o <<Inf>>
CallFan(r) ==
  << One(<<"getrlimit", r>>), One(<<"getrlimit", OtherOf(r)>>) >>
  \o Cross(RawValues(r), RawValues(r), LAMBDA s, h : One(<<"setrlimit", r, s, h>>))
  \o Flatten([i \in 1..Len(Unsupported) |->
               << One(<<"getrlimit", Unsupported[i]>>), One(<<"setrlimit", Unsupported[i], "0", "0">>) >>])
  \o << One(<<"sys_umask", "000">>), One(<<"sys_umask", "777">>), One(<<"sys_umask", "027">>), One(<<"sys_getumask">>),
        << <<"sys_umask", "653">>, <<"sys_umask", "017">> >>, << <<"sys_umask", "653">>, <<"sys_getumask">>, <<"sys_getumask">> >> >>
CallDrivers(r) == RangeOf(Cross(RawValues(r), RawValues(r), LAMBDA s, h : <<"setrlimit", r, s, h>>))
CallReadback(r) == << <<"getrlimit", r>>, <<"getrlimit", OtherOf(r)>>, <<"sys_umask", "022">> >>

(***************************************************************************)
(* Running a short sequence of commands on the specification: the set of   *)
(* alternatives [o: <<st, out>> per command, S, unspec].                    *)
(***************************************************************************)
IsCall(cmd) == cmd[1] \in {"getrlimit", "setrlimit", "sys_umask", "sys_getumask"}
StepAlts(T, cmd) ==
  IF IsCall(cmd) THEN {[o |-> <<0, CallText(cmd, r)>>, S |-> r.S, unspec |-> FALSE] : r \in Calls(P, T, cmd)}
  ELSE {[o |-> <<x.st, Canon(P, x.fmt)>>, S |-> x.S, unspec |-> x.unspec] : x \in Outcomes(P, T, cmd)}

RECURSIVE RunAlts(_, _)
RunAlts(T, cmds) ==
  IF cmds = <<>> THEN {[os |-> <<>>, S |-> T, unspec |-> FALSE]}
  ELSE UNION {IF a.unspec THEN {[os |-> <<a.o>>, S |-> a.S, unspec |-> TRUE]}
              ELSE {[os |-> <<a.o>> \o b.os, S |-> b.S, unspec |-> b.unspec] : b \in RunAlts(a.S, Tail(cmds))}
              : a \in StepAlts(T, Head(cmds))}

RECURSIVE SetToSeq(_)
SetToSeq(X) == IF X = {} THEN <<>> ELSE LET x == CHOOSE x \in X : TRUE IN <<x>> \o SetToSeq(X \ {x})

\* constant tables (evaluated once)
FanTab == [r \in FocusSet |-> CASE Family = "ulimit" -> UlimitFan(r) [] Family = "calls" -> CallFan(r) [] OTHER -> <<>>]
DriverTab == [r \in FocusSet |-> CASE Family = "ulimit" -> RangeOf(UlimitDrivers(r)) [] Family = "calls" -> CallDrivers(r) [] OTHER -> UmaskDrivers]
ReadbackTab == [r \in FocusSet |-> CASE Family = "ulimit" -> UlimitReadback(r) [] Family = "calls" -> CallReadback(r) [] OTHER -> UmaskReadback]
Fan == IF Family = "umask" THEN UmaskFan(S.umask) ELSE FanTab[foc]
Readback == ReadbackTab[foc]
Drivers == DriverTab[foc]

Entry(cmds, rbk) ==
  LET alts == RunAlts(S, AsSeq(cmds) \o rbk)
      n == Len(cmds)
  IN [c |-> AsSeq(cmds),
      u |-> \E a \in alts : a.unspec,
      alts |-> SetToSeq({[o |-> SubSeq(a.os, 1, n), rb |-> AsSeq([i \in 1..(Len(a.os) - n) |-> a.os[n + i][2]])] : a \in {a \in alts : ~a.unspec}})]

(***************************************************************************)
(* Exploration.                                                            *)
(***************************************************************************)
Init == foc \in FocusSet /\ S = InitState /\ w = <<>>

Next ==
  /\ Len(w) < Depth
  /\ (Family = "umask" \/ foc \in DeepFocus)
  /\ \E cmd \in Drivers :
       LET alts == StepAlts(S, cmd) IN
       /\ Cardinality(alts) = 1
       /\ \E a \in alts : ~a.unspec /\ a.o[1] = 0 /\ a.S # S /\ S' = a.S
       /\ w' = Append(w, cmd)
  /\ UNCHANGED foc

View == <<foc, S>>

(***************************************************************************)
(* Theorems (about the specification; checked on every explored state).    *)
(***************************************************************************)
\* every outcome of the first command of every entry, in this state
FirstOutcomes(fan) == UNION {IF IsCall(fan[i][1]) THEN {} ELSE Outcomes(P, S, fan[i][1]) : i \in 1..Len(fan)}

ThmGeneral(fan) ==
  \A o \in FirstOutcomes(fan) :
    /\ WellFormedState(o.S)
    /\ (o.st = 1 => o.S = S /\ o.fmt = FNone)                       \* a failure changes nothing
    /\ (~P.priv => \A r \in Resources : LimLE(Hard(o.S, r), Hard(S, r)))   \* hard limits only go down
    /\ (Canon(P, o.fmt) # "?" => Matches(P, S, o.fmt, Canon(P, o.fmt)))
    /\ (o.fmt.k \in {"text", "octal", "sym", "table", "times"} => o.S = S)  \* showing is pure

The1(T, cmd) == CHOOSE o \in Outcomes(P, T, cmd) : TRUE
MaskAfter(m, mode) == The1(MkState(NoLimits, m), <<"umask", "--", mode>>).S.umask
XFree(mode) == "X" \notin RangeOf(Chars(mode))
UM == S.umask
\* the output of umask and of umask -S restores the mask from anywhere
ThmU1 == LET m == UM IN
  /\ \A m2 \in {0, 511, m, 365} : MaskAfter(m2, SymText(m)) = m /\ MaskAfter(m2, OctalText(m)) = m
  /\ MatchSym(m, SymText(m) \o "\n") /\ MatchOctal(m, OctalText(m) \o "\n")
  /\ \A m2 \in (0..511) \ {m} : m2 % 61 = m % 61 => ~MatchSym(m2, SymText(m) \o "\n") /\ ~MatchOctal(m2, OctalText(m) \o "\n")
\* u=rwx,g=rx,o= is 027; a+r after a-r leaves r on for everybody and nothing else changed
ThmU2 == LET m == UM IN
  /\ MaskAfter(m, "u=rwx,g=rx,o=") = 23
  /\ LET p == PermsOf(MaskAfter(MaskAfter(m, "a-r"), "a+r")) IN ClassBits(2) \subseteq p /\ p \ ClassBits(2) = PermsOf(m) \ ClassBits(2)
\* clauses are applied one after the other, left to right
ThmU3 == LET m == UM IN
  \A i \in 1..Len(Sample(TwoClauses, 64, m)) :
       LET t == Sample(TwoClauses, 64, m)[i]
           parts == Split(Chars(t), ",")
       IN XFree(t) => MaskAfter(m, t) = MaskAfter(MaskAfter(m, Concat(parts[1])), Concat(parts[2]))
\* actions of one clause too
ThmU4 == LET m == UM IN
  \A i \in 1..Len(Sample(TwoActs, 16, m)) :
       LET t == Sample(TwoActs, 16, m)[i]
           cl == ParseMode(t).clauses[1]
           wh == Concat(cl.who)
           a1 == wh \o cl.acts[1].op \o Concat(cl.acts[1].perms)
           a2 == wh \o cl.acts[2].op \o Concat(cl.acts[2].perms)
       IN XFree(t) => MaskAfter(m, t) = MaskAfter(MaskAfter(m, a1), a2)
\* a = ugo = no who; the who classes are independent for literal permissions
ThmU5 == LET m == UM IN
  \A i \in 1..Len(Actions) :
       LET a == Actions[i] IN
       /\ MaskAfter(m, "a" \o a) = MaskAfter(m, a) /\ MaskAfter(m, "ugo" \o a) = MaskAfter(m, a)
       /\ (RangeOf(Chars(a)) \cap {"u", "g", "o", "X"} = {} => MaskAfter(m, "u" \o a \o ",g" \o a \o ",o" \o a) = MaskAfter(m, a))
\* = is idempotent for literal permissions
ThmU6 == LET m == UM IN
  \A i \in 1..Len(Single) :
       LET t == Single[i] IN
       ("=" \in RangeOf(Chars(t)) /\ RangeOf(Chars(t)) \cap {"X", "u", "g", "o"} = {} =>
             MaskAfter(MaskAfter(m, "a" \o t), "a" \o t) = MaskAfter(m, "a" \o t))
ThmUmask == ThmU1 /\ ThmU2 /\ ThmU3 /\ ThmU4 /\ ThmU5 /\ ThmU6

ThmUlimit ==
  Family = "ulimit" =>
  LET r == foc
      R == "-" \o r
  IN \A i \in 1..Len(Values(r)) :
       LET v == Values(r)[i]
           o == The1(S, <<"ulimit", R, v>>)
           oS == The1(S, <<"ulimit", "-S", R, v>>)
           oHS == The1(S, <<"ulimit", "-H", "-S", R, v>>)
       IN /\ Cardinality(Outcomes(P, S, <<"ulimit", R, v>>)) = 1
          \* neither -H nor -S: both limits; same as both options
          /\ o = oHS
          \* after a successful setting the value is what is shown, soft and hard
          /\ (o.st = 0 /\ ~o.unspec =>
                /\ Outcomes(P, o.S, <<"ulimit", R>>) = Ok(FText(v \o "\n"), o.S)
                /\ Outcomes(P, o.S, <<"ulimit", "-H", R>>) = Ok(FText(v \o "\n"), o.S))
          \* -S: the hard limit stays, and the operation is allowed iff below it
          /\ (~oS.unspec => Hard(oS.S, r) = Hard(S, r))
          /\ (oS.st = 0 /\ ~oS.unspec => Outcomes(P, oS.S, <<"ulimit", "-S", R, "hard">>) = Ok(FNone, [oS.S EXCEPT !.rlim[r] = <<Hard(S, r), Hard(S, r)>>]))

Emit ==
  LET fan == Fan
      rbk == Readback
  IN
  /\ ThmGeneral(fan)
  /\ (Family = "umask" /\ Sys = "sim" => ThmUmask)    \* (about the specification only: once)
  /\ ThmUlimit
  /\ PrintT(ToJson([fam |-> Family, foc |-> foc, w |-> w, rb |-> rbk,
                    s |-> [soft |-> IF foc = "" THEN "" ELSE Soft(S, foc), hard |-> IF foc = "" THEN "" ELSE Hard(S, foc), umask |-> S.umask],
                    fan |-> AsSeq([i \in 1..Len(fan) |-> Entry(fan[i], rbk)])]))

Spec == Init /\ [][Next]_vars
=============================================================================
