CONSTANT Family = "w"
CONSTANT Slice = 24
CONSTANT Level = 1
CONSTANT Depth = 0
CONSTANT RLen = 0
SPECIFICATION Spec
