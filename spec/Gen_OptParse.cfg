\* sample configuration; lib/checks/c20.py writes its own (core tables + a
\* seeded sample of the family, see OptTables.tla) into the work directory
SPECIFICATION Spec
CONSTANTS
  Cases = {7, 119, 10047, 56000, 160007, 248831}
  MaxLen = 4
INVARIANT Emit
