---------------------------- MODULE Calib_Tilde ----------------------------
(***************************************************************************)
(* Calibration of the G04 (A) oracle: the worked examples of               *)
(* docs/src/language/words/tilde.md and the cases of the POSIX conformance *)
(* script yash-cli/tests/scripted_test/tilde-p.sh, transcribed by hand.    *)
(* A failing ASSUME is a tool error (the oracle is wrong), not a violation.*)
(***************************************************************************)
EXTENDS Tilde

L(s) == WLit(s)
St == [x |-> Val("X"), y |-> Unset, pos |-> <<>>, ifs |-> Val(" \t\n"), nounset |-> FALSE, st |-> "0"]
Users == << [n |-> "bob", d |-> "/home/bob"], [n |-> "clara", d |-> "/home/clara"] >>
E(home) == [home |-> Val(home), users |-> Users]
NoHome == [home |-> Unset, users |-> Users]
F(ctx, w, env) == LET o == Outcome(ctx, w, St, env) IN IF o.k = "ok" THEN o.f ELSE <<"?skip?">>

\* --- tilde.md ---------------------------------------------------------------
ASSUME F("arg", L("~"), E("/home/alice")) = <<"/home/alice">>
ASSUME F("arg", L("~/Documents"), E("/home/alice")) = <<"/home/alice/Documents">>
ASSUME F("arg", L("~bob"), E("/home/alice")) = <<"/home/bob">>
ASSUME F("arg", L("~bob/Documents"), E("/home/alice")) = <<"/home/bob/Documents">>
\* PATH=~/bin:~bob/bin:~clara/bin:/usr/bin
ASSUME F("assign", L("~/bin:~bob/bin:~clara/bin:/usr/bin"), E("/home/alice"))
         = <<"/home/alice/bin:/home/bob/bin:/home/clara/bin:/usr/bin">>
\* HOME=/ ; echo ~/tmp
ASSUME F("arg", L("~/tmp"), E("/")) = <<"/tmp">>
\* echo ~'b'ob ; echo ~\/
ASSUME F("arg", L("~") \o WSq("b") \o L("ob"), E("/home/alice")) = <<"~bob">>
ASSUME F("arg", L("~") \o WBs("/"), E("/home/alice")) = <<"~/">>
\* "the shell ignores any errors during tilde expansion and leaves the tilde as is"
ASSUME F("arg", L("~nobody/x"), E("/home/alice")) = <<"~nobody/x">>
ASSUME F("arg", L("~/x"), NoHome) = <<"~/x">>
\* `~+` is not (yet) supported
ASSUME F("arg", L("~+"), E("/home/alice")) = <<"~+">>

\* --- tilde-p.sh (HOME=/foo/bar) ----------------------------------------------
H == E("/foo/bar")
ASSUME F("arg", WBs("~") \o WSp \o WSq("~") \o WSp \o WDq(L("~")) \o WSp \o L("~") \o WBs("/"), H) = <<"~", "~", "~", "~/">>
ASSUME F("arg", L("~"), H) = <<"/foo/bar">>
ASSUME F("arg", L("~/") \o WSp \o L("~/baz"), H) = <<"/foo/bar/", "/foo/bar/baz">>
ASSUME F("assign", WBs("~"), H) = <<"~">> /\ F("assign", WSq("~"), H) = <<"~">> /\ F("assign", WDq(L("~")), H) = <<"~">>
ASSUME F("assign", L("~") \o WBs("/"), H) = <<"~/">>
ASSUME F("assign", L("~"), H) = <<"/foo/bar">>
ASSUME F("assign", L("~/"), H) = <<"/foo/bar/">> /\ F("assign", L("~/baz"), H) = <<"/foo/bar/baz">>
ASSUME F("assign", L("~:"), H) = <<"/foo/bar:">> /\ F("assign", L("~:baz"), H) = <<"/foo/bar:baz">>
ASSUME F("assign", L(":~"), H) = <<":/foo/bar">> /\ F("assign", L("baz:~"), H) = <<"baz:/foo/bar">>
ASSUME F("assign", L(":~:"), H) = <<":/foo/bar:">> /\ F("assign", L("baz:~:baz"), H) = <<"baz:/foo/bar:baz">>
ASSUME F("assign", L("~:x:~/y:~:~"), H) = <<"/foo/bar:x:/foo/bar/y:/foo/bar:/foo/bar">>
\* empty HOME; HOME with trailing slash; HOME=/ ; HOME=//
ASSUME F("arg", L("~"), E("")) = <<"">>
ASSUME F("arg", L("~") \o WSp \o L("~/~"), E("/foo/bar/")) = <<"/foo/bar/", "/foo/bar/~">>
ASSUME F("arg", L("~") \o WSp \o L("~/foo"), E("/")) = <<"/", "/foo">>
ASSUME F("arg", L("~") \o WSp \o L("~/foo"), E("//")) = <<"//", "//foo">>
\* named: quoted name not expanded; expanded at the end, before a slash, before / after / between colons
B == [home |-> Val("/h"), users |-> << [n |-> "me", d |-> "/home/me"] >>]
ASSUME F("arg", L("~") \o WBs("m") \o L("e") \o WSp \o L("~") \o WDq(L("me")) \o WSp \o L("~") \o WSq("me") \o WSp \o L("~me") \o WBs("/"), B)
         = <<"~me", "~me", "~me", "~me/">>
ASSUME F("arg", L("~me"), B) = <<"/home/me">>
ASSUME F("arg", L("~me/") \o WSp \o L("~me/foo"), B) = <<"/home/me/", "/home/me/foo">>
ASSUME F("assign", L("~me:"), B) = <<"/home/me:">> /\ F("assign", L("foo:~me:bar"), B) = <<"foo:/home/me:bar">>
ASSUME F("assign", L("~me:x:~me/y:~me:~me"), B) = <<"/home/me:x:/home/me/y:/home/me:/home/me">>
\* the result is subject to neither field splitting, further expansion nor pathname expansion
ASSUME F("arg", L("~"), E("/path/with  space")) = <<"/path/with  space">>
ASSUME F("arg", L("~"), E("$x")) = <<"$x">>
ASSUME F("arg", L("~"), E("*")) = <<"*">>
\* simple.md: declaration utilities expand name=value arguments as assignments; others do not
ASSUME F("export", L("~:~/b"), H) = <<"/foo/bar:/foo/bar/b">>
ASSUME F("arg", L("z=~:~/b"), H) = <<"z=~:~/b">>
\* a tilde resulting from an expansion is not expanded; no tilde expansion in here-documents
ASSUME F("arg", WPar("x"), [home |-> Val("/h"), users |-> Users]) = <<"X">>
ASSUME F("here", L("~") \o WSp \o WBs("~") \o WSp \o WDq(L("~")), H) = <<"~ \\~ \"~\"">>
=============================================================================
