-------------------------------- MODULE Fds --------------------------------
(***************************************************************************)
(* Kernel-level model of one process's descriptor table (C09).             *)
(*                                                                         *)
(* A kernel state is a record                                              *)
(*   k.fd   : [open descriptors -> [id, cx]]   descriptor -> open file      *)
(*            description identity + FD_CLOEXEC flag                        *)
(*   k.ofd  : [ids -> [path, r, w, app, off, data]]   open file descriptions*)
(*            (access mode, O_APPEND, offset; `data` only for the anonymous *)
(*            temporary file of a here-document, whose path is "#")         *)
(*   k.file : [Paths -> [kind, data]]   kind in reg | dir | none | chr      *)
(*   k.lim  : RLIMIT_NOFILE (soft): a descriptor number >= lim cannot be    *)
(*            allocated (EMFILE) nor be the target of dup2 (EBADF)          *)
(*   k.next : next never-used open-file-description identity                *)
(*                                                                         *)
(* The operators are the POSIX calls the shell uses on descriptors:        *)
(* open (flags O_CREAT, O_EXCL, O_TRUNC, O_APPEND), fcntl(F_DUPFD[_CLOEXEC])*)
(* = KDup, dup2, close, fcntl(F_GETFD), fstat, write; descriptor numbers   *)
(* are allocated lowest-free (XSH 2.6 "File Descriptor Allocation").       *)
(* File contents are sequences of fixed-size units (tokens), so offsets    *)
(* are counted in units.                                                   *)
(*                                                                         *)
(* Every operator returns [ok, err, k, fd]: the new kernel state and the   *)
(* allocated descriptor (or -1).                                           *)
(*                                                                         *)
(* Choices POSIX leaves open are parameters:                               *)
(*   sideFirst  TRUE: open() creates/truncates before it discovers EMFILE  *)
(*              (what yash-env's VirtualSystem does); FALSE: EMFILE first  *)
(*              (what Linux does).                                         *)
(***************************************************************************)
EXTENDS Integers, Sequences, FiniteSets, TLC

NoLimit == 9999
Gap     == "00"          \* a unit of zero bytes (hole left by writing past EOF)

KRes(ok, err, k, fd) == [ok |-> ok, err |-> err, k |-> k, fd |-> fd]

KIsOpen(k, f) == f \in DOMAIN k.fd

\* lowest descriptor >= min that is not open
KLowestFree(k, min) ==
  CHOOSE n \in min .. (min + Cardinality(DOMAIN k.fd)) :
      /\ n \notin DOMAIN k.fd
      /\ \A m \in min .. (n - 1) : m \in DOMAIN k.fd

\* restrict a function to a subset of its domain
KRestrict(f, S) == [x \in S |-> f[x]]

\* drop open file descriptions no descriptor refers to any more
KGc(k) == LET live == {k.fd[f].id : f \in DOMAIN k.fd}
          IN [k EXCEPT !.ofd = KRestrict(@, live \cap DOMAIN @)]

KSetFd(k, f, e) == [k EXCEPT !.fd = (f :> e) @@ @]

KAlloc(k, min) == LET n == KLowestFree(k, min) IN IF n >= k.lim THEN -1 ELSE n

\* fcntl(from, F_DUPFD / F_DUPFD_CLOEXEC, min)
KDup(k, from, min, cx) ==
  IF ~KIsOpen(k, from) THEN KRes(FALSE, "EBADF", k, -1)
  ELSE LET n == KAlloc(k, min)
       IN IF n < 0 THEN KRes(FALSE, "EMFILE", k, -1)
          ELSE KRes(TRUE, "", KSetFd(k, n, [id |-> k.fd[from].id, cx |-> cx]), n)

\* dup2(from, to): the copy never has FD_CLOEXEC; from = to is a no-op
KDup2(k, from, to) ==
  IF ~KIsOpen(k, from) \/ to >= k.lim THEN KRes(FALSE, "EBADF", k, -1)
  ELSE IF from = to THEN KRes(TRUE, "", k, to)
  ELSE KRes(TRUE, "", KGc(KSetFd(k, to, [id |-> k.fd[from].id, cx |-> FALSE])), to)

\* close(f); closing a closed descriptor changes nothing
KClose(k, f) ==
  IF ~KIsOpen(k, f) THEN KRes(FALSE, "EBADF", k, -1)
  ELSE KRes(TRUE, "", KGc([k EXCEPT !.fd = KRestrict(@, DOMAIN @ \ {f})]), -1)

KCloexec(k, f) == KIsOpen(k, f) /\ k.fd[f].cx
KOfd(k, f)     == k.ofd[k.fd[f].id]
KReadable(k, f) == KIsOpen(k, f) /\ KOfd(k, f).r
KWritable(k, f) == KIsOpen(k, f) /\ KOfd(k, f).w
\* fstat(f).st_mode is a regular file
KIsRegular(k, f) == KIsOpen(k, f) /\ KOfd(k, f).path \in DOMAIN k.file
                    /\ k.file[KOfd(k, f).path].kind = "reg"

NewOfd(path, r, w, app, data) ==
  [path |-> path, r |-> r, w |-> w, app |-> app, off |-> 0, data |-> data]

\* install a new open file description at the lowest free descriptor
KInstall(k, o) ==
  LET n == KAlloc(k, 0)
  IN IF n < 0 THEN KRes(FALSE, "EMFILE", k, -1)
     ELSE KRes(TRUE, "",
               [k EXCEPT !.fd = (n :> [id |-> k.next, cx |-> FALSE]) @@ @,
                         !.ofd = (k.next :> o) @@ @,
                         !.next = @ + 1], n)

\* open(path, acc | flags): acc in "r" | "w" | "rw"
KOpen(k, path, acc, creat, excl, trunc, app, sideFirst) ==
  LET kind   == k.file[path].kind
      wr     == acc \in {"w", "rw"}
      err    == IF kind # "none" /\ creat /\ excl THEN "EEXIST"
                ELSE IF kind = "none" /\ ~creat THEN "ENOENT"
                ELSE IF kind = "dir" /\ wr THEN "EISDIR"
                ELSE ""
      file2  == IF kind = "none" THEN [k.file EXCEPT ![path] = [kind |-> "reg", data |-> <<>>]]
                ELSE IF kind = "reg" /\ trunc THEN [k.file EXCEPT ![path].data = <<>>]
                ELSE k.file
      k2     == [k EXCEPT !.file = file2]
      o      == NewOfd(path, acc \in {"r", "rw"}, wr, app, <<>>)
      full   == KAlloc(k, 0) < 0
  IN IF err # "" THEN KRes(FALSE, err, k, -1)
     ELSE IF full THEN KRes(FALSE, "EMFILE", IF sideFirst THEN k2 ELSE k, -1)
     ELSE KInstall(k2, o)

\* anonymous temporary file holding `content`, open for reading and writing,
\* offset 0 (what a here-document is read from)
KOpenTmp(k, content) == KInstall(k, NewOfd("#", TRUE, TRUE, FALSE, content))

\* content after writing one unit `tok` at unit offset `off`
PutAt(data, off, tok) ==
  LET padded == IF off > Len(data)
                THEN data \o [i \in 1 .. (off - Len(data)) |-> Gap] ELSE data
  IN IF off + 1 <= Len(padded) THEN [padded EXCEPT ![off + 1] = tok]
     ELSE Append(padded, tok)

\* write(f, one unit)
KWrite(k, f, tok) ==
  IF ~KWritable(k, f) THEN KRes(FALSE, "EBADF", k, -1)
  ELSE LET id == k.fd[f].id
           o  == k.ofd[id]
       IN IF o.path = "#"
          THEN KRes(TRUE, "", [k EXCEPT !.ofd[id].data = PutAt(o.data, o.off, tok),
                                        !.ofd[id].off = o.off + 1], -1)
          ELSE IF o.path \notin DOMAIN k.file THEN KRes(TRUE, "", k, -1)
          ELSE LET fl  == k.file[o.path]
                   pos == IF o.app THEN Len(fl.data) ELSE o.off
               IN IF fl.kind = "dir" THEN KRes(FALSE, "EISDIR", k, -1)
                  ELSE KRes(TRUE, "", [k EXCEPT !.file[o.path].data = PutAt(fl.data, pos, tok),
                                                !.ofd[id].off = pos + 1], -1)

\* the descriptor table as a sequence of entries, ascending by descriptor
KTable(k) ==
  LET S == DOMAIN k.fd
      nth(i) == CHOOSE f \in S : Cardinality({g \in S : g < f}) = i - 1
      ent(f) == LET o == KOfd(k, f)
                IN [fd |-> f, id |-> k.fd[f].id, cx |-> k.fd[f].cx, r |-> o.r, w |-> o.w,
                    app |-> o.app, off |-> o.off, path |-> o.path, data |-> o.data]
  IN [i \in 1 .. Cardinality(S) |-> ent(nth(i))]

\* the files as a sequence of entries (order irrelevant to the reader)
KFiles(k, order) == [i \in 1 .. Len(order) |->
                       [path |-> order[i], kind |-> k.file[order[i]].kind,
                        data |-> k.file[order[i]].data]]
=============================================================================
