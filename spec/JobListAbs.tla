----------------------------- MODULE JobListAbs -----------------------------
(***************************************************************************)
(* Abstract specification of the job table (property C12), written from    *)
(* the documented contract: the doc comments of the public API in          *)
(* yash-env/src/job.rs and docs/src/interactive/job_control.md.            *)
(*                                                                         *)
(* The abstract state is exactly what the public API exposes:              *)
(*   [jobs : Seq([i, pid, st, ch, ex, own])   (ascending index),           *)
(*    cur, prev : index or -1,  by : Seq(index or -1) (find_by_pid),       *)
(*    last : pid ($!),  len]                                               *)
(* Each operation is a RELATION Step(pre, op, res, post); wherever the     *)
(* documentation leaves a choice ("another job is selected") the relation  *)
(* is non-deterministic and only the invariants constrain the outcome.     *)
(* Conformance verdicts (DESIGN.md 4.2) are membership in this relation.   *)
(***************************************************************************)
EXTENDS Integers, Sequences, FiniteSets, TLC

None == -1

Idx(s)      == {s.jobs[k].i : k \in 1..Len(s.jobs)}
J(s, i)     == s.jobs[CHOOSE k \in 1..Len(s.jobs) : s.jobs[k].i = i]
Susp(j)     == j.st = "S"
Finished(j) == j.st \in {"E", "K"}
SuspIdx(s)  == {i \in Idx(s) : Susp(J(s, i))}
PidOf(s)    == {s.jobs[k].pid : k \in 1..Len(s.jobs)}

-----------------------------------------------------------------------------
\* The invariants of the property, on an observed state
WellFormed(s) ==
  /\ s.len = Len(s.jobs)
  /\ \A k \in 1..Len(s.jobs) - 1 : s.jobs[k].i < s.jobs[k + 1].i           \* iter() in index order
  /\ \A k \in 1..Len(s.jobs) : s.jobs[k].i >= 0 /\ s.jobs[k].st \in {"R", "S", "E", "K"}

NonEmptyHasCurrent(s)  == Idx(s) # {} => s.cur \in Idx(s)
EmptyHasNone(s)        == Idx(s) = {} => s.cur = None /\ s.prev = None
TwoHavePrevious(s)     == Cardinality(Idx(s)) >= 2 => s.prev \in Idx(s) /\ s.prev # s.cur
OneHasNoPrevious(s)    == Cardinality(Idx(s)) <= 1 => s.prev = None
PrevIsAJob(s)          == s.prev # None => s.prev \in Idx(s) /\ s.prev # s.cur
CurrentIsSuspended(s)  == SuspIdx(s) # {} => s.cur \in SuspIdx(s)
PreviousIsSuspended(s) == Cardinality(SuspIdx(s)) >= 2 => s.prev \in SuspIdx(s)
\* each process ID designates at most one job, and find_by_pid is exact
PidsUnique(s) ==
  /\ \A a, b \in 1..Len(s.jobs) : s.jobs[a].pid = s.jobs[b].pid => a = b
  /\ \A p \in 1..Len(s.by) : IF p \in PidOf(s)
                              THEN s.by[p] \in Idx(s) /\ J(s, s.by[p]).pid = p
                              ELSE s.by[p] = None

-----------------------------------------------------------------------------
\* Job IDs (yash-env/src/job/id.rs module documentation and
\* docs/src/interactive/job_control.md "Job IDs"): `%`, `%%`, `%+` the current
\* job; `%-` the previous job; `%n` job number n (index n-1); `%name` the job
\* whose name begins with name; `%?name` the job whose name contains name; a
\* name matching more than one job is ambiguous; a string without the leading
\* `%` is not a job ID.  Text crosses the boundary as sequences of
\* one-character strings.  Results: index, -2 not found, -3 ambiguous, -4 not
\* a job ID.
NotFound == -2
Ambiguous == -3
NotAJobId == -4

IsPrefixOf(p, n) == Len(p) <= Len(n) /\ SubSeq(n, 1, Len(p)) = p
IsInfixOf(p, n)  == \E k \in 1..(Len(n) - Len(p) + 1) : SubSeq(n, k, k + Len(p) - 1) = p
Digits == {"0", "1", "2", "3", "4", "5", "6", "7", "8", "9"}
DigitVal(c) == CASE c = "0" -> 0 [] c = "1" -> 1 [] c = "2" -> 2 [] c = "3" -> 3 [] c = "4" -> 4
                 [] c = "5" -> 5 [] c = "6" -> 6 [] c = "7" -> 7 [] c = "8" -> 8 [] c = "9" -> 9
RECURSIVE NumVal(_)
NumVal(t) == IF t = <<>> THEN 0 ELSE 10 * NumVal(SubSeq(t, 1, Len(t) - 1)) + DigitVal(t[Len(t)])

OneOf(s, S) == IF S = {} THEN NotFound ELSE IF Cardinality(S) > 1 THEN Ambiguous ELSE CHOOSE i \in S : TRUE

ResolveId(s, id) ==
  IF id = <<>> \/ id[1] # "%" THEN NotAJobId
  ELSE LET t == SubSeq(id, 2, Len(id))
       IN IF t = <<>> \/ t = <<"%">> \/ t = <<"+">> THEN (IF s.cur = None THEN NotFound ELSE s.cur)
          ELSE IF t = <<"-">> THEN (IF s.prev = None THEN NotFound ELSE s.prev)
          ELSE IF t[1] = "?" THEN OneOf(s, {i \in Idx(s) : IsInfixOf(SubSeq(t, 2, Len(t)), J(s, i).name)})
          ELSE IF (\A k \in 1..Len(t) : t[k] \in Digits) /\ NumVal(t) > 0
               THEN (IF NumVal(t) - 1 \in Idx(s) THEN NumVal(t) - 1 ELSE NotFound)
          ELSE OneOf(s, {i \in Idx(s) : IsPrefixOf(t, J(s, i).name)})

\* the job IDs the harness resolves in every observed state, in its order (JOB_IDS in harness/c12)
JobIds == << <<"%">>,
            <<"%", "%">>,
            <<"%", "+">>,
            <<"%", "-">>,
            <<"%", "1">>,
            <<"%", "2">>,
            <<"%", "3">>,
            <<"%", "4">>,
            <<"%", "5">>,
            <<"%", "0">>,
            <<"%", "a", "b">>,
            <<"%", "a", "b", "c">>,
            <<"%", "b">>,
            <<"%", "c">>,
            <<"%", "?", "a", "b">>,
            <<"%", "?", "c">>,
            <<"%", "?", "x">>,
            <<"%", "?", "z", "z">>,
            <<"%", "z">>,
            <<"a", "b">> >>

IdsResolve(s) == /\ Len(s.ids) = Len(JobIds)
                 /\ \A k \in 1..Len(JobIds) : s.ids[k] = ResolveId(s, JobIds[k])

Consistent(s) ==
  /\ IdsResolve(s)
  /\ WellFormed(s) /\ NonEmptyHasCurrent(s) /\ EmptyHasNone(s) /\ TwoHavePrevious(s)
  /\ OneHasNoPrevious(s) /\ PrevIsAJob(s) /\ CurrentIsSuspended(s) /\ PreviousIsSuspended(s)
  /\ PidsUnique(s)

-----------------------------------------------------------------------------
\* Frame conditions

\* jobs other than those in `except` are untouched, keep their numbers
Untouched(pre, post, except) ==
  \A i \in Idx(pre) \ except : i \in Idx(post) /\ J(post, i) = J(pre, i)

\* a job's number never changes while the job exists
StableNumbers(pre, post) ==
  \A i \in Idx(pre) : \A k \in Idx(post) : J(post, k).pid = J(pre, i).pid => k = i

\* equality of observed states; the resolved job IDs are logged for post-states
\* only and are judged by IdsResolve
SameState(a, b) == [a EXCEPT !.ids = <<>>] = [b EXCEPT !.ids = <<>>]
SameSelection(pre, post) == post.cur = pre.cur /\ post.prev = pre.prev
SameLast(pre, post)      == post.last = pre.last

-----------------------------------------------------------------------------
\* Operations

\* JobList::insert  (quantifier: fresh pid or pid of a finished job)
\* "If there already is a job that has the same process ID as that of the new
\* job, the existing job is silently removed."  Whether the new job takes over
\* the removed job's index is not documented, so it is left open; when the
\* removed job was the current or previous job only the invariants constrain
\* the new selection.
Insert(pre, op, res, post) ==
  LET p == op.p
      reuse == p \in PidOf(pre)
      old == IF reuse THEN pre.by[p] ELSE None
      base == Idx(pre) \ {old}
      k == res
      newS == op.s = "S"
  IN /\ k >= 0 /\ k \notin base                                  \* "a unique index"
     /\ Idx(post) = base \cup {k}
     /\ LET j == J(post, k)
        IN j.i = k /\ j.pid = p /\ j.st = op.s /\ j.ch = TRUE /\ j.ex = "N" /\ j.own = TRUE
     /\ Untouched(pre, post, {old, k})
     /\ SameLast(pre, post)
     \* selection, as the doc comment of insert states it
     /\ IF pre.cur \notin base THEN (base = {} => post.cur = k)
        ELSE IF newS /\ ~Susp(J(pre, pre.cur))
        THEN /\ post.cur = k                                      \* new job becomes current
             /\ post.prev = pre.cur                               \* (set_current_job: old current becomes previous)
        ELSE /\ post.cur = pre.cur
             /\ IF pre.prev \notin base THEN TRUE                 \* a previous job must now exist (invariant)
                ELSE IF newS /\ Susp(J(pre, pre.cur)) /\ ~Susp(J(pre, pre.prev))
                THEN post.prev = k                                 \* new job becomes previous
                ELSE post.prev = pre.prev

\* JobList::remove
RemoveOne(pre, i, post) ==
  /\ Idx(post) = Idx(pre) \ {i}
  /\ Untouched(pre, post, {i})
  /\ IF i = pre.cur
     THEN post.cur = pre.prev               \* previous becomes current; "another job" becomes previous
     ELSE /\ post.cur = pre.cur
          /\ i # pre.prev => post.prev = pre.prev

Remove(pre, op, res, post) ==
  /\ SameLast(pre, post)
  /\ IF op.i \in Idx(pre)
     THEN res = J(pre, op.i).pid /\ RemoveOne(pre, op.i, post)
     ELSE res = None /\ SameState(pre, post)

\* remove_if / extract_if: the selected jobs are gone, nothing else changes;
\* the selection afterwards is constrained by the invariants, and is unchanged
\* when neither the current nor the previous job was removed.
RemoveSet(pre, S, res, post) ==
  LET R == S \cap Idx(pre)
  IN /\ SameLast(pre, post)
     /\ Idx(post) = Idx(pre) \ R
     /\ Untouched(pre, post, R)
     /\ {res[k] : k \in 1..Len(res)} = R
     /\ pre.cur \notin R => post.cur = pre.cur
     /\ (pre.cur \notin R /\ pre.prev \notin R) => post.prev = pre.prev

RemoveIf(pre, op, res, post) == RemoveSet(pre, {op.set[k] : k \in 1..Len(op.set)}, res, post)
RemoveFinished(pre, op, res, post) == RemoveSet(pre, {i \in Idx(pre) : Finished(J(pre, i))}, res, post)

\* JobList::update_status
Update(pre, op, res, post) ==
  /\ SameLast(pre, post)
  /\ IF op.p \notin PidOf(pre)
     THEN res = None /\ SameState(pre, post)
     ELSE LET i == pre.by[op.p]
              j == J(pre, i)
              was == Susp(j)
              now == op.s = "S"
          IN /\ res = i
             /\ Idx(post) = Idx(pre)
             /\ Untouched(pre, post, {i})
             /\ J(post, i) = [j EXCEPT !.st = op.s, !.ch = (j.ch \/ j.ex # op.s), !.ex = "N"]
             /\ IF ~was /\ now
                THEN /\ post.cur = i                   \* a job that is suspended becomes the current job
                     /\ i # pre.cur => post.prev = pre.cur
                     /\ i = pre.cur => post.prev = pre.prev
                ELSE IF was /\ ~now /\ pre.prev # None
                THEN IF i = pre.cur /\ Susp(J(pre, pre.prev))
                     THEN post.cur = pre.prev          \* previous becomes current; new previous: see invariants
                     ELSE /\ post.cur = pre.cur
                          /\ i # pre.prev => post.prev = pre.prev
                ELSE SameSelection(pre, post)

\* JobList::set_current_job
SetCurrent(pre, op, res, post) ==
  /\ SameLast(pre, post) /\ post.jobs = pre.jobs /\ post.by = pre.by /\ post.len = pre.len
  /\ IF op.i \notin Idx(pre) THEN res = "nosuch" /\ SameState(pre, post)
     ELSE IF ~Susp(J(pre, op.i)) /\ SuspIdx(pre) # {} THEN res = "notsusp" /\ SameState(pre, post)
     ELSE /\ res = "ok"
          /\ post.cur = op.i
          /\ IF op.i = pre.cur THEN post.prev = pre.prev ELSE post.prev = pre.cur

Report(pre, op, res, post) ==
  /\ SameLast(pre, post) /\ SameSelection(pre, post)
  /\ IF op.i \notin Idx(pre) THEN res = "nosuch" /\ SameState(pre, post)
     ELSE /\ res = "ok" /\ Idx(post) = Idx(pre) /\ Untouched(pre, post, {op.i})
          /\ J(post, op.i) = [J(pre, op.i) EXCEPT !.ch = FALSE]

Expect(pre, op, res, post) ==
  /\ SameLast(pre, post) /\ SameSelection(pre, post)
  /\ IF op.i \notin Idx(pre) THEN res = "nosuch" /\ SameState(pre, post)
     ELSE /\ res = "ok" /\ Idx(post) = Idx(pre) /\ Untouched(pre, post, {op.i})
          /\ J(post, op.i) = [J(pre, op.i) EXCEPT !.ex = op.s]

DisownAll(pre, op, res, post) ==
  /\ SameLast(pre, post) /\ SameSelection(pre, post) /\ Idx(post) = Idx(pre)
  /\ \A i \in Idx(pre) : J(post, i) = [J(pre, i) EXCEPT !.own = FALSE]

SetLastAsync(pre, op, res, post) ==
  /\ SameState([pre EXCEPT !.last = op.p], post)        \* $! = the value set; nothing else (incl. every job ID) changes

Step(pre, op, res, post) ==
  /\ Consistent(post)
  /\ StableNumbers(pre, post)
  /\ CASE op.op = "insert"          -> Insert(pre, op, res, post)
       [] op.op = "remove"          -> Remove(pre, op, res, post)
       [] op.op = "remove_if"       -> RemoveIf(pre, op, res, post)
       [] op.op = "remove_finished" -> RemoveFinished(pre, op, res, post)
       [] op.op = "update"          -> Update(pre, op, res, post)
       [] op.op = "set_current"     -> SetCurrent(pre, op, res, post)
       [] op.op = "report"          -> Report(pre, op, res, post)
       [] op.op = "expect"          -> Expect(pre, op, res, post)
       [] op.op = "disown_all"      -> DisownAll(pre, op, res, post)
       [] op.op = "set_last_async"  -> SetLastAsync(pre, op, res, post)

\* Job ids, as docs/src/interactive/job_control.md defines them, on an observed state
Resolve(s, id) == CASE id \in {"%", "%%", "%+"} -> s.cur
                    [] id = "%-" -> s.prev
=============================================================================
