------------------------------ MODULE MC_Split ------------------------------
(* Bounded check of the sanity theorems of Split.tla: all attributed       *)
(* strings up to MaxLen over {a, space, ':'} x {splittable, quoted} under  *)
(* IFS in {unset, "", " ", ":", " :"}.                                      *)
EXTENDS Split

CONSTANT MaxLen

Alphabet == { AC(c, k) : c \in {"a", " ", ":"}, k \in {"exp", "qtd"} }
IfsValues == { IfsUnset, IfsOf(""), IfsOf(" "), IfsOf(":"), IfsOf(" :") }

VARIABLES s, ifs
vars == <<s, ifs>>

Init == s = <<>> /\ ifs \in IfsValues
Next == Len(s) < MaxLen /\ \E a \in Alphabet : s' = Append(s, a) /\ UNCHANGED ifs
Spec == Init /\ [][Next]_vars

Theorems == SplitTheorems(s, ifs)
(* an empty IFS never splits; a non-empty input then is exactly one field  *)
EmptyIfsNoSplit == (ifs = IfsOf("") /\ s # <<>>) => SplitField(s, ifs) = <<s>>
(* fully quoted input is one field *)
AllQuotedOneField == (s # <<>> /\ \A i \in DOMAIN s : s[i].k = "qtd") => SplitField(s, ifs) = <<s>>
=============================================================================
