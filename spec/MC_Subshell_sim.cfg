\* C08: random scenarios beyond the exhaustive bounds (TLC -simulate)
CONSTANTS
  MaxPre = 3
  MaxChild = 4
  MaxPost = 3
  MaxTotal = 9
  MinPre = 2
  MinTotal = 6
  Leaky = FALSE
  ForkBug = "none"
  Alphabet <- AllCmds
  PreAlphabet <- AllCmds
  Kinds <- SimKinds
  Modes <- BothModes
  Fins <- AllFins
  Ctxs <- EveryCtx
INIT Init
NEXT Next
INVARIANTS NoForeignTrapAction EntryIsForkImage PendingCleared ParentTrapOnce ContextDuplicated TrapRule SharedDescriptions Final Emit
