\* C08: random scenarios beyond the exhaustive bounds (TLC -simulate)
CONSTANTS
  MaxPre = 3
  MaxChild = 4
  MaxPost = 3
  MaxTotal = 9
  MinPre = 2
  MinTotal = 6
  Leaky = FALSE
  Alphabet <- AllCmds
  PreAlphabet <- AllCmds
  Kinds <- EveryKind
  Modes <- BothModes
  Fins <- AllFins
  Ctxs <- BothCtxs
INIT Init
NEXT Next
INVARIANTS NoForeignTrapAction EntryIsForkImage TrapRule SharedDescriptions Final Emit
