------------------------------- MODULE Int64 -------------------------------
(***************************************************************************)
(* Exact integer arithmetic for property C03.                              *)
(*                                                                         *)
(* TLA+ integers are unbounded but TLC's are 32-bit, so a mathematical     *)
(* integer is represented here as                                          *)
(*      [n |-> BOOLEAN (negative), m |-> magnitude]                        *)
(* where the magnitude is a little-endian sequence of limbs in base 2^15   *)
(* without a most-significant zero limb (zero is [n |-> FALSE, m |-> <<>>]).*)
(* All operators below are EXACT (no wrap-around, arbitrary length); the   *)
(* 64-bit range is a predicate (InRange64) applied by Arith.tla afterwards.*)
(* Limb products stay below 2^30 + 2^15, inside TLC's native range.        *)
(*                                                                         *)
(* Written from the mathematical definitions (school-book algorithms);     *)
(* Check_Int64.tla compares every operator with TLC's native arithmetic on *)
(* small operands and checks algebraic identities at the carry boundaries. *)
(***************************************************************************)
EXTENDS Integers, Sequences

BASE == 32768                       \* limb base, 2^15
LBITS == 15                         \* bits per limb

-----------------------------------------------------------------------------
\* Magnitudes

MLimb(s, i) == IF i <= Len(s) THEN s[i] ELSE 0

RECURSIVE MTrim(_)
MTrim(s) == IF Len(s) = 0 THEN s
            ELSE IF s[Len(s)] # 0 THEN s
            ELSE MTrim(SubSeq(s, 1, Len(s) - 1))

RECURSIVE MCmpAt(_, _, _)
MCmpAt(a, b, i) == IF i = 0 THEN 0
                   ELSE IF a[i] < b[i] THEN -1
                   ELSE IF a[i] > b[i] THEN 1
                   ELSE MCmpAt(a, b, i - 1)

\* -1, 0, 1
MCmp(a, b) == IF Len(a) < Len(b) THEN -1
              ELSE IF Len(a) > Len(b) THEN 1
              ELSE MCmpAt(a, b, Len(a))

RECURSIVE MAddAt(_, _, _, _, _)
MAddAt(a, b, i, n, c) ==
  IF i > n THEN (IF c = 0 THEN <<>> ELSE <<c>>)
  ELSE LET s == MLimb(a, i) + MLimb(b, i) + c
       IN <<s % BASE>> \o MAddAt(a, b, i + 1, n, s \div BASE)

MAdd(a, b) == MAddAt(a, b, 1, IF Len(a) > Len(b) THEN Len(a) ELSE Len(b), 0)

\* a - b for a >= b
RECURSIVE MSubAt(_, _, _, _)
MSubAt(a, b, i, br) ==
  IF i > Len(a) THEN <<>>
  ELSE LET d == a[i] - MLimb(b, i) - br
       IN IF d < 0 THEN <<d + BASE>> \o MSubAt(a, b, i + 1, 1)
                   ELSE <<d>> \o MSubAt(a, b, i + 1, 0)

MSub(a, b) == MTrim(MSubAt(a, b, 1, 0))

\* a * d for a small number 0 <= d <= BASE
RECURSIVE MMulSmallAt(_, _, _, _)
MMulSmallAt(a, d, i, c) ==
  IF i > Len(a) THEN (IF c = 0 THEN <<>> ELSE <<c>>)
  ELSE LET p == a[i] * d + c
       IN <<p % BASE>> \o MMulSmallAt(a, d, i + 1, p \div BASE)

MMulSmall(a, d) == IF d = 0 THEN <<>> ELSE MMulSmallAt(a, d, 1, 0)

MZeros(k) == [i \in 1..k |-> 0]

\* a * BASE^k
MShiftLimbs(a, k) == IF a = <<>> THEN a ELSE MZeros(k) \o a

RECURSIVE MMulAt(_, _, _)
MMulAt(a, b, j) ==
  IF j > Len(b) THEN <<>>
  ELSE MAdd(MShiftLimbs(MMulSmall(a, b[j]), j - 1), MMulAt(a, b, j + 1))

MMul(a, b) == IF a = <<>> \/ b = <<>> THEN <<>> ELSE MMulAt(a, b, 1)

\* floor(a / d), a mod d for a small number 1 <= d <= BASE
RECURSIVE MDivSmallAt(_, _, _, _)
MDivSmallAt(a, d, i, r) ==
  IF i = 0 THEN <<>>
  ELSE LET cur == r * BASE + a[i]
       IN MDivSmallAt(a, d, i - 1, cur % d) \o <<cur \div d>>

MDivSmall(a, d) == MTrim(MDivSmallAt(a, d, Len(a), 0))

RECURSIVE MModSmallAt(_, _, _, _)
MModSmallAt(a, d, i, r) == IF i = 0 THEN r ELSE MModSmallAt(a, d, i - 1, (r * BASE + a[i]) % d)

MModSmall(a, d) == MModSmallAt(a, d, Len(a), 0)

\* bit k (k >= 0) of a magnitude
MBit(a, k) == (MLimb(a, k \div LBITS + 1) \div 2^(k % LBITS)) % 2

RECURSIVE SmallBitLen(_)
SmallBitLen(x) == IF x = 0 THEN 0 ELSE 1 + SmallBitLen(x \div 2)

MBitLen(a) == IF a = <<>> THEN 0 ELSE (Len(a) - 1) * LBITS + SmallBitLen(a[Len(a)])

\* 2^k as a magnitude
MPow2(k) == MZeros(k \div LBITS) \o <<2^(k % LBITS)>>

\* <<quotient, remainder>> of a / b (b # 0), reference definition: restoring
\* division, one bit of the dividend at a time from the most significant one.
\* (Slow; used by Check_Int64 to cross-check MDivMod.)
RECURSIVE MDivModRefAt(_, _, _, _, _)
MDivModRefAt(a, b, k, q, r) ==
  IF k < 0 THEN <<q, r>>
  ELSE LET r2 == MAdd(MMulSmall(r, 2), IF MBit(a, k) = 1 THEN <<1>> ELSE <<>>)
           ge == MCmp(r2, b) >= 0
       IN MDivModRefAt(a, b, k - 1,
                       MAdd(MMulSmall(q, 2), IF ge THEN <<1>> ELSE <<>>),
                       IF ge THEN MSub(r2, b) ELSE r2)

MDivModRef(a, b) == IF MCmp(a, b) < 0 THEN <<(<<>>), a>>
                    ELSE MDivModRefAt(a, b, MBitLen(a) - 1, <<>>, <<>>)

\* <<quotient, remainder>> of a / b (b # 0): school-book long division in base
\* 2^15 (Knuth, TAOCP 4.3.1 algorithm D).  Both operands are first scaled by
\* d = 2^s so that the top limb of the divisor is >= BASE/2; then the trial digit
\* computed from the two leading limbs exceeds the true digit by at most 2 and
\* is corrected downwards.  The quotient is unchanged by the scaling and the
\* remainder is divided by d at the end.
RECURSIVE MFixDigit(_, _, _)
MFixDigit(bb, r, qh) == IF MCmp(MMulSmall(bb, qh), r) > 0 THEN MFixDigit(bb, r, qh - 1) ELSE qh

MTrialDigit(bb, r) ==
  LET n == Len(bb)
  IN IF Len(r) < n THEN 0
     ELSE IF Len(r) = n THEN r[n] \div bb[n]
     ELSE LET t == (r[n + 1] * BASE + r[n]) \div bb[n] IN IF t > BASE - 1 THEN BASE - 1 ELSE t

\* digits i..1 of the dividend aa still to be brought down; r = current remainder
RECURSIVE MLongDivAt(_, _, _, _)
MLongDivAt(aa, bb, i, r) ==
  IF i = 0 THEN <<(<<>>), r>>
  ELSE LET r1 == MTrim(<<aa[i]>> \o r)
           q  == MFixDigit(bb, r1, MTrialDigit(bb, r1))
           r2 == MSub(r1, MMulSmall(bb, q))
           rest == MLongDivAt(aa, bb, i - 1, r2)
       IN <<rest[1] \o <<q>>, rest[2]>>

MDivMod(a, b) ==
  IF MCmp(a, b) < 0 THEN <<(<<>>), a>>
  ELSE LET d  == 2^(LBITS - SmallBitLen(b[Len(b)]))
           qr == MLongDivAt(MMulSmall(a, d), MMulSmall(b, d), Len(MMulSmall(a, d)), <<>>)
       IN <<MTrim(qr[1]), MDivSmall(qr[2], d)>>

\* floor(a / 2^k)
MShr(a, k) ==
  LET w == k \div LBITS
  IN IF w >= Len(a) THEN <<>>
     ELSE MDivSmall(SubSeq(a, w + 1, Len(a)), 2^(k % LBITS))

-----------------------------------------------------------------------------
\* Signed integers

Mk(n, m) == [n |-> n /\ m # <<>>, m |-> m]

Zero     == [n |-> FALSE, m |-> <<>>]
One      == [n |-> FALSE, m |-> <<1>>]
MinusOne == [n |-> TRUE,  m |-> <<1>>]

IsZero(a) == a.m = <<>>
IsNeg(a)  == a.n

Neg(a) == Mk(~a.n, a.m)

Add(a, b) ==
  IF a.n = b.n THEN Mk(a.n, MAdd(a.m, b.m))
  ELSE LET c == MCmp(a.m, b.m)
       IN IF c = 0 THEN Zero
          ELSE IF c > 0 THEN Mk(a.n, MSub(a.m, b.m))
          ELSE Mk(b.n, MSub(b.m, a.m))

Sub(a, b) == Add(a, Neg(b))

Mul(a, b) == Mk(a.n # b.n, MMul(a.m, b.m))

\* C99 6.5.5: the quotient is truncated toward zero, and
\* (a/b)*b + a%b = a, so the remainder has the sign of the dividend.
DivTrunc(a, b) == Mk(a.n # b.n, MDivMod(a.m, b.m)[1])
RemTrunc(a, b) == Mk(a.n, MDivMod(a.m, b.m)[2])

\* -1, 0, 1
Cmp(a, b) ==
  IF a.n # b.n THEN (IF a.n THEN -1 ELSE 1)
  ELSE IF a.n THEN MCmp(b.m, a.m) ELSE MCmp(a.m, b.m)

Lt(a, b) == Cmp(a, b) < 0
Le(a, b) == Cmp(a, b) <= 0

Pow2(k) == Mk(FALSE, MPow2(k))

\* a * 2^k (exact)
ShlExact(a, k) == Mul(a, Pow2(k))

\* floor(a / 2^k): arithmetic right shift.  For a < 0,
\* floor(a / 2^k) = -ceil(|a| / 2^k) = -floor((|a| + 2^k - 1) / 2^k).
ShrFloor(a, k) ==
  IF ~a.n THEN Mk(FALSE, MShr(a.m, k))
  ELSE Mk(TRUE, MShr(MAdd(a.m, MSub(MPow2(k), <<1>>)), k))

-----------------------------------------------------------------------------
\* The signed 64-bit range and two's-complement bit patterns

M2p63 == MPow2(63)
M2p64 == MPow2(64)
Min64 == Mk(TRUE, M2p63)
Max64 == Mk(FALSE, MSub(M2p63, <<1>>))

InRange64(a) == IF a.n THEN MCmp(a.m, M2p63) <= 0 ELSE MCmp(a.m, M2p63) < 0

\* the pattern of a (in range) as a magnitude < 2^64, and back
Pat(a)     == IF a.n THEN MSub(M2p64, a.m) ELSE a.m
FromPat(p) == IF MCmp(p, M2p63) >= 0 THEN Mk(TRUE, MSub(M2p64, p)) ELSE Mk(FALSE, p)

BitF(op, x, y) ==
  CASE op = "and" -> x * y
    [] op = "or"  -> x + y - x * y
    [] op = "xor" -> (x + y) % 2

\* bitwise op on two limbs; all three operations map (0, 0) to 0
RECURSIVE LimbOp(_, _, _)
LimbOp(op, x, y) ==
  IF x = 0 /\ y = 0 THEN 0
  ELSE BitF(op, x % 2, y % 2) + 2 * LimbOp(op, x \div 2, y \div 2)

MBitwise(op, p, q) ==
  MTrim([i \in 1..(IF Len(p) > Len(q) THEN Len(p) ELSE Len(q)) |->
            LimbOp(op, MLimb(p, i), MLimb(q, i))])

\* bitwise operators on 64-bit two's complement values (a, b in range)
BitAnd(a, b) == FromPat(MBitwise("and", Pat(a), Pat(b)))
BitOr(a, b)  == FromPat(MBitwise("or",  Pat(a), Pat(b)))
BitXor(a, b) == FromPat(MBitwise("xor", Pat(a), Pat(b)))
\* one's complement: all 64 bits inverted = xor with the all-ones pattern (-1)
BitNot(a)    == BitXor(a, MinusOne)

-----------------------------------------------------------------------------
\* Conversions

\* TLC native integer (|i| < 2^31) to a number and back (small numbers only)
RECURSIVE MFromNat(_)
MFromNat(i) == IF i = 0 THEN <<>> ELSE <<i % BASE>> \o MFromNat(i \div BASE)
FromInt(i) == IF i < 0 THEN Mk(TRUE, MFromNat(-i)) ELSE Mk(FALSE, MFromNat(i))

RECURSIVE MToNatAt(_, _)
MToNatAt(m, i) == IF i > Len(m) THEN 0 ELSE m[i] + BASE * MToNatAt(m, i + 1)
ToInt(a) == IF a.n THEN -MToNatAt(a.m, 1) ELSE MToNatAt(a.m, 1)
FitsNative(a) == MBitLen(a.m) <= 30

\* digits (most significant first) of a magnitude in a radix <= 16; zero is <<0>>
RECURSIVE MDigitsRec(_, _)
MDigitsRec(m, radix) ==
  IF m = <<>> THEN <<>>
  ELSE MDigitsRec(MDivSmall(m, radix), radix) \o <<MModSmall(m, radix)>>
MDigits(m, radix) == IF m = <<>> THEN <<0>> ELSE MDigitsRec(m, radix)

\* magnitude denoted by a sequence of digits (most significant first)
RECURSIVE MFromDigitsAt(_, _, _, _)
MFromDigitsAt(ds, radix, i, acc) ==
  IF i > Len(ds) THEN acc
  ELSE MFromDigitsAt(ds, radix, i + 1,
                     MAdd(MMulSmall(acc, radix), IF ds[i] = 0 THEN <<>> ELSE <<ds[i]>>))
MFromDigits(ds, radix) == MFromDigitsAt(ds, radix, 1, <<>>)

\* well-formedness of a number record (used on values that arrive as JSON)
IsNum(a) ==
  /\ a.n \in BOOLEAN
  /\ \A i \in 1..Len(a.m) : a.m[i] \in 0..(BASE - 1)
  /\ (a.m # <<>> => a.m[Len(a.m)] # 0)
  /\ (a.m = <<>> => ~a.n)
=============================================================================
