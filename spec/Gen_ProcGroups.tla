---------------------------- MODULE Gen_ProcGroups ----------------------------
(***************************************************************************)
(* spec -> impl for G16: TLC explores the bounded model of MC_ProcGroups   *)
(* (every interleaving of every scenario of the selected families) and     *)
(* prints                                                                  *)
(*   one line per scenario (kind "scn"): the scenario harness/g16 renders  *)
(*       as a shell script and runs on the real shell under explored       *)
(*       schedules, with the harness as terminal driver;                   *)
(*   one line per distinct terminal state (kind "end"): an allowed end     *)
(*       state of that scenario - what every probe recorded from inside    *)
(*       the commands may show and the final process table and foreground  *)
(*       group.  The end state of every run must be one of them.           *)
(* The laws are checked along the way.                                     *)
(***************************************************************************)
EXTENDS MC_ProcGroups, Json

EmitScn == (st = InitState(sc)) => PrintT(ToJson([kind |-> "scn"] @@ sc))

Terminal == Stuck(sc, st) /\ ~OuterEnabled(st)
EmitEnd == Terminal => PrintT(ToJson([kind |-> "end", id |-> sc.id, done |-> ShellDone(st),
                                      probes |-> st.out, fin |-> Proj(st)]))
=============================================================================
