------------------------------- MODULE Syntax -------------------------------
(***************************************************************************)
(* C06 -- the shell command language at TOKEN level (POSIX XCU 2.10 Shell  *)
(* Grammar plus the extensions documented in /repo/docs/src: array         *)
(* assignment, `>>|`, `<<<`, `;&`, `;|`, `;;&`, $'...').                   *)
(*                                                                         *)
(* Three independent descriptions of the language and their agreement:     *)
(*   Grammar  a GENERATIVE grammar: leftmost derivations over sentential   *)
(*            forms (the state of the model); every construct of           *)
(*            yash-syntax/src/syntax.rs is a production (Alts).            *)
(*   Parse    a REFERENCE PARSER (recursive descent over a token sequence) *)
(*            giving the syntax tree the token grammar prescribes, or      *)
(*            "err", or "un" (POSIX leaves it open / outside the model).   *)
(*   Canon    the CANONICAL single-line token sequence of a tree           *)
(*            (what printing a tree has to amount to).                     *)
(* TLC checks, for every complete derivation d (invariants DerivOK,        *)
(* VariationOK, CanonOK):                                                  *)
(*   Parse(d with every separator a `;`)  = "ok" with tree t,              *)
(*   Parse(d with separators as newlines) = the same t,                    *)
(*   Parse(Canon(t)) = t   -- the canonical text of a tree is a derivation *)
(*                            of the same tree.                            *)
(* and prints one JSON line {toks, exp, tree, canon} per derivation         *)
(* (GenInv); the harness renders `toks` with surface variation and runs    *)
(* the real parser and printer of yash-syntax against it.  In profile      *)
(* "soup" the state is an arbitrary token sequence over SoupAlphabet and   *)
(* the line carries the verdict of Parse (SoupInv).                        *)
(*                                                                         *)
(* Profiles (one MC_Syntax_<profile>.cfg each; the bounds MaxTok/MaxUnits  *)
(* can be overridden by the environment variables MAXTOK / MAXUNITS):      *)
(*   cmd     every production, one word per syntactic position             *)
(*   lex     shallow programs over rich alphabets: all redirection         *)
(*           operators, IO numbers, here-document variants, reserved words *)
(*           as ordinary words, assignments, arrays, declaration utilities *)
(*   struct  nesting of compound commands, lists, pipelines, and-or lists  *)
(*   ctl     one command per list: deep nesting (if/elif/else, case, ...)  *)
(*   hd      here-documents against every newline position of the grammar  *)
(*   word    one word of up to MaxUnits units after `echo`                 *)
(*   wordall the same in every syntactic position of a word                *)
(*   soup    all token sequences up to MaxTok over SoupFull/Small/Tiny     *)
(*                                                                         *)
(* JSON shape of trees (the Rust side is harness/c06/src/tree.rs):         *)
(*  List  = <<Item>>            Item = [ao, bg]                            *)
(*  ao    = [first: Pipe, rest: <<[op: "&&"|"||", p: Pipe]>>]              *)
(*  Pipe  = [neg, cmds: <<Cmd>>]                                           *)
(*  Cmd   = [t:"simple", as:<<Assign>>, ws:<<[w: Word, m:"M"|"S"]>>, rs]   *)
(*        | [t:"comp", c: Compound, rs] | [t:"func", kw, name, c, rs]      *)
(*  Compound = [t:"group"|"sub", body] | [t:"for", name, in, vals, body]   *)
(*        | [t:"while"|"until", cond, body]                                *)
(*        | [t:"if", cond, body, elifs:<<[cond,body]>>, has_else, else]    *)
(*        | [t:"case", subj, items:<<[pats, body, cont]>>]                 *)
(*  Assign = [name, arr, w, ws]     Redir = [fd, op, w, hd, body]          *)
(*  Word  = <<unit>>, unit = lit s | bs c | sq s | dq x | dsq e | tilde    *)
(*          | raw id ty ix | braced id ty ix m | cs s | bq u | arith x     *)
(***************************************************************************)
EXTENDS Integers, Sequences, FiniteSets, TLC, Json, IOUtils

CONSTANTS Profile,   \* "cmd" | "struct" | "ctl" | "hd" | "lex" | "word" | "wordall" | "soup"
          MaxTok,    \* bound on the number of tokens of a derivation
          MaxUnits   \* bound on the number of units of a generated word (profiles word*)

-----------------------------------------------------------------------------
(* Strings.  TLC supports Len, \o and SubSeq on strings.                   *)
(* Characters outside ASCII cross the boundary as `<U+XXXX>` (the harness   *)
(* decodes them in every string of a line and encodes them in the trees it  *)
(* records).  XCU 3.216 / 3.235: a name consists of letters, digits and `_` *)
(* of the PORTABLE character set; an IO_NUMBER and a positional parameter   *)
(* of the digits 0-9.  Every other character -- non-ASCII letters (é, Ω),   *)
(* numerics (², ٣, ½) -- is an ordinary word character: the placeholder is  *)
(* never a name character, a digit or an operator for the operators below.  *)
(* Non-ASCII white space is specified only where it is quoted (whether it   *)
(* delimits tokens depends on the locale's class blank).                    *)
Eacute == "<U+00E9>"   Omega == "<U+03A9>"
Sup2 == "<U+00B2>"     Arab3 == "<U+0663>"   Half == "<U+00BD>"   Circ1 == "<U+2460>"
Nbsp == "<U+00A0>"     IdSp == "<U+3000>"    LineSep == "<U+2028>"
Ch(s, i) == SubSeq(s, i, i)
Tail1(s) == SubSeq(s, 2, Len(s))
Digits == {"0","1","2","3","4","5","6","7","8","9"}
Letters == {"a","b","c","d","e","f","g","h","i","j","k","l","m","n","o","p","q","r","s","t",
            "u","v","w","x","y","z","A","B","C","D","E","F","G","H","I","J","K","L","M","N",
            "O","P","Q","R","S","T","U","V","W","X","Y","Z","_"}
DigitVal == [c \in Digits |-> CASE c = "0" -> 0 [] c = "1" -> 1 [] c = "2" -> 2 [] c = "3" -> 3 [] c = "4" -> 4
                                [] c = "5" -> 5 [] c = "6" -> 6 [] c = "7" -> 7 [] c = "8" -> 8 [] c = "9" -> 9]
DigitStr == <<"0","1","2","3","4","5","6","7","8","9">>
HexStr == <<"0","1","2","3","4","5","6","7","8","9","A","B","C","D","E","F">>
hexStr == <<"0","1","2","3","4","5","6","7","8","9","a","b","c","d","e","f">>
IsDigits(s) == Len(s) > 0 /\ \A i \in 1..Len(s) : Ch(s, i) \in Digits
IsName(s) == /\ Len(s) > 0
             /\ Ch(s, 1) \in Letters
             /\ \A i \in 1..Len(s) : Ch(s, i) \in Letters \cup Digits
RECURSIVE NumOf(_)
NumOf(s) == IF s = "" THEN 0 ELSE 10 * NumOf(SubSeq(s, 1, Len(s) - 1)) + DigitVal[Ch(s, Len(s))]
RECURSIVE StrOfNat(_)
StrOfNat(n) == IF n < 10 THEN DigitStr[n + 1] ELSE StrOfNat(n \div 10) \o DigitStr[(n % 10) + 1]
(* decimal strings compared without computing their (possibly huge) value *)
RECURSIVE StripZeros(_)
StripZeros(s) == IF Len(s) > 1 /\ Ch(s, 1) = "0" THEN StripZeros(Tail1(s)) ELSE s
RECURSIVE LexLeq(_, _)
LexLeq(a, b) ==     \* equal lengths
  IF a = "" THEN TRUE
  ELSE IF DigitVal[Ch(a, 1)] < DigitVal[Ch(b, 1)] THEN TRUE
  ELSE IF DigitVal[Ch(a, 1)] > DigitVal[Ch(b, 1)] THEN FALSE
  ELSE LexLeq(Tail1(a), Tail1(b))
DecLeq(a, b) == LET x == StripZeros(a) y == StripZeros(b)
                IN Len(x) < Len(y) \/ (Len(x) = Len(y) /\ LexLeq(x, y))
(* a file descriptor is a (32-bit) int *)
FdFits(s) == DecLeq(s, "2147483647")
MinOf(S) == CHOOSE i \in S : \A j \in S : i <= j
Find(s, c) == LET I == {i \in 1..Len(s) : Ch(s, i) = c} IN IF I = {} THEN 0 ELSE MinOf(I)

RECURSIVE Concat(_)
Concat(ss) == IF ss = <<>> THEN "" ELSE Head(ss) \o Concat(Tail(ss))
RECURSIVE Flatten(_)
Flatten(ss) == IF ss = <<>> THEN <<>> ELSE Head(ss) \o Flatten(Tail(ss))

-----------------------------------------------------------------------------
(* Word units (atoms).  A word token carries the sequence of its units; a  *)
(* unit is at the same time a node of the expected tree, except that       *)
(* escape units of $'...' additionally carry their source text, and that   *)
(* tilde prefixes are recognised by WordTree according to context.         *)
Lit(s) == [t |-> "lit", s |-> s]
Bs(c) == [t |-> "bs", c |-> c]
Sq(s) == [t |-> "sq", s |-> s]
Dq(x) == [t |-> "dq", x |-> x]
Dsq(e) == [t |-> "dsq", e |-> e]
Tilde(n, sl) == [t |-> "tilde", name |-> n, slash |-> sl]
Specials == {"@", "*", "#", "?", "-", "$", "!", "0"}
ParamTy(id) == IF id \in Specials THEN "sp" ELSE IF IsDigits(id) THEN "pos" ELSE "var"
ParamIx(id) == IF id \notin Specials /\ IsDigits(id) THEN StrOfNat(NumOf(id)) ELSE ""
Raw(id) == [t |-> "raw", id |-> id, ty |-> ParamTy(id), ix |-> ParamIx(id)]
MNone == [t |-> "none"]
MLen == [t |-> "len"]
MSw(a, colon, w) == [t |-> "sw", a |-> a, colon |-> colon, w |-> w]
MTrim(side, long, w) == [t |-> "trim", side |-> side, long |-> long, w |-> w]
Braced(id, m) == [t |-> "braced", id |-> id, ty |-> ParamTy(id), ix |-> ParamIx(id), m |-> m]
Cs(s) == [t |-> "cs", s |-> s]
Bq(u) == [t |-> "bq", u |-> u]
Arith(x) == [t |-> "arith", x |-> x]
(* escape units of $'...' : tree part + source text *)
ELit(s) == [t |-> "lit", s |-> s, src |-> s]
Esc(k, src) == [t |-> "esc", k |-> k, src |-> src]
ECtl(b, src) == [t |-> "ctl", b |-> b, src |-> src]
EOct(b, src) == [t |-> "oct", b |-> b, src |-> src]
EHex(b, src) == [t |-> "hex", b |-> b, src |-> src]
EUni(cp, src) == [t |-> "uni", cp |-> cp, src |-> src]

RECURSIVE UnitText(_), UnitsText(_), ModText(_)
UnitsText(us) == IF us = <<>> THEN "" ELSE UnitText(Head(us)) \o UnitsText(Tail(us))
ModText(m) ==
  CASE m.t = "none" -> ""
    [] m.t = "len" -> ""
    [] m.t = "sw" -> (IF m.colon THEN ":" ELSE "") \o m.a \o UnitsText(m.w)
    [] m.t = "trim" -> m.side \o (IF m.long THEN m.side ELSE "") \o UnitsText(m.w)
UnitText(u) ==
  CASE u.t = "lit" -> u.s
    [] u.t = "bs" -> "\\" \o u.c
    [] u.t = "sq" -> "'" \o u.s \o "'"
    [] u.t = "dq" -> "\"" \o UnitsText(u.x) \o "\""
    [] u.t = "dsq" -> "$'" \o Concat([i \in 1..Len(u.e) |-> u.e[i].src]) \o "'"
    [] u.t = "tilde" -> "~" \o u.name
    [] u.t = "raw" -> "$" \o u.id
    [] u.t = "braced" -> "${" \o (IF u.m.t = "len" THEN "#" ELSE "") \o u.id \o ModText(u.m) \o "}"
    [] u.t = "cs" -> "$(" \o u.s \o ")"
    [] u.t = "bq" -> "`" \o UnitsText(u.u) \o "`"
    [] u.t = "arith" -> "$((" \o UnitsText(u.x) \o "))"

(* tree of an escape unit: the unit without its source text *)
EscTree(e) ==
  CASE e.t = "lit" -> [t |-> "lit", s |-> e.s]
    [] e.t = "esc" -> [t |-> "esc", k |-> e.k]
    [] e.t = "ctl" -> [t |-> "ctl", b |-> e.b]
    [] e.t = "oct" -> [t |-> "oct", b |-> e.b]
    [] e.t = "hex" -> [t |-> "hex", b |-> e.b]
    [] e.t = "uni" -> [t |-> "uni", cp |-> e.cp]

(* canonical source text of an escape unit of a tree ($'...' of XCU 2.2.4) *)
EscLetter == [k \in {"dq","sq","bsl","q","a","b","e","f","n","r","t","v"} |->
   CASE k = "dq" -> "\"" [] k = "sq" -> "'" [] k = "bsl" -> "\\" [] k = "q" -> "?" [] k = "a" -> "a"
     [] k = "b" -> "b" [] k = "e" -> "e" [] k = "f" -> "f" [] k = "n" -> "n" [] k = "r" -> "r"
     [] k = "t" -> "t" [] k = "v" -> "v"]
CtlChars == <<"A","B","C","D","E","F","G","H","I","J","K","L","M","N","O","P","Q","R","S","T","U","V","W",
              "X","Y","Z","[","\\\\","]","^","_">>   \* \cA = 1 ... ; 28 is written \c\\
Hex2(b) == HexStr[(b \div 16) + 1] \o HexStr[(b % 16) + 1]
hex4(n) == hexStr[((n \div 4096) % 16) + 1] \o hexStr[((n \div 256) % 16) + 1]
           \o hexStr[((n \div 16) % 16) + 1] \o hexStr[(n % 16) + 1]
Oct3(b) == DigitStr[(b \div 64) + 1] \o DigitStr[((b \div 8) % 8) + 1] \o DigitStr[(b % 8) + 1]
EscCanonSrc(e) ==
  CASE e.t = "lit" -> e.s
    [] e.t = "esc" -> "\\" \o EscLetter[e.k]
    [] e.t = "ctl" -> "\\c" \o (IF e.b = 0 THEN "@" ELSE IF e.b = 127 THEN "?" ELSE CtlChars[e.b])
    [] e.t = "oct" -> "\\" \o Oct3(e.b)
    [] e.t = "hex" -> "\\x" \o Hex2(e.b)
    [] e.t = "uni" -> "\\u" \o hex4(e.cp)
EscWithSrc(e) ==
  CASE e.t = "lit" -> ELit(e.s)
    [] e.t = "esc" -> Esc(e.k, EscCanonSrc(e))
    [] e.t = "ctl" -> ECtl(e.b, EscCanonSrc(e))
    [] e.t = "oct" -> EOct(e.b, EscCanonSrc(e))
    [] e.t = "hex" -> EHex(e.b, EscCanonSrc(e))
    [] e.t = "uni" -> EUni(e.cp, EscCanonSrc(e))

(* units of a word whose tilde prefixes are not recognised (quoted text,   *)
(* words inside ${...} in a double-quoted context): as written             *)
RECURSIVE PlainTree(_)
PlainUnit(u) ==
  CASE u.t = "dsq" -> [t |-> "dsq", e |-> [i \in 1..Len(u.e) |-> EscTree(u.e[i])]]
    [] u.t = "dq" -> [t |-> "dq", x |-> PlainTree(u.x)]
    [] u.t = "arith" -> [t |-> "arith", x |-> PlainTree(u.x)]
    [] u.t = "braced" /\ u.m.t \in {"sw", "trim"} ->
         [u EXCEPT !.m = [u.m EXCEPT !.w = PlainTree(u.m.w)]]
    [] OTHER -> u
PlainTree(us) == [i \in 1..Len(us) |-> PlainUnit(us[i])]

(* Tilde expansion (XCU 2.6.1): a tilde-prefix is an unquoted `~` at the   *)
(* beginning of a word (or, in an assignment, after the `=` or an unquoted *)
(* `:`), and the following characters up to the first unquoted `/` (or     *)
(* `:`).  All of them have to be unquoted literal characters.              *)
PrependLit(x, us) ==
  IF x = "" THEN us
  ELSE IF us # <<>> /\ us[1].t = "lit" THEN <<Lit(x \o us[1].s)>> \o Tail(us)
  ELSE <<Lit(x)>> \o us
RECURSIVE TS(_, _, _, _)
(* s: literal run; elig: a tilde may start at s[1]; colon: assignment      *)
(* context; more: a non-literal unit follows the run                       *)
TS(s, elig, colon, more) ==
  IF s = "" THEN <<>>
  ELSE IF ~elig \/ Ch(s, 1) # "~" THEN
    IF colon THEN LET c == Find(s, ":")
                  IN IF c = 0 THEN <<Lit(s)>>
                     ELSE PrependLit(SubSeq(s, 1, c), TS(SubSeq(s, c + 1, Len(s)), TRUE, colon, more))
    ELSE <<Lit(s)>>
  ELSE LET sl == Find(s, "/")
           co == IF colon THEN Find(s, ":") ELSE 0
           ends == {i \in {sl, co} : i > 0}
       IN IF ends = {} THEN (IF more THEN <<Lit(s)>> ELSE <<Tilde(Tail1(s), FALSE)>>)
          ELSE LET e == MinOf(ends)
               IN <<Tilde(SubSeq(s, 2, e - 1), e = sl)>>
                  \o TS(SubSeq(s, e, Len(s)), FALSE, colon, more)

(* ctx: "front" (command words, operands, patterns: prefix at the front),  *)
(* "assign" (value of an assignment: front and after colons), "plain".     *)
RECURSIVE WordTreeFrom(_, _, _, _)
WordTreeFrom(us, i, ctx, first) ==
  IF i > Len(us) THEN <<>>
  ELSE LET u == us[i]
           more == i < Len(us)
           rest == WordTreeFrom(us, i + 1, ctx, FALSE)
       IN IF u.t = "lit" /\ ctx # "plain" /\ (first \/ ctx = "assign")
          THEN LET h == TS(u.s, first, ctx = "assign", more) IN h \o rest
          ELSE <<IF u.t = "braced" /\ u.m.t \in {"sw", "trim"}
                 THEN [u EXCEPT !.m = [u.m EXCEPT !.w = WordTreeFrom(u.m.w, 1, "front", TRUE)]]
                 ELSE PlainUnit(u)>> \o rest
WordTree(us, ctx) == IF ctx = "plain" THEN PlainTree(us) ELSE WordTreeFrom(us, 1, ctx, TRUE)

(* the `=` of an assignment word: in the leading literal run, preceded by  *)
(* a name (XCU 2.10.2 rule 7b)                                             *)
AssignEq(us) == IF us # <<>> /\ us[1].t = "lit" THEN Find(us[1].s, "=") ELSE 0
IsAssignForm(us) == AssignEq(us) > 1 /\ IsName(SubSeq(us[1].s, 1, AssignEq(us) - 1))
(* literal prefix before `=` that is not a name: XCU says "word", the      *)
(* implementation documents nothing -> no opinion                          *)
IsOddAssign(us) == AssignEq(us) > 1 /\ ~IsName(SubSeq(us[1].s, 1, AssignEq(us) - 1))
AssignName(us) == SubSeq(us[1].s, 1, AssignEq(us) - 1)
AssignValue(us) ==
  LET e == AssignEq(us) s == us[1].s
  IN IF e = Len(s) THEN Tail(us) ELSE <<Lit(SubSeq(s, e + 1, Len(s)))>> \o Tail(us)
(* argument of a declaration utility in assignment form: tildes after `=`  *)
DeclArgTree(us) ==
  LET e == AssignEq(us) IN PrependLit(SubSeq(us[1].s, 1, e), WordTree(AssignValue(us), "assign"))

-----------------------------------------------------------------------------
(* Tokens.  k: "op" | "w" | "bad" (lexically unbalanced text) | "nt"       *)
(* (nonterminal of a sentential form) | "eof".  g: no blank may follow     *)
(* (IO_NUMBER before a redirection operator, `name=` before `(`).          *)
(* v: "" | "sep" (a `;` that may as well be written as newlines)           *)
(*       | "lb" (zero-width: a place where newlines may be inserted).      *)
(* b: body of a here-document (on the operator token), as a Text tree.     *)
Tk(k, s, a, g, v, b) == [k |-> k, s |-> s, a |-> a, g |-> g, v |-> v, b |-> b]
Op(s) == Tk("op", s, <<>>, FALSE, "", <<>>)
NL == Op("\n")
SepTok == Tk("op", ";", <<>>, FALSE, "sep", <<>>)
LbTok == Tk("op", "", <<>>, FALSE, "lb", <<>>)
W(us) == Tk("w", UnitsText(us), us, FALSE, "", <<>>)
WL(s) == W(<<Lit(s)>>)
Glued(t) == [t EXCEPT !.g = TRUE]
HereOp(s, body) == Tk("op", s, <<>>, FALSE, "", body)
BadTok(s) == Tk("bad", s, <<>>, FALSE, "", <<>>)
NT(s) == Tk("nt", s, <<>>, FALSE, "", <<>>)
NTW(s, us) == Tk("nt", s, us, FALSE, "", <<>>)     \* word under construction
EofTok == Tk("eof", "", <<>>, FALSE, "", <<>>)

FileOps == {"<", ">", ">>", ">|", "<>", "<&", ">&", "<<<", ">>|"}
HereOps == {"<<", "<<-"}
CaseEnds == {";;", ";&", ";|", ";;&"}
Reserved == {"!", "{", "}", "case", "do", "done", "elif", "else", "esac", "fi", "for", "if", "in",
             "then", "until", "while"}
(* XCU 2.4: recognition of these as reserved words is unspecified *)
UnspecReserved == {"[[", "]]", "function", "select", "namespace"}
ClauseWords == {"}", "do", "done", "elif", "else", "esac", "fi", "in", "then"}

IsOp(t, s) == t.k = "op" /\ t.s = s /\ t.v # "lb"
IsOpIn(t, S) == t.k = "op" /\ t.v # "lb" /\ t.s \in S
LitOf(t) == IF t.k = "w" /\ Len(t.a) = 1 /\ t.a[1].t = "lit" THEN t.a[1].s ELSE ""
IsKw(t, s) == LitOf(t) = s

-----------------------------------------------------------------------------
(* The reference parser.  Results: [st, p, t] with st "ok" (t = tree, p =  *)
(* next position), "none" (nothing of that kind starts here), "err", "un". *)
R(st, p, t) == [st |-> st, p |-> p, t |-> t]
Err == R("err", 0, <<>>)
Un == R("un", 0, <<>>)
NoneAt(p) == R("none", p, <<>>)
Tok(T, p) == IF p <= Len(T) THEN T[p] ELSE EofTok

RECURSIVE SkipNL(_, _)
SkipNL(T, p) == IF IsOp(Tok(T, p), "\n") THEN SkipNL(T, p + 1) ELSE p

IsIoNum(T, p) == /\ IsDigits(LitOf(Tok(T, p)))
                 /\ Tok(T, p).g
                 /\ IsOpIn(Tok(T, p + 1), FileOps \cup HereOps)
IsRedirStart(T, p) == IsOpIn(Tok(T, p), FileOps \cup HereOps) \/ IsIoNum(T, p)

RedirP(T, p) ==
  LET q == IF IsIoNum(T, p) THEN p + 1 ELSE p
      o == Tok(T, q)
      w == Tok(T, q + 1)
  IN IF w.k # "w" \/ IsIoNum(T, q + 1) THEN Err      \* the operand is a WORD, not an IO_NUMBER
     \* An IO_NUMBER that does not fit the descriptor type: a syntax error or a tree
     \* (that round-trips, Trace_Syntax!RoundTrip) -- the grammar has no opinion.
     ELSE IF q # p /\ ~FdFits(LitOf(Tok(T, p))) THEN Un
     ELSE R("ok", q + 2, [fd |-> IF q = p THEN -1 ELSE NumOf(LitOf(Tok(T, p))), op |-> o.s,
                          w |-> WordTree(w.a, "front"), hd |-> o.s \in HereOps, body |-> o.b])

RECURSIVE RedirsP(_, _)
RedirsP(T, p) ==
  IF IsRedirStart(T, p)
  THEN LET r == RedirP(T, p)
       IN IF r.st # "ok" THEN r
          ELSE LET s == RedirsP(T, r.p) IN IF s.st # "ok" THEN s ELSE R("ok", s.p, <<r.t>> \o s.t)
  ELSE R("ok", p, <<>>)

RECURSIVE ArrayWords(_, _)
ArrayWords(T, p) ==     \* after `name=(`
  LET t == Tok(T, p)
  IN IF IsOp(t, ")") THEN R("ok", p + 1, <<>>)
     ELSE IF IsOp(t, "\n") THEN ArrayWords(T, p + 1)
     ELSE IF t.k = "w" /\ ~IsIoNum(T, p)
          THEN LET r == ArrayWords(T, p + 1)
               IN IF r.st # "ok" THEN r ELSE R("ok", r.p, <<WordTree(t.a, "front")>> \o r.t)
     ELSE Err

EmptyAcc == [as |-> <<>>, ws |-> <<>>, rs |-> <<>>, du |-> "?"]
AccEmpty(acc) == acc.as = <<>> /\ acc.ws = <<>> /\ acc.rs = <<>>
PushWord(acc, t) ==
  LET single == acc.du = "Y" /\ IsAssignForm(t.a)
      w == [w |-> IF single THEN DeclArgTree(t.a) ELSE WordTree(t.a, "front"),
            m |-> IF single THEN "S" ELSE "M"]
      du == IF acc.du # "?" THEN acc.du
            ELSE IF LitOf(t) \in {"export", "readonly"} THEN "Y"
            ELSE IF LitOf(t) = "command" THEN "?" ELSE "N"
  IN [acc EXCEPT !.ws = Append(@, w), !.du = du]

RECURSIVE SimpleP(_, _, _)
SimpleP(T, p, acc) ==
  LET t == Tok(T, p)
  IN IF IsRedirStart(T, p)
     THEN LET r == RedirP(T, p)
          IN IF r.st # "ok" THEN r ELSE SimpleP(T, r.p, [acc EXCEPT !.rs = Append(@, r.t)])
     ELSE IF t.k = "w" /\ ~(AccEmpty(acc) /\ LitOf(t) \in Reserved)
     THEN IF acc.ws = <<>> /\ IsOddAssign(t.a) THEN Un
          ELSE IF acc.ws = <<>> /\ IsAssignForm(t.a)
          THEN IF t.g /\ IsOp(Tok(T, p + 1), "(") /\ AssignValue(t.a) = <<>>
               THEN LET r == ArrayWords(T, p + 2)
                    IN IF r.st # "ok" THEN r
                       ELSE SimpleP(T, r.p, [acc EXCEPT !.as = Append(@,
                              [name |-> AssignName(t.a), arr |-> TRUE, w |-> <<>>, ws |-> r.t])])
               ELSE SimpleP(T, p + 1, [acc EXCEPT !.as = Append(@,
                              [name |-> AssignName(t.a), arr |-> FALSE,
                               w |-> WordTree(AssignValue(t.a), "assign"), ws |-> <<>>])])
          ELSE SimpleP(T, p + 1, PushWord(acc, t))
     ELSE IF AccEmpty(acc) THEN NoneAt(p)
     ELSE R("ok", p, [t |-> "simple", as |-> acc.as, ws |-> acc.ws, rs |-> acc.rs])

Item(ao, bg) == [ao |-> ao, bg |-> bg]

RECURSIVE CList(_, _), ListP(_, _), AndOrP(_, _), AndOrRest(_, _), PipeP(_, _), PipeRest(_, _),
          CmdP(_, _), CompoundP(_, _), DoGroup(_, _), ElifsP(_, _), CaseItems(_, _), PatsRest(_, _),
          ForWords(_, _)

(* compound_list: and-or lists separated by `;`, `&` or newlines; may be   *)
(* empty here -- the callers reject empty ones where XCU requires one      *)
CList(T, p) ==
  LET q == SkipNL(T, p)
      l == ListP(T, q)
  IN IF l.st # "ok" THEN l
     ELSE IF IsOp(Tok(T, l.p), "\n")
     THEN LET r == CList(T, l.p) IN IF r.st # "ok" THEN r ELSE R("ok", r.p, l.t \o r.t)
     ELSE l

ListP(T, p) ==
  LET a == AndOrP(T, p)
  IN IF a.st = "none" THEN R("ok", p, <<>>)
     ELSE IF a.st # "ok" THEN a
     ELSE LET t == Tok(T, a.p)
          IN IF IsOp(t, ";") \/ IsOp(t, "&")
             THEN LET r == ListP(T, a.p + 1)
                  IN IF r.st # "ok" THEN r ELSE R("ok", r.p, <<Item(a.t, IsOp(t, "&"))>> \o r.t)
             ELSE R("ok", a.p, <<Item(a.t, FALSE)>>)

AndOrP(T, p) ==
  LET f == PipeP(T, p)
  IN IF f.st # "ok" THEN f
     ELSE LET r == AndOrRest(T, f.p)
          IN IF r.st # "ok" THEN r ELSE R("ok", r.p, [first |-> f.t, rest |-> r.t])

AndOrRest(T, p) ==
  LET t == Tok(T, p)
  IN IF IsOp(t, "&&") \/ IsOp(t, "||")
     THEN LET pl == PipeP(T, SkipNL(T, p + 1))
          IN IF pl.st = "none" THEN Err
             ELSE IF pl.st # "ok" THEN pl
             ELSE LET r == AndOrRest(T, pl.p)
                  IN IF r.st # "ok" THEN r ELSE R("ok", r.p, <<[op |-> t.s, p |-> pl.t]>> \o r.t)
     ELSE R("ok", p, <<>>)

PipeP(T, p) ==
  LET neg == IsKw(Tok(T, p), "!")
      c == CmdP(T, IF neg THEN p + 1 ELSE p)
  IN IF c.st = "none" THEN (IF neg THEN Err ELSE NoneAt(p))
     ELSE IF c.st # "ok" THEN c
     ELSE LET r == PipeRest(T, c.p)
          IN IF r.st # "ok" THEN r ELSE R("ok", r.p, [neg |-> neg, cmds |-> <<c.t>> \o r.t])

PipeRest(T, p) ==
  IF IsOp(Tok(T, p), "|")
  THEN LET c == CmdP(T, SkipNL(T, p + 1))
       IN IF c.st = "none" THEN Err
          ELSE IF c.st # "ok" THEN c
          ELSE LET r == PipeRest(T, c.p) IN IF r.st # "ok" THEN r ELSE R("ok", r.p, <<c.t>> \o r.t)
  ELSE R("ok", p, <<>>)

WithRedirs(T, c) ==
  IF c.st # "ok" THEN c
  ELSE LET r == RedirsP(T, c.p)
       IN IF r.st # "ok" THEN r ELSE R("ok", r.p, [t |-> "comp", c |-> c.t, rs |-> r.t])

CmdP(T, p) ==
  LET t == Tok(T, p)
      w == LitOf(t)
  IN IF t.k = "w" /\ w \in UnspecReserved THEN Un
     ELSE IF t.k = "w" /\ w \in ClauseWords THEN NoneAt(p)
     ELSE LET c == CompoundP(T, p)
          IN IF c.st # "none" THEN WithRedirs(T, c)
             ELSE LET s == SimpleP(T, p, EmptyAcc)
                  IN IF s.st # "ok" THEN s
                     ELSE IF s.t.as = <<>> /\ s.t.rs = <<>> /\ Len(s.t.ws) = 1 /\ IsOp(Tok(T, s.p), "(")
                     THEN \* function definition: fname ( ) linebreak compound_command redirect*
                          IF ~IsOp(Tok(T, s.p + 1), ")") THEN Err
                          ELSE IF ~IsName(LitOf(t)) THEN Un     \* XCU: fname is a NAME
                          ELSE LET b == CompoundP(T, SkipNL(T, s.p + 2))
                               IN IF b.st = "none" THEN Err
                                  ELSE IF b.st # "ok" THEN b
                                  ELSE LET r == RedirsP(T, b.p)
                                       IN IF r.st # "ok" THEN r
                                          ELSE R("ok", r.p, [t |-> "func", kw |-> FALSE,
                                                   name |-> WordTree(t.a, "front"), c |-> b.t, rs |-> r.t])
                     ELSE s

(* `do` compound_list `done` *)
DoGroup(T, p) ==
  IF ~IsKw(Tok(T, p), "do") THEN Err
  ELSE LET b == CList(T, p + 1)
       IN IF b.st # "ok" THEN b
          ELSE IF b.t = <<>> \/ ~IsKw(Tok(T, b.p), "done") THEN Err
          ELSE R("ok", b.p + 1, b.t)

ForWords(T, p) ==
  LET t == Tok(T, p)
  IN IF t.k = "w" /\ ~IsIoNum(T, p)
     THEN LET r == ForWords(T, p + 1)
          IN IF r.st # "ok" THEN r ELSE R("ok", r.p, <<WordTree(t.a, "front")>> \o r.t)
     ELSE IF IsOp(t, ";") \/ IsOp(t, "\n") THEN R("ok", p + 1, <<>>)
     ELSE Err

ElifsP(T, p) ==   \* returns [elifs, has_else, else]
  LET t == Tok(T, p)
  IN IF IsKw(t, "elif")
     THEN LET c == CList(T, p + 1)
          IN IF c.st # "ok" THEN c
             ELSE IF c.t = <<>> \/ ~IsKw(Tok(T, c.p), "then") THEN Err
             ELSE LET b == CList(T, c.p + 1)
                  IN IF b.st # "ok" THEN b
                     ELSE IF b.t = <<>> THEN Err
                     ELSE LET r == ElifsP(T, b.p)
                          IN IF r.st # "ok" THEN r
                             ELSE R("ok", r.p, [r.t EXCEPT !.elifs = <<[cond |-> c.t, body |-> b.t]>> \o @])
     ELSE IF IsKw(t, "else")
     THEN LET b == CList(T, p + 1)
          IN IF b.st # "ok" THEN b
             ELSE IF b.t = <<>> THEN Err
             ELSE R("ok", b.p, [elifs |-> <<>>, has_else |-> TRUE, else |-> b.t])
     ELSE R("ok", p, [elifs |-> <<>>, has_else |-> FALSE, else |-> <<>>])

PatsRest(T, p) ==   \* after a pattern: ( `|` pattern )* `)`
  LET t == Tok(T, p)
  IN IF IsOp(t, ")") THEN R("ok", p + 1, <<>>)
     ELSE IF IsOp(t, "|") /\ Tok(T, p + 1).k = "w" /\ ~IsIoNum(T, p + 1)
     THEN LET r == PatsRest(T, p + 2)
          IN IF r.st # "ok" THEN r ELSE R("ok", r.p, <<WordTree(Tok(T, p + 1).a, "front")>> \o r.t)
     ELSE Err

CaseItems(T, p) ==
  LET q == SkipNL(T, p)
      t == Tok(T, q)
  IN IF IsKw(t, "esac") THEN R("ok", q, <<>>)
     ELSE LET q1 == IF IsOp(t, "(") THEN q + 1 ELSE q
              f == Tok(T, q1)
          IN IF f.k # "w" \/ IsIoNum(T, q1) THEN Err
             ELSE LET ps == PatsRest(T, q1 + 1)
                  IN IF ps.st # "ok" THEN ps
                     ELSE LET b == CList(T, ps.p)
                          IN IF b.st # "ok" THEN b
                             ELSE LET e == Tok(T, b.p)
                                      pats == <<WordTree(f.a, "front")>> \o ps.t
                                  IN IF IsOpIn(e, CaseEnds)
                                     THEN LET r == CaseItems(T, b.p + 1)
                                          IN IF r.st # "ok" THEN r
                                             ELSE R("ok", r.p,
                                                    <<[pats |-> pats, body |-> b.t,
                                                       cont |-> IF e.s = ";;&" THEN ";|" ELSE e.s]>> \o r.t)
                                     ELSE R("ok", b.p, <<[pats |-> pats, body |-> b.t, cont |-> ";;"]>>)

CompoundP(T, p) ==
  LET t == Tok(T, p)
      w == LitOf(t)
  IN IF w = "{" THEN
       LET b == CList(T, p + 1)
       IN IF b.st # "ok" THEN b
          ELSE IF b.t = <<>> \/ ~IsKw(Tok(T, b.p), "}") THEN Err
          ELSE R("ok", b.p + 1, [t |-> "group", body |-> b.t])
     ELSE IF IsOp(t, "(") THEN
       LET b == CList(T, p + 1)
       IN IF b.st # "ok" THEN b
          ELSE IF b.t = <<>> \/ ~IsOp(Tok(T, b.p), ")") THEN Err
          ELSE R("ok", b.p + 1, [t |-> "sub", body |-> b.t])
     ELSE IF w \in {"while", "until"} THEN
       LET c == CList(T, p + 1)
       IN IF c.st # "ok" THEN c
          ELSE IF c.t = <<>> THEN Err
          ELSE LET b == DoGroup(T, c.p)
               IN IF b.st # "ok" THEN b ELSE R("ok", b.p, [t |-> w, cond |-> c.t, body |-> b.t])
     ELSE IF w = "if" THEN
       LET c == CList(T, p + 1)
       IN IF c.st # "ok" THEN c
          ELSE IF c.t = <<>> \/ ~IsKw(Tok(T, c.p), "then") THEN Err
          ELSE LET b == CList(T, c.p + 1)
               IN IF b.st # "ok" THEN b
                  ELSE IF b.t = <<>> THEN Err
                  ELSE LET e == ElifsP(T, b.p)
                       IN IF e.st # "ok" THEN e
                          ELSE IF ~IsKw(Tok(T, e.p), "fi") THEN Err
                          ELSE R("ok", e.p + 1, [t |-> "if", cond |-> c.t, body |-> b.t, elifs |-> e.t.elifs,
                                                 has_else |-> e.t.has_else, else |-> e.t.else])
     ELSE IF w = "for" THEN
       LET n == Tok(T, p + 1)
       IN IF n.k # "w" \/ IsIoNum(T, p + 1) THEN Err
          ELSE IF ~IsName(LitOf(n)) THEN Un     \* XCU: for NAME
          ELSE LET name == WordTree(n.a, "front")
                   semi == IsOp(Tok(T, p + 2), ";")
                   q == SkipNL(T, IF semi THEN p + 3 ELSE p + 2)
               IN IF ~semi /\ IsKw(Tok(T, q), "in")
                  THEN LET v == ForWords(T, q + 1)
                       IN IF v.st # "ok" THEN v
                          ELSE LET b == DoGroup(T, SkipNL(T, v.p))
                               IN IF b.st # "ok" THEN b
                                  ELSE R("ok", b.p, [t |-> "for", name |-> name, in |-> TRUE,
                                                     vals |-> v.t, body |-> b.t])
                  ELSE LET b == DoGroup(T, q)
                       IN IF b.st # "ok" THEN b
                          ELSE R("ok", b.p, [t |-> "for", name |-> name, in |-> FALSE,
                                             vals |-> <<>>, body |-> b.t])
     ELSE IF w = "case" THEN
       LET s == Tok(T, p + 1)
           q == SkipNL(T, p + 2)
       IN IF s.k # "w" \/ IsIoNum(T, p + 1) THEN Err
          ELSE IF ~IsKw(Tok(T, q), "in") THEN Err
          ELSE LET i == CaseItems(T, q + 1)
               IN IF i.st # "ok" THEN i
                  ELSE IF ~IsKw(Tok(T, i.p), "esac") THEN Err
                  ELSE R("ok", i.p + 1, [t |-> "case", subj |-> WordTree(s.a, "front"), items |-> i.t])
     ELSE NoneAt(p)

(* Token sequences about which the token grammar has no opinion: text that *)
(* does not lex (unbalanced quotes, ...), and glue flags that do not       *)
(* describe a token boundary (a glued word runs into the next word).       *)
NoOpinion(T) ==
  \/ \E i \in 1..Len(T) : T[i].k \notin {"op", "w"} \/ T[i].v = "lb"
  \/ \E i \in 1..Len(T) : T[i].g /\ (i = Len(T) \/ T[i + 1].k # "op" \/ T[i + 1].s = "\n")

Parse(T) ==
  IF NoOpinion(T) THEN [st |-> "un", t |-> <<>>]
  ELSE LET r == CList(T, 1)
       IN IF r.st # "ok" THEN [st |-> r.st, t |-> <<>>]
          ELSE IF r.p = Len(T) + 1 THEN [st |-> "ok", t |-> r.t]
          ELSE [st |-> "err", t |-> <<>>]

-----------------------------------------------------------------------------
(* The canonical single-line form of a tree, as tokens.  Lists inside a    *)
(* compound command are always terminated (`;` or `&`); a top-level list   *)
(* is not; assignments, then words, then redirections -- unless the first  *)
(* word would be taken for a reserved word, then redirections first; case  *)
(* items are written `(p | q) body;;`.                                     *)
RECURSIVE MergeLits(_)
MergeLits(us) ==
  IF Len(us) < 2 THEN us
  ELSE IF us[1].t = "lit" /\ us[2].t = "lit" THEN MergeLits(<<Lit(us[1].s \o us[2].s)>> \o Tail(Tail(us)))
  ELSE <<us[1]>> \o MergeLits(Tail(us))

RECURSIVE UnitsOfTree(_)
UnitOfTree(u) ==
  CASE u.t = "tilde" -> Lit("~" \o u.name)
    [] u.t = "dsq" -> Dsq([i \in 1..Len(u.e) |-> EscWithSrc(u.e[i])])
    [] u.t = "dq" -> Dq(UnitsOfTree(u.x))
    [] u.t = "arith" -> Arith(UnitsOfTree(u.x))
    [] u.t = "braced" /\ u.m.t \in {"sw", "trim"} -> [u EXCEPT !.m = [u.m EXCEPT !.w = UnitsOfTree(u.m.w)]]
    [] OTHER -> u
UnitsOfTree(w) == MergeLits([i \in 1..Len(w) |-> UnitOfTree(w[i])])
CWord(w) == W(UnitsOfTree(w))

CRedir(r) ==
  (IF r.fd >= 0 THEN <<Glued(WL(StrOfNat(r.fd)))>> ELSE <<>>)
  \o <<IF r.hd THEN HereOp(r.op, r.body) ELSE Op(r.op), CWord(r.w)>>
CRedirs(rs) == Flatten([i \in 1..Len(rs) |-> CRedir(rs[i])])
CAssign(a) ==
  IF a.arr THEN <<Glued(WL(a.name \o "=")), Op("(")>> \o [i \in 1..Len(a.ws) |-> CWord(a.ws[i])] \o <<Op(")")>>
  ELSE <<W(MergeLits(<<Lit(a.name \o "=")>> \o UnitsOfTree(a.w)))>>
FirstWordReserved(c) ==
  /\ c.ws # <<>>
  /\ Len(c.ws[1].w) = 1 /\ c.ws[1].w[1].t = "lit"
  /\ c.ws[1].w[1].s \in Reserved \cup UnspecReserved

RECURSIVE CList_(_, _), CCompound(_), CCmd(_), CPipe(_), CAndOr(_)
CCmd(c) ==
  CASE c.t = "simple" ->
         LET as == Flatten([i \in 1..Len(c.as) |-> CAssign(c.as[i])])
             ws == [i \in 1..Len(c.ws) |-> CWord(c.ws[i].w)]
         IN IF c.as = <<>> /\ FirstWordReserved(c) THEN CRedirs(c.rs) \o ws ELSE as \o ws \o CRedirs(c.rs)
    [] c.t = "comp" -> CCompound(c.c) \o CRedirs(c.rs)
    [] c.t = "func" -> <<CWord(c.name), Op("("), Op(")")>> \o CCompound(c.c) \o CRedirs(c.rs)
CPipe(p) ==
  (IF p.neg THEN <<WL("!")>> ELSE <<>>)
  \o Flatten([i \in 1..Len(p.cmds) |-> (IF i > 1 THEN <<Op("|")>> ELSE <<>>) \o CCmd(p.cmds[i])])
CAndOr(a) == CPipe(a.first) \o Flatten([i \in 1..Len(a.rest) |-> <<Op(a.rest[i].op)>> \o CPipe(a.rest[i].p)])
CList_(l, alt) ==
  Flatten([i \in 1..Len(l) |->
     CAndOr(l[i].ao) \o (IF l[i].bg THEN <<Op("&")>> ELSE IF i < Len(l) \/ alt THEN <<Op(";")>> ELSE <<>>)])
CCompound(c) ==
  CASE c.t = "group" -> <<WL("{")>> \o CList_(c.body, TRUE) \o <<WL("}")>>
    [] c.t = "sub" -> <<Op("(")>> \o CList_(c.body, FALSE) \o <<Op(")")>>
    [] c.t = "for" -> <<WL("for"), CWord(c.name)>>
          \o (IF c.in THEN <<WL("in")>> \o [i \in 1..Len(c.vals) |-> CWord(c.vals[i])] \o <<Op(";")>> ELSE <<>>)
          \o <<WL("do")>> \o CList_(c.body, TRUE) \o <<WL("done")>>
    [] c.t \in {"while", "until"} ->
          <<WL(c.t)>> \o CList_(c.cond, TRUE) \o <<WL("do")>> \o CList_(c.body, TRUE) \o <<WL("done")>>
    [] c.t = "if" -> <<WL("if")>> \o CList_(c.cond, TRUE) \o <<WL("then")>> \o CList_(c.body, TRUE)
          \o Flatten([i \in 1..Len(c.elifs) |-> <<WL("elif")>> \o CList_(c.elifs[i].cond, TRUE)
                                                 \o <<WL("then")>> \o CList_(c.elifs[i].body, TRUE)])
          \o (IF c.has_else THEN <<WL("else")>> \o CList_(c.else, TRUE) ELSE <<>>) \o <<WL("fi")>>
    [] c.t = "case" -> <<WL("case"), CWord(c.subj), WL("in")>>
          \o Flatten([i \in 1..Len(c.items) |->
               <<Op("(")>>
               \o Flatten([j \in 1..Len(c.items[i].pats) |->
                     (IF j > 1 THEN <<Op("|")>> ELSE <<>>) \o <<CWord(c.items[i].pats[j])>>])
               \o <<Op(")")>> \o CList_(c.items[i].body, FALSE) \o <<Op(c.items[i].cont)>>])
          \o <<WL("esac")>>
Canon(tree) == CList_(tree, FALSE)

-----------------------------------------------------------------------------
(* Alphabets of the profiles.                                              *)
QBody == <<Lit("a $x\\y\n")>>           \* body under a quoted delimiter: literal
UBody == <<Lit("a "), Raw("x"), Bs("$"), Lit("y\nz\n")>>
Words(S) == {WL(s) : s \in S}

(* units from which profile "word" builds words (at most 3 per word) *)
WordUnits ==
  { Lit("a"), Lit("~"), Lit("~u/b"), Lit("x=~:~u"), Lit("1"), Lit("="), Lit("/"),
    \* characters outside the portable character set: ordinary word characters everywhere
    Lit(Eacute), Lit(Sup2), Lit("$" \o Sup2), Lit("$" \o Arab3 \o "x"), Lit("$" \o Half \o Circ1), Lit("$" \o Eacute \o Omega),
    Bs(Eacute), Bs(Sup2), Bs(Nbsp), Sq(Nbsp \o IdSp \o LineSep \o " " \o Sup2), Dsq(<<ELit(Eacute \o Sup2)>>),
    Dq(<<Lit("$" \o Sup2 \o Nbsp), Raw("x"), Lit(Eacute), Raw("1"), Lit(Arab3)>>),
    Braced("x", MSw("-", TRUE, <<Lit("$" \o Sup2 \o Eacute)>>)),
    Bs("a"), Bs("$"), Bs(" "), Bs("\\"), Bs("'"), Bs("\""),
    Sq("a b"), Sq(""), Sq("$x\"\\"), Sq("a\nb"), Sq("if"),
    Dq(<<>>), Dq(<<Lit("a b")>>), Dq(<<Raw("x"), Lit("'"), Bs("\""), Lit("\\a"), Bs("\\")>>),
    Dq(<<Braced("x", MSw("-", TRUE, <<Lit("~'q'")>>)), Arith(<<Lit("1+"), Raw("x")>>), Cs("echo \"a\"")>>),
    Dq(<<Bq(<<Lit("a"), Bs("\"")>>), Lit("$")>>),
    Dsq(<<ELit("a b")>>), Dsq(<<>>),
    Dsq(<<Esc("dq", "\\\""), Esc("sq", "\\'"), Esc("bsl", "\\\\"), Esc("q", "\\?"), Esc("a", "\\a"), Esc("b", "\\b")>>),
    Dsq(<<Esc("e", "\\e"), Esc("e", "\\E"), Esc("f", "\\f"), Esc("n", "\\n"), Esc("r", "\\r"), Esc("t", "\\t"),
          Esc("v", "\\v")>>),
    Dsq(<<ECtl(1, "\\cA"), ECtl(1, "\\ca"), ECtl(0, "\\c@"), ECtl(127, "\\c?"), ECtl(27, "\\c["), ECtl(31, "\\c_")>>),
    Dsq(<<ECtl(28, "\\c\\\\")>>), Dsq(<<ECtl(29, "\\c]"), ELit("x")>>),
    Dsq(<<EOct(0, "\\0"), ELit("8"), EOct(7, "\\07"), EOct(255, "\\377"), ELit("7"), EOct(10, "\\12")>>),
    Dsq(<<EHex(1, "\\x1"), ELit("g"), EHex(171, "\\xAb"), ELit("c"), EHex(0, "\\x00")>>),
    Dsq(<<EUni(65, "\\u41"), ELit("g"), EUni(8364, "\\u20AC"), ELit("0"), EUni(65, "\\U00000041"), EUni(255, "\\uff")>>),
    Raw("x"), Raw("x_1"), Raw("1"), Raw("@"), Raw("*"), Raw("#"), Raw("?"), Raw("-"), Raw("$"), Raw("!"), Raw("0"),
    Braced("x", MNone), Braced("10", MNone), Braced("@", MNone), Braced("#", MNone), Braced("0", MNone),
    Braced("x", MLen), Braced("#", MLen), Braced("?", MLen), Braced("-", MLen), Braced("1", MLen),
    Braced("x", MSw("-", FALSE, <<>>)), Braced("x", MSw("+", TRUE, <<Lit("a b")>>)),
    Braced("x", MSw("=", TRUE, <<Lit("~/"), Raw("y")>>)), Braced("x", MSw("?", FALSE, <<Sq("}"), Bs("}")>>)),
    Braced("#", MSw("-", FALSE, <<Lit("x")>>)), Braced("#", MSw("-", TRUE, <<>>)),
    Braced("x", MTrim("#", FALSE, <<Lit("*/")>>)), Braced("x", MTrim("#", TRUE, <<>>)),
    Braced("x", MTrim("%", FALSE, <<Lit("~")>>)), Braced("x", MTrim("%", TRUE, <<Dq(<<Lit(".")>>), Lit("*")>>)),
    Braced("#", MTrim("#", TRUE, <<>>)), Braced("#", MTrim("%", FALSE, <<>>)),
    Braced("x", MSw("-", TRUE, <<Braced("y", MSw("-", TRUE, <<Lit("z")>>))>>)),
    Cs("a"), Cs(""), Cs("echo \"$(b)\" # c\n"), Cs(" (a) "), Cs("(a); b"), Cs("a | { b; }"),
    Bq(<<>>), Bq(<<Lit("a "), Bs("$"), Lit("b\\c"), Bs("\\"), Bs("`"), Lit("d"), Bs("`")>>), Bq(<<Lit("\"")>>),
    Arith(<<>>), Arith(<<Lit("1 + (2) * "), Raw("x")>>), Arith(<<Lit("("), Cs("a"), Lit(")"), Bs("$"), Lit("\\a")>>),
    Arith(<<Lit("((1)+(2))")>>) }

(* adjacency that would not lex back to the same two units *)
NameTail(s) == s # "" /\ Ch(s, 1) \in Letters \cup Digits
LitHead(u) == IF u.t = "lit" THEN u.s ELSE ""
Compatible(a, b) ==
  /\ ~(a.t = "lit" /\ b.t = "lit")                          \* a literal run is one unit
  /\ ~(a.t = "raw" /\ a.ty = "var" /\ NameTail(LitHead(b)))  \* $x followed by a name character
  /\ ~(a.t = "lit" /\ Find(a.s, "~") > 0)                  \* tilde prefix running into a non-literal: unspecified
WordOK(us) == \A i \in 1..(Len(us) - 1) : Compatible(us[i], us[i + 1])

Prof == Profile
(* "ctl" and "hd": one command per list, so that nested compound commands  *)
(* (and here-documents against every newline of them) fit a small bound    *)
Skeleton == Prof \in {"ctl", "hd"}
(* the bounds can be overridden from the environment (one cfg per profile) *)
TokBound == IF "MAXTOK" \in DOMAIN IOEnv THEN NumOf(IOEnv.MAXTOK) ELSE MaxTok
UnitBound == IF "MAXUNITS" \in DOMAIN IOEnv THEN NumOf(IOEnv.MAXUNITS) ELSE MaxUnits
Lex == Prof = "lex"
CmdW   == IF Lex THEN Words({"a", "export", "command"}) ELSE Words({"a"})
KwW    == Words({"if", "{", "!", "done"})     \* reserved words where they are ordinary words
ArgW   == IF Lex THEN Words({"b", "if", "}", "x=~", "2", "in", Sup2}) \cup {W(<<Sq("c d")>>)}
          ELSE Words({"b"})
AsgW   == IF Lex THEN Words({"x=1", "x=", "x=~/a:~"}) \cup {W(<<Lit("y="), Raw("x")>>)} ELSE Words({"x=1"})
HereDocs ==  \* (operator, delimiter, body)
  IF Lex
  THEN { <<"<<", WL("E"), UBody>>, <<"<<-", WL("E"), UBody>>, <<"<<", W(<<Sq("E")>>), QBody>>,
         <<"<<", W(<<Bs("E")>>), QBody>>, <<"<<", WL("-E"), <<>>>>, <<"<<-", WL("-"), <<Lit("b\n")>>>>,
         <<"<<", WL(Eacute \o Sup2), <<Lit(Omega \o "\n")>>>>,
         <<"<<", W(<<Dq(<<Lit("E F")>>)>>), QBody>> }
  ELSE { <<"<<", WL("E"), <<Lit("b\n")>>>> }
Redirs ==   \* alternatives of a redirection
  IF Lex
  THEN {<<Op(o), WL("f")>> : o \in FileOps} \cup {<<Glued(WL("2")), Op(o), WL("f")>> : o \in FileOps}
       \cup {<<Op(">"), WL("-")>>, <<Op("<&"), WL("2")>>, <<Glued(WL("10")), Op(">"), WL("f")>>,
             <<Glued(WL("2147483647")), Op(">"), WL("f")>>,      \* the largest descriptor
             <<Glued(WL("0")), Op("<"), W(<<Raw("x")>>)>>}
       \cup {<<HereOp(h[1], h[3]), h[2]>> : h \in HereDocs}
       \cup {<<Glued(WL("3")), HereOp("<<", UBody), WL("E")>>}
  ELSE {<<Op(">"), WL("f")>>, <<Glued(WL("2")), Op(">"), WL("f")>>, <<HereOp("<<", <<Lit("b\n")>>), WL("E")>>}
ForNames == Words({"i"})
ForVals == IF Lex THEN Words({"v", "in", "do", "~"}) ELSE Words({"v"})
Subjs == IF Lex THEN Words({"s", "in", "esac"}) ELSE Words({"s"})
Pats == IF Lex THEN Words({"p", "in", "*"}) \cup {W(<<Sq("esac")>>)} ELSE Words({"p"})
ParenPats == IF Lex THEN Pats \cup Words({"esac"}) ELSE Pats
FuncNames == IF Lex THEN Words({"fn", "x1"}) ELSE Words({"fn"})
Ends == IF Lex THEN CaseEnds ELSE {";;", ";&"}
ArrNames == {"x"}

(* Nonterminals and their alternatives (XCU 2.10.2, right-recursive).      *)
SQ(S) == {<<x>> : x \in S}    \* one-symbol alternatives
Alts(sym) ==
  LET n == sym.s IN
  CASE n = "PROG" -> {<<NT("L")>>}
    [] n = "L" ->     \* list: last terminator optional
         IF Prof = "ctl" THEN {<<NT("AO")>>}
         ELSE IF Prof = "hd" THEN {<<NT("AO")>>, <<NT("AO"), SepTok, NT("L")>>}
         ELSE {<<NT("AO")>>, <<NT("AO"), SepTok, NT("L")>>, <<NT("AO"), Op("&"), NT("L")>>,
               <<NT("AO"), Op("&")>>, <<NT("AO"), Op(";")>>}
    [] n = "CLT" ->   \* compound list in front of a reserved word: terminated
         IF Skeleton THEN {<<LbTok, NT("AO"), NT("TERM")>>}
         ELSE {<<LbTok, NT("AO"), NT("TERM")>>, <<LbTok, NT("AO"), NT("TERM"), NT("CLT1")>>}
    [] n = "CLT1" -> {<<NT("AO"), NT("TERM")>>, <<NT("AO"), NT("TERM"), NT("CLT1")>>}
    [] n = "TERM" -> {<<SepTok>>, <<Op("&"), LbTok>>}
    [] n = "CLP" ->   \* compound list in front of `)` or a case terminator
         {<<LbTok, NT("L"), LbTok>>}
    [] n = "AO" -> IF Skeleton THEN {<<NT("PL")>>}
                   ELSE {<<NT("PL")>>, <<NT("PL"), Op("&&"), LbTok, NT("AO")>>, <<NT("PL"), Op("||"), LbTok, NT("AO")>>}
    [] n = "PL" -> IF Skeleton THEN {<<NT("PC")>>} ELSE {<<NT("PC")>>, <<WL("!"), NT("PC")>>}
    [] n = "PC" -> IF Prof = "ctl" THEN {<<NT("C")>>} ELSE {<<NT("C")>>, <<NT("C"), Op("|"), LbTok, NT("PC")>>}
    [] n = "C" -> IF Prof \in {"struct", "ctl"} THEN {<<WL("a")>>, <<NT("CC")>>, <<NT("FD")>>}
                  ELSE IF Prof = "hd"     \* here-documents against every newline of the grammar
                  THEN {<<WL("a")>>, <<HereOp("<<", <<Lit("b\n")>>), WL("E")>>, <<NT("CC")>>,
                        <<NT("CC"), HereOp("<<-", <<Lit("c\n")>>), WL("F")>>}
                  ELSE {<<NT("SC")>>, <<NT("CC")>>, <<NT("CC"), NT("RS")>>, <<NT("FD")>>}
    [] n = "RS" -> {<<NT("R")>>, <<NT("R"), NT("RS")>>}
    [] n = "SC" -> {<<NT("PRE")>>, <<NT("PRE"), NT("cw"), NT("SUF")>>, <<NT("cw"), NT("SUF")>>}
                   \cup (IF Lex THEN {<<NT("PRE"), NT("kw"), NT("SUF")>>} ELSE {})
    [] n = "PRE" -> {<<NT("as")>>, <<NT("R")>>, <<NT("as"), NT("PRE")>>, <<NT("R"), NT("PRE")>>}
                    \cup (IF Lex THEN {<<NT("ARR")>>, <<NT("ARR"), NT("PRE")>>} ELSE {})
    [] n = "SUF" -> {<<>>, <<NT("aw"), NT("SUF")>>, <<NT("R"), NT("SUF")>>}
    [] n = "ARR" -> {<<Glued(WL(x \o "=")), Op("("), NT("AV")>> : x \in ArrNames}
    [] n = "AV" -> {<<Op(")")>>, <<NT("aw"), NT("AV")>>}
    [] n = "R" -> Redirs
    [] n = "cw" -> SQ(CmdW)
    [] n = "kw" -> SQ(KwW)
    [] n = "aw" -> SQ(ArgW)
    [] n = "as" -> SQ(AsgW)
    [] n = "CC" ->
         {<<WL("{"), NT("CLT"), WL("}")>>, <<Op("("), NT("CLP"), Op(")")>>,
          <<WL("while"), NT("CLT"), WL("do"), NT("CLT"), WL("done")>>,
          <<WL("until"), NT("CLT"), WL("do"), NT("CLT"), WL("done")>>,
          <<WL("if"), NT("CLT"), WL("then"), NT("CLT"), NT("ELIFS"), WL("fi")>>}
         \cup {<<WL("for"), f, NT("FT")>> : f \in ForNames}
         \cup {<<WL("case"), s, LbTok, WL("in"), LbTok, NT("ITEMS"), WL("esac")>> : s \in Subjs}
    [] n = "FT" ->
         {<<Op(";"), LbTok, WL("do"), NT("CLT"), WL("done")>>, <<LbTok, WL("do"), NT("CLT"), WL("done")>>,
          <<LbTok, WL("in"), NT("VALS"), SepTok, LbTok, WL("do"), NT("CLT"), WL("done")>>}
    [] n = "VALS" -> {<<>>} \cup {<<v, NT("VALS")>> : v \in ForVals}
    [] n = "ELIFS" -> {<<>>, <<WL("elif"), NT("CLT"), WL("then"), NT("CLT"), NT("ELIFS")>>, <<WL("else"), NT("CLT")>>}
    [] n = "ITEMS" ->
         {<<>>, <<NT("PAT"), LbTok>>, <<NT("PAT"), NT("CLT")>>}
         \cup {<<NT("PAT"), NT("CB"), Op(e), LbTok, NT("ITEMS")>> : e \in Ends}
    [] n = "PAT" -> {<<p, NT("PATS")>> : p \in Pats} \cup {<<Op("("), p, NT("PATS")>> : p \in ParenPats}
    [] n = "PATS" -> {<<Op(")")>>} \cup {<<Op("|"), p, NT("PATS")>> : p \in Pats}
    [] n = "CB" -> {<<LbTok>>, <<NT("CLP")>>}
    [] n = "FD" -> {<<f, Op("("), Op(")"), LbTok, NT("CC")>> : f \in FuncNames}
                   \cup (IF Prof \in {"struct", "ctl"} THEN {}
                         ELSE {<<f, Op("("), Op(")"), LbTok, NT("CC"), NT("RS")>> : f \in FuncNames})
    (* profiles "word"/"wordall": one generated word in a syntactic position *)
    [] n = "WPROG" ->
         {<<WL("echo"), NTW("WD0", <<>>)>>}
         \cup (IF Prof = "wordall"
               THEN {<<NTW("WD0", <<Lit("x=")>>)>>, <<NTW("WD0", <<>>)>>,
                     <<WL("export"), NTW("WD0", <<Lit("x=")>>)>>,
                     <<WL("cat"), Op("<"), NTW("WD0", <<>>)>>,
                     <<WL("case"), NTW("WD0", <<>>), WL("in"), WL("esac")>>,
                     <<WL("case"), WL("s"), WL("in"), Op("("), NTW("WD0", <<>>), Op(")"), WL("esac")>>,
                     <<WL("for"), WL("i"), WL("in"), NTW("WD0", <<>>), Op(";"), WL("do"), WL(":"), Op(";"), WL("done")>>,
                     <<Glued(WL("x=")), Op("("), NTW("WD0", <<>>), Op(")")>>}
               ELSE {})
    [] OTHER -> {}

(* Growing a word: the symbol WDn carries the units chosen so far (after an *)
(* optional fixed prefix `x=`); a step appends a unit or closes the word.   *)
WordCount(sym) == CASE sym.s = "WD0" -> 0 [] sym.s = "WD1" -> 1 [] sym.s = "WD2" -> 2 [] sym.s = "WD3" -> 3
WordName(n) == CASE n = 0 -> "WD0" [] n = 1 -> "WD1" [] n = 2 -> "WD2" [] n = 3 -> "WD3"
IsWD(sym) == sym.s \in {"WD0", "WD1", "WD2", "WD3"}
WordSteps(sym) ==
  LET us == sym.a
      n == WordCount(sym)
      last == us[Len(us)]
      \* after the prefix `x=` a literal continues the literal run
      joins(u) == us # <<>> /\ n = 0 /\ u.t = "lit"
      ok(u) == us = <<>> \/ joins(u) \/ Compatible(last, u)
      app(u) == IF joins(u) THEN <<Lit(last.s \o u.s)>> ELSE Append(us, u)
  IN (IF n < UnitBound THEN {<<NTW(WordName(n + 1), app(u))>> : u \in {v \in WordUnits : ok(v)}} ELSE {})
     \cup (IF us # <<>> THEN {<<W(us)>>} ELSE {})

(* minimal number of tokens a nonterminal still needs (for pruning)        *)
MinLen(n) ==
  CASE n \in {"PROG", "L", "AO", "PL", "PC", "C", "SC", "PRE", "cw", "kw", "aw", "as", "CLT1",
              "WD0", "WD1", "WD2", "WD3"} -> 1
    [] n \in {"SUF", "VALS", "ELIFS", "ITEMS", "CB", "WPROG"} -> 0
    [] n \in {"CLT", "R", "RS", "PAT"} -> 2
    [] n \in {"TERM", "CLP", "AV", "PATS"} -> 1
    [] n = "ARR" -> 3
    [] n = "CC" -> 3
    [] n = "FT" -> 4
    [] n = "FD" -> 6
    [] OTHER -> 0

-----------------------------------------------------------------------------
VARIABLE sf      \* sentential form (profiles cmd/lex/word*) or token sequence (soup)

IsNT(x) == x.k = "nt"
Complete(f) == \A i \in 1..Len(f) : ~IsNT(f[i])
RealToks(f) == Cardinality({i \in 1..Len(f) : ~IsNT(f[i]) /\ f[i].v # "lb"})
RECURSIVE NeedFrom(_, _)
NeedFrom(f, i) == IF i > Len(f) THEN 0 ELSE (IF IsNT(f[i]) THEN MinLen(f[i].s) ELSE 0) + NeedFrom(f, i + 1)
FirstNT(f) == MinOf({i \in 1..Len(f) : IsNT(f[i])})
Expand(f, i, alt) == SubSeq(f, 1, i - 1) \o alt \o SubSeq(f, i + 1, Len(f))

(* Token soup: every sequence over the alphabet, including reserved words  *)
(* in the wrong place, unbalanced brackets and text that does not lex.     *)
(* IO numbers around the limits of the descriptor type, and the process     *)
(* redirection operators `<(` `>(` (documented as not supported): totality  *)
(* and the round trip of whatever tree comes out are all that is required   *)
BigNums == {"2147483648", "4294967294", "4294967295", "4294967296", "1234567890123456789012345678901234567890"}
SoupFull ==
  { Op(";"), Op("&"), Op("&&"), Op("|"), Op("("), Op(")"), Op("\n"), Op(";;"), Op(">"), Op("<<<"),
    Op("<("), Op(">("), Glued(WL("2147483647")) } \cup {Glued(WL(n)) : n \in BigNums} \cup {

    HereOp("<<", <<Lit("b\n")>>),
    WL("a"), WL("x=1"), Glued(WL("x=")), WL("2"), Glued(WL("2")), WL("~"),
    WL("!"), WL("{"), WL("}"), WL("if"), WL("then"), WL("else"), WL("elif"), WL("fi"), WL("for"), WL("in"),
    WL("do"), WL("done"), WL("while"), WL("until"), WL("case"), WL("esac"), WL("function"), WL("[["),
    BadTok("'a"), BadTok("\"a"), BadTok("$(a"), BadTok("${x"), BadTok("`a"), BadTok("$((1"), BadTok("$'a"),
    BadTok("${"), BadTok("\\"),
    \* outside the portable character set: after `$`, in `${ }`, as IO_NUMBER candidate, as
    \* assignment / function name (no opinion: XCU says word, not a name), unquoted white space
    WL(Sup2), Glued(WL(Sup2)), WL("$" \o Sup2), WL("$" \o Arab3), WL(Eacute), WL(Eacute \o "=1"),
    BadTok("${" \o Eacute \o "}"), BadTok("${" \o Sup2 \o "}"), BadTok("a" \o Nbsp \o "b"), BadTok(IdSp), BadTok(LineSep) }
SoupSmall ==
  { Op(";"), Op("&"), Op("|"), Op("("), Op(")"), Op("\n"), Op(";;"), Op(">"), Op(">("), Glued(WL("4294967294")), Glued(WL(Sup2)), WL("$" \o Half),
    WL("a"), Glued(WL("x=")), Glued(WL("2")),
    WL("!"), WL("{"), WL("}"), WL("if"), WL("then"), WL("fi"), WL("for"), WL("in"),
    WL("do"), WL("done"), WL("case"), WL("esac"), BadTok("'a"), BadTok("${") }
SoupTiny ==
  { Op(";"), Op("|"), Op("("), Op(")"), Op("\n"), Op(">"), WL("a"), WL("{"), WL("}"),
    WL("if"), WL("then"), WL("fi"), BadTok("$(a") }
SoupAlphabet ==
  LET a == IF "SOUP" \in DOMAIN IOEnv THEN IOEnv.SOUP ELSE "full"
  IN IF a = "tiny" THEN SoupTiny ELSE IF a = "small" THEN SoupSmall ELSE SoupFull

Init == sf = IF Prof = "soup" THEN <<>>
             ELSE IF Prof \in {"word", "wordall"} THEN <<NT("WPROG")>> ELSE <<NT("PROG")>>

Next ==
  IF Prof = "soup"
  THEN /\ Len(sf) < TokBound
       /\ \E t \in SoupAlphabet : sf' = Append(sf, t)
  ELSE /\ ~Complete(sf)
       /\ LET i == FirstNT(sf)
          IN \E alt \in (IF IsWD(sf[i]) THEN WordSteps(sf[i]) ELSE Alts(sf[i])) :
               LET f == Expand(sf, i, alt)
               IN /\ RealToks(f) + NeedFrom(f, 1) <= TokBound
                  /\ sf' = f

Spec == Init /\ [][Next]_sf

-----------------------------------------------------------------------------
(* separators concretised: every `sep` a semicolon and no optional         *)
(* newline, or every `sep` a newline and a newline at every `lb`           *)
ConcSemi(f) == SelectSeq(f, LAMBDA t : t.v # "lb")
ConcNL(f) == [i \in 1..Len(f) |-> IF f[i].v \in {"sep", "lb"} THEN NL ELSE f[i]]

Gen == Prof # "soup" /\ Complete(sf)
Tree(f) == Parse(ConcSemi(f))
DerivOK == Gen => Tree(sf).st = "ok"
VariationOK == Gen => Parse(ConcNL(sf)) = Tree(sf)
CanonOK == Gen => LET t == Tree(sf).t IN Parse(Canon(t)) = [st |-> "ok", t |-> t]
(* a derivation never contains a word that would not lex back to its units *)
WordsOK == Gen => \A i \in 1..Len(sf) : sf[i].k = "w" => WordOK(sf[i].a)

(* compact wire form of a token (Trace_Syntax!Norm restores the fields) *)
Wire(t) ==
  IF t.k = "op" /\ t.b = <<>> /\ t.v = "" THEN [k |-> "op", s |-> t.s]
  ELSE IF t.k = "op" /\ t.b = <<>> THEN [k |-> "op", s |-> t.s, v |-> t.v]
  ELSE IF t.k = "op" THEN [k |-> "op", s |-> t.s, b |-> t.b, bs |-> UnitsText(t.b)]
  ELSE IF t.k = "w" /\ LitOf(t) # "" /\ ~t.g THEN [k |-> "w", s |-> t.s]
  ELSE IF t.k = "w" THEN [k |-> "w", s |-> t.s, a |-> t.a, g |-> t.g]
  ELSE [k |-> t.k, s |-> t.s]
Texts(ts) == [i \in 1..Len(ts) |-> ts[i].s]

(* DerivOK /\ VariationOK /\ CanonOK /\ WordsOK evaluated with one parse   *)
(* of the derivation, and the JSON line of the derivation                  *)
GenInv ==
  Gen => LET p == Tree(sf)
             c == Canon(p.t)
         IN /\ p.st = "ok"
            /\ Parse(ConcNL(sf)) = p
            /\ Parse(c) = p
            /\ \A i \in 1..Len(sf) : sf[i].k = "w" => WordOK(sf[i].a)
            /\ PrintT(ToJson([toks |-> [i \in 1..Len(sf) |-> Wire(sf[i])], exp |-> p.st, tree |-> p.t,
                              canon |-> Texts(c)]))

SoupInv ==
  (Prof = "soup" /\ sf # <<>>) =>
     LET p == Parse(sf)
     IN PrintT(ToJson([toks |-> [i \in 1..Len(sf) |-> Wire(sf[i])], exp |-> p.st, tree |-> p.t]))
=============================================================================
