SPECIFICATION Spec
CONSTANTS
  Profile = "hd"
  MaxTok = 12
  MaxUnits = 1
INVARIANT GenInv
