INIT Init
NEXT Next
CONSTANTS
  Variant = "ci_no_class"
INVARIANT C_ClassCI
