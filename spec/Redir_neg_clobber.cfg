SPECIFICATION Spec
CONSTANTS
  Cfg = "neg"
  Bug = "clobber"
  Sim = TRUE
INVARIANT TypeOK
INVARIANT Conforms
