SPECIFICATION Spec
CONSTANTS
  MaxDepth = 6
  Variant = ""
INVARIANT Judge
CHECK_DEADLOCK FALSE
