SPECIFICATION Spec
CONSTANTS
  Cfg = "q1"
  Bug = "none"
  Sim = TRUE
INVARIANT TypeOK
INVARIANT InternalInv
INVARIANT Conforms
INVARIANT Emit
