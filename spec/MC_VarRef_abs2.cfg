SPECIFICATION Spec
CONSTANTS
  Names = {"x"}
  Vals = {"a", "b"}
  MaxDepth = 3
  PosVals <- PosNone
  Thens = {"none", "assign", "export", "ro"}
INVARIANT TypeOK
INVARIANT ProjectionFaithful
INVARIANT AbstractionSound
INVARIANT EnvExact
INVARIANT ScopedOpsAreLocal
PROPERTY ReadOnlyNeverChanges
PROPERTY ReadOnlyVisible
