----------------------------- MODULE Trace_Pipe -----------------------------
(***************************************************************************)
(* Validation (impl -> spec) for C14 with the REAL constants of the        *)
(* simulated kernel (PIPE_BUF = 512, PIPE_SIZE = 1024; validation is       *)
(* linear in the trace, so the size of the numbers costs nothing).         *)
(* Records, one JSON object per line:                                      *)
(*   t = "run": one (scenario, distinct observation) of the real shell     *)
(*              under explored schedules (harness/c14 e2e.rs); judged by   *)
(*              RunOK: completion (no deadlock / step limit / panic /      *)
(*              hang), completeness, order, exactly-once and Strip         *)
(*              semantics, all through Expect(sc) of module PipeData;      *)
(*   t = "k":   one system-call step {pre, op, res, post} on a real        *)
(*              simulated pipe (harness/c14 kunit.rs); judged by KStep:    *)
(*              the kernel rules of PipeData and the no-lost-wake-up rule. *)
(* The first record that is not allowed is printed as <<"REJECT", i, r>>.  *)
(***************************************************************************)
EXTENDS PipeData, Json, IOUtils

Rec == ndJsonDeserialize(IOEnv.TRACE)

VARIABLE l
vars == <<l>>

-----------------------------------------------------------------------------
(* runs of the shell                                                       *)

Match(ob, o) ==
  /\ ob.tag = o.tag
  /\ ob.off = o.off
  /\ [len |-> ob.len, fb |-> ob.fb, rest |-> ob.rest] \in o.reps
  /\ ~ob.long
  /\ ob.argc = 3          \* the value arrived as ONE field (quoted expansion)

\* a writer upstream of a consumer that stops reading may see EPIPE
EpipeOnly(errs) == \A i \in 1 .. Len(errs) : errs[i] \in {"emit_error:Errno(32)", "scat_error:Errno(32)"}

RunOK(r) ==
  /\ r.outcome = "completed"
  /\ r.status = 0
  /\ LET exp == Expect(r.sc)
     IN /\ Len(r.obs) = Cardinality(exp)
        /\ \A o \in exp : \E i \in 1 .. Len(r.obs) : Match(r.obs[i], o)
        /\ \A i \in 1 .. Len(r.obs) : \E o \in exp : Match(r.obs[i], o)
  /\ IF Lossy(r.sc) THEN EpipeOnly(r.errs) ELSE r.errs = <<>>

-----------------------------------------------------------------------------
(* system-call steps on one pipe                                           *)
(*                                                                         *)
(* pre / post: occ, nr, nw (occupancy, open read / write ends), runs (the  *)
(* content as maximal runs <<tag, offset mod 32, length>> of bytes that    *)
(* continue each other: byte i of the write request tagged t is            *)
(* 32 t + i mod 32), act (request in flight of every actor), woken (has    *)
(* the actor's waker fired since its last poll).                           *)
(* Requests: level K (raw kernel): R / W with blk = blocking mode, SR / SW *)
(* / SB = select on the read end / write end / both; level C (through      *)
(* Concurrent): CR, CW, CRA (read_all), CWA (write_all).                   *)

RECURSIVE RunsLen(_)
RunsLen(rs) == IF rs = <<>> THEN 0 ELSE Head(rs)[3] + RunsLen(Tail(rs))
RECURSIVE TakeRuns(_, _)
TakeRuns(rs, k) == IF k = 0 \/ rs = <<>> THEN <<>>
                   ELSE LET r == Head(rs)
                        IN IF r[3] <= k THEN <<r>> \o TakeRuns(Tail(rs), k - r[3])
                           ELSE << <<r[1], r[2], k>> >>
RECURSIVE DropRuns(_, _)
DropRuns(rs, k) == IF k = 0 \/ rs = <<>> THEN rs
                   ELSE LET r == Head(rs)
                        IN IF r[3] <= k THEN DropRuns(Tail(rs), k - r[3])
                           ELSE << <<r[1], (r[2] + k) % 32, r[3] - k>> >> \o Tail(rs)
Linked(r1, r2) == r1[1] = r2[1] /\ (r1[2] + r1[3]) % 32 = r2[2]
AppendRun(rs, r) == IF r[3] = 0 THEN rs
                    ELSE IF rs # <<>> /\ Linked(rs[Len(rs)], r)
                    THEN [rs EXCEPT ![Len(rs)] = <<@[1], @[2], @[3] + r[3]>>]
                    ELSE Append(rs, r)
CatRuns(a, b) == IF b = <<>> THEN a ELSE AppendRun(a, Head(b)) \o Tail(b)

KKinds == {"R", "W", "SR", "SW", "SB"}
CKinds == {"CR", "CW", "CRA", "CWA"}
IdleReq == [k |-> "I", n |-> 0, blk |-> FALSE, done |-> 0, tag |-> 0, acc |-> <<>>]

\* could the request complete (or fail) now, i.e. must whoever waits for it be awake?
KEnabled(q, st) ==
  CASE q.k \in {"R", "CR"}        -> ReadXfer(st.occ, st.nw, q.n) # XBLOCK
    [] q.k = "CRA"                -> st.occ > 0 \/ st.nw = 0
    [] q.k \in {"W", "CW", "CWA"} -> WriteXfer(st.occ, st.nr, q.n - q.done) # XBLOCK
    [] q.k = "SR" -> ReadyR(st.occ, st.nw)
    [] q.k = "SW" -> ReadyW(st.occ, st.nr)
    [] q.k = "SB" -> ReadyR(st.occ, st.nw) \/ ReadyW(st.occ, st.nr)
    [] OTHER -> FALSE

\* at level C a task waits for select to report its descriptor ready (for a
\* write: room for an atomic request, even if a larger request could transfer
\* a part right now); progress is guaranteed because readiness eventually
\* holds when the other side proceeds
CReady(q, st) == IF q.k \in {"CR", "CRA"} THEN ReadyR(st.occ, st.nw) ELSE ReadyW(st.occ, st.nr)

SameKernel(pre, post) == post.occ = pre.occ /\ post.runs = pre.runs
Finished(res, r, v)   == res.r = r /\ res.v = v
NoData(res)           == res.data = <<>>

\* polling request q of an actor in state pre: allowed (res, q2, post)
PollOK(pre, q, res, q2, post) ==
  CASE q.k \in {"R", "CR"} ->
         LET x == ReadXfer(pre.occ, pre.nw, q.n)
         IN IF x = XBLOCK
            THEN /\ SameKernel(pre, post) /\ NoData(res)
                 /\ IF q.k = "CR" \/ q.blk THEN res.r = "pending" /\ q2 = q
                    ELSE res.r = "eagain" /\ q2 = IdleReq
            ELSE /\ Finished(res, "ok", x) /\ q2 = IdleReq
                 /\ res.data = TakeRuns(pre.runs, x)          \* the oldest x bytes, in order
                 /\ post.runs = DropRuns(pre.runs, x)
                 /\ post.occ = pre.occ - x
    [] q.k = "CRA" ->                \* read_all: consumes what is there; finishes exactly at end-of-file
         LET x == pre.occ - post.occ
             acc == CatRuns(q.acc, TakeRuns(pre.runs, x))
         IN /\ x >= 0 /\ (pre.occ > 0 => x >= 1)
            /\ post.runs = DropRuns(pre.runs, x)
            /\ IF post.occ = 0 /\ pre.nw = 0
               THEN Finished(res, "ok", RunsLen(acc)) /\ res.data = acc /\ q2 = IdleReq
               ELSE res.r = "pending" /\ NoData(res) /\ q2 = [q EXCEPT !.acc = acc]
    [] q.k \in {"W", "CW"} /\ ~(q.k = "W" /\ q.blk) ->      \* one request, no retry
         LET x == WriteXfer(pre.occ, pre.nr, q.n)
         IN /\ NoData(res)
            /\ IF x = XEPIPE THEN res.r = "epipe" /\ SameKernel(pre, post) /\ q2 = IdleReq
               ELSE IF x = XBLOCK
               THEN /\ SameKernel(pre, post)
                    /\ IF q.k = "CW" THEN res.r = "pending" /\ q2 = q ELSE res.r = "eagain" /\ q2 = IdleReq
               ELSE /\ Finished(res, "ok", x) /\ q2 = IdleReq
                    /\ post.runs = AppendRun(pre.runs, <<q.tag, 0, x>>)
                    /\ post.occ = pre.occ + x
    [] q.k = "CWA" \/ (q.k = "W" /\ q.blk) ->     \* everything is written before the request returns
         LET rem == q.n - q.done
             x == WriteXfer(pre.occ, pre.nr, rem)
         IN /\ NoData(res)
            /\ IF x = XEPIPE
               THEN /\ SameKernel(pre, post) /\ q2 = IdleReq
                    /\ IF q.k = "W" /\ q.done > 0 THEN Finished(res, "ok", q.done) ELSE res.r = "epipe"
               ELSE IF x = XBLOCK THEN res.r = "pending" /\ SameKernel(pre, post) /\ q2 = q
               ELSE /\ post.runs = AppendRun(pre.runs, <<q.tag, q.done % 32, x>>)
                    /\ post.occ = pre.occ + x
                    /\ IF x = rem THEN Finished(res, "ok", q.n) /\ q2 = IdleReq
                       ELSE res.r = "pending" /\ q2 = [q EXCEPT !.done = @ + x]
    [] q.k \in {"SR", "SW", "SB"} ->
         LET c == (IF q.k # "SW" /\ ReadyR(pre.occ, pre.nw) THEN 1 ELSE 0)
                  + (IF q.k # "SR" /\ ReadyW(pre.occ, pre.nr) THEN 1 ELSE 0)
         IN /\ SameKernel(pre, post) /\ NoData(res)
            /\ IF c > 0 THEN Finished(res, "ok", c) /\ q2 = IdleReq
               ELSE res.r = "pending" /\ q2 = q
    [] OTHER -> FALSE

Actors(st) == 1 .. Len(st.act)
Pending(st, b) == st.act[b].k # "I"

\* NO LOST WAKE-UP at level K: whoever waits for a condition that now holds
\* has been woken (waking more is harmless); a waker that fired stays fired
\* until its owner is polled.
WakeOK(pre, post, a) ==
  \A b \in Actors(post) \ {a} :
    /\ pre.woken[b] => post.woken[b]
    /\ (Pending(post, b) /\ post.act[b].k \in KKinds /\ KEnabled(post.act[b], post)) => post.woken[b]

Sane(st) == st.occ <= PIPE_SIZE /\ st.occ = RunsLen(st.runs)

KStep(r) ==
  LET pre == r.pre  post == r.post  op == r.op  res == r.res  a == op.a
  IN /\ Sane(pre) /\ Sane(post)
     /\ CASE op.op \in {"start", "poll"} ->
               LET q == IF op.op = "start"
                        THEN [k |-> op.k, n |-> op.n, blk |-> op.blk, done |-> 0, tag |-> op.tag, acc |-> <<>>]
                        ELSE pre.act[a]
               IN /\ (op.op = "start") = ~Pending(pre, a)
                  /\ PollOK(pre, q, res, post.act[a], post)
                  /\ post.nr = pre.nr /\ post.nw = pre.nw
                  /\ \A b \in Actors(pre) \ {a} : post.act[b] = pre.act[b]
                  /\ WakeOK(pre, post, a)
          [] op.op = "peek" ->       \* Concurrent's select, zero timeout: ready descriptors wake their tasks
               /\ SameKernel(pre, post) /\ post.nr = pre.nr /\ post.nw = pre.nw /\ post.act = pre.act
               /\ \A b \in Actors(post) :
                    /\ pre.woken[b] => post.woken[b]
                    /\ (Pending(post, b) /\ post.act[b].k \in CKinds /\ CReady(post.act[b], post)) => post.woken[b]
          [] op.op \in {"closeR", "closeW"} ->
               /\ res.r = "ok" /\ SameKernel(pre, post) /\ post.act = pre.act
               /\ post.nr = pre.nr - (IF op.op = "closeR" THEN 1 ELSE 0)
               /\ post.nw = pre.nw - (IF op.op = "closeW" THEN 1 ELSE 0)
               /\ post.nr >= 0 /\ post.nw >= 0
               /\ WakeOK(pre, post, 0)
          [] OTHER -> FALSE

-----------------------------------------------------------------------------
RecOK(r) == CASE r.t = "run" -> RunOK(r)
              [] r.t = "k"   -> "panic" \notin DOMAIN r /\ KStep(r)
              [] OTHER -> FALSE

TraceInit == l = 1
TraceNext == /\ l <= Len(Rec)
             /\ RecOK(Rec[l])
             /\ l' = l + 1
TraceSpec == TraceInit /\ [][TraceNext]_vars

Accepted ==
  LET d == TLCGet("stats").diameter
  IN IF d - 1 = Len(Rec) THEN TRUE
     ELSE Print(<<"REJECT", d, ToJson(Rec[d])>>, FALSE)
=============================================================================
