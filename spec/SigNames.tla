------------------------------ MODULE SigNames ------------------------------
(***************************************************************************)
(* G14 (specification growth): the signal catalogue and every conversion   *)
(* between signal names, signal numbers, trap conditions and exit          *)
(* statuses, and the part of `kill` and `trap` that consists of those      *)
(* conversions.                                                            *)
(*                                                                         *)
(* Sources: POSIX.1-2024 XBD <signal.h> (required names, default actions,  *)
(* realtime signals), XSH kill() / sig2str() / str2sig(), XCU kill (-s,    *)
(* -l [exit_status], the XSI forms -signal_name / -signal_number), XCU     *)
(* trap (condition syntax), XCU 2.8.2 (exit status > 128 for signals);     *)
(* the manual docs/src/builtins/{kill,trap}.md,                            *)
(* docs/src/language/commands/exit_status.md (384 + n), and the public doc *)
(* comments of yash_env::signal, yash_env::system::Signals,                *)
(* yash_env::semantics::ExitStatus::to_signal.                             *)
(*                                                                         *)
(* One model, two systems.  The platform is a parameter P measured by the  *)
(* harness:                                                                *)
(*   P.names  sequence of [n |-> name without SIG, v |-> number,           *)
(*            req |-> the name is required by POSIX <signal.h>], in        *)
(*            alphabetical order of n                                      *)
(*   P.rtmin, P.rtmax   the realtime range (rtmin > rtmax: none)           *)
(*   P.kacc   the numbers 0..maxn the platform's kill() accepts            *)
(*   P.maxn   rtmax + 2                                                    *)
(*                                                                         *)
(* Outcomes are records; where neither POSIX nor the manual decides the    *)
(* outcome is "open" (the case is skipped and counted, never guessed).     *)
(***************************************************************************)
EXTENDS Integers, Sequences, FiniteSets, TLC

\* "none": the specification.  Any other value selects ONE named wrong reading
\* of a rule (see the places where Variant is tested); the negative
\* configurations Gen_SigNames_neg_<Variant>.cfg show that the laws of
\* Gen_SigNames.tla refute each of them (so the laws are not vacuous).
\*   "rt-one-ended"        RTMAX-k is counted from RTMIN like RTMIN+k
\*   "rt-always-rtmin"     a realtime number is always written RTMIN+k
\*   "any-name"            kill -l N may print any name of N (IOT for 6)
\*   "status-128"          a signal-terminated command has status 128 + n
\*   "exit-is-signal-0"    0 / EXIT name a signal for kill -l
\*   "list-operand-prefix" kill -l accepts SIGNAME operands
\*   "trap-folds-case"     trap accepts lower-case names and the SIG prefix
\*   "cluster-first"       -stop is the option s with argument "top"
\*   "portable-s-number"   kill -s 9 is accepted under the portable option
\*   "dash-needs-upper"    the obsolete form -name is upper case only
CONSTANT Variant

(***************************************************************************)
(* Text.  TLC strings support Len, SubSeq and \o.                          *)
(***************************************************************************)
LowerS == <<"a","b","c","d","e","f","g","h","i","j","k","l","m","n","o","p","q","r","s","t","u","v","w","x","y","z">>
UpperS == <<"A","B","C","D","E","F","G","H","I","J","K","L","M","N","O","P","Q","R","S","T","U","V","W","X","Y","Z">>
DigS == <<"0","1","2","3","4","5","6","7","8","9">>

Ch(s, i) == SubSeq(s, i, i)
Tl(s, i) == SubSeq(s, i, Len(s))
Hd(s, k) == SubSeq(s, 1, k)
StartsWith(s, p) == Len(s) >= Len(p) /\ Hd(s, Len(p)) = p

IdxIn(tab, c) == IF \E i \in 1..Len(tab) : tab[i] = c THEN CHOOSE i \in 1..Len(tab) : tab[i] = c ELSE 0

RECURSIVE Up(_)
Up(s) == IF Len(s) = 0 THEN ""
         ELSE (LET k == IdxIn(LowerS, Ch(s, 1)) IN IF k = 0 THEN Ch(s, 1) ELSE UpperS[k]) \o Up(Tl(s, 2))
RECURSIVE Down(_)
Down(s) == IF Len(s) = 0 THEN ""
           ELSE (LET k == IdxIn(UpperS, Ch(s, 1)) IN IF k = 0 THEN Ch(s, 1) ELSE LowerS[k]) \o Down(Tl(s, 2))
\* first letter upper case, the rest lower case ("Term", "Sigterm")
Cap(s) == IF Len(s) = 0 THEN "" ELSE Up(Ch(s, 1)) \o Down(Tl(s, 2))

IsDigits(s) == Len(s) > 0 /\ \A i \in 1..Len(s) : IdxIn(DigS, Ch(s, i)) # 0
Huge == 99999999
RECURSIVE DecAcc(_, _)
DecAcc(s, acc) == IF Len(s) = 0 THEN acc
                  ELSE IF acc > 9999999 THEN Huge
                  ELSE DecAcc(Tl(s, 2), acc * 10 + IdxIn(DigS, Ch(s, 1)) - 1)
\* value of a digit string; everything above 8 digits is Huge (no signal
\* number or exit status is that large)
DecVal(s) == DecAcc(s, 0)
LeadingZero(s) == Len(s) > 1 /\ Ch(s, 1) = "0"
IsSigned(s) == Len(s) > 1 /\ Ch(s, 1) \in {"+", "-"} /\ IsDigits(Tl(s, 2))

RangeOf(q) == {q[i] : i \in 1..Len(q)}

(***************************************************************************)
(* Results of a conversion.                                                *)
(***************************************************************************)
Sig(n) == [k |-> "sig", n |-> n]
ExitR == [k |-> "exit", n |-> 0]
ErrR == [k |-> "err", n |-> -1]
OpenR == [k |-> "open", n |-> -1]

(***************************************************************************)
(* The catalogue.                                                          *)
(***************************************************************************)
HasRt(P) == P.rtmin <= P.rtmax
RtSpan(P) == P.rtmax - P.rtmin
RtNumbers(P) == P.rtmin..P.rtmax
NamedNumbers(P) == {P.names[i].v : i \in 1..Len(P.names)}
Numbers(P) == NamedNumbers(P) \cup RtNumbers(P)
Kacc(P) == RangeOf(P.kacc)
NamesOfNum(P, n) == {P.names[i].n : i \in {j \in 1..Len(P.names) : P.names[j].v = n}}
ReqNamesOfNum(P, n) == {P.names[i].n : i \in {j \in 1..Len(P.names) : P.names[j].v = n /\ P.names[j].req}}
NumOfNamed(P, t) == LET I == {i \in 1..Len(P.names) : P.names[i].n = t} IN
                    IF I = {} THEN -1 ELSE P.names[CHOOSE i \in I : TRUE].v

\* The names POSIX.1-2024 <signal.h> requires, with their default actions:
\* T abnormal termination, A abnormal termination "with additional actions"
\* (XSI: a core file MAY be created), I ignore, S stop, C continue.
PosixTable == <<
  <<"ABRT", "A">>, <<"ALRM", "T">>, <<"BUS", "A">>, <<"CHLD", "I">>, <<"CONT", "C">>, <<"FPE", "A">>,
  <<"HUP", "T">>, <<"ILL", "A">>, <<"INT", "T">>, <<"KILL", "T">>, <<"PIPE", "T">>, <<"QUIT", "A">>,
  <<"SEGV", "A">>, <<"STOP", "S">>, <<"TERM", "T">>, <<"TSTP", "S">>, <<"TTIN", "S">>, <<"TTOU", "S">>,
  <<"USR1", "T">>, <<"USR2", "T">>, <<"WINCH", "I">>, <<"SYS", "A">>, <<"TRAP", "A">>, <<"URG", "I">>,
  <<"VTALRM", "T">>, <<"XCPU", "A">>, <<"XFSZ", "A">> >>
PosixNames == {PosixTable[i][1] : i \in 1..Len(PosixTable)}
\* XCU kill / XBD: the numbers every system must use
PosixFixed == <<<<"HUP", 1>>, <<"INT", 2>>, <<"QUIT", 3>>, <<"ABRT", 6>>, <<"KILL", 9>>, <<"ALRM", 14>>, <<"TERM", 15>>>>

\* Every name the type yash_env::signal::Name knows (its rustdoc), in the
\* documented iteration order (alphabetical, then RTMIN and RTMAX).
KnownNames == <<"ABRT", "ALRM", "BUS", "CHLD", "CLD", "CONT", "EMT", "FPE", "HUP", "ILL", "INFO", "INT", "IO", "IOT",
                "KILL", "LOST", "PIPE", "POLL", "PROF", "PWR", "QUIT", "SEGV", "STKFLT", "STOP", "SYS", "TERM", "THR",
                "TRAP", "TSTP", "TTIN", "TTOU", "URG", "USR1", "USR2", "VTALRM", "WINCH", "XCPU", "XFSZ">>

\* default action of signal number n: "T" "A" "I" "S" "C", or "?" where
\* POSIX does not say (names outside <signal.h>)
DefAct(P, n) ==
  \* XBD <signal.h>: "The default actions for the realtime signals in the
  \* range SIGRTMIN to SIGRTMAX shall be to terminate the process abnormally."
  IF n \in RtNumbers(P) THEN "T"
  ELSE LET I == {i \in 1..Len(PosixTable) : PosixTable[i][1] \in NamesOfNum(P, n)} IN
       IF I = {} THEN "?" ELSE PosixTable[CHOOSE i \in I : TRUE][2]
\* What a system may report as the effect of the default action: the
\* additional actions of "A" are optional; for realtime signals the rustdoc of
\* yash_env::system::virtual::SignalEffect::of promises a core dump where
\* POSIX asks for plain termination, so both are accepted there.
EffectAllowed(P, n) ==
  LET a == DefAct(P, n) IN
  IF n \in RtNumbers(P) THEN {"T", "A"} ELSE IF a = "A" THEN {"A", "T"} ELSE {a}

(***************************************************************************)
(* Names -> numbers.  NameNum takes the exact spelling: upper case, no SIG *)
(* prefix.  Realtime signals (rustdoc of Name::Rtmin / Rtmax and of        *)
(* Name::as_string; XSH str2sig): RTMIN, RTMAX, RTMIN+k, RTMAX-k with      *)
(* 0 <= k <= RTMAX-RTMIN.  Open: RTMIN-0, RTMAX+0, offsets with leading    *)
(* zeros.                                                                  *)
(***************************************************************************)
RtNum(P, t) ==
  LET base == Hd(t, 5)
      tail == Tl(t, 6)
      b == IF base = "RTMIN" THEN P.rtmin ELSE P.rtmax
  IN IF ~HasRt(P) THEN ErrR
     ELSE IF Len(tail) = 0 THEN Sig(b)
     ELSE IF ~IsSigned(tail) THEN ErrR
     ELSE LET d == Tl(tail, 2)
              k == DecVal(d)
              plus == Ch(tail, 1) = "+"
              natural == (base = "RTMIN") = plus
          IN IF k > RtSpan(P) THEN ErrR
             ELSE IF ~natural THEN (IF k = 0 THEN OpenR ELSE ErrR)
             ELSE IF LeadingZero(d) THEN OpenR
             ELSE IF Variant = "rt-one-ended" THEN Sig(P.rtmin + k)
             ELSE Sig(IF plus THEN b + k ELSE b - k)

NameNum(P, t) ==
  IF NumOfNamed(P, t) # -1 THEN Sig(NumOfNamed(P, t))
  ELSE IF StartsWith(t, "RTMIN") \/ StartsWith(t, "RTMAX") THEN RtNum(P, t)
  ELSE ErrR

(***************************************************************************)
(* Numbers -> names.  A realtime number is written relative to the nearer  *)
(* end (both forms in the middle); a number with a name POSIX requires is  *)
(* written with such a name (kill -l 6 is ABRT, not IOT), any other number *)
(* with any of its names (rustdoc of Signals::sig2str: unspecified which). *)
(***************************************************************************)
RtNames(P, n) ==
  IF n = P.rtmin THEN {"RTMIN"}
  ELSE IF n = P.rtmax THEN {"RTMAX"}
  ELSE LET up == n - P.rtmin
           dn == P.rtmax - n
       IN IF Variant = "rt-always-rtmin" THEN {"RTMIN+" \o ToString(up)}
          ELSE (IF up <= dn THEN {"RTMIN+" \o ToString(up)} ELSE {}) \cup (IF dn <= up THEN {"RTMAX-" \o ToString(dn)} ELSE {})

NameOf(P, n) ==
  IF ReqNamesOfNum(P, n) # {} /\ Variant # "any-name" THEN ReqNamesOfNum(P, n)
  ELSE IF NamesOfNum(P, n) # {} THEN NamesOfNum(P, n)
  ELSE IF n \in RtNumbers(P) THEN RtNames(P, n)
  ELSE {}

\* every spelling (exact form) that denotes number n
Spellings(P, n) ==
  NamesOfNum(P, n) \cup
  (IF n \in RtNumbers(P)
   THEN {"RTMIN+" \o ToString(n - P.rtmin), "RTMAX-" \o ToString(P.rtmax - n)}
        \cup (IF n = P.rtmin THEN {"RTMIN"} ELSE {}) \cup (IF n = P.rtmax THEN {"RTMAX"} ELSE {})
   ELSE {})

(***************************************************************************)
(* Exit statuses (exit_status.md: 384 + n; rustdoc of                      *)
(* ExitStatus::to_signal: 384 + n, else 128 + n, else n).                  *)
(***************************************************************************)
StatusOfSignal(n) == IF Variant = "status-128" THEN 128 + n ELSE 384 + n
\* the signals an integer may stand for as an operand of kill -l (kill.md
\* lists the three readings without an order)
StatusReadings(P, s) == {n \in Numbers(P) : s = n \/ s = 128 + n \/ s = 384 + n}
\* exact reading only (what the shell uses to kill itself)
StatusExact(P, s) == {n \in Numbers(P) : s = 384 + n}
\* the order the rustdoc of ExitStatus::to_signal promises: 384, "if the
\* offsetting does not result in a valid signal ... additionally tries with
\* 128 and 0"; -1: none
StatusFirst(P, s) ==
  IF s - 384 \in Numbers(P) THEN s - 384
  ELSE IF s - 128 \in Numbers(P) THEN s - 128
  ELSE IF s \in Numbers(P) THEN s ELSE -1

(***************************************************************************)
(* ParseSigSpec: a signal given as text, by context.                       *)
(*   "kill-s" "kill-n"  option argument of -s / -n (kill.md: name case-    *)
(*            insensitive, SIG prefix optional, or a number)               *)
(*   "kill-dash"        -NAME / -NUMBER (obsolete form, same rules)        *)
(*   "kill-l"           operand of -l / -v: exit status, number, or name   *)
(*                      without SIG prefix                                 *)
(*   "trap"             condition: EXIT, 0, number, upper-case name        *)
(*                      without prefix                                     *)
(* `po` is the portable option (kill.md, Compatibility).                   *)
(* For kill-s/-n/dash a number is returned as it is: whether the system    *)
(* has such a signal is decided when it is sent.                           *)
(***************************************************************************)
NumOrName(P, t, sigok) ==
  IF Len(t) = 0 THEN ErrR
  ELSE IF IsDigits(t) THEN (IF LeadingZero(t) THEN OpenR ELSE Sig(DecVal(t)))
  ELSE IF IsSigned(t) THEN (IF Ch(t, 1) = "-" /\ DecVal(Tl(t, 2)) > 0 THEN ErrR ELSE OpenR)
  ELSE LET u == Up(t)
           hasSig == StartsWith(u, "SIG")
           core == IF hasSig THEN Tl(u, 4) ELSE u
       IN IF hasSig /\ ~sigok THEN ErrR ELSE NameNum(P, core)

ParseKillSig(P, t, po) ==
  LET r == NumOrName(P, t, ~po) IN
  \* portable: the argument of -s is a name or 0
  IF po /\ IsDigits(t) /\ r.k = "sig" /\ r.n # 0 /\ Variant # "portable-s-number" THEN ErrR ELSE r

ParseDash(P, t, po) ==
  IF Variant = "dash-needs-upper" /\ ~IsDigits(t) /\ t # Up(t) THEN ErrR ELSE NumOrName(P, t, ~po)

\* operand of kill -l / -v: the set of numbers it may stand for, or err/open
\* (returned as [k, ns])
ListOperand(P, t) ==
  IF Len(t) = 0 THEN [k |-> "err", ns |-> {}]
  ELSE IF Variant = "exit-is-signal-0" /\ t \in {"0", "EXIT"} THEN [k |-> "num", ns |-> {0}]
  ELSE IF Variant = "list-operand-prefix" /\ StartsWith(t, "SIG") /\ NameNum(P, Tl(t, 4)).k = "sig"
    THEN [k |-> "name", ns |-> {NameNum(P, Tl(t, 4)).n}]
  ELSE IF IsDigits(t) THEN
    IF LeadingZero(t) THEN [k |-> "open", ns |-> {}]
    ELSE LET ns == StatusReadings(P, DecVal(t)) IN
         IF ns = {} THEN [k |-> "err", ns |-> {}] ELSE [k |-> "num", ns |-> ns]
  ELSE IF IsSigned(t) THEN (IF Ch(t, 1) = "-" /\ DecVal(Tl(t, 2)) > 0 THEN [k |-> "err", ns |-> {}] ELSE [k |-> "open", ns |-> {}])
  ELSE LET exact == NameNum(P, t)
           folded == NameNum(P, Up(t))
       IN IF exact.k = "sig" THEN [k |-> "name", ns |-> {exact.n}]
          ELSE IF exact.k = "open" THEN [k |-> "open", ns |-> {}]
          \* lower-case names as operands: the manual is silent
          ELSE IF t # Up(t) /\ folded.k # "err" THEN [k |-> "open", ns |-> {}]
          ELSE [k |-> "err", ns |-> {}]

ParseTrapCond(P, t) ==
  IF t = "EXIT" THEN ExitR
  ELSE IF Len(t) = 0 THEN ErrR
  ELSE IF IsDigits(t) THEN
    IF LeadingZero(t) THEN OpenR
    ELSE IF DecVal(t) = 0 THEN ExitR
    ELSE IF DecVal(t) \in Numbers(P) THEN Sig(DecVal(t)) ELSE ErrR
  ELSE IF IsSigned(t) THEN (IF Ch(t, 1) = "-" /\ DecVal(Tl(t, 2)) > 0 THEN ErrR ELSE OpenR)
  ELSE IF Variant = "trap-folds-case" THEN NumOrName(P, t, TRUE)
  ELSE NameNum(P, t)

ParseSigSpec(P, t, ctx, po) ==
  CASE ctx \in {"kill-s", "kill-n"} -> ParseKillSig(P, t, po)
    [] ctx = "kill-dash" -> ParseDash(P, t, po)
    [] ctx = "kill-l" -> (LET r == ListOperand(P, t) IN
                          IF r.k \in {"err", "open"} THEN [k |-> r.k, n |-> -1]
                          ELSE IF Cardinality(r.ns) = 1 THEN Sig(CHOOSE n \in r.ns : TRUE) ELSE OpenR)
    [] ctx = "trap" -> ParseTrapCond(P, t)

(***************************************************************************)
(* kill -l / -v output.  A line is a sequence of tokens: the name, with -v *)
(* the number first (kill.md: "displaying the signal number before each    *)
(* name"; the rest of the format may change, so only the first and the     *)
(* last token are prescribed).                                             *)
(***************************************************************************)
\* allowed (number, name) pairs for one operand
OperandPairs(P, t) ==
  LET r == ListOperand(P, t) IN
  IF r.k = "num" THEN UNION {{<<n, nm>> : nm \in NameOf(P, n)} : n \in r.ns}
  ELSE IF r.k = "name" THEN UNION {{<<n, nm>> : nm \in Spellings(P, n)} : n \in r.ns}
  ELSE {}

LineOK(P, line, pairs, verb) ==
  IF verb THEN Len(line) >= 2 /\ IsDigits(line[1]) /\ ~LeadingZero(line[1]) /\ <<DecVal(line[1]), line[Len(line)]>> \in pairs
  ELSE Len(line) = 1 /\ \E p \in pairs : p[2] = line[1]

\* The whole list (no operands): every name of the catalogue once (kill.md:
\* "currently prints all names"), every realtime number once under its name,
\* in ascending order of the numbers (the project's own example of the
\* output, yash-builtin/src/kill/print.rs print_all_non_verbose; the order
\* among the names of one number is free).
LineNumber(P, line, verb) ==
  LET nm == line[Len(line)]
      r == NameNum(P, nm)
  IN IF Len(line) = 0 \/ (verb /\ Len(line) < 2) \/ (~verb /\ Len(line) # 1) THEN -1
     ELSE IF r.k # "sig" THEN -1
     ELSE IF verb /\ (~IsDigits(line[1]) \/ LeadingZero(line[1]) \/ DecVal(line[1]) # r.n) THEN -1
     ELSE IF nm \in NamesOfNum(P, r.n) \/ (r.n \in RtNumbers(P) /\ nm \in RtNames(P, r.n)) THEN r.n
     ELSE -1

ListAllOK(P, out, verb) ==
  LET nums == [i \in 1..Len(out) |-> LineNumber(P, out[i], verb)]
      nameAt(i) == out[i][Len(out[i])]
  IN /\ \A i \in 1..Len(out) : nums[i] # -1
     /\ \A i \in 1..(Len(out) - 1) : nums[i] <= nums[i + 1]
     /\ \A i, j \in 1..Len(out) : i # j => nameAt(i) # nameAt(j)
     /\ \A i, j \in 1..Len(out) : (i # j /\ nums[i] \in RtNumbers(P)) => nums[i] # nums[j]
     /\ \A k \in 1..Len(P.names) : \E i \in 1..Len(out) : nameAt(i) = P.names[k].n
     /\ \A n \in RtNumbers(P) : \E i \in 1..Len(out) : nums[i] = n

\* the canonical list: ascending numbers, names of one number alphabetically
RECURSIVE ListAllFrom(_, _, _)
ListAllFrom(P, n, verb) ==
  IF n > P.maxn THEN <<>>
  ELSE LET named == SelectSeq(P.names, LAMBDA e : e.v = n)
           here == IF Len(named) > 0 THEN [i \in 1..Len(named) |-> named[i].n]
                   ELSE IF n \in RtNumbers(P) THEN <<CHOOSE nm \in RtNames(P, n) : StartsWith(nm, "RTMIN") \/ Cardinality(RtNames(P, n)) = 1>>
                   ELSE <<>>
       IN [i \in 1..Len(here) |-> IF verb THEN <<ToString(n), here[i]>> ELSE <<here[i]>>] \o ListAllFrom(P, n + 1, verb)
ListAll(P, verb) == ListAllFrom(P, 1, verb)

(***************************************************************************)
(* The kill command line.  `args` are the words after `kill`.  Targets are *)
(* symbolic: "@V1" "@V2" "@V3" the process IDs of three sacrificial        *)
(* processes (V1 leads group G1 with member V3, V2 leads group G2),        *)
(* "@-G1" "@-G2" negated group IDs (words that start with a hyphen!),      *)
(* "@NONE" an ID no process has, "@ME" the process that runs kill.         *)
(*                                                                         *)
(* Parsing follows XBD 12.2 and kill.md: options up to the first operand   *)
(* or `--`; an argument -X is the obsolete form when X as a whole is a     *)
(* signal number or name, else a cluster of the options l v s n, where s   *)
(* and n take the rest of the cluster or the next argument.                *)
(***************************************************************************)
BigPid == 7777777
Shape(a) == IF StartsWith(a, "@-") THEN "-" \o ToString(BigPid) ELSE a

St0 == [res |-> "go", i |-> 1, sig |-> -1, cnt |-> 0, list |-> FALSE, verb |-> FALSE, used |-> 1]
WithSig(st, r, used) ==
  IF r.k = "err" THEN [st EXCEPT !.res = "err"]
  ELSE IF r.k = "open" THEN [st EXCEPT !.res = "open"]
  ELSE [st EXCEPT !.sig = r.n, !.cnt = @ + 1, !.used = used]

RECURSIVE Cluster(_, _, _, _, _, _)
Cluster(P, po, body, hasnext, next, st) ==
  IF Len(body) = 0 THEN st
  ELSE LET c == Ch(body, 1)
           rest == Tl(body, 2)
       IN IF c = "l" THEN Cluster(P, po, rest, hasnext, next, [st EXCEPT !.list = TRUE])
          ELSE IF c = "v" THEN (IF po THEN [st EXCEPT !.res = "err"]     \* kill.md: -v rejected under portable
                                ELSE Cluster(P, po, rest, hasnext, next, [st EXCEPT !.verb = TRUE]))
          ELSE IF c \in {"s", "n"} THEN
            IF c = "n" /\ po THEN [st EXCEPT !.res = "err"]              \* -n rejected under portable
            ELSE IF Len(rest) > 0 THEN
              (IF po THEN [st EXCEPT !.res = "err"]                      \* attached argument rejected under portable
               ELSE WithSig(st, ParseKillSig(P, rest, po), 1))
            ELSE IF ~hasnext THEN [st EXCEPT !.res = "err"]
            \* a process ID in the place of the signal: a number the model does not know
            ELSE IF StartsWith(next, "@") THEN [st EXCEPT !.res = "open"]
            ELSE WithSig(st, ParseKillSig(P, next, po), 2)
          ELSE [st EXCEPT !.res = "err"]

RECURSIVE Scan(_, _, _, _)
Scan(P, po, args, st) ==
  IF st.res # "go" \/ st.i > Len(args) THEN st
  ELSE LET a == Shape(args[st.i]) IN
    IF a = "--" THEN [st EXCEPT !.i = @ + 1]
    ELSE IF Len(a) < 2 \/ Ch(a, 1) # "-" THEN st
    ELSE LET body == Tl(a, 2)
             w == ParseDash(P, body, po)
             hasnext == st.i < Len(args)
             cl == Cluster(P, po, body, hasnext, IF hasnext THEN Shape(args[st.i + 1]) ELSE "", [st EXCEPT !.used = 1])
         IN IF Variant = "cluster-first" /\ Ch(body, 1) \in {"l", "v", "s", "n"}
              THEN Scan(P, po, args, [cl EXCEPT !.i = @ + cl.used, !.used = 1])
            ELSE IF w.k = "open" THEN [st EXCEPT !.res = "open"]
            ELSE IF w.k = "sig" THEN
              \* also a well-formed option cluster with another meaning: ambiguous
              (IF cl.res = "go" /\ (cl.list # st.list \/ cl.verb # st.verb \/ cl.sig # w.n \/ cl.used # 1)
               THEN [st EXCEPT !.res = "open"]
               ELSE Scan(P, po, args, [st EXCEPT !.sig = w.n, !.cnt = @ + 1, !.i = @ + 1]))
            ELSE Scan(P, po, args, [cl EXCEPT !.i = @ + cl.used, !.used = 1])

TargetVictims(t) ==
  CASE t = "@V1" -> {"V1"} [] t = "@V2" -> {"V2"} [] t = "@V3" -> {"V3"}
    [] t = "@-G1" -> {"V1", "V3"} [] t = "@-G2" -> {"V2"} [] t = "@ME" -> {"ME"}
    [] OTHER -> {}
IsGoodTarget(t) == t \in {"@V1", "@V2", "@V3", "@-G1", "@-G2", "@ME"}

\* outcome of `kill args`:
\*   k     "send" "list" "err" "open"
\*   sig   send: the number sent (0: null signal)
\*   tg    send: the victims that receive it
\*   st0   send: exit status zero (every operand reached a process)
\*   rcvopen  send: what the well-formed operands receive is left open
\*            (another operand is not a process or group ID at all)
\*   ops, verb  list: the operands and -v
KOut(k, sig, tg, st0, rcvopen, ops, verb) ==
  [k |-> k, sig |-> sig, tg |-> tg, st0 |-> st0, rcvopen |-> rcvopen, ops |-> ops, verb |-> verb]
KErr == KOut("err", -1, {}, FALSE, FALSE, <<>>, FALSE)
KOpen == KOut("open", -1, {}, FALSE, FALSE, <<>>, FALSE)

KillCmd(P, po, args) ==
  LET st == Scan(P, po, args, St0)
      ops == IF st.i > Len(args) THEN <<>> ELSE SubSeq(args, st.i, Len(args))
  IN IF st.res = "err" THEN KErr
     ELSE IF st.res = "open" THEN KOpen
     ELSE IF st.cnt > 1 THEN KOpen                       \* the signal given twice: nobody says
     ELSE IF st.list \/ st.verb THEN
       IF st.cnt > 0 THEN KOpen                          \* -l together with a signal to send: nobody says
       \* portable (kill.md): at most one operand, and no name
       ELSE IF po /\ (Len(ops) > 1 \/ (Len(ops) >= 1 /\ ListOperand(P, ops[1]).k = "name")) THEN KErr
       ELSE IF \E i \in 1..Len(ops) : ListOperand(P, ops[i]).k = "err" THEN KErr
       ELSE IF \E i \in 1..Len(ops) : ListOperand(P, ops[i]).k = "open" THEN KOpen
       ELSE KOut("list", -1, {}, TRUE, FALSE, ops, st.verb)
     ELSE IF Len(ops) = 0 THEN KErr
     ELSE LET sig == IF st.cnt = 0 THEN NumOfNamed(P, "TERM") ELSE st.sig IN
       IF sig \notin Kacc(P) THEN KErr                  \* kill.md: "A specified signal is not supported"
       ELSE IF sig # 0 /\ sig \notin Numbers(P) THEN KOpen   \* the kernel takes it, the catalogue does not list it
       ELSE LET bad == \E i \in 1..Len(ops) : ~IsGoodTarget(ops[i]) /\ ops[i] # "@NONE"
                none == \E i \in 1..Len(ops) : ops[i] = "@NONE"
            IN KOut("send", sig, UNION {TargetVictims(ops[i]) : i \in 1..Len(ops)}, ~bad /\ ~none, bad, <<>>, FALSE)

(***************************************************************************)
(* trap: only the condition layer.  w are the words after `trap`:          *)
(*   -p cond...        print                                               *)
(*   action cond...    action "-" (default), "" (ignore) or a command      *)
(*   n cond...         XCU trap: "If the first operand is an unsigned      *)
(*                     decimal integer, the shell shall treat all operands *)
(*                     as conditions, and shall reset each condition to    *)
(*                     the default value" (trap.md: "The action may be     *)
(*                     omitted if the first condition is a non-negative    *)
(*                     decimal integer")                                   *)
(*   k  "ok" | "err" | "open";  cw: the condition words (also what is      *)
(*   handed to `trap -p` for the read-back); conds: the canonical names    *)
(*   allowed per condition, as printed by `trap -p`; act: the action as    *)
(*   `trap -p` prints it afterwards.                                       *)
(***************************************************************************)
CondNames(P, r) == IF r.k = "exit" THEN {"EXIT"} ELSE NameOf(P, r.n)
\* command actions whose quoted form is the word itself
PlainActions == {"true", "false", "exit"}
TrapR(k, cw, conds, act) == [k |-> k, cw |-> cw, conds |-> conds, act |-> act]
TrapCmd(P, w) ==
  LET print == Len(w) >= 1 /\ w[1] = "-p"
      allconds == Len(w) >= 1 /\ IsDigits(w[1])
      cw == IF print THEN Tail(w) ELSE IF allconds THEN w ELSE IF Len(w) >= 1 THEN Tail(w) ELSE <<>>
      action == IF print \/ Len(w) = 0 THEN "" ELSE IF allconds THEN "-" ELSE w[1]
      act == IF action = "" THEN "''" ELSE action
      cs == [i \in 1..Len(cw) |-> ParseTrapCond(P, cw[i])]
      kill9 == {NumOfNamed(P, "KILL"), NumOfNamed(P, "STOP")}
      Open == TrapR("open", cw, <<>>, "")
      Err == TrapR("err", cw, <<>>, "")
  IN IF Len(cw) = 0 THEN Open                 \* listings without operands: family trapall; action without condition: nobody says
     \* other words that start with a hyphen are options of the built-in
     ELSE IF ~print /\ ~allconds /\ Len(action) > 1 /\ Ch(action, 1) \in {"-", "+"} THEN Open
     ELSE IF ~print /\ ~allconds /\ action \notin ({"-", ""} \cup PlainActions) THEN Open
     ELSE IF \E i \in 1..Len(cs) : cs[i].k = "err" THEN Err
     ELSE IF \E i \in 1..Len(cs) : cs[i].k = "open" THEN Open
     \* trap.md: traps cannot be set to KILL or STOP; resetting them: POSIX undefined
     ELSE IF ~print /\ \E i \in 1..Len(cs) : cs[i].k = "sig" /\ cs[i].n \in kill9
       THEN (IF action = "-" THEN Open ELSE Err)
     ELSE TrapR("ok", cw, [i \in 1..Len(cs) |-> CondNames(P, cs[i])], act)

\* a line of `trap -p cond`: trap -- <action> <name>
TrapLineOK(line, names) == Len(line) = 4 /\ line[1] = "trap" /\ line[2] = "--" /\ line[4] \in names

\* `trap -p` without operands: EXIT, then every number once in ascending
\* order under a canonical name (rustdoc of Condition::iter); whether KILL
\* and STOP are shown is open.
TrapAllOK(P, out) ==
  LET nm(i) == out[i][4]
      num(i) == IF nm(i) = "EXIT" THEN 0 ELSE NameNum(P, nm(i)).n
      kill9 == {NumOfNamed(P, "KILL"), NumOfNamed(P, "STOP")}
  IN /\ \A i \in 1..Len(out) : Len(out[i]) = 4 /\ out[i][1] = "trap" /\ out[i][2] = "--"
     /\ \A i \in 1..Len(out) : nm(i) = "EXIT" \/ (NameNum(P, nm(i)).k = "sig" /\ nm(i) \in NameOf(P, num(i)))
     /\ \A i \in 1..(Len(out) - 1) : num(i) < num(i + 1)
     /\ \A n \in (Numbers(P) \cup {0}) \ kill9 : \E i \in 1..Len(out) : num(i) = n

(***************************************************************************)
(* Cases and observations.                                                 *)
(*                                                                         *)
(* A case c = [fam, po, w, op, t, n]:                                      *)
(*   fam "send"  kill w, targets among the victims          (recv judged)  *)
(*       "list"  kill w with -l / -v                        (out judged)   *)
(*       "self"  kill w with target @ME in a shell that has the trap       *)
(*               `echo T<n>` on every number n it can trap                 *)
(*       "die"   (kill w) with target @ME = the subshell; then             *)
(*               kill -l <status of the subshell>                          *)
(*       "trap"  trap w (w[1] the form); for "-" and "" followed by        *)
(*               trap -p <the same conditions>                             *)
(*       "trapall"  trap -p                                                *)
(*       "api"   one call of the name/number API: op, text t, number n     *)
(* An observation o = [done, st, err, out, recv, st2, out2, r, s]:         *)
(*   done  the run completed; st exit status; err: anything on stderr;     *)
(*   out   standard output as lines of tokens; recv: per victim            *)
(*   [v, pend (pending signal numbers), state ("run" "sig:N" "stop:N"      *)
(*   "exit:N")]; st2 / out2 the follow-up command; r / s the result of an  *)
(*   API call (number / strings).                                          *)
(* Conforms returns "ok", "open" (not decided by POSIX or the manual),     *)
(* "bad-input", or "reject:<reason>".                                      *)
(***************************************************************************)
Rej(why) == "reject:" \o why
First(checks) == \* checks: sequence of <<condition, reason>>; the first failing reason, or "ok"
  LET I == {i \in 1..Len(checks) : ~checks[i][1]} IN
  IF I = {} THEN "ok" ELSE Rej(checks[CHOOSE i \in I : \A j \in I : i <= j][2])

KillNum(P) == NumOfNamed(P, "KILL")
StopNum(P) == NumOfNamed(P, "STOP")

VictimOK(P, rv, sig, hit) ==
  IF ~hit \/ sig = 0 THEN rv.pend = <<>> /\ rv.state = "run"
  ELSE IF sig = KillNum(P) THEN rv.state = "sig:" \o ToString(sig)
  \* (a second STOP sent to a process that is already stopped may stay pending)
  ELSE IF sig = StopNum(P) THEN rv.state = "stop:" \o ToString(sig) /\ rv.pend \in {<<>>, <<sig>>}
  ELSE rv.pend = <<sig>> /\ rv.state = "run"
Untouched(o) == \A i \in 1..Len(o.recv) : o.recv[i].pend = <<>> /\ o.recv[i].state = "run"

ListConforms(P, e, o) ==
  First(<< <<o.st = 0, "status">>, <<~o.err, "stderr">>, <<Untouched(o), "signal-sent">>,
           <<IF e.ops = <<>> THEN ListAllOK(P, o.out, e.verb)
             ELSE Len(o.out) = Len(e.ops) /\ \A i \in 1..Len(e.ops) : LineOK(P, o.out[i], OperandPairs(P, e.ops[i]), e.verb),
             "stdout">> >>)
ErrConforms(o) ==
  First(<< <<o.st # 0, "status">>, <<o.err, "stderr">>, <<Untouched(o), "signal-sent">> >>)

KillConforms(P, c, o) ==
  LET e == KillCmd(P, c.po, c.w) IN
  IF e.k = "open" THEN "open"
  ELSE IF ~o.done THEN Rej("not-completed")
  ELSE IF e.k = "err" THEN ErrConforms(o)      \* (what an erroneous -l prints before failing is not judged)
  ELSE IF e.k = "list" THEN ListConforms(P, e, o)
  ELSE First(<< <<(o.st = 0) = e.st0, "status">>, <<o.err = ~e.st0, "stderr">>, <<o.out = <<>>, "stdout">>,
                <<e.rcvopen \/ \A i \in 1..Len(o.recv) : VictimOK(P, o.recv[i], e.sig, o.recv[i].v \in e.tg), "delivery">> >>)

SelfConforms(P, c, o) ==
  LET e == KillCmd(P, c.po, c.w) IN
  IF e.k = "open" THEN "open"
  ELSE IF ~o.done THEN Rej("not-completed")
  ELSE IF e.k = "err" THEN First(<< <<o.st # 0, "status">>, <<o.err, "stderr">>, <<o.out = <<>>, "trap-ran">> >>)
  ELSE IF e.k # "send" \/ e.rcvopen \/ ~e.st0 THEN "open"     \* a listing; another operand that is no process
  ELSE IF e.tg # {"ME"} THEN "bad-input"
  ELSE IF e.sig \in {KillNum(P), StopNum(P)} THEN "open"
  ELSE First(<< <<o.st = 0, "status">>, <<~o.err, "stderr">>,
                <<o.out = (IF e.sig = 0 THEN <<>> ELSE << <<"T" \o ToString(e.sig)>> >>), "trap-ran">> >>)

DieConforms(P, c, o) ==
  LET e == KillCmd(P, c.po, c.w) IN
  IF e.k = "open" THEN "open"
  ELSE IF ~o.done THEN Rej("not-completed")
  ELSE IF e.k = "err" THEN First(<< <<o.st # 0 /\ o.st < 128, "status">>, <<o.err, "stderr">> >>)
  ELSE IF e.k # "send" \/ e.rcvopen \/ ~e.st0 THEN "open"
  ELSE IF e.tg # {"ME"} THEN "bad-input"
  ELSE LET act == IF e.sig = 0 THEN "I" ELSE DefAct(P, e.sig) IN
       IF act \in {"I", "C"} THEN First(<< <<o.st = 0, "status">>, <<~o.err, "stderr">> >>)
       ELSE IF act \in {"T", "A"} THEN
         First(<< <<o.st = StatusOfSignal(e.sig), "status">>, <<o.st2 = 0, "status2">>,
                  <<Len(o.out2) = 1 /\ LineOK(P, o.out2[1], OperandPairs(P, ToString(StatusOfSignal(e.sig))), FALSE), "name-of-status">> >>)
       ELSE "open"

TrapConforms(P, c, o) ==
  LET e == TrapCmd(P, c.w) IN
  IF e.k = "open" THEN "open"
  ELSE IF ~o.done THEN Rej("not-completed")
  ELSE IF e.k = "err" THEN First(<< <<o.st # 0, "status">>, <<o.err, "stderr">> >>)
  ELSE IF c.w[1] = "-p" THEN
    First(<< <<o.st = 0, "status">>, <<~o.err, "stderr">>,
             <<Len(o.out) = Len(e.conds) /\ \A i \in 1..Len(e.conds) : TrapLineOK(o.out[i], e.conds[i]), "stdout">> >>)
  ELSE
    First(<< <<o.st = 0, "status">>, <<~o.err, "stderr">>, <<o.out = <<>>, "stdout">>, <<o.st2 = 0, "status2">>,
             <<Len(o.out2) = Len(e.conds) /\ \A i \in 1..Len(e.conds) : TrapLineOK(o.out2[i], e.conds[i]) /\ o.out2[i][3] = e.act, "read-back">> >>)

\* Name::from_str: system independent
FromStrNames(t) ==
  IF \E i \in 1..Len(KnownNames) : KnownNames[i] = t THEN [k |-> "ok", s |-> {t}]
  ELSE IF t \in {"RTMIN", "RTMAX"} THEN [k |-> "ok", s |-> {t}]
  ELSE IF (StartsWith(t, "RTMIN") \/ StartsWith(t, "RTMAX")) /\ IsSigned(Tl(t, 6)) THEN
    LET d == Tl(t, 7)
        natural == StartsWith(t, "RTMIN") = (Ch(t, 6) = "+")
    IN IF ~natural \/ LeadingZero(d) \/ Len(d) > 8 THEN [k |-> "open", s |-> {}]
       ELSE IF DecVal(d) = 0 THEN [k |-> "ok", s |-> {t, Hd(t, 5)}]
       ELSE [k |-> "ok", s |-> {t}]
  ELSE [k |-> "err", s |-> {}]

ApiConforms(P, c, o) ==
  LET op == c.op  t == c.t  n == c.n IN
  CASE op = "str2sig" ->
        (LET r == NameNum(P, t) IN
         IF r.k = "open" THEN "open" ELSE First(<< <<o.r = r.n, "number">> >>))
    [] op = "sig2str" ->
        First(<< <<IF n \in Numbers(P) THEN Len(o.s) = 1 /\ o.s[1] \in NameOf(P, n) ELSE o.s = <<>>, "name">> >>)
    [] op = "tosignum" -> First(<< <<o.r = (IF n \in Numbers(P) THEN n ELSE -1), "number">> >>)
    [] op = "validate" ->
        First(<< <<IF n \in Numbers(P) THEN o.r = n /\ Len(o.s) = 1 /\ o.s[1] \in NameOf(P, n) ELSE o.r = -1 /\ o.s = <<>>, "name-number">> >>)
    [] op = "fromstr" ->
        (LET r == FromStrNames(t) IN
         IF r.k = "open" THEN "open"
         ELSE First(<< <<IF r.k = "ok" THEN Len(o.s) = 1 /\ o.s[1] \in r.s ELSE o.s = <<>>, "name">> >>))
    [] op = "numfromname" ->
        (LET f == FromStrNames(t)  r == NameNum(P, t) IN
         IF f.k # "ok" THEN "bad-input" ELSE IF r.k = "open" THEN "open" ELSE First(<< <<o.r = r.n, "number">> >>))
    [] op \in {"parsesig0", "parsesig1"} ->
        (LET r == NumOrName(P, t, op = "parsesig1") IN
         IF r.k = "open" \/ IsSigned(t) \/ (IsDigits(t) /\ DecVal(t) = Huge) THEN "open" ELSE First(<< <<o.r = (IF r.k = "sig" THEN r.n ELSE -1000), "number">> >>))
    [] op \in {"tosignal0", "tosignal1"} ->
        (LET rd == IF op = "tosignal1" THEN StatusExact(P, n) ELSE StatusReadings(P, n) IN
         First(<< <<IF rd = {} THEN o.r = -1 /\ o.s = <<>> ELSE o.r \in rd /\ Len(o.s) = 1 /\ o.s[1] \in NameOf(P, o.r), "signal-of-status">>,
                  <<op = "tosignal1" \/ o.r = StatusFirst(P, n), "order-of-readings">> >>))
    [] op = "fromsignal" -> (IF n \notin Numbers(P) THEN "bad-input" ELSE First(<< <<o.r = StatusOfSignal(n), "status">> >>))
    [] op = "conditer" ->
        (IF ~(Len(o.out) >= 1 /\ \A i \in 1..Len(o.out) : Len(o.out[i]) = 2 /\ IsDigits(o.out[i][1])) THEN Rej("shape")
         ELSE First(<< <<o.out[1] = <<"0", "EXIT">>, "exit-first">>,
                 <<\A i \in 2..Len(o.out) : DecVal(o.out[i][1]) \in Numbers(P) /\ o.out[i][2] \in NameOf(P, DecVal(o.out[i][1])), "names">>,
                 <<\A i \in 1..(Len(o.out) - 1) : DecVal(o.out[i][1]) < DecVal(o.out[i + 1][1]), "ascending">>,
                 <<\A m \in Numbers(P) : \E i \in 1..Len(o.out) : DecVal(o.out[i][1]) = m, "complete">> >>))
    [] op = "named" ->
        (IF ~(Len(o.out) = Len(KnownNames) /\ \A i \in 1..Len(o.out) : Len(o.out[i]) = 2) THEN Rej("shape")
         ELSE First(<< <<\A i \in 1..Len(KnownNames) : o.out[i][1] = KnownNames[i], "order">>,
                 <<\A i \in 1..Len(o.out) : o.out[i][2] = (IF NumOfNamed(P, o.out[i][1]) = -1 THEN "-" ELSE ToString(NumOfNamed(P, o.out[i][1]))), "numbers">> >>))
    [] op = "itersigrt" ->
        First(<< <<Len(o.out) = Cardinality(RtNumbers(P)) /\ \A i \in 1..Len(o.out) : o.out[i] = <<ToString(P.rtmin + i - 1)>>, "range">> >>)
    [] op = "nameiter" -> First(<< <<o.s = KnownNames \o <<"RTMIN", "RTMAX">>, "order">> >>)
    [] op = "effect" ->
        (IF n \notin Numbers(P) THEN "bad-input" ELSE IF DefAct(P, n) = "?" THEN "open"
         ELSE First(<< <<Len(o.s) = 1 /\ o.s[1] \in EffectAllowed(P, n), "default-action">> >>))
    [] OTHER -> "bad-input"

Conforms(P, c, o) ==
  CASE c.fam \in {"send", "list"} -> KillConforms(P, c, o)
    [] c.fam = "self" -> SelfConforms(P, c, o)
    [] c.fam = "die" -> DieConforms(P, c, o)
    [] c.fam = "trap" -> TrapConforms(P, c, o)
    [] c.fam = "trapall" -> (IF ~o.done THEN Rej("not-completed")
                             ELSE First(<< <<o.st = 0, "status">>, <<~o.err, "stderr">>, <<TrapAllOK(P, o.out), "stdout">> >>))
    [] c.fam = "api" -> ApiConforms(P, c, o)
    [] OTHER -> "bad-input"

\* The shape of a kill command line in one word, for the keys of reports:
\*   "unsupported-signal-number"  well-formed, but the number is not one kill() of the system accepts
\*   "dash-name-after-l-or-v"     an obsolete-form argument -name whose name starts with the letter l or v
\*   ""                           anything else
KillShape(P, po, args) ==
  LET st == Scan(P, po, args, St0)
      ops == IF st.i > Len(args) THEN <<>> ELSE SubSeq(args, st.i, Len(args))
      sig == IF st.cnt = 0 THEN NumOfNamed(P, "TERM") ELSE st.sig
      lv(a) == LET x == Shape(a) IN
               Len(x) > 2 /\ Ch(x, 1) = "-" /\ Ch(x, 2) \in {"l", "v"} /\ ~IsDigits(Tl(x, 2)) /\ ParseDash(P, Tl(x, 2), po).k = "sig"
  IN IF \E i \in 1..(IF st.i - 1 > Len(args) THEN Len(args) ELSE st.i - 1) : lv(args[i]) THEN "dash-name-after-l-or-v"
     ELSE IF st.res = "go" /\ st.cnt <= 1 /\ ~st.list /\ ~st.verb /\ Len(ops) > 0 /\ sig \notin Kacc(P) THEN "unsupported-signal-number"
     ELSE ""
CaseShape(P, c) == IF c.fam \in {"send", "list", "self", "die"} THEN KillShape(P, c.po, c.w) ELSE ""

\* what the specification expects of a case, in one word (for the tallies)
ExpectKind(P, c) ==
  CASE c.fam \in {"send", "list", "self", "die"} -> KillCmd(P, c.po, c.w).k
    [] c.fam = "trap" -> TrapCmd(P, c.w).k
    [] OTHER -> "ok"

=============================================================================
