SPECIFICATION TraceSpec
CONSTANTS
  MaxTasks = 12
  NChan = 4
  Budget = 12
  MaxOver = 2
  YieldFree = FALSE
INVARIANT AbsInv
PROPERTY TForward
POSTCONDITION Accepted
CHECK_DEADLOCK FALSE
