INIT Init
NEXT Next
VIEW view
CONSTANTS
  PNorm <- AlphaWild
  PLit <- LitCore
  PMacro <- NoChars
  PLen = 2
  SAlpha <- StrFull
  SLen = 2
  Kind = "shell"
INVARIANT Emit
