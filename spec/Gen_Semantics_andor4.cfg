SPECIFICATION Spec
CONSTANTS
  Fuel = 24
  TickLimit = 2
  K = 8
  Alphabet <- AlphaAndOr4
  ItemAlphabet <- NoItems
  Mode = "c02"
INVARIANT Emit
CHECK_DEADLOCK FALSE
